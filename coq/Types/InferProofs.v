(* C19 -- soundness of the type inference model (lemmas; obligations are in Properties/C19). *)
From Coq Require Import List Arith Bool Lia.
Import ListNotations.
Require Import MV.Types.Infer.

Scheme expr_mut := Induction for expr Sort Prop
  with exprs_mut := Induction for exprs Sort Prop.
Combined Scheme expr_exprs_ind from expr_mut, exprs_mut.

Definition covers (v : val) (ot : option tyset) : Prop := forall s, ot = Some s -> In (type_of v) s.

(* Prop versions of the solution conditions *)
Definition sub (a b : tymap) : Prop :=
  forall x s, lookup a x = Some s -> exists s', lookup b x = Some s' /\ incl s s'.

Lemma lookup_app a b x :
  lookup (a ++ b) x = match lookup a x with Some s => Some s | None => lookup b x end.
Proof.
  induction a as [|[y s] a IH]; simpl; auto. destruct (Nat.eqb x y); auto.
Qed.

Lemma upd_all_rev news m : upd_all news m = rev news ++ m.
Proof.
  unfold upd_all. revert m. induction news as [|[x s] r IH]; intros m; simpl; auto.
  rewrite IH. unfold upd. simpl. rewrite <- app_assoc. reflexivity.
Qed.

Lemma upd_all_app a b m : upd_all (a ++ b) m = upd_all b (upd_all a m).
Proof. unfold upd_all. apply fold_left_app. Qed.

Lemma upd_all_flat_map {A} (f : A -> list (name * tyset)) l m :
  upd_all (flat_map f l) m = fold_left (fun acc a => upd_all (f a) acc) l m.
Proof.
  revert m. induction l as [|a l IH]; intros m; simpl; auto.
  rewrite upd_all_app. apply IH.
Qed.

Section Sound.
  Variable is_local : name -> bool.
  Variable ctx : name -> option tyset.
  Variable res_value : val -> option tyset.
  Variable res_name : name -> option tyset.
  Variable res_arg : name -> option tyset.
  Variable res_call : nat -> name -> option tyset -> list (option tyset) -> option tyset.
  Variable res_binop : nat -> tyset -> tyset -> option tyset.
  Variable res_compare : nat -> tyset -> tyset -> option tyset.
  Variable res_unop : nat -> tyset -> option tyset.
  Variable res_slice : nat -> tyset -> tyset -> option tyset.
  Variable res_unpack : nat -> tyset -> option tyset -> option tyset.
  Variable res_list : list (option tyset) -> option tyset.
  Variable genv : name -> option val.
  Variable sem_call : val -> list val -> option val.
  Variable sem_bin sem_cmp sem_sub : nat -> val -> val -> option val.
  Variable sem_un : nat -> val -> option val.
  Variable sem_list : list val -> val.
  Variable sem_other : list val -> option val.
  Variable sem_unpack : val -> nat -> option (list val).
  Variable zero : val.

  (* the resolver answers truthfully (it may always answer None = unknown) *)
  Definition truthful : Prop :=
    (forall v s, res_value v = Some s -> In (type_of v) s) /\
    (forall x v s, genv x = Some v -> res_name x = Some s -> In (type_of v) s) /\
    (forall x v s, genv x = Some v -> ctx x = Some s -> In (type_of v) s) /\
    (forall k f ft vf vs ots v s, sem_call vf vs = Some v -> covers vf ft -> Forall2 covers vs ots ->
        res_call k f ft ots = Some s -> In (type_of v) s) /\
    (forall op x y v l r s, sem_bin op x y = Some v -> In (type_of x) l -> In (type_of y) r ->
        res_binop op l r = Some s -> In (type_of v) s) /\
    (forall op x y v l r s, sem_cmp op x y = Some v -> In (type_of x) l -> In (type_of y) r ->
        res_compare op l r = Some s -> In (type_of v) s) /\
    (forall op x v l s, sem_un op x = Some v -> In (type_of x) l -> res_unop op l = Some s -> In (type_of v) s) /\
    (forall k x y v l r s, sem_sub k x y = Some v -> In (type_of x) l -> In (type_of y) r ->
        res_slice k l r = Some s -> In (type_of v) s) /\
    (forall ots vs s, res_list ots = Some s -> In (type_of (sem_list vs)) s) /\
    (forall v n vs i vi s it s', sem_unpack v n = Some vs -> In (type_of v) s -> nth_error vs i = Some vi ->
        res_unpack i s it = Some s' -> In (type_of vi) s').

  Hypothesis T : truthful.

  (* the guard of the known finding: names all of whose bindings the inferrer types *)
  Variable clean : name -> bool.

  Notation infer := (infer is_local ctx res_value res_name res_call res_binop res_compare res_unop res_slice res_list).
  Notation infer_all := (infer_all is_local ctx res_value res_name res_call res_binop res_compare res_unop res_slice res_list).
  Notation infer_each := (infer_each is_local ctx res_value res_name res_call res_binop res_compare res_unop res_slice res_list).
  Notation name_types := (name_types is_local ctx res_name).
  Notation eval := (eval is_local genv sem_call sem_bin sem_cmp sem_sub sem_un sem_list sem_other).
  Notation eval_all := (eval_all is_local genv sem_call sem_bin sem_cmp sem_sub sem_un sem_list sem_other).
  Notation value_of := (value_of is_local genv).
  Notation new_symbols := (new_symbols is_local ctx res_value res_name res_arg res_call res_binop res_compare res_unop res_slice res_unpack res_list zero).
  Notation transfer := (transfer is_local ctx res_value res_name res_arg res_call res_binop res_compare res_unop res_slice res_unpack res_list zero).
  Notation unpack_syms := (unpack_syms res_value res_unpack zero).
  Notation target_syms := (target_syms res_value res_unpack zero).
  Notation step := (step is_local res_arg genv sem_call sem_bin sem_cmp sem_sub sem_un sem_list sem_other sem_unpack).
  Notation assign := (assign sem_unpack).
  Notation assign_all := (assign_all sem_unpack).

  (* every clean variable that holds a value is reported with a set that contains the value's tag *)
  Definition Inv (tm : tymap) (r : env) : Prop :=
    forall x v, clean x = true -> r x = Some v -> exists s, lookup tm x = Some s /\ In (type_of v) s.
  Definition NoNL (tm : tymap) : Prop := forall x s, lookup tm x = Some s -> is_local x = true.
  Definition reads_ok (l : list name) : Prop := forall x, In x l -> is_local x = true -> clean x = true.

  Lemma inv_sub a b r : Inv a r -> sub a b -> Inv b r.
  Proof.
    intros I S x v Hc Hr. destruct (I x v Hc Hr) as [s [L Hin]].
    destruct (S x s L) as [s' [L' Hi]]. exists s'. split; auto.
  Qed.

  Lemma name_sound tm r x v s :
    Inv tm r -> NoNL tm -> (is_local x = true -> clean x = true) ->
    value_of r x = Some v -> name_types tm x = Some s -> In (type_of v) s.
  Proof.
    destruct T as [_ [Hn [Hc _]]].
    intros I N Hx Hv Ht. unfold Infer.name_types in Ht. unfold Infer.value_of in Hv.
    destruct (lookup tm x) as [s0|] eqn:L.
    - inversion Ht; subst. pose proof (N x s L) as Hl. rewrite Hl in Hv.
      destruct (I x v (Hx Hl) Hv) as [s' [L' Hin]]. congruence.
    - destruct (is_local x); [discriminate|].
      destruct (ctx x) as [s1|] eqn:C.
      + inversion Ht; subst. eapply Hc; eauto.
      + eapply Hn; eauto.
  Qed.

  Lemma product_sound vs ss :
    Forall2 (fun v s => In (type_of v) s) vs ss -> In (map type_of vs) (product ss).
  Proof.
    induction 1; simpl; auto.
    apply in_flat_map. exists (type_of x). split; auto. apply in_map. assumption.
  Qed.

  (* one-step unfolding of the mutual fixpoints (simpl cannot refold them under the section variables) *)
  Lemma eval_eq r e : eval r e =
    match e with
    | EConst v => Some v
    | EName x => value_of r x
    | ETuple es => match eval_all r es with Some vs => Some (VTup vs) | None => None end
    | EList es => match eval_all r es with Some vs => Some (sem_list vs) | None => None end
    | EBin op a b => match eval r a, eval r b with Some x, Some y => sem_bin op x y | _, _ => None end
    | ECmp op a b => match eval r a, eval r b with Some x, Some y => sem_cmp op x y | _, _ => None end
    | EUn op a => match eval r a with Some x => sem_un op x | None => None end
    | ESub k a b => match eval r a, eval r b with Some x, Some y => sem_sub k x y | _, _ => None end
    | ECall k f args => match value_of r f, eval_all r args with
                        | Some vf, Some vs => sem_call vf vs
                        | _, _ => None
                        end
    | EOther es => match eval_all r es with Some vs => sem_other vs | None => None end
    end.
  Proof. destruct e; reflexivity. Qed.

  Lemma eval_all_eq r es : eval_all r es =
    match es with
    | Enil => Some []
    | Econs e rest => match eval r e, eval_all r rest with
                      | Some v, Some vs => Some (v :: vs)
                      | _, _ => None
                      end
    end.
  Proof. destruct es; reflexivity. Qed.

  Lemma infer_eq tm e : infer tm e =
    match e with
    | EConst v => res_value v
    | EName x => name_types tm x
    | ETuple es => match infer_all tm es with
                   | Some ss => Some (map TTup (product ss))
                   | None => None
                   end
    | EList es => res_list (infer_each tm es)
    | EBin op a b => match infer tm a, infer tm b with
                     | Some l, Some r => res_binop op l r
                     | _, _ => None
                     end
    | ECmp op a b => match infer tm a, infer tm b with
                     | Some l, Some r => res_compare op l r
                     | _, _ => None
                     end
    | EUn op a => match infer tm a with Some l => res_unop op l | None => None end
    | ESub k a b => match infer tm a, infer tm b with
                    | Some l, Some r => res_slice k l r
                    | _, _ => None
                    end
    | ECall k f args => res_call k f (name_types tm f) (infer_each tm args)
    | EOther es => None
    end.
  Proof. destruct e; reflexivity. Qed.

  Lemma infer_all_eq tm es : infer_all tm es =
    match es with
    | Enil => Some []
    | Econs e r => match infer tm e, infer_all tm r with
                   | Some s, Some ss => Some (s :: ss)
                   | _, _ => None
                   end
    end.
  Proof. destruct es; reflexivity. Qed.

  Lemma infer_each_eq tm es : infer_each tm es =
    match es with
    | Enil => []
    | Econs e r => infer tm e :: infer_each tm r
    end.
  Proof. destruct es; reflexivity. Qed.

  Lemma infer_sound_mut tm r :
    Inv tm r -> NoNL tm ->
    (forall e, reads_ok (reads e) -> forall v s, eval r e = Some v -> infer tm e = Some s -> In (type_of v) s) /\
    (forall es, reads_ok (reads_all es) -> forall vs, eval_all r es = Some vs ->
       (forall ss, infer_all tm es = Some ss -> Forall2 (fun v s => In (type_of v) s) vs ss) /\
       Forall2 covers vs (infer_each tm es)).
  Proof.
    intros I N.
    destruct T as [Hval [Hn [Hc [Hcall [Hbin [Hcmp [Hun [Hsub [Hlist Hunp]]]]]]]]].
    apply expr_exprs_ind; simpl.
    - intros v _ v' s E R. rewrite eval_eq in E. rewrite infer_eq in R. inversion E; subst. eauto.
    - intros x Ro v s E R. rewrite eval_eq in E. rewrite infer_eq in R. eapply name_sound; eauto. intros; apply Ro; simpl; auto.
    - intros es IH Ro v s E R. rewrite eval_eq in E. rewrite infer_eq in R.
      destruct (eval_all r es) as [vs|] eqn:EA; [|discriminate]. inversion E; subst.
      destruct (infer_all tm es) as [ss|] eqn:IA; [|discriminate]. inversion R; subst.
      destruct (IH Ro vs eq_refl) as [H1 _]. simpl. apply in_map. apply product_sound. auto.
    - intros es IH Ro v s E R. rewrite eval_eq in E. rewrite infer_eq in R.
      destruct (eval_all r es) as [vs|] eqn:EA; [|discriminate]. inversion E; subst. eauto.
    - intros op a IHa b IHb Ro v s E R. rewrite eval_eq in E. rewrite infer_eq in R.
      destruct (eval r a) as [x|] eqn:Ea; [|discriminate]. destruct (eval r b) as [y|] eqn:Eb; [|discriminate].
      destruct (infer tm a) as [l|] eqn:Ia; [|discriminate]. destruct (infer tm b) as [rr|] eqn:Ib; [|discriminate].
      eapply Hbin; eauto.
      + eapply IHa; eauto. intros z Hz; apply Ro; apply in_or_app; auto.
      + eapply IHb; eauto. intros z Hz; apply Ro; apply in_or_app; auto.
    - intros op a IHa b IHb Ro v s E R. rewrite eval_eq in E. rewrite infer_eq in R.
      destruct (eval r a) as [x|] eqn:Ea; [|discriminate]. destruct (eval r b) as [y|] eqn:Eb; [|discriminate].
      destruct (infer tm a) as [l|] eqn:Ia; [|discriminate]. destruct (infer tm b) as [rr|] eqn:Ib; [|discriminate].
      eapply Hcmp; eauto.
      + eapply IHa; eauto. intros z Hz; apply Ro; apply in_or_app; auto.
      + eapply IHb; eauto. intros z Hz; apply Ro; apply in_or_app; auto.
    - intros op a IHa Ro v s E R. rewrite eval_eq in E. rewrite infer_eq in R.
      destruct (eval r a) as [x|] eqn:Ea; [|discriminate].
      destruct (infer tm a) as [l|] eqn:Ia; [|discriminate].
      eapply Hun; eauto.
    - intros k a IHa b IHb Ro v s E R. rewrite eval_eq in E. rewrite infer_eq in R.
      destruct (eval r a) as [x|] eqn:Ea; [|discriminate]. destruct (eval r b) as [y|] eqn:Eb; [|discriminate].
      destruct (infer tm a) as [l|] eqn:Ia; [|discriminate]. destruct (infer tm b) as [rr|] eqn:Ib; [|discriminate].
      eapply Hsub; eauto.
      + eapply IHa; eauto. intros z Hz; apply Ro; apply in_or_app; auto.
      + eapply IHb; eauto. intros z Hz; apply Ro; apply in_or_app; auto.
    - intros k f args IH Ro v s E R. rewrite eval_eq in E. rewrite infer_eq in R.
      destruct (value_of r f) as [vf|] eqn:Ef; [|discriminate].
      destruct (eval_all r args) as [vs|] eqn:EA; [|discriminate].
      assert (Ro' : reads_ok (reads_all args)) by (intros z Hz; apply Ro; simpl; auto).
      destruct (IH Ro' vs eq_refl) as [_ H2].
      eapply Hcall; eauto.
      intros sf Hsf. eapply name_sound; eauto. intros; apply Ro; simpl; auto.
    - intros es _ _ v s _ R. rewrite infer_eq in R. discriminate.
    - intros _ vs E. rewrite eval_all_eq in E. inversion E; subst. rewrite infer_each_eq.
      split; [intros ss H; rewrite infer_all_eq in H; inversion H; subst|]; constructor.
    - intros e IHe es IHes Ro vs E. rewrite eval_all_eq in E. rewrite infer_each_eq.
      destruct (eval r e) as [v|] eqn:Ee; [|discriminate].
      destruct (eval_all r es) as [vs'|] eqn:EA; [|discriminate]. inversion E; subst.
      assert (Ro1 : reads_ok (reads e)) by (intros z Hz; apply Ro; apply in_or_app; auto).
      assert (Ro2 : reads_ok (reads_all es)) by (intros z Hz; apply Ro; apply in_or_app; auto).
      destruct (IHes Ro2 vs' eq_refl) as [H1 H2]. split.
      + intros ss H. rewrite infer_all_eq in H. destruct (infer tm e) as [s|] eqn:Ie; [|discriminate].
        destruct (infer_all tm es) as [ss'|] eqn:IA; [|discriminate]. inversion H; subst.
        constructor; eauto.
      + constructor; auto. intros s Hs. eapply IHe; eauto.
  Qed.

  Lemma infer_sound tm r e v s :
    Inv tm r -> NoNL tm -> reads_ok (reads e) -> eval r e = Some v -> infer tm e = Some s -> In (type_of v) s.
  Proof. intros I N Ro. destruct (infer_sound_mut tm r I N) as [H _]. apply H; auto. Qed.

  (* ---- one binding ---- *)
  Lemma inv_set tm r x v s :
    Inv tm r -> (clean x = true -> In (type_of v) s) -> Inv (upd tm x s) (set_env r x v).
  Proof.
    intros I H y w Hc Hr. unfold set_env in Hr. unfold upd. simpl.
    destruct (Nat.eqb y x) eqn:E.
    - apply Nat.eqb_eq in E; subst. inversion Hr; subst. exists s. split; auto.
    - apply I; auto.
  Qed.

  Lemma inv_set_skip tm r x v : Inv tm r -> clean x = false -> Inv tm (set_env r x v).
  Proof.
    intros I H y w Hc Hr. unfold set_env in Hr. destruct (Nat.eqb y x) eqn:E.
    - apply Nat.eqb_eq in E; subst. congruence.
    - apply I; auto.
  Qed.

  (* guards, decidable; evaluated by the checker on the implementation's solution *)
  Definition is_some {A} (o : option A) : bool := match o with Some _ => true | None => false end.

  Fixpoint unpack_ok (i : nat) (xs : list name) (s : tyset) : bool :=
    match xs with
    | [] => true
    | x :: r => (negb (clean x) || is_some (res_unpack i s (res_value zero))) && unpack_ok (S i) r s
    end.
  Definition target_ok (s : tyset) (t : target) : bool :=
    match t with TgName _ => true | TgTuple xs => unpack_ok 0 xs s end.

  Definition reads_okb (l : list name) : bool := forallb (fun x => negb (is_local x) || clean x) l.

  Definition node_ok (nd : node) (tm : tymap) : bool :=
    match nd with
    | NArgs ps => forallb (fun p => negb (clean p) || is_some (res_arg p)) ps
    | NAssign ts e =>
        if existsb clean (flat_map target_names ts)
        then reads_okb (reads e) &&
             match infer tm e with Some s => forallb (target_ok s) ts | None => false end
        else true
    | NExpr _ => true
    | NHavoc xs _ => negb (existsb clean xs)
    end.

  Lemma reads_okb_ok l : reads_okb l = true -> reads_ok l.
  Proof.
    unfold reads_okb, reads_ok. rewrite forallb_forall. intros H x Hx Hl.
    specialize (H x Hx). rewrite Hl in H. simpl in H. exact H.
  Qed.

  Lemma unpack_inv v n vs s :
    sem_unpack v n = Some vs -> In (type_of v) s ->
    forall xs i vs' tm r r',
      (forall j vj, nth_error vs' j = Some vj -> nth_error vs (i + j) = Some vj) ->
      Inv tm r -> bind_all r xs vs' = Some r' -> unpack_ok i xs s = true ->
      Inv (upd_all (unpack_syms i xs s) tm) r'.
  Proof.
    destruct T as [_ [_ [_ [_ [_ [_ [_ [_ [_ Hunp]]]]]]]]].
    intros Su Hin. induction xs as [|x xs IH]; intros i vs' tm r r' Hn I B G.
    - destruct vs'; simpl in B; [|discriminate]. inversion B; subst. exact I.
    - destruct vs' as [|w ws]; simpl in B; [discriminate|].
      simpl in G. apply andb_prop in G. destruct G as [G1 G2]. simpl.
      pose proof (Hn 0 w eq_refl) as Hw. rewrite Nat.add_0_r in Hw.
      assert (Hn' : forall j vj, nth_error ws j = Some vj -> nth_error vs (S i + j) = Some vj).
      { intros j vj Hj. replace (S i + j) with (i + S j) by lia. apply Hn. exact Hj. }
      destruct (res_unpack i s (res_value zero)) as [s'|] eqn:R.
      + change ((x, s') :: unpack_syms (S i) xs s) with ([(x, s')] ++ unpack_syms (S i) xs s).
        rewrite upd_all_app. apply (IH (S i) ws (upd_all [(x, s')] tm) (set_env r x w) r'); auto.
        unfold upd_all. simpl. apply inv_set; auto. intros _. eapply Hunp; eauto.
      + simpl in G1. rewrite orb_false_r in G1. apply negb_true_iff in G1.
        apply (IH (S i) ws tm (set_env r x w) r'); auto. apply inv_set_skip; auto.
  Qed.

  Lemma target_inv tm r t v s r' :
    Inv tm r -> In (type_of v) s -> assign r t v = Some r' -> target_ok s t = true ->
    Inv (upd_all (target_syms s t) tm) r'.
  Proof.
    intros I Hin A G. destruct t as [x|xs]; simpl in *.
    - inversion A; subst. unfold upd_all. simpl. apply inv_set; auto.
    - destruct (sem_unpack v (length xs)) as [vs|] eqn:Su; [|discriminate].
      eapply unpack_inv with (vs' := vs); eauto.
  Qed.

  Lemma targets_inv v s : In (type_of v) s ->
    forall ts tm r r', Inv tm r -> assign_all r ts v = Some r' -> forallb (target_ok s) ts = true ->
    Inv (fold_left (fun acc t => upd_all (target_syms s t) acc) ts tm) r'.
  Proof.
    intros Hin. induction ts as [|t ts IH]; intros tm r r' I A G; simpl in *.
    - inversion A; subst. exact I.
    - destruct (assign r t v) as [r1|] eqn:A1; [|discriminate].
      apply andb_prop in G. destruct G as [G1 G2].
      eapply IH; eauto. eapply target_inv; eauto.
  Qed.

  (* names that are not clean may be bound to anything: Inv does not mention them *)
  Lemma inv_unclean_targets v : forall ts tm r r',
    Inv tm r -> assign_all r ts v = Some r' -> existsb clean (flat_map target_names ts) = false ->
    forall news, (forall x s, In (x, s) news -> clean x = false) -> Inv (upd_all news tm) r'.
  Proof.
    intros ts tm r r' I A G news Hnews.
    assert (Hsame : forall y, clean y = true -> r' y = r y).
    { clear Hnews news I. revert r r' A G. induction ts as [|t ts IH]; intros r r' A G y Hy; simpl in *.
      - inversion A; subst; auto.
      - destruct (assign r t v) as [r1|] eqn:A1; [|discriminate].
        rewrite existsb_app in G. apply orb_false_iff in G. destruct G as [G1 G2].
        rewrite (IH r1 r' A G2 y Hy).
        destruct t as [x|xs]; simpl in *.
        + inversion A1; subst. unfold set_env. destruct (Nat.eqb y x) eqn:E; auto.
          apply Nat.eqb_eq in E; subst. rewrite orb_false_r in G1. congruence.
        + destruct (sem_unpack v (length xs)) as [vs|]; [|discriminate].
          clear - A1 G1 Hy. revert vs r r1 A1 G1. induction xs as [|x xs IHx]; intros vs r r1 A1 G1.
          * destruct vs; simpl in A1; [|discriminate]. inversion A1; auto.
          * destruct vs as [|w ws]; simpl in A1; [discriminate|]. simpl in G1.
            apply orb_false_iff in G1. destruct G1 as [Gx Gr].
            rewrite (IHx ws _ _ A1 Gr). unfold set_env. destruct (Nat.eqb y x) eqn:E; auto.
            apply Nat.eqb_eq in E; subst. congruence. }
    intros y w Hc Hr. rewrite Hsame in Hr by auto. destruct (I y w Hc Hr) as [s [L Hin]].
    exists s. split; auto. rewrite upd_all_rev, lookup_app.
    destruct (lookup (rev news) y) as [s0|] eqn:L0; auto.
    exfalso. assert (In (y, s0) (rev news)).
    { clear - L0. induction (rev news) as [|[z t] l IH]; simpl in L0; [discriminate|].
      destruct (Nat.eqb y z) eqn:E. - apply Nat.eqb_eq in E; subst. inversion L0; subst. left; auto.
      - right; auto. }
    apply in_rev in H. rewrite (Hnews _ _ H) in Hc. discriminate.
  Qed.

  Lemma target_syms_names s t x s' : In (x, s') (target_syms s t) -> In x (target_names t).
  Proof.
    destruct t as [y|xs]; simpl.
    - intros [H|[]]. inversion H; subst; auto.
    - generalize 0. induction xs as [|y xs IH]; intros i H; simpl in *; [contradiction|].
      destruct (res_unpack i s (res_value zero)).
      + destruct H as [H|H]; [inversion H; subst; auto|]. right. eapply IH; eauto.
      + right. eapply IH; eauto.
  Qed.

  Lemma args_inv : forall ps vs tm r r',
    Inv tm r -> bind_all r ps vs = Some r' ->
    Forall2 (fun p v => forall s, res_arg p = Some s -> In (type_of v) s) ps vs ->
    forallb (fun p => negb (clean p) || is_some (res_arg p)) ps = true ->
    Inv (upd_all (flat_map (fun p => match res_arg p with Some s => [(p, s)] | None => [] end) ps) tm) r'.
  Proof.
    induction ps as [|p ps IH]; intros vs tm r r' I B F G.
    - destruct vs; simpl in B; [|discriminate]. inversion B; subst. exact I.
    - destruct vs as [|v vs]; simpl in B; [discriminate|]. inversion F; subst.
      simpl in G. apply andb_prop in G. destruct G as [G1 G2]. simpl.
      rewrite upd_all_app. eapply IH; eauto.
      destruct (res_arg p) as [s|] eqn:R.
      + unfold upd_all. simpl. apply inv_set; auto.
      + simpl in G1. rewrite orb_false_r in G1. apply negb_true_iff in G1.
        unfold upd_all. simpl. apply inv_set_skip; auto.
  Qed.

  Lemma node_inv nd tm r r' :
    Inv tm r -> NoNL tm -> node_ok nd tm = true -> step nd r r' -> Inv (transfer nd tm) r'.
  Proof.
    intros I N G St. unfold Infer.transfer. inversion St; subst; simpl in *.
    - eapply args_inv; eauto.
    - destruct (existsb clean (flat_map target_names ts)) eqn:Ex.
      + apply andb_prop in G. destruct G as [G1 G2].
        destruct (infer tm e) as [s|] eqn:Ie; [|discriminate].
        rewrite upd_all_flat_map. eapply targets_inv; eauto.
        eapply infer_sound; eauto. apply reads_okb_ok; auto.
      + eapply inv_unclean_targets; eauto.
        intros x s Hin. destruct (infer tm e) as [s0|]; [|contradiction].
        apply in_flat_map in Hin. destruct Hin as [t [Ht Hx]].
        apply target_syms_names in Hx.
        destruct (clean x) eqn:C; auto.
        assert (existsb clean (flat_map target_names ts) = true).
        { apply existsb_exists. exists x. split; auto. apply in_flat_map. exists t; auto. }
        congruence.
    - exact I.
    - intros y w Hc Hr. apply negb_true_iff in G.
      assert (~ In y xs).
      { intro Hin. assert (existsb clean xs = true) by (apply existsb_exists; exists y; auto). congruence. }
      rewrite H in Hr by auto. apply I; auto.
  Qed.

  (* ---- executions along CFG edges ---- *)
  Variable g : graph.
  Variable sol : solution.

  Inductive reach : nat -> env -> Prop :=
  | r_entry : reach (g_entry g) (fun _ => None)
  | r_step n nd r r' m :
      reach n r -> assoc (g_nodes g) n = Some nd -> step nd r r' -> In m (succs g n) -> reach m r'.

  Hypothesis S_edge : forall n m, In m (succs g n) -> sub (sol_out sol n) (sol_in sol m).
  Hypothesis S_tr : forall n nd, assoc (g_nodes g) n = Some nd -> sub (transfer nd (sol_in sol n)) (sol_out sol n).
  Hypothesis S_ok : forall n nd, assoc (g_nodes g) n = Some nd -> node_ok nd (sol_in sol n) = true.
  Hypothesis S_nl : forall n, NoNL (sol_in sol n).

  Lemma reach_inv n r : reach n r -> Inv (sol_in sol n) r.
  Proof.
    induction 1.
    - intros x v _ H. discriminate.
    - eapply inv_sub; [|apply S_edge; eauto].
      eapply inv_sub; [|apply S_tr; eauto].
      eapply node_inv; eauto.
  Qed.

  Lemma name_report_sound n r x v s :
    reach n r -> clean x = true -> r x = Some v -> lookup (sol_in sol n) x = Some s -> In (type_of v) s.
  Proof.
    intros R C V L. destruct (reach_inv n r R x v C V) as [s' [L' Hin]]. congruence.
  Qed.

  Lemma expr_report_sound n r e v s :
    reach n r -> reads_ok (reads e) -> eval r e = Some v -> infer (sol_in sol n) e = Some s -> In (type_of v) s.
  Proof. intros R Ro E I. eapply infer_sound; eauto. apply reach_inv; auto. Qed.

  Lemma out_report_sound n nd r r' x v s :
    reach n r -> assoc (g_nodes g) n = Some nd -> step nd r r' ->
    clean x = true -> r' x = Some v -> lookup (sol_out sol n) x = Some s -> In (type_of v) s.
  Proof.
    intros R A St C V L.
    assert (I : Inv (sol_out sol n) r').
    { eapply inv_sub; [|apply S_tr; eauto]. eapply node_inv; eauto. apply reach_inv; auto. }
    destruct (I x v C V) as [s' [L' Hin]]. congruence.
  Qed.
End Sound.
