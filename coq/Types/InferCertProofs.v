(* C19 -- the boolean certificate implies the hypotheses of the soundness theorem. *)
From Coq Require Import List Arith Bool Lia.
Import ListNotations.
Require Import MV.Types.Infer MV.Types.InferProofs MV.Types.InferCheck.

Fixpoint ty_ind' (P : ty -> Prop) (Hb : forall n, P (TBase n))
    (Ht : forall l, Forall P l -> P (TTup l)) (t : ty) : P t :=
  match t with
  | TBase n => Hb n
  | TTup l => Ht l ((fix go (l : list ty) : Forall P l :=
                       match l with
                       | [] => Forall_nil P
                       | x :: r => Forall_cons x (ty_ind' P Hb Ht x) (go r)
                       end) l)
  end.

Lemma ty_eqb_eq : forall a b, ty_eqb a b = true -> a = b.
Proof.
  induction a as [n|l IH] using ty_ind'; intros [m|r] H; simpl in H; try discriminate.
  - apply Nat.eqb_eq in H. congruence.
  - f_equal. revert r H. induction IH as [|x l Hx Hl IHl]; intros [|y r] H; try discriminate; auto.
    apply andb_prop in H. destruct H as [H1 H2]. f_equal; auto.
Qed.

Lemma inclb_incl a b : inclb a b = true -> incl a b.
Proof.
  unfold inclb. rewrite forallb_forall. intros H t Ht. specialize (H t Ht).
  unfold mem_ty in H. apply existsb_exists in H. destruct H as [u [Hu E]].
  apply ty_eqb_eq in E. subst. exact Hu.
Qed.

Lemma lookup_keys m x s : lookup m x = Some s -> In x (keys m).
Proof.
  induction m as [|[y t] m IH]; simpl; [discriminate|].
  destruct (Nat.eqb x y) eqn:E; intros H.
  - apply Nat.eqb_eq in E. auto.
  - right. apply IH. exact H.
Qed.

Lemma subb_sub a b : subb a b = true -> sub a b.
Proof.
  unfold subb, sub. rewrite forallb_forall. intros H x s L.
  specialize (H x (lookup_keys _ _ _ L)). rewrite L in H.
  destruct (lookup b x) as [s'|]; [|discriminate]. exists s'. split; auto. apply inclb_incl. exact H.
Qed.

Lemma assoc_in {A} (l : list (nat * A)) k a : assoc l k = Some a -> In k (map fst l).
Proof.
  induction l as [|[k' a'] l IH]; simpl; [discriminate|].
  destruct (Nat.eqb k k') eqn:E; intros H.
  - apply Nat.eqb_eq in E. auto.
  - right. auto.
Qed.

Section Cert.
  Variable T : tables.
  Variable cleans : list name.
  Variable g : graph.
  Variable sol : solution.
  Let clean := fun x => existsb (Nat.eqb x) cleans.

  Hypothesis OK : sol_ok T cleans g sol = true.

  Lemma cert_parts :
    (forall n m, In m (succs g n) -> sub (sol_out sol n) (sol_in sol m)) /\
    (forall n nd, assoc (g_nodes g) n = Some nd -> sub (tb_transfer T nd (sol_in sol n)) (sol_out sol n)) /\
    (forall n nd, assoc (g_nodes g) n = Some nd -> tb_node_ok T clean nd (sol_in sol n) = true) /\
    (forall n, NoNL (tb_is_local T) (sol_in sol n)).
  Proof.
    unfold sol_ok in OK. fold clean in OK.
    apply andb_prop in OK. destruct OK as [OK1 Hnl]. apply andb_prop in OK1. destruct OK1 as [OK2 Hedge].
    apply andb_prop in OK2. destruct OK2 as [_ Hnode].
    rewrite forallb_forall in Hnl, Hedge, Hnode.
    split; [|split; [|split]].
    - intros n m Hm. unfold succs in Hm. destruct (assoc (g_succ g) n) as [l|] eqn:A; [|contradiction].
      specialize (Hedge n (assoc_in _ _ _ A)). rewrite forallb_forall in Hedge.
      apply subb_sub. apply Hedge. unfold succs. rewrite A. exact Hm.
    - intros n nd A. specialize (Hnode n (assoc_in _ _ _ A)). rewrite A in Hnode.
      apply andb_prop in Hnode. apply subb_sub. apply Hnode.
    - intros n nd A. specialize (Hnode n (assoc_in _ _ _ A)). rewrite A in Hnode.
      apply andb_prop in Hnode. apply Hnode.
    - intros n x s L. unfold sol_in in L. destruct (assoc sol n) as [p|] eqn:A; [|discriminate].
      specialize (Hnl n (assoc_in _ _ _ A)). rewrite forallb_forall in Hnl.
      apply Hnl. unfold sol_in. rewrite A. eapply lookup_keys; eauto.
  Qed.
End Cert.
