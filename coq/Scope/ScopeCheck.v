(* C08: checkers evaluated by vm_compute on harness-written cases.
   scope case  : a function tree and the scopes activity.resolve recorded on the real tree
                 (pre-order, as Activity.records lists them)
   binder case : a function tree and, for every def / lambda in pre-order, what
                 symtable.symtable(source) says: parameters, locals, declared globals, nonlocals *)
From Coq Require Import List Arith Bool.
Import ListNotations.
Require Import MV.Scope.Ast MV.Scope.Activity MV.Scope.Binders.

Definition subq (a b : list qn) : bool := forallb (fun q => memq q b) a.
Definition seteq (a b : list qn) : bool := subq a b && subq b a.
Definition scope_eq (a b : scope) : bool :=
  seteq (rd a) (rd b) && seteq (md a) (md b) && seteq (bd a) (bd b) && seteq (dl a) (dl b)
  && seteq (gl a) (gl b) && seteq (nl a) (nl b) && seteq (pr a) (pr b) && seteq (iso a) (iso b).

Fixpoint records_eq (a b : list (nat * scope)) : bool :=
  match a, b with
  | [], [] => true
  | (t, s) :: a', (u, r) :: b' =>
      (* expected tag 0: the annotation was overwritten on the real tree (a lambda that is itself the test of
         an if / while or the iterable of a for carries the COND / iter scope under the same key) *)
      (Nat.eqb u 0 || (Nat.eqb t u && scope_eq s r)) && records_eq a' b'
  | _, _ => false
  end.

Definition scope_case : Set := (nat * node * list (nat * scope))%type.
Definition check_scope (Q : quirks) (c : scope_case) : bool :=
  match c with (_, t, ex) => wf t && records_eq (records Q fl0 t) ex end.
Definition failing_scopes (Q : quirks) (cs : list scope_case) : list nat :=
  map (fun c => match c with (i, _, _) => i end) (filter (fun c => negb (check_scope Q c)) cs).

(* every def / lambda of a tree, pre-order: (arguments, body) *)
Fixpoint fns (t : node) {struct t} : list (node * node) :=
  match t with
  | N (KDef _) (NCons decos (NCons rets (NCons args (NCons body NNil)))) =>
      (args, body) :: fns decos ++ fns rets ++ fns args ++ fns body
  | N KLambda (NCons args (NCons body NNil)) => (args, body) :: fns args ++ fns body
  | N _ ch => fns_list ch
  end
with fns_list (ts : nodes) {struct ts} : list (node * node) :=
  match ts with NNil => [] | NCons t r => fns t ++ fns_list r end.

(* what symtable says about one function: parameters, locals, declared globals, nonlocals *)
Definition syminfo : Set := (list name * list name * list name * list name)%type.
Definition binder_case : Set := (nat * nat * node * list syminfo)%type.   (* index, #names, tree, infos *)

(* no quirk: CPython's rule *)
Definition noq : quirks := mkq false false false false.

Definition check_fn (nmax : nat) (ab : node * node) (si : syminfo) : bool :=
  match ab, si with
  | (args, body), (ps, ls, gs, ns) =>
      forallb (fun n =>
        Bool.eqb (is_param args n) (mem_name n ps)
        && Bool.eqb (declared_global noq body n) (mem_name n gs)
        && Bool.eqb (declared_nonlocal noq body n) (mem_name n ns)
        && (memf (FComp n) (facts noq body) || Bool.eqb (is_local noq args body n) (mem_name n ls)))
      (seq 0 nmax)
  end.

Fixpoint check_fns (nmax : nat) (a : list (node * node)) (b : list syminfo) : bool :=
  match a, b with
  | [], [] => true
  | x :: a', y :: b' => check_fn nmax x y && check_fns nmax a' b'
  | _, _ => false
  end.

Definition check_binder (c : binder_case) : bool :=
  match c with (_, nmax, t, infos) => check_fns nmax (fns t) infos end.
Definition failing_binders (cs : list binder_case) : list nat :=
  map (fun c => match c with (i, _, _, _) => i end) (filter (fun c => negb (check_binder c)) cs).

(* event case: the tree of one executed statement (or statement header) and the names CPython really
   read / wrote / deleted while executing it (sys.monitoring, own frame only).  Validates the
   FRead / FWrite / FDel part of Binders.facts against the interpreter. *)
Definition event_case : Set := (nat * node * list name * list name * list name)%type.
Definition check_event (c : event_case) : bool :=
  match c with
  | (_, t, r, w, d) =>
      let F := facts noq t in
      let ex n := memf (FComp n) F || memf (FExempt n) F in
      forallb (fun n => memf (FRead n) F || ex n) r
      && forallb (fun n => memf (FWrite n) F || ex n) w
      && forallb (fun n => memf (FDel n) F || ex n) d
  end.
Definition failing_events (cs : list event_case) : list nat :=
  map (fun c => match c with (i, _, _, _, _) => i end) (filter (fun c => negb (check_event c)) cs).
