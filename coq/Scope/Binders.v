(* C08 (S) -- CPython's binding rule (language reference 4.2.1 "Binding of names", symtable.c),
   written over the same tree, independently of the activity model:

   the names *bound in a block* are: assignment / augmented assignment / annotated assignment / for /
   with-as / walrus targets and del targets (a Name in Store or Del context), import aliases, def and
   class names, except-clause names; comprehension targets belong to the comprehension; the
   parameters are bound in the function's block; nested def / lambda / class bodies are blocks of
   their own, their decorators, default values, annotations and base classes are evaluated in the
   enclosing block.
   A name is LOCAL to a function iff it is a parameter or bound in its block and not declared global
   or nonlocal there.

   Q is only used for the *exemptions*: with quirk q_leak the names of the parameters of directly
   nested defs / lambdas join the comprehension targets and except-clause names as names the
   comparison does not speak about (known finding activity-nested-params-leak). *)
From Coq Require Import List Arith Bool.
Import ListNotations.
Require Import MV.Scope.Ast MV.Scope.Activity.

Inductive fact : Set :=
| FBind (n : name) | FUse (n : name) | FDeclG (n : name) | FDeclN (n : name)
| FExempt (n : name)    (* except-clause name; with q_leak: parameter of a directly nested def / lambda *)
| FComp (n : name)      (* comprehension target *)
(* what evaluating the node in the current frame may do to a variable (CPython's evaluation rule:
   bodies of lambdas, nested defs and classes run in frames of their own) *)
| FRead (n : name) | FWrite (n : name) | FDel (n : name).

Definition fact_eqb (a b : fact) : bool :=
  match a, b with
  | FBind n, FBind m | FUse n, FUse m | FDeclG n, FDeclG m | FDeclN n, FDeclN m | FExempt n, FExempt m
  | FComp n, FComp m | FRead n, FRead m | FWrite n, FWrite m | FDel n, FDel m => Nat.eqb n m
  | _, _ => false
  end.
Definition memf (x : fact) (l : list fact) : bool := existsb (fact_eqb x) l.

Fixpoint simple_names (l : list qn) : list name :=
  match l with
  | [] => []
  | QS n :: r => n :: simple_names r
  | _ :: r => simple_names r
  end.

(* names of the parameters declared by an `arguments` node *)
Fixpoint arg_names (ts : nodes) : list name :=
  match ts with
  | NNil => []
  | NCons (N (KArg n) _) r => n :: arg_names r
  | NCons _ r => arg_names r
  end.
Definition params (args : node) : list name :=
  match args with
  | N _ (NCons _ (NCons (N _ decls) NNil)) => arg_names decls
  | _ => []
  end.

Section Rule.
Variable Q : quirks.

Definition leak (args : node) : list fact := if q_leak Q then map FExempt (params args) else [].

(* the facts a node contributes to the block it is written in *)
Fixpoint facts (t : node) {struct t} : list fact :=
  match t with
  | N k ch =>
    match k with
    | KName n Load => [FUse n; FRead n]
    | KName n Store => [FBind n; FWrite n]
    | KName n Del => [FBind n; FDel n]
    | KAug =>
        (match ch with NCons (N (KName n Store) _) _ => [FRead n] | _ => [] end) ++ facts_list ch
    | KAlias n => FBind n :: FWrite n :: facts_list ch
    | KHandler (Some n) => FBind n :: FExempt n :: facts_list ch
    | KGlobal ns => map FDeclG ns
    | KNonlocal ns => map FDeclN ns
    | KDef n =>
        match ch with
        | NCons decos (NCons rets (NCons args (NCons body NNil))) =>
            FBind n :: FWrite n :: facts decos ++ facts rets ++ facts_args args ++ leak args
        | _ => []
        end
    | KLambda =>
        match ch with
        | NCons args (NCons body NNil) => facts_args args ++ leak args
        | _ => []
        end
    | KClass n =>
        match ch with
        | NCons decos (NCons bases (NCons body NNil)) => FBind n :: FWrite n :: facts decos ++ facts bases
        | _ => []
        end
    | KCompFor =>
        match ch with
        | NCons tgt (NCons it (NCons ifs NNil)) =>
            map FComp (simple_names (targets tgt)) ++ facts it ++ facts ifs
        | _ => []
        end
    | _ => facts_list ch
    end
  end
with facts_list (ts : nodes) {struct ts} : list fact :=
  match ts with
  | NNil => []
  | NCons t r => facts t ++ facts_list r
  end
(* default values and annotations of a nested def / lambda are evaluated in the enclosing block *)
with facts_args (t : node) {struct t} : list fact :=
  match t with
  | N _ (NCons dflt (NCons decls NNil)) => facts dflt ++ facts decls
  | _ => []
  end.

Definition mem_name (n : name) (l : list name) : bool := existsb (Nat.eqb n) l.

(* the classification of name n in the function with arguments `args` and body `body` *)
Definition is_param (args : node) (n : name) : bool := mem_name n (params args).
Definition declared_global (body : node) (n : name) : bool := memf (FDeclG n) (facts body).
Definition declared_nonlocal (body : node) (n : name) : bool := memf (FDeclN n) (facts body).
Definition is_local (args body : node) (n : name) : bool :=
  (is_param args n || memf (FBind n) (facts body))
  && negb (declared_global body n) && negb (declared_nonlocal body n).
Definition exempt (body : node) (n : name) : bool := memf (FExempt n) (facts body) || memf (FComp n) (facts body).

End Rule.
