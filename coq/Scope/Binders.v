(* C08 (S) -- CPython's binding rule (language reference 4.2.1 "Binding of names", symtable.c) and
   evaluation rule, written over the same tree, independently of the activity model:

   the names *bound in a block* are: assignment / augmented assignment / annotated assignment / for /
   with-as / walrus targets and del targets (a Name in Store or Del context), import aliases, def and
   class names, except-clause names; comprehension targets belong to the comprehension; the
   parameters are bound in the function's block; nested def / lambda / class bodies are blocks of
   their own, their decorators, default values, annotations and base classes are evaluated in the
   enclosing block.
   A name is LOCAL to a function iff it is a parameter or bound in its block and not declared global
   or nonlocal there.
   Executing a statement reads the names it loads, writes the names it stores (def / class / import
   bind their name), deletes its del targets; an augmented assignment to a name also reads it; the
   bodies of lambdas, nested defs and classes run in frames of their own.

   Q is only used for the *exemptions* (names the comparison does not speak about) that the known
   finding activity-nested-params-leak adds to the two exemptions of the property:
     q_leak     the parameters of the defs / lambdas written directly in the block
     q_annmiss  the reads made by parameter annotations are not claimed for the def statement *)
From Coq Require Import List Arith Bool.
Import ListNotations.
Require Import MV.Scope.Ast MV.Scope.Activity.

Inductive fact : Set :=
| FBind (n : name) | FUse (n : name) | FDeclG (n : name) | FDeclN (n : name)
| FExempt (n : name)    (* except-clause name; with q_leak: parameter of a directly nested def / lambda *)
| FComp (n : name)      (* comprehension target *)
| FRead (n : name) | FWrite (n : name) | FDel (n : name).

Definition fact_eqb (a b : fact) : bool :=
  match a, b with
  | FBind n, FBind m | FUse n, FUse m | FDeclG n, FDeclG m | FDeclN n, FDeclN m | FExempt n, FExempt m
  | FComp n, FComp m | FRead n, FRead m | FWrite n, FWrite m | FDel n, FDel m => Nat.eqb n m
  | _, _ => false
  end.
Definition memf (x : fact) (l : list fact) : bool := existsb (fact_eqb x) l.

Fixpoint simple_names (l : list qn) : list name :=
  match l with
  | [] => []
  | QS n :: r => n :: simple_names r
  | _ :: r => simple_names r
  end.

(* names of the parameters declared by an `arguments` node *)
Fixpoint arg_names (ts : nodes) : list name :=
  match ts with
  | NNil => []
  | NCons (N (KArg n) _) r => n :: arg_names r
  | NCons _ r => arg_names r
  end.
Definition params (args : node) : list name :=
  match args with
  | N _ (NCons _ (NCons (N _ decls) NNil)) => arg_names decls
  | _ => []
  end.

Definition is_read (x : fact) : bool := match x with FRead _ => true | _ => false end.

Section Rule.
Variable Q : quirks.

Definition leak (args : node) : list fact := if q_leak Q then map FExempt (params args) else [].
Definition annot_facts (l : list fact) : list fact :=
  if q_annmiss Q then filter (fun x => negb (is_read x)) l else l.

(* the facts a node contributes to the block it is written in *)
Fixpoint facts (t : node) {struct t} : list fact :=
  match t with
  | N k ch =>
    match k with
    | KName n Load => [FUse n; FRead n]
    | KName n Store => [FBind n; FWrite n]
    | KName n Del => [FBind n; FDel n]
    | KConst _ | KArgs | KArg _ | KCompFor => []
    | KAug =>
        match ch with
        | NCons tg (NCons v NNil) =>
            (match tg with N (KName n Store) _ => [FRead n] | _ => [] end) ++ facts tg ++ facts v
        | _ => []
        end
    | KAnn =>
        match ch with
        | NCons tg (NCons v (NCons a NNil)) => facts tg ++ facts v ++ facts a
        | _ => []
        end
    | KFor =>
        match ch with
        | NCons tg (NCons it r) => facts tg ++ facts it ++ facts_list r
        | _ => []
        end
    | KAlias n => FBind n :: FWrite n :: facts_list ch
    | KHandler (Some n) => FBind n :: FExempt n :: facts_list ch
    | KGlobal ns => map FDeclG ns
    | KNonlocal ns => map FDeclN ns
    | KDef n =>
        match ch with
        | NCons decos (NCons rets (NCons args (NCons body NNil))) =>
            FBind n :: FWrite n :: facts decos ++ facts rets ++ facts_args args ++ leak args
        | _ => []
        end
    | KLambda =>
        match ch with
        | NCons args (NCons body NNil) => facts_args args ++ leak args
        | _ => []
        end
    | KClass n =>
        match ch with
        | NCons decos (NCons bases (NCons body NNil)) => FBind n :: FWrite n :: facts decos ++ facts bases
        | _ => []
        end
    | KComp =>
        match ch with
        | NCons (N _ gens) (NCons elts NNil) => facts_gens gens ++ facts elts
        | _ => []
        end
    | _ => facts_list ch
    end
  end
with facts_list (ts : nodes) {struct ts} : list fact :=
  match ts with
  | NNil => []
  | NCons t r => facts t ++ facts_list r
  end
(* default values and annotations of a nested def / lambda are evaluated in the enclosing block *)
with facts_args (t : node) {struct t} : list fact :=
  match t with
  | N _ (NCons dflt (NCons (N _ decls) NNil)) => facts dflt ++ annot_facts (facts_decls decls)
  | _ => []
  end
with facts_decls (ts : nodes) {struct ts} : list fact :=
  match ts with
  | NNil => []
  | NCons (N (KArg _) ch) r => facts_list ch ++ facts_decls r
  | NCons _ r => facts_decls r
  end
with facts_gens (ts : nodes) {struct ts} : list fact :=
  match ts with
  | NNil => []
  | NCons (N _ (NCons tgt (NCons it (NCons ifs NNil)))) r =>
      map FComp (simple_names (targets tgt)) ++ facts it ++ facts ifs ++ facts_gens r
  | NCons _ r => facts_gens r
  end.

Definition mem_name (n : name) (l : list name) : bool := existsb (Nat.eqb n) l.

(* the classification of name n in the function with arguments `args` and body `body` *)
Definition is_param (args : node) (n : name) : bool := mem_name n (params args).
Definition declared_global (body : node) (n : name) : bool := memf (FDeclG n) (facts body).
Definition declared_nonlocal (body : node) (n : name) : bool := memf (FDeclN n) (facts body).
Definition is_local (args body : node) (n : name) : bool :=
  (is_param args n || memf (FBind n) (facts body))
  && negb (declared_global body n) && negb (declared_nonlocal body n).
Definition exemptf (n : name) (F : list fact) : bool := memf (FExempt n) F || memf (FComp n) F.
Definition exempt (body : node) (n : name) : bool := exemptf n (facts body).

End Rule.

(* ---------------------------------------------------------------------------------------------
   well-formedness of exported trees (decidable; the exporter guarantees it, the harness re-checks it
   in Coq on every exported tree):
     cpure  what may stand inside a comprehension or a parameter annotation: no name in Store / Del
            context (i.e. no walrus -- known finding activity-walrus-in-comprehension), no statement
     wf     fixed-arity nodes have their arity, `arguments` nodes their shape, comprehension parts and
            parameter annotations are cpure *)
Fixpoint cpure (t : node) {struct t} : bool :=
  match t with
  | N k ch =>
    match k with
    | KGen | KConst _ | KAttr _ _ | KSub _ => cpure_list ch
    | KName _ Load => true
    | KLambda =>
        match ch with
        | NCons (N _ (NCons dflt (NCons (N KGen decls) NNil))) (NCons body NNil) =>
            cpure dflt && decls_ok decls && cpure body
        | _ => false
        end
    | KComp =>
        match ch with
        | NCons (N _ gens) (NCons elts NNil) => gens_ok gens && cpure elts
        | _ => false
        end
    | _ => false
    end
  end
with cpure_list (ts : nodes) {struct ts} : bool :=
  match ts with NNil => true | NCons t r => cpure t && cpure_list r end
with decls_ok (ts : nodes) {struct ts} : bool :=
  match ts with
  | NNil => true
  | NCons (N (KArg _) ch) r => cpure_list ch && decls_ok r
  | NCons _ _ => false
  end
with gens_ok (ts : nodes) {struct ts} : bool :=
  match ts with
  | NNil => true
  | NCons (N _ (NCons tgt (NCons it (NCons ifs NNil)))) r => cpure it && cpure ifs && gens_ok r
  | NCons _ _ => false
  end.

Fixpoint wf (t : node) {struct t} : bool :=
  match t with
  | N k ch =>
    match k with
    | KArgs | KArg _ | KCompFor => false
    | KAug => match ch with NCons tg (NCons v NNil) => wf tg && wf v | _ => false end
    | KAnn => match ch with NCons tg (NCons v (NCons a NNil)) => wf tg && wf v && wf a | _ => false end
    | KFor => match ch with NCons tg (NCons it r) => wf tg && wf it && wf_list r | _ => false end
    | KIf | KWhile => match ch with NCons tst r => wf tst && wf_list r | _ => false end
    | KDef _ =>
        match ch with
        | NCons decos (NCons rets (NCons (N _ (NCons dflt (NCons (N KGen decls) NNil))) (NCons body NNil))) =>
            wf decos && wf rets && wf dflt && decls_ok decls && wf body
        | _ => false
        end
    | KLambda =>
        match ch with
        | NCons (N _ (NCons dflt (NCons (N KGen decls) NNil))) (NCons body NNil) =>
            wf dflt && decls_ok decls && wf body
        | _ => false
        end
    | KClass _ =>
        match ch with
        | NCons decos (NCons bases (NCons body NNil)) => wf decos && wf bases && wf body
        | _ => false
        end
    | KComp => cpure t
    | _ => wf_list ch
    end
  end
with wf_list (ts : nodes) {struct ts} : bool :=
  match ts with NNil => true | NCons t r => wf t && wf_list r end.
