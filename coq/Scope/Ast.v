(* C08 -- the model's abstract syntax: a uniform tree.  Every Python ast node becomes `N kind children`;
   the kinds are exactly the node classes for which activity.py has a visitor, everything else is
   KGen (= NodeTransformer.generic_visit: the children, in field order).  Names are numbers (the
   exporter keeps the table); 0 = '__init__', 1 = 'self'.

   Layout of the children (produced by tools/translate/c08_export.py, checked there):
     KStmt                _process_statement nodes (Expr Return Raise Assign Delete Assert Import
                          ImportFrom withitem): the ast children
     KAttr a c            [value]                 KSub c   [value; slice]
     KAug                 [target; value]         KAnn     [target; KGen [value?]; annotation]
     KIf / KWhile         [test; KBlock body; KBlock orelse]
     KFor                 [target; iter; KBlock body; KBlock orelse]
     KWith                items (KStmt each) ++ body statements
     KHandler nm          type? ++ body statements
     KDef n               [KGen decorators; KGen [returns?]; KArgs; KGen body]
     KLambda              [KArgs; body]
     KClass n             [KGen decorators; KGen (bases ++ keywords); KGen body]
     KArgs                [KGen (kw_defaults ++ defaults); KGen (posonly, args, vararg, kwonly, kwarg : KArg)]
     KArg n               annotation?
     KComp                [KGen generators (KCompFor each); KGen (elt | key, value)]
     KCompFor             [target; iter; KGen ifs]                                              *)
From Coq Require Import List Arith Bool.
Import ListNotations.

Definition name := nat.
Definition INIT : name := 0.
Definition SELF : name := 1.

(* qualified names (qual_names.QN): simple, attribute, subscript, literal used as subscript *)
Inductive qn : Set :=
| QS (n : name)
| QA (p : qn) (a : name)
| QI (p : qn) (i : qn)
| QL (k : nat).

Fixpoint qn_eqb (a b : qn) : bool :=
  match a, b with
  | QS n, QS m => Nat.eqb n m
  | QA p x, QA q y => qn_eqb p q && Nat.eqb x y
  | QI p i, QI q j => qn_eqb p q && qn_eqb i j
  | QL k, QL l => Nat.eqb k l
  | _, _ => false
  end.

Definition memq (q : qn) (l : list qn) : bool := existsb (qn_eqb q) l.
Definition minus (a b : list qn) : list qn := filter (fun q => negb (memq q b)) a.

(* QN.owner_set: the parents, transitively *)
Fixpoint owners (q : qn) : list qn :=
  match q with
  | QA p _ => p :: owners p
  | QI p _ => p :: owners p
  | _ => []
  end.

Inductive ctx : Set := Load | Store | Del.

Inductive kind : Set :=
| KGen | KStmt
| KName (n : name) (c : ctx)
| KAttr (a : name) (c : ctx)
| KSub (c : ctx)
| KConst (k : option nat)
| KAug | KAnn
| KGlobal (ns : list name) | KNonlocal (ns : list name)
| KAlias (n : name)
| KIf | KWhile | KFor | KWith | KBlock
| KHandler (nm : option name)
| KDef (n : name) | KLambda | KClass (n : name)
| KArgs | KArg (n : name)
| KComp | KCompFor.

Inductive node : Set := N (k : kind) (ch : nodes)
with nodes : Set := NNil | NCons (t : node) (ts : nodes).

Fixpoint napp (a b : nodes) : nodes :=
  match a with NNil => b | NCons t ts => NCons t (napp ts b) end.

(* qual_names.QnResolver *)
Fixpoint qn_of (t : node) : option qn :=
  match t with
  | N (KName n _) _ => Some (QS n)
  | N (KAttr a _) (NCons v NNil) =>
      match qn_of v with Some p => Some (QA p a) | None => None end
  | N (KSub _) (NCons v (NCons s NNil)) =>
      match (match s with
             | N (KConst (Some k)) _ => Some (QL k)
             | N (KConst None) _ => None
             | _ => qn_of s
             end), qn_of v with
      | Some i, Some p => Some (QI p i)
      | _, _ => None
      end
  | _ => None
  end.
