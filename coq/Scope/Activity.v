(* C08 (H) -- executable model of malt/pyct/static_analysis/activity.py (Scope, ActivityAnalyzer).

   The analyser only ever *adds* to the sets of the scope on top of its stack and, when a scope is
   finalized, to its parent; no visitor reads the sets.  So the effect of visiting a node is a
   `scope` value (what it adds to the current scope), children compose by union, and
   Scope.finalize is a function from the child's final value to what the parent receives:
      non-isolated:  read/modified/bound minus isolated_names, globals, nonlocals  (deleted, params and
                     isolated_names are NOT passed on -- as in the code)
      isolated:      read minus bound
   (_process_parallel_blocks checkpoints and merges the parent: on monotone sets that is union.)
   `annotations` is not modelled (not part of the property).

   Quirks of the current code that the model follows (flags, measured on the implementation by
   tools/translate/c08_quirks.py and written to Generated/C08_gen.v):
      q_leak   visit_arg binds the parameter also in the annotation pass, i.e. in the scope of the
               *defining* block
      q_annfn  the declaration pass visits the parameter annotations inside the function's scope
      q_annmiss the annotation pass does NOT record the names read by parameter annotations
      q_nlhide  an isolated scope exports read - bound (a name the nested function declares nonlocal counts as
               bound there and is not passed on); false: read - (bound - nonlocals)
   (all false = what CPython does; that is also what fixes/C08-visit-arg-annotation-pass.diff gives) *)
From Coq Require Import List Arith Bool.
Import ListNotations.
Require Import MV.Scope.Ast.

Record quirks : Set := mkq { q_leak : bool; q_annfn : bool; q_annmiss : bool; q_nlhide : bool }.

Record scope : Set := mksc {
  rd : list qn; md : list qn; bd : list qn; dl : list qn;
  gl : list qn; nl : list qn; pr : list qn; iso : list qn }.

Definition empty : scope := mksc [] [] [] [] [] [] [] [].
Definition union (a b : scope) : scope :=
  mksc (rd a ++ rd b) (md a ++ md b) (bd a ++ bd b) (dl a ++ dl b)
       (gl a ++ gl b) (nl a ++ nl b) (pr a ++ pr b) (iso a ++ iso b).

(* Scope.finalize, seen from the parent.  isolated_names is only ever non-empty on the scope of an
   except handler (visit_ExceptHandler), which is never recorded: fin_handler is finalize for that
   scope, fin_noniso for every other surrogate scope (isolated_names = {}). *)
Definition fin_noniso (c : scope) : scope :=
  mksc (rd c) (md c) (bd c) [] (gl c) (nl c) [] [].
Definition fin_handler (nm : option name) (c : scope) : scope :=
  let i := match nm with Some n => [QS n] | None => [] end in
  mksc (minus (rd c) i) (minus (md c) i) (minus (bd c) i) [] (gl c) (nl c) [] [].
Definition fin_iso (hide : bool) (c : scope) : scope :=
  mksc (minus (rd c) (if hide then bd c else minus (bd c) (nl c))) [] [] [] [] [] [] [].

Record flags : Set := mkfl {
  fl_aug : bool;        (* _in_aug_assign *)
  fl_ann : bool;        (* _in_annotation *)
  fl_annonly : bool;    (* _track_annotations_only *)
  fl_tg : list qn;      (* targets of all enclosing comprehensions (state[_Comprehension]) *)
  fl_incomp : bool;     (* state[_Comprehension].level > 0 *)
  fl_pcls : bool;       (* the innermost enclosing function-or-class is a class *)
  fl_ctor : bool }.     (* _in_constructor *)

Definition fl0 : flags := mkfl false false false [] false false false.
Definition with_aug (f : flags) := mkfl true (fl_ann f) (fl_annonly f) (fl_tg f) (fl_incomp f) (fl_pcls f) (fl_ctor f).
Definition with_ann (f : flags) := mkfl (fl_aug f) true (fl_annonly f) (fl_tg f) (fl_incomp f) (fl_pcls f) (fl_ctor f).
Definition with_annonly (f : flags) := mkfl (fl_aug f) (fl_ann f) true (fl_tg f) (fl_incomp f) (fl_pcls f) (fl_ctor f).
Definition with_tg (f : flags) (tg : list qn) := mkfl (fl_aug f) (fl_ann f) (fl_annonly f) tg true (fl_pcls f) (fl_ctor f).
(* entering a def / lambda / class *)
Definition enter (f : flags) (pcls ctor : bool) := mkfl (fl_aug f) (fl_ann f) (fl_annonly f) (fl_tg f) (fl_incomp f) pcls ctor.

Definition hidden (f : flags) (q : qn) : bool :=
  memq q (fl_tg f) || existsb (fun o => memq o (fl_tg f)) (owners q).

(* _track_symbol; alter = composite_writes_alter_parent (self.x = ... in a constructor) *)
Definition track (f : flags) (q : qn) (c : ctx) (alter : bool) : scope :=
  if fl_annonly f && negb (fl_ann f) then empty
  else if hidden f q then empty
  else match c with
       | Store =>
           if fl_incomp f then empty    (* becomes a comprehension target; see visit_gens / wf *)
           else mksc (if fl_aug f then [q] else [])
                     (q :: (if alter then match q with QA p _ => [p] | QI p _ => [p] | _ => [] end else []))
                     [q] [] [] [] [] []
       | Load => mksc [q] [] [] [] [] [] [] []
       | Del => mksc [q] [] [q] [q] [] [] [] []
       end.

Definition sets_self (q : qn) : bool :=
  match q with QA (QS n) _ => Nat.eqb n SELF | _ => false end.

Definition names (ns : list name) : list qn := map QS ns.

(* names stored by a comprehension target *)
Fixpoint targets (t : node) : list qn :=
  match t with
  | N (KName n Store) _ => [QS n]
  | N (KName _ _) _ => []
  | N _ ch => targets_list ch
  end
with targets_list (ts : nodes) : list qn :=
  match ts with NNil => [] | NCons t r => targets t ++ targets_list r end.

Definition bind_name (n : name) : scope := mksc [] [QS n] [QS n] [] [] [] [] [].
Definition bind_param (n : name) : scope := mksc [] [] [QS n] [] [] [] [QS n] [].

Section Model.
Variable Q : quirks.

(* what visiting a node adds to the scope that is current when the visit starts *)
Fixpoint visit (f : flags) (t : node) {struct t} : scope :=
  match t with
  | N k ch =>
    match k with
    | KGen => visit_list f ch
    | KStmt => fin_noniso (visit_list f ch)
    | KName n c => track f (QS n) c false
    | KAttr _ c =>
        union (visit_list f ch)
              (match qn_of t with Some q => track f q c (fl_ctor f && sets_self q) | None => empty end)
    | KSub c =>
        union (visit_list f ch)
              (match qn_of t with Some q => track f q c false | None => empty end)
    | KConst _ => empty
    | KAug =>
        match ch with
        | NCons tg (NCons v NNil) => fin_noniso (union (visit (with_aug f) tg) (visit f v))
        | _ => empty
        end
    | KAnn =>
        match ch with
        | NCons tg (NCons v (NCons a NNil)) =>
            fin_noniso (union (visit f tg) (union (visit f v) (visit (with_ann f) a)))
        | _ => empty
        end
    | KGlobal ns => fin_noniso (mksc (names ns) [] [] [] (names ns) [] [] [])
    | KNonlocal ns => fin_noniso (mksc (names ns) [] (names ns) [] [] (names ns) [] [])
    | KAlias n => union (visit_list f ch) (bind_name n)
    | KIf | KWhile =>
        match ch with
        | NCons tst r => union (fin_noniso (visit f tst)) (visit_list f r)
        | _ => empty
        end
    | KFor =>
        match ch with
        | NCons tg (NCons it r) =>
            union (fin_noniso (union (visit f tg) (visit f it)))
                  (union (fin_noniso (visit f tg)) (visit_list f r))
        | _ => empty
        end
    | KWith => fin_noniso (visit_list f ch)
    | KBlock => fin_noniso (visit_list f ch)
    | KHandler nm => fin_handler nm (visit_list f ch)
    | KDef n =>
        match ch with
        | NCons decos (NCons rets (NCons args (NCons body NNil))) =>
            let f' := enter f false (fl_pcls f && Nat.eqb n INIT) in
            union (fin_noniso (union (visit f' decos)
                              (union (visit (with_ann f') rets)
                              (union (visit_args_annot f' args) (bind_name n)))))
                  (fin_iso (q_nlhide Q) (union (fin_noniso (visit_args_decl f' args)) (fin_noniso (visit f' body))))
        | _ => empty
        end
    | KLambda =>
        match ch with
        | NCons args (NCons body NNil) =>
            let f' := enter f false false in
            union (fin_noniso (visit_args_annot f' args))
                  (fin_iso (q_nlhide Q) (union (fin_noniso (visit_args_decl f' args)) (fin_noniso (visit f' body))))
        | _ => empty
        end
    | KClass n =>
        match ch with
        | NCons decos (NCons bases (NCons body NNil)) =>
            let f' := enter f true false in
            union (fin_noniso (union (visit f' decos) (union (bind_name n) (visit f' bases))))
                  (fin_iso (q_nlhide Q) (union (visit f' decos) (union (visit f' bases) (visit f' body))))
        | _ => empty
        end
    | KArgs => empty    (* only reached through visit_args_* *)
    | KArg n =>
        if fl_annonly f then
          union (if q_annmiss Q then visit_list f ch else visit_list (with_ann f) ch)
                (if q_leak Q then bind_param n else empty)
        else
          union (if q_annfn Q then visit_list f ch else empty) (bind_param n)
    | KComp =>
        match ch with
        | NCons (N _ gens) (NCons elts NNil) =>
            let '(s, tg) := visit_gens f (fl_tg f) gens in
            union s (visit (with_tg f tg) elts)
        | _ => empty
        end
    | KCompFor => empty  (* only reached through visit_gens *)
    end
  end
with visit_list (f : flags) (ts : nodes) {struct ts} : scope :=
  match ts with
  | NNil => empty
  | NCons t r => union (visit f t) (visit_list f r)
  end
(* _visit_arg_annotations: defaults, then the declarations in annotations-only mode *)
with visit_args_annot (f : flags) (t : node) {struct t} : scope :=
  match t with
  | N _ (NCons dflt (NCons decls NNil)) => union (visit f dflt) (visit (with_annonly f) decls)
  | _ => empty
  end
(* _visit_arg_declarations *)
with visit_args_decl (f : flags) (t : node) {struct t} : scope :=
  match t with
  | N _ (NCons dflt (NCons decls NNil)) => visit f decls
  | _ => empty
  end
(* visit_comprehension for each generator: iter, target, then generic_visit (target, iter, ifs) *)
with visit_gens (f : flags) (tg : list qn) (ts : nodes) {struct ts} : scope * list qn :=
  match ts with
  | NNil => (empty, tg)
  | NCons (N _ (NCons tgt (NCons it (NCons ifs NNil)))) r =>
      let s1 := visit (with_tg f tg) it in
      let tg' := tg ++ targets tgt in
      let s2 := union (visit (with_tg f tg') it) (visit (with_tg f tg') ifs) in
      let '(s3, tg'') := visit_gens f tg' r in
      (union s1 (union s2 s3), tg'')
  | NCons _ r => visit_gens f tg r
  end.

(* ------------------------------------------------------------------------------------------
   the scopes the analyser records on the tree (anno.Static.SCOPE, NodeAnno.*_SCOPE), in
   pre-order: own records of a node, then those of its children *)
Definition T_STMT := 1.      (* anno.Static.SCOPE of a statement / def / lambda / class *)
Definition T_COND := 2.      (* SCOPE of node.test = COND_SCOPE *)
Definition T_BLOCK := 3.     (* BODY_SCOPE / ORELSE_SCOPE *)
Definition T_ITER := 5.      (* SCOPE of node.iter of a for loop *)
Definition T_ITERATE := 6.   (* ITERATE_SCOPE *)
Definition T_ARGS := 7.      (* SCOPE of node.args *)
Definition T_BODY := 8.      (* BODY_SCOPE of a def / lambda *)
Definition T_FN := 9.        (* ARGS_AND_BODY_SCOPE *)

Definition fn_scope (f' : flags) (args body : node) : scope :=
  union (fin_noniso (visit_args_decl f' args)) (fin_noniso (visit f' body)).

Fixpoint records (f : flags) (t : node) {struct t} : list (nat * scope) :=
  match t with
  | N k ch =>
    match k with
    | KStmt | KWith => (if match k with KWith => true | _ => false end then T_BLOCK else T_STMT, visit_list f ch) :: records_list f ch
    | KAug =>
        match ch with
        | NCons tg (NCons v NNil) =>
            (T_STMT, union (visit (with_aug f) tg) (visit f v)) :: records (with_aug f) tg ++ records f v
        | _ => []
        end
    | KAnn =>
        match ch with
        | NCons tg (NCons v (NCons a NNil)) =>
            (T_STMT, union (visit f tg) (union (visit f v) (visit (with_ann f) a)))
              :: records f tg ++ records f v ++ records (with_ann f) a
        | _ => []
        end
    | KGlobal ns => [(T_STMT, mksc (names ns) [] [] [] (names ns) [] [] [])]
    | KNonlocal ns => [(T_STMT, mksc (names ns) [] (names ns) [] [] (names ns) [] [])]
    | KIf | KWhile =>
        match ch with
        | NCons tst r => (T_COND, visit f tst) :: records f tst ++ records_list f r
        | _ => []
        end
    | KFor =>
        match ch with
        | NCons tg (NCons it r) =>
            (T_ITER, union (visit f tg) (visit f it)) :: (T_ITERATE, visit f tg)
              :: records f tg ++ records f it ++ records_list f r
        | _ => []
        end
    | KBlock => (T_BLOCK, visit_list f ch) :: records_list f ch
    | KDef n =>
        match ch with
        | NCons decos (NCons rets (NCons args (NCons body NNil))) =>
            let f' := enter f false (fl_pcls f && Nat.eqb n INIT) in
            (T_STMT, union (visit f' decos) (union (visit (with_ann f') rets)
                       (union (visit_args_annot f' args) (bind_name n))))
            :: (T_ARGS, visit_args_decl f' args)
            :: (T_BODY, visit f' body)
            :: (T_FN, fn_scope f' args body)
            :: records f' decos ++ records (with_ann f') rets ++ records_args f' args ++ records f' body
        | _ => []
        end
    | KLambda =>
        match ch with
        | NCons args (NCons body NNil) =>
            let f' := enter f false false in
            (T_STMT, visit_args_annot f' args)
            :: (T_ARGS, visit_args_decl f' args)
            :: (T_BODY, visit f' body)
            :: (T_FN, fn_scope f' args body)
            :: records_args f' args ++ records f' body
        | _ => []
        end
    | KClass n =>
        match ch with
        | NCons decos (NCons bases (NCons body NNil)) =>
            let f' := enter f true false in
            (T_STMT, union (visit f' decos) (union (bind_name n) (visit f' bases)))
            :: records f' decos ++ records f' bases ++ records f' body
        | _ => []
        end
    | KComp =>
        match ch with
        | NCons (N _ gens) (NCons elts NNil) =>
            let '(rs, tg) := records_gens f (fl_tg f) gens in
            rs ++ records (with_tg f tg) elts
        | _ => []
        end
    | _ => records_list f ch
    end
  end
with records_list (f : flags) (ts : nodes) {struct ts} : list (nat * scope) :=
  match ts with
  | NNil => []
  | NCons t r => records f t ++ records_list f r
  end
(* lambdas in default values (parameter annotations hold no lambdas: wf) *)
with records_args (f : flags) (t : node) {struct t} : list (nat * scope) :=
  match t with
  | N _ (NCons dflt (NCons decls NNil)) => records f dflt
  | _ => []
  end
with records_gens (f : flags) (tg : list qn) (ts : nodes) {struct ts} : list (nat * scope) * list qn :=
  match ts with
  | NNil => ([], tg)
  | NCons (N _ (NCons tgt (NCons it (NCons ifs NNil)))) r =>
      let tg' := tg ++ targets tgt in
      let '(rs, tg'') := records_gens f tg' r in
      (records (with_tg f tg') it ++ records (with_tg f tg') ifs ++ rs, tg'')
  | NCons _ r => records_gens f tg r
  end.

End Model.
