(* C08 -- lemmas relating the activity model (H, Activity.v) to CPython's rule (S, Binders.v). *)
From Coq Require Import List Arith Bool Btauto.
Import ListNotations.
Require Import MV.Scope.Ast MV.Scope.Activity MV.Scope.Binders.

(* ---------------------------------------------------------------- sets *)
Lemma qn_eqb_qs : forall n x, qn_eqb (QS n) x = true -> x = QS n.
Proof. intros n x; destruct x; simpl; try discriminate. intros H; apply Nat.eqb_eq in H; subst; reflexivity. Qed.

Lemma memq_app : forall q a b, memq q (a ++ b) = memq q a || memq q b.
Proof. intros; apply existsb_app. Qed.

Lemma memf_app : forall x a b, memf x (a ++ b) = memf x a || memf x b.
Proof. intros; apply existsb_app. Qed.

Lemma memq_cons : forall q x l, memq q (x :: l) = qn_eqb q x || memq q l.
Proof. reflexivity. Qed.

Lemma memq_minus : forall n a b, memq (QS n) (minus a b) = memq (QS n) a && negb (memq (QS n) b).
Proof.
  intros n a b. induction a as [|x a IH]; [reflexivity|].
  unfold minus in *. simpl filter. rewrite (memq_cons (QS n) x a).
  destruct (memq x b) eqn:Eb; simpl negb; cbv iota.
  - rewrite IH. destruct (qn_eqb (QS n) x) eqn:E; [|reflexivity].
    apply qn_eqb_qs in E; subst x. rewrite Eb. btauto.
  - rewrite memq_cons, IH. destruct (qn_eqb (QS n) x) eqn:E; [|reflexivity].
    apply qn_eqb_qs in E; subst x. rewrite Eb. reflexivity.
Qed.

Lemma memf_cons : forall x y l, memf x (y :: l) = fact_eqb x y || memf x l.
Proof. reflexivity. Qed.
Lemma memf_nil : forall x, memf x [] = false.
Proof. reflexivity. Qed.

Lemma memq_names : forall n ns, memq (QS n) (names ns) = mem_name n ns.
Proof. intros n ns. induction ns; simpl; [reflexivity|]. rewrite IHns. reflexivity. Qed.

Lemma memq_single : forall n m, memq (QS n) [QS m] = Nat.eqb n m.
Proof. intros; simpl. apply orb_false_r. Qed.

Lemma memf_map : forall (x : fact) (g : name -> fact) ns,
  (forall m, fact_eqb x (g m) = false) -> memf x (map g ns) = false.
Proof. intros x g ns H. induction ns; simpl; [reflexivity|]. rewrite H, IHns. reflexivity. Qed.

Lemma memf_map_same : forall (g : name -> fact) n ns,
  (forall m, fact_eqb (g n) (g m) = Nat.eqb n m) -> memf (g n) (map g ns) = mem_name n ns.
Proof. intros g n ns H. induction ns; simpl; [reflexivity|]. rewrite H, IHns. reflexivity. Qed.

Lemma memq_simple : forall n l, memq (QS n) l = mem_name n (simple_names l).
Proof.
  intros n l. induction l as [|x l IH]; simpl; [reflexivity|].
  destruct x; simpl; rewrite IH; reflexivity.
Qed.

(* ---------------------------------------------------------------- composite names *)
Definition composite (q : qn) : Prop := forall n, qn_eqb (QS n) q = false.

Lemma qn_of_attr : forall a c ch q, qn_of (N (KAttr a c) ch) = Some q -> composite q.
Proof.
  intros a c ch q H. destruct ch as [|v [|]]; simpl in H; try discriminate.
  destruct (qn_of v); inversion H; subst. intros n; reflexivity.
Qed.

Lemma qn_of_sub : forall c ch q, qn_of (N (KSub c) ch) = Some q -> composite q.
Proof.
  intros c ch q H. destruct ch as [|v [|s [|]]]; simpl in H; try discriminate.
  destruct (match s with N (KConst (Some k)) _ => Some (QL k) | N (KConst None) _ => None | _ => qn_of s end);
    try discriminate.
  destruct (qn_of v); inversion H; subst. intros n; reflexivity.
Qed.

Lemma track_composite : forall f q c al n, composite q ->
  memq (QS n) (bd (track f q c al)) = false /\ gl (track f q c al) = [] /\ nl (track f q c al) = [].
Proof.
  intros f q c al n H. pose proof (H n) as Hn. simpl in Hn. unfold track.
  destruct (fl_annonly f && negb (fl_ann f)); [simpl; auto|].
  destruct (hidden f q); [simpl; auto|].
  destruct c; [simpl; auto | | simpl; rewrite ?Hn; auto].
  destruct (fl_incomp f); simpl; rewrite ?Hn; auto.
Qed.

Lemma track_simple_gn : forall f q c al, gl (track f q c al) = [] /\ nl (track f q c al) = [].
Proof.
  intros f q c al. unfold track.
  destruct (fl_annonly f && negb (fl_ann f)); [simpl; auto|].
  destruct (hidden f q); [simpl; auto|].
  destruct c; simpl; auto. destruct (fl_incomp f); simpl; auto.
Qed.

(* ---------------------------------------------------------------- unfolding equations *)
Section Eqs.
Variable Q : quirks.
Lemma visit_lambda : forall f args body,
  visit Q f (N KLambda (NCons args (NCons body NNil))) =
  union (fin_noniso (visit_args_annot Q (enter f false false) args))
        (fin_iso (q_nlhide Q) (union (fin_noniso (visit_args_decl Q (enter f false false) args))
                        (fin_noniso (visit Q (enter f false false) body)))).
Proof. reflexivity. Qed.
Lemma visit_def : forall f n decos rets args body,
  visit Q f (N (KDef n) (NCons decos (NCons rets (NCons args (NCons body NNil))))) =
  let f' := enter f false (fl_pcls f && Nat.eqb n INIT) in
  union (fin_noniso (union (visit Q f' decos)
                    (union (visit Q (with_ann f') rets)
                    (union (visit_args_annot Q f' args) (bind_name n)))))
        (fin_iso (q_nlhide Q) (union (fin_noniso (visit_args_decl Q f' args)) (fin_noniso (visit Q f' body)))).
Proof. reflexivity. Qed.
Lemma visit_class : forall f n decos bases body,
  visit Q f (N (KClass n) (NCons decos (NCons bases (NCons body NNil)))) =
  let f' := enter f true false in
  union (fin_noniso (union (visit Q f' decos) (union (bind_name n) (visit Q f' bases))))
        (fin_iso (q_nlhide Q) (union (visit Q f' decos) (union (visit Q f' bases) (visit Q f' body)))).
Proof. reflexivity. Qed.
Lemma visit_comp : forall f kg gens elts,
  visit Q f (N KComp (NCons (N kg gens) (NCons elts NNil))) =
  let '(s, tg) := visit_gens Q f (fl_tg f) gens in union s (visit Q (with_tg f tg) elts).
Proof. reflexivity. Qed.
Lemma visit_args_annot_eq : forall f k dflt decls,
  visit_args_annot Q f (N k (NCons dflt (NCons decls NNil))) =
  union (visit Q f dflt) (visit Q (with_annonly f) decls).
Proof. reflexivity. Qed.
Lemma visit_args_decl_eq : forall f k dflt decls,
  visit_args_decl Q f (N k (NCons dflt (NCons decls NNil))) = visit Q f decls.
Proof. reflexivity. Qed.
Lemma visit_gen : forall f ch, visit Q f (N KGen ch) = visit_list Q f ch.
Proof. reflexivity. Qed.
Lemma visit_cons : forall f t r, visit_list Q f (NCons t r) = union (visit Q f t) (visit_list Q f r).
Proof. reflexivity. Qed.
Lemma visit_arg : forall f n ch,
  visit Q f (N (KArg n) ch) =
  if fl_annonly f then
    union (if q_annmiss Q then visit_list Q f ch else visit_list Q (with_ann f) ch)
          (if q_leak Q then bind_param n else empty)
  else union (if q_annfn Q then visit_list Q f ch else empty) (bind_param n).
Proof. reflexivity. Qed.
Lemma visit_gens_cons : forall f tg k tgt it ifs r,
  visit_gens Q f tg (NCons (N k (NCons tgt (NCons it (NCons ifs NNil)))) r) =
  let s1 := visit Q (with_tg f tg) it in
  let tg' := tg ++ targets tgt in
  let s2 := union (visit Q (with_tg f tg') it) (visit Q (with_tg f tg') ifs) in
  let '(s3, tg'') := visit_gens Q f tg' r in
  (union s1 (union s2 s3), tg'').
Proof. reflexivity. Qed.

Lemma facts_lambda : forall args body,
  facts Q (N KLambda (NCons args (NCons body NNil))) = facts_args Q args ++ leak Q args.
Proof. reflexivity. Qed.
Lemma facts_def : forall n decos rets args body,
  facts Q (N (KDef n) (NCons decos (NCons rets (NCons args (NCons body NNil))))) =
  FBind n :: FWrite n :: facts Q decos ++ facts Q rets ++ facts_args Q args ++ leak Q args.
Proof. reflexivity. Qed.
Lemma facts_class : forall n decos bases body,
  facts Q (N (KClass n) (NCons decos (NCons bases (NCons body NNil)))) =
  FBind n :: FWrite n :: facts Q decos ++ facts Q bases.
Proof. reflexivity. Qed.
Lemma facts_comp : forall kg gens elts,
  facts Q (N KComp (NCons (N kg gens) (NCons elts NNil))) = facts_gens Q gens ++ facts Q elts.
Proof. reflexivity. Qed.
Lemma facts_args_eq : forall k dflt kd decls,
  facts_args Q (N k (NCons dflt (NCons (N kd decls) NNil))) = facts Q dflt ++ annot_facts Q (facts_decls Q decls).
Proof. reflexivity. Qed.
Lemma facts_gens_cons : forall k tgt it ifs r,
  facts_gens Q (NCons (N k (NCons tgt (NCons it (NCons ifs NNil)))) r) =
  map FComp (simple_names (targets tgt)) ++ facts Q it ++ facts Q ifs ++ facts_gens Q r.
Proof. reflexivity. Qed.
Lemma facts_decls_cons : forall n ch r,
  facts_decls Q (NCons (N (KArg n) ch) r) = facts_list Q ch ++ facts_decls Q r.
Proof. reflexivity. Qed.
Lemma facts_cons : forall t r, facts_list Q (NCons t r) = facts Q t ++ facts_list Q r.
Proof. reflexivity. Qed.
Lemma visit_stmt : forall f ch, visit Q f (N KStmt ch) = fin_noniso (visit_list Q f ch).
Proof. reflexivity. Qed.
Lemma visit_with : forall f ch, visit Q f (N KWith ch) = fin_noniso (visit_list Q f ch).
Proof. reflexivity. Qed.
Lemma visit_block : forall f ch, visit Q f (N KBlock ch) = fin_noniso (visit_list Q f ch).
Proof. reflexivity. Qed.
Lemma visit_handler : forall f nm ch, visit Q f (N (KHandler nm) ch) = fin_handler nm (visit_list Q f ch).
Proof. reflexivity. Qed.
Lemma visit_name : forall f n c ch, visit Q f (N (KName n c) ch) = track f (QS n) c false.
Proof. reflexivity. Qed.
Lemma visit_attr : forall f a c ch, visit Q f (N (KAttr a c) ch) =
  union (visit_list Q f ch) (match qn_of (N (KAttr a c) ch) with
                             | Some q => track f q c (fl_ctor f && sets_self q) | None => empty end).
Proof. reflexivity. Qed.
Lemma visit_sub : forall f c ch, visit Q f (N (KSub c) ch) =
  union (visit_list Q f ch) (match qn_of (N (KSub c) ch) with
                             | Some q => track f q c false | None => empty end).
Proof. reflexivity. Qed.
Lemma visit_aug : forall f tg v, visit Q f (N KAug (NCons tg (NCons v NNil))) =
  fin_noniso (union (visit Q (with_aug f) tg) (visit Q f v)).
Proof. reflexivity. Qed.
Lemma visit_ann : forall f tg v a, visit Q f (N KAnn (NCons tg (NCons v (NCons a NNil)))) =
  fin_noniso (union (visit Q f tg) (union (visit Q f v) (visit Q (with_ann f) a))).
Proof. reflexivity. Qed.
Lemma visit_global : forall f ns ch, visit Q f (N (KGlobal ns) ch) =
  fin_noniso (mksc (names ns) [] [] [] (names ns) [] [] []).
Proof. reflexivity. Qed.
Lemma visit_nonlocal : forall f ns ch, visit Q f (N (KNonlocal ns) ch) =
  fin_noniso (mksc (names ns) [] (names ns) [] [] (names ns) [] []).
Proof. reflexivity. Qed.
Lemma visit_alias : forall f n ch, visit Q f (N (KAlias n) ch) = union (visit_list Q f ch) (bind_name n).
Proof. reflexivity. Qed.
Lemma visit_if : forall f tst r, visit Q f (N KIf (NCons tst r)) = union (fin_noniso (visit Q f tst)) (visit_list Q f r).
Proof. reflexivity. Qed.
Lemma visit_while : forall f tst r, visit Q f (N KWhile (NCons tst r)) = union (fin_noniso (visit Q f tst)) (visit_list Q f r).
Proof. reflexivity. Qed.
Lemma visit_for : forall f tg it r, visit Q f (N KFor (NCons tg (NCons it r))) =
  union (fin_noniso (union (visit Q f tg) (visit Q f it))) (union (fin_noniso (visit Q f tg)) (visit_list Q f r)).
Proof. reflexivity. Qed.
Lemma facts_aug : forall tg v, facts Q (N KAug (NCons tg (NCons v NNil))) =
  (match tg with N (KName n Store) _ => [FRead n] | _ => [] end) ++ facts Q tg ++ facts Q v.
Proof. reflexivity. Qed.
Lemma facts_ann : forall tg v a, facts Q (N KAnn (NCons tg (NCons v (NCons a NNil)))) = facts Q tg ++ facts Q v ++ facts Q a.
Proof. reflexivity. Qed.
Lemma facts_for : forall tg it r, facts Q (N KFor (NCons tg (NCons it r))) = facts Q tg ++ facts Q it ++ facts_list Q r.
Proof. reflexivity. Qed.
End Eqs.

(* ---------------------------------------------------------------- inside comprehensions / annotations *)
Section Proofs.
Variable Q : quirks.

Definition nob (F : list fact) : Prop :=
  forall n, memf (FBind n) F = false /\ memf (FDeclG n) F = false /\ memf (FDeclN n) F = false.

(* the contribution of a cpure node: it binds nothing but exempt names and declares nothing *)
Definition C2 (s : scope) (F : list fact) : Prop :=
  (forall n, memq (QS n) (bd s) = true -> memf (FExempt n) F = true)
  /\ (forall n, memq (QS n) (gl s) = false) /\ (forall n, memq (QS n) (nl s) = false) /\ nob F.

Lemma nob_nil : nob [].
Proof. intro n; simpl; auto. Qed.

Lemma nob_app : forall F G, nob F -> nob G -> nob (F ++ G).
Proof.
  intros F G HF HG n. destruct (HF n) as [a [b c]]. destruct (HG n) as [a' [b' c']].
  rewrite !memf_app, a, b, c, a', b', c'. auto.
Qed.

Lemma C2_empty : C2 empty [].
Proof. repeat split; simpl; auto; discriminate. Qed.

Lemma C2_union : forall s1 s2 F1 F2, C2 s1 F1 -> C2 s2 F2 -> C2 (union s1 s2) (F1 ++ F2).
Proof.
  intros s1 s2 F1 F2 [b1 [g1 [n1 o1]]] [b2 [g2 [n2 o2]]]. repeat split; simpl.
  - intros n H. rewrite memq_app in H. rewrite memf_app. apply orb_true_iff in H. destruct H as [H|H].
    + rewrite (b1 n H). reflexivity.
    + rewrite (b2 n H). apply orb_true_r.
  - intros n. rewrite memq_app, g1, g2. reflexivity.
  - intros n. rewrite memq_app, n1, n2. reflexivity.
  - apply nob_app; assumption.
  - apply nob_app; assumption.
  - apply nob_app; assumption.
Qed.

Lemma C2_fin : forall s F, C2 s F -> C2 (fin_noniso s) F.
Proof. intros s F [b [g [n o]]]. repeat split; simpl; auto; apply o. Qed.

Lemma C2_fin_iso : forall h s, C2 (fin_iso h s) [].
Proof. intros h s. repeat split; simpl; auto; discriminate. Qed.

Lemma C2_nil_r : forall s F, C2 s F -> C2 s (F ++ []).
Proof. intros; rewrite app_nil_r; assumption. Qed.

Lemma C2_track_comp : forall f q c al, composite q -> C2 (track f q c al) [].
Proof.
  intros f q c al H. repeat split; simpl; auto.
  - intros n Hn. destruct (track_composite f q c al n H) as [E _]. rewrite E in Hn. discriminate.
  - intros n. destruct (track_composite f q c al n H) as [_ [E _]]. rewrite E. reflexivity.
  - intros n. destruct (track_composite f q c al n H) as [_ [_ E]]. rewrite E. reflexivity.
Qed.

Lemma C2_track_load : forall f m, C2 (track f (QS m) Load false) [FUse m; FRead m].
Proof.
  intros f m. unfold track.
  destruct (fl_annonly f && negb (fl_ann f)); [repeat split; simpl; auto; discriminate|].
  destruct (hidden f (QS m)); repeat split; simpl; auto; discriminate.
Qed.

Lemma memf_annot : forall x F, is_read x = false -> memf x (annot_facts Q F) = memf x F.
Proof.
  intros x F Hx. unfold annot_facts. destruct (q_annmiss Q); [|reflexivity].
  induction F as [|y F IH]; [reflexivity|]. simpl.
  destruct (is_read y) eqn:Ey; simpl.
  - rewrite IH. destruct x, y; simpl in *; try discriminate; reflexivity.
  - rewrite IH. reflexivity.
Qed.

Lemma nob_annot : forall F, nob F -> nob (annot_facts Q F).
Proof. intros F H n. rewrite !memf_annot by reflexivity. apply H. Qed.

Lemma nob_exempt : forall ns, nob (map FExempt ns).
Proof. intros ns n. rewrite !memf_map by (intro; reflexivity). auto. Qed.

Lemma nob_comp : forall ns, nob (map FComp ns).
Proof. intros ns n. rewrite !memf_map by (intro; reflexivity). auto. Qed.

Lemma nob_leak : forall args, nob (leak Q args).
Proof. intros args. unfold leak. destruct (q_leak Q); [apply nob_exempt | apply nob_nil]. Qed.

(* what the annotation pass over the parameter declarations contributes *)
Definition D2 (s : scope) (ts : nodes) : Prop :=
  (forall n, memq (QS n) (bd s) = true ->
     memf (FExempt n) (facts_decls Q ts) = true \/ (q_leak Q = true /\ mem_name n (arg_names ts) = true))
  /\ (forall n, memq (QS n) (gl s) = false) /\ (forall n, memq (QS n) (nl s) = false)
  /\ nob (facts_decls Q ts).

Lemma cp_visit : forall t f, cpure t = true -> C2 (visit Q f t) (facts Q t)
with cp_list : forall ts f, cpure_list ts = true -> C2 (visit_list Q f ts) (facts_list Q ts)
with cp_decls : forall ts f, fl_annonly f = true -> decls_ok ts = true -> D2 (visit_list Q f ts) ts
with cp_gens : forall ts f tg, gens_ok ts = true -> C2 (fst (visit_gens Q f tg ts)) (facts_gens Q ts).
Proof.
  - (* node *)
    intros t f H. destruct t as [k ch]. destruct k; simpl in H; try discriminate.
    + (* KGen *) simpl. apply cp_list; assumption.
    + (* KName *) destruct c; try discriminate. simpl. apply C2_track_load.
    + (* KAttr *)
      change (visit Q f (N (KAttr a c) ch)) with
        (union (visit_list Q f ch) (match qn_of (N (KAttr a c) ch) with
                                    | Some q => track f q c (fl_ctor f && sets_self q) | None => empty end)).
      change (facts Q (N (KAttr a c) ch)) with (facts_list Q ch).
      rewrite <- (app_nil_r (facts_list Q ch)). apply C2_union; [apply cp_list; assumption|].
      destruct (qn_of (N (KAttr a c) ch)) eqn:E; [|apply C2_empty].
      apply C2_track_comp. eapply qn_of_attr; eassumption.
    + (* KSub *)
      change (visit Q f (N (KSub c) ch)) with
        (union (visit_list Q f ch) (match qn_of (N (KSub c) ch) with
                                    | Some q => track f q c false | None => empty end)).
      change (facts Q (N (KSub c) ch)) with (facts_list Q ch).
      rewrite <- (app_nil_r (facts_list Q ch)). apply C2_union; [apply cp_list; assumption|].
      destruct (qn_of (N (KSub c) ch)) eqn:E; [|apply C2_empty].
      apply C2_track_comp. eapply qn_of_sub; eassumption.
    + (* KConst *) simpl. apply C2_empty.
    + (* KLambda *)
      destruct ch as [|[ka [|dflt [|[kd decls] [|]]]] [|body [|]]]; simpl in H; try discriminate;
        destruct kd; simpl in H; try discriminate.
      apply andb_true_iff in H. destruct H as [H Hb]. apply andb_true_iff in H. destruct H as [Hd Hk].
      rewrite visit_lambda, facts_lambda, visit_args_annot_eq, facts_args_eq, visit_gen.
      set (f' := enter f false false).
      rewrite <- (app_nil_r (_ ++ leak Q _)).
      apply C2_union; [|apply C2_fin_iso].
      apply C2_fin.
      pose proof (cp_visit dflt f' Hd) as [b1 [g1 [n1 o1]]].
      pose proof (cp_decls decls (with_annonly f') eq_refl Hk) as [b2 [g2 [n2 o2]]].
      repeat split; simpl.
      * intros n Hn. rewrite memq_app in Hn. rewrite !memf_app. apply orb_true_iff in Hn. destruct Hn as [Hn|Hn].
        -- rewrite (b1 n Hn). reflexivity.
        -- destruct (b2 n Hn) as [E|[E1 E2]].
           ++ rewrite memf_annot by reflexivity. rewrite E. btauto.
           ++ unfold leak. rewrite E1. simpl params.
              rewrite (memf_map_same FExempt) by (intro; reflexivity). rewrite E2. btauto.
      * intros n. rewrite memq_app, g1, g2. reflexivity.
      * intros n. rewrite memq_app, n1, n2. reflexivity.
      * apply nob_app; [apply nob_app; [assumption | apply nob_annot; assumption] | apply nob_leak].
      * apply nob_app; [apply nob_app; [assumption | apply nob_annot; assumption] | apply nob_leak].
      * apply nob_app; [apply nob_app; [assumption | apply nob_annot; assumption] | apply nob_leak].
    + (* KComp *)
      destruct ch as [|[kg gens] [|elts [|]]]; simpl in H; try discriminate.
      apply andb_true_iff in H. destruct H as [Hg He].
      rewrite visit_comp, facts_comp. pose proof (cp_gens gens f (fl_tg f) Hg) as G.
      destruct (visit_gens Q f (fl_tg f) gens) as [s tg]. simpl in G.
      apply C2_union; [assumption | apply cp_visit; assumption].
  - (* list *)
    intros ts f H. destruct ts as [|t r]; simpl.
    + apply C2_empty.
    + simpl in H. apply andb_true_iff in H. destruct H as [H1 H2].
      apply C2_union; [apply cp_visit | apply cp_list]; assumption.
  - (* parameter declarations, annotation pass *)
    intros ts f Ha H. destruct ts as [|t r].
    + repeat split; simpl; auto; try discriminate.
    + destruct t as [k ch]. simpl in H. destruct k; try discriminate.
      apply andb_true_iff in H. destruct H as [Hc Hr].
      pose proof (cp_decls r f Ha Hr) as [b2 [g2 [n2 o2]]].
      assert (A : C2 (if q_annmiss Q then visit_list Q f ch else visit_list Q (with_ann f) ch) (facts_list Q ch)).
      { destruct (q_annmiss Q); apply cp_list; assumption. }
      destruct A as [b1 [g1 [n1 o1]]].
      unfold D2. rewrite visit_cons, visit_arg, Ha, facts_decls_cons.
      repeat split.
      * intros m Hm. simpl facts_decls. simpl arg_names. simpl in Hm. rewrite !memq_app in Hm.
        rewrite memf_app. simpl mem_name.
        apply orb_true_iff in Hm. destruct Hm as [Hm|Hm]; [apply orb_true_iff in Hm; destruct Hm as [Hm|Hm]|].
        -- left. rewrite (b1 m Hm). reflexivity.
        -- destruct (q_leak Q) eqn:El; simpl in Hm; [|discriminate].
           right. split; [reflexivity|]. rewrite orb_false_r in Hm. rewrite Hm. reflexivity.
        -- destruct (b2 m Hm) as [E|[E1 E2]]; [left; rewrite E; apply orb_true_r | right; split; [assumption|rewrite E2; apply orb_true_r]].
      * intros m. simpl. rewrite !memq_app, g1, g2. destruct (q_leak Q); reflexivity.
      * intros m. simpl. rewrite !memq_app, n1, n2. destruct (q_leak Q); reflexivity.
      * simpl facts_decls. apply nob_app; assumption.
      * simpl facts_decls. apply nob_app; assumption.
      * simpl facts_decls. apply nob_app; assumption.
  - (* generators *)
    intros ts f tg H. destruct ts as [|t r]; [apply C2_empty|].
    destruct t as [k [|tgt [|it [|ifs [|]]]]]; simpl in H; try discriminate.
    apply andb_true_iff in H. destruct H as [H Hr]. apply andb_true_iff in H. destruct H as [Hi Hf].
    rewrite visit_gens_cons, facts_gens_cons. cbv zeta.
    pose proof (cp_gens r f (tg ++ targets tgt) Hr) as G.
    destruct (visit_gens Q f (tg ++ targets tgt) r) as [s3 tg'']. simpl fst in *.
    (* s1 and the second visit of iter both bind nothing *)
    pose proof (cp_visit it (with_tg f tg) Hi) as [b1 [g1 [n1 o1]]].
    pose proof (cp_visit it (with_tg f (tg ++ targets tgt)) Hi) as [b1' [g1' [n1' o1']]].
    pose proof (cp_visit ifs (with_tg f (tg ++ targets tgt)) Hf) as [b2 [g2 [n2 o2]]].
    destruct G as [b3 [g3 [n3 o3]]].
    repeat split; simpl.
    + intros n Hn. rewrite !memq_app in Hn. rewrite !memf_app.
      repeat (apply orb_true_iff in Hn; destruct Hn as [Hn|Hn]).
      * rewrite (b1 n Hn). btauto.
      * rewrite (b1' n Hn). btauto.
      * rewrite (b2 n Hn). btauto.
      * rewrite (b3 n Hn). btauto.
    + intros n. rewrite !memq_app, g1, g1', g2, g3. reflexivity.
    + intros n. rewrite !memq_app, n1, n1', n2, n3. reflexivity.
    + apply nob_app; [apply nob_comp|]. repeat apply nob_app; assumption.
    + apply nob_app; [apply nob_comp|]. repeat apply nob_app; assumption.
    + apply nob_app; [apply nob_comp|]. repeat apply nob_app; assumption.
Qed.

(*MAIN*)
(* ---------------------------------------------------------------- the main invariant *)
Definition fok (f : flags) : Prop := fl_annonly f = false /\ fl_incomp f = false /\ fl_tg f = [].
Definition bnd (n : name) (F : list fact) : bool := memf (FBind n) F || memf (FDeclN n) F.

(* what a node adds to bound / globals / nonlocals of the enclosing scope is what the binding rule
   says it binds / declares in the block (names exempt in the node aside) *)
Definition C3 (s : scope) (F : list fact) : Prop :=
  (forall n, exemptf n F = false -> memq (QS n) (bd s) = bnd n F)
  /\ (forall n, memq (QS n) (gl s) = memf (FDeclG n) F)
  /\ (forall n, memq (QS n) (nl s) = memf (FDeclN n) F).

Lemma exemptf_app : forall n F G, exemptf n (F ++ G) = exemptf n F || exemptf n G.
Proof. intros. unfold exemptf. rewrite !memf_app. btauto. Qed.

Lemma bnd_app : forall n F G, bnd n (F ++ G) = bnd n F || bnd n G.
Proof. intros. unfold bnd. rewrite !memf_app. btauto. Qed.

Lemma C3_empty : C3 empty [].
Proof. repeat split; simpl; auto. Qed.

Lemma C3_union : forall s1 s2 F1 F2, C3 s1 F1 -> C3 s2 F2 -> C3 (union s1 s2) (F1 ++ F2).
Proof.
  intros s1 s2 F1 F2 [b1 [g1 n1]] [b2 [g2 n2]]. repeat split; simpl.
  - intros n H. rewrite exemptf_app in H. apply orb_false_iff in H. destruct H as [H1 H2].
    rewrite memq_app, bnd_app, (b1 n H1), (b2 n H2). reflexivity.
  - intros n. rewrite memq_app, memf_app, g1, g2. reflexivity.
  - intros n. rewrite memq_app, memf_app, n1, n2. reflexivity.
Qed.

Lemma C3_fin : forall s F, C3 s F -> C3 (fin_noniso s) F.
Proof. intros s F [b [g n]]. repeat split; simpl; auto. Qed.

Lemma C3_fin_iso : forall h s, C3 (fin_iso h s) [].
Proof. intros h s. repeat split; simpl; auto. Qed.

Definition rel (x : fact) : bool :=
  match x with FBind _ | FDeclG _ | FDeclN _ | FExempt _ | FComp _ => true | _ => false end.

Lemma C3_ext : forall s F G, (forall x, rel x = true -> memf x F = memf x G) -> C3 s F -> C3 s G.
Proof.
  intros s F G E [b [g n]]. unfold C3, exemptf, bnd in *. repeat split.
  - intros m H. rewrite <- (E (FExempt m) eq_refl), <- (E (FComp m) eq_refl) in H.
    rewrite <- (E (FBind m) eq_refl), <- (E (FDeclN m) eq_refl). apply b; assumption.
  - intros m. rewrite <- (E (FDeclG m) eq_refl). apply g.
  - intros m. rewrite <- (E (FDeclN m) eq_refl). apply n.
Qed.

Lemma C3_of_C2 : forall s F, C2 s F -> C3 s F.
Proof.
  intros s F [b [g [n o]]]. repeat split.
  - intros m H. unfold exemptf in H. apply orb_false_iff in H. destruct H as [H _].
    unfold bnd. destruct (o m) as [o1 [_ o3]]. rewrite o1, o3. simpl.
    destruct (memq (QS m) (bd s)) eqn:E; [|reflexivity]. rewrite (b m E) in H. discriminate.
  - intros m. destruct (o m) as [_ [o2 _]]. rewrite g, o2. reflexivity.
  - intros m. destruct (o m) as [_ [_ o3]]. rewrite n, o3. reflexivity.
Qed.

Lemma C3_bind_name : forall n, C3 (bind_name n) [FBind n; FWrite n].
Proof.
  intros n. repeat split; simpl; auto. intros m _. unfold bnd; simpl. btauto.
Qed.

Lemma hidden_fok : forall f q, fok f -> hidden f q = false.
Proof.
  intros f q [_ [_ H]]. unfold hidden. rewrite H. simpl.
  induction (owners q); simpl; auto.
Qed.

Lemma C3_track : forall f n c ch, fok f -> C3 (track f (QS n) c false) (facts Q (N (KName n c) ch)).
Proof.
  intros f n c ch H. unfold track. rewrite (hidden_fok f (QS n) H).
  destruct H as [H1 [H2 _]]. rewrite H1, H2. simpl.
  destruct c; repeat split; simpl; auto; intros m _; unfold bnd; simpl; btauto.
Qed.

Lemma C3_handler : forall nm s F, C3 s F ->
  C3 (fin_handler nm s) (match nm with Some m => FBind m :: FExempt m :: F | None => F end).
Proof.
  intros nm s F [b [g n]]. destruct nm as [m|]; repeat split; simpl; auto.
  - intros k H. unfold exemptf in H. simpl in H.
    rewrite memq_minus, memq_single. unfold bnd. simpl.
    destruct (Nat.eqb k m) eqn:E; simpl in *; [discriminate|].
    rewrite b by exact H. unfold bnd. btauto.
  - intros k H. rewrite memq_minus. simpl. rewrite andb_true_r. apply b; assumption.
Qed.

Lemma fok_aug : forall f, fok f -> fok (with_aug f).
Proof. intros f H; exact H. Qed.
Lemma fok_ann : forall f, fok f -> fok (with_ann f).
Proof. intros f H; exact H. Qed.
Lemma fok_enter : forall f a b, fok f -> fok (enter f a b).
Proof. intros f a b H; exact H. Qed.

(* _visit_arg_annotations of a well-formed arguments node, seen from the defining block *)
Lemma C3_args_annot : forall f ka dflt decls,
  C3 (visit Q f dflt) (facts Q dflt) -> decls_ok decls = true ->
  C3 (visit_args_annot Q f (N ka (NCons dflt (NCons (N KGen decls) NNil))))
     (facts_args Q (N ka (NCons dflt (NCons (N KGen decls) NNil)))
      ++ leak Q (N ka (NCons dflt (NCons (N KGen decls) NNil)))).
Proof.
  intros f ka dflt decls [b1 [g1 n1]] Hk.
  rewrite visit_args_annot_eq, facts_args_eq, visit_gen.
  pose proof (cp_decls decls (with_annonly f) eq_refl Hk) as [b2 [g2 [n2 o2]]].
  assert (L : forall m, memf (FDeclG m) (leak Q (N ka (NCons dflt (NCons (N KGen decls) NNil)))) = false
                     /\ memf (FDeclN m) (leak Q (N ka (NCons dflt (NCons (N KGen decls) NNil)))) = false
                     /\ memf (FBind m) (leak Q (N ka (NCons dflt (NCons (N KGen decls) NNil)))) = false).
  { intros m. destruct (nob_leak (N ka (NCons dflt (NCons (N KGen decls) NNil))) m) as [x [y z]]. auto. }
  repeat split; simpl.
  - intros m H. rewrite !exemptf_app in H. apply orb_false_iff in H. destruct H as [H H3].
    apply orb_false_iff in H. destruct H as [H1 H2].
    destruct (L m) as [_ [l2 l3]]. destruct (o2 m) as [p1 [_ p3]].
    assert (Z1 : memq (QS m) (bd (visit_list Q (with_annonly f) decls)) = false).
    { destruct (memq (QS m) (bd (visit_list Q (with_annonly f) decls))) eqn:E; [|reflexivity].
      exfalso. destruct (b2 m E) as [X|[X1 X2]].
      + unfold exemptf in H2. rewrite memf_annot in H2 by reflexivity. rewrite X in H2. discriminate.
      + unfold exemptf, leak in H3. rewrite X1 in H3. simpl params in H3.
        rewrite (memf_map_same FExempt) in H3 by (intro; reflexivity). rewrite X2 in H3. discriminate. }
    assert (Z2 : bnd m (annot_facts Q (facts_decls Q decls)) = false).
    { unfold bnd. rewrite !memf_annot by reflexivity. rewrite p1, p3. reflexivity. }
    assert (Z3 : bnd m (leak Q (N ka (NCons dflt (NCons (N KGen decls) NNil)))) = false).
    { unfold bnd. rewrite l2, l3. reflexivity. }
    rewrite memq_app, !bnd_app, (b1 m H1), Z1, Z2, Z3. btauto.
  - intros m. destruct (L m) as [l1 _]. destruct (o2 m) as [_ [p2 _]].
    rewrite memq_app, !memf_app, g1, g2, l1, memf_annot, p2 by reflexivity. btauto.
  - intros m. destruct (L m) as [_ [l2 _]]. destruct (o2 m) as [_ [_ p3]].
    rewrite memq_app, !memf_app, n1, n2, l2, memf_annot, p3 by reflexivity. btauto.
Qed.

Lemma m_visit : forall t f, fok f -> wf t = true -> C3 (visit Q f t) (facts Q t)
with m_list : forall ts f, fok f -> wf_list ts = true -> C3 (visit_list Q f ts) (facts_list Q ts).
Proof.
  - intros t f Hf H. destruct t as [k ch]. destruct k; simpl in H; try discriminate.
    + (* KGen *) rewrite visit_gen. apply m_list; assumption.
    + (* KStmt *) rewrite visit_stmt. apply C3_fin. apply m_list; assumption.
    + (* KName *) rewrite visit_name. apply C3_track; assumption.
    + (* KAttr *)
      rewrite visit_attr. change (facts Q (N (KAttr a c) ch)) with (facts_list Q ch).
      rewrite <- (app_nil_r (facts_list Q ch)). apply C3_union; [apply m_list; assumption|].
      destruct (qn_of (N (KAttr a c) ch)) eqn:E; [|apply C3_empty].
      apply C3_of_C2, C2_track_comp. eapply qn_of_attr; eassumption.
    + (* KSub *)
      rewrite visit_sub. change (facts Q (N (KSub c) ch)) with (facts_list Q ch).
      rewrite <- (app_nil_r (facts_list Q ch)). apply C3_union; [apply m_list; assumption|].
      destruct (qn_of (N (KSub c) ch)) eqn:E; [|apply C3_empty].
      apply C3_of_C2, C2_track_comp. eapply qn_of_sub; eassumption.
    + (* KConst *) apply C3_empty.
    + (* KAug *)
      destruct ch as [|tg [|v [|]]]; try discriminate.
      apply andb_true_iff in H. destruct H as [H1 H2].
      rewrite visit_aug, facts_aug. apply C3_fin.
      apply (C3_ext _ (facts Q tg ++ facts Q v)).
      { intros x Hx. rewrite !memf_app. destruct tg as [[] ?]; simpl; try reflexivity.
        destruct c; simpl; try reflexivity. destruct x; simpl in *; try reflexivity; discriminate. }
      apply C3_union; [apply m_visit; [apply fok_aug|]; assumption | apply m_visit; assumption].
    + (* KAnn *)
      destruct ch as [|tg [|v [|a [|]]]]; try discriminate.
      apply andb_true_iff in H. destruct H as [H H3]. apply andb_true_iff in H. destruct H as [H1 H2].
      rewrite visit_ann, facts_ann. apply C3_fin.
      apply C3_union; [apply m_visit; assumption|].
      apply C3_union; [apply m_visit; assumption | apply m_visit; [apply fok_ann|]; assumption].
    + (* KGlobal *)
      rewrite visit_global. apply C3_fin. repeat split; simpl.
      * intros m _. unfold bnd. change (facts Q (N (KGlobal ns) ch)) with (map FDeclG ns).
        rewrite !memf_map by (intro; reflexivity). reflexivity.
      * intros m. change (facts Q (N (KGlobal ns) ch)) with (map FDeclG ns).
        rewrite memq_names, (memf_map_same FDeclG) by (intro; reflexivity). reflexivity.
      * intros m. change (facts Q (N (KGlobal ns) ch)) with (map FDeclG ns).
        rewrite memf_map by (intro; reflexivity). reflexivity.
    + (* KNonlocal *)
      rewrite visit_nonlocal. apply C3_fin. repeat split; simpl.
      * intros m _. unfold bnd. change (facts Q (N (KNonlocal ns) ch)) with (map FDeclN ns).
        rewrite memq_names, (memf_map_same FDeclN) by (intro; reflexivity).
        rewrite memf_map by (intro; reflexivity). reflexivity.
      * intros m. change (facts Q (N (KNonlocal ns) ch)) with (map FDeclN ns).
        rewrite memf_map by (intro; reflexivity). reflexivity.
      * intros m. change (facts Q (N (KNonlocal ns) ch)) with (map FDeclN ns).
        rewrite memq_names, (memf_map_same FDeclN) by (intro; reflexivity). reflexivity.
    + (* KAlias *)
      rewrite visit_alias. change (facts Q (N (KAlias n) ch)) with ([FBind n; FWrite n] ++ facts_list Q ch).
      apply (C3_ext _ (facts_list Q ch ++ [FBind n; FWrite n])).
      { intros x _. rewrite !memf_app. btauto. }
      apply C3_union; [apply m_list; assumption | apply C3_bind_name].
    + (* KIf *)
      destruct ch as [|tst r]; try discriminate.
      apply andb_true_iff in H. destruct H as [H1 H2].
      rewrite visit_if. change (facts Q (N KIf (NCons tst r))) with (facts Q tst ++ facts_list Q r).
      apply C3_union; [apply C3_fin, m_visit | apply m_list]; assumption.
    + (* KWhile *)
      destruct ch as [|tst r]; try discriminate.
      apply andb_true_iff in H. destruct H as [H1 H2].
      rewrite visit_while. change (facts Q (N KWhile (NCons tst r))) with (facts Q tst ++ facts_list Q r).
      apply C3_union; [apply C3_fin, m_visit | apply m_list]; assumption.
    + (* KFor *)
      destruct ch as [|tg [|it r]]; try discriminate.
      apply andb_true_iff in H. destruct H as [H H3]. apply andb_true_iff in H. destruct H as [H1 H2].
      rewrite visit_for, facts_for.
      apply (C3_ext _ ((facts Q tg ++ facts Q it) ++ (facts Q tg ++ facts_list Q r))).
      { intros x _. rewrite !memf_app. btauto. }
      apply C3_union; [apply C3_fin, C3_union; apply m_visit; assumption|].
      apply C3_union; [apply C3_fin, m_visit | apply m_list]; assumption.
    + (* KWith *) rewrite visit_with. apply C3_fin. apply m_list; assumption.
    + (* KBlock *) rewrite visit_block. apply C3_fin. apply m_list; assumption.
    + (* KHandler *)
      rewrite visit_handler.
      replace (facts Q (N (KHandler nm) ch))
        with (match nm with Some m => FBind m :: FExempt m :: facts_list Q ch | None => facts_list Q ch end)
        by (destruct nm; reflexivity).
      apply C3_handler. apply m_list; assumption.
    + (* KDef *)
      destruct ch as [|decos [|rets [|[ka [|dflt [|[kd decls] [|]]]] [|body [|]]]]]; simpl in H; try discriminate;
        destruct kd; simpl in H; try discriminate.
      repeat (apply andb_true_iff in H; let X := fresh "W" in destruct H as [H X]).
      rewrite visit_def, facts_def. cbv zeta.
      set (f' := enter f false (fl_pcls f && Nat.eqb n INIT)).
      assert (Hf' : fok f') by (apply fok_enter; assumption).
      rewrite <- (app_nil_r (FBind n :: _)).
      apply C3_union; [|apply C3_fin_iso]. apply C3_fin.
      apply (C3_ext _ (facts Q decos ++ facts Q rets
                        ++ (facts_args Q (N ka (NCons dflt (NCons (N KGen decls) NNil)))
                            ++ leak Q (N ka (NCons dflt (NCons (N KGen decls) NNil)))) ++ [FBind n; FWrite n])).
      { intros x _. rewrite ?memf_cons, ?memf_app, ?memf_cons, ?memf_app, ?memf_cons, ?memf_nil. btauto. }
      apply C3_union; [apply m_visit; assumption|].
      apply C3_union; [apply m_visit; [apply fok_ann|]; assumption|].
      apply C3_union; [|apply C3_bind_name].
      apply C3_args_annot; [apply m_visit|]; assumption.
    + (* KLambda *)
      destruct ch as [|[ka [|dflt [|[kd decls] [|]]]] [|body [|]]]; simpl in H; try discriminate;
        destruct kd; simpl in H; try discriminate.
      repeat (apply andb_true_iff in H; let X := fresh "W" in destruct H as [H X]).
      rewrite visit_lambda, facts_lambda.
      set (f' := enter f false false).
      assert (Hf' : fok f') by (apply fok_enter; assumption).
      rewrite <- (app_nil_r (_ ++ leak Q _)).
      apply C3_union; [|apply C3_fin_iso]. apply C3_fin.
      apply C3_args_annot; [apply m_visit|]; assumption.
    + (* KClass *)
      destruct ch as [|decos [|bases [|body [|]]]]; try discriminate.
      repeat (apply andb_true_iff in H; let X := fresh "W" in destruct H as [H X]).
      rewrite visit_class, facts_class. cbv zeta.
      set (f' := enter f true false).
      assert (Hf' : fok f') by (apply fok_enter; assumption).
      rewrite <- (app_nil_r (FBind n :: _)).
      apply C3_union; [|apply C3_fin_iso]. apply C3_fin.
      apply (C3_ext _ (facts Q decos ++ [FBind n; FWrite n] ++ facts Q bases)).
      { intros x _. rewrite ?memf_cons, ?memf_app, ?memf_cons, ?memf_app, ?memf_cons, ?memf_nil. btauto. }
      apply C3_union; [apply m_visit; assumption|].
      apply C3_union; [apply C3_bind_name | apply m_visit; assumption].
    + (* KComp *)
      apply C3_of_C2, cp_visit. exact H.
  - intros ts f Hf H. destruct ts as [|t r].
    + apply C3_empty.
    + simpl in H. apply andb_true_iff in H. destruct H as [H1 H2].
      rewrite visit_cons, facts_cons. apply C3_union; [apply m_visit | apply m_list]; assumption.
Qed.

(* ---------------------------------------------------------------- parameters *)
Lemma pr_track : forall f q c al, pr (track f q c al) = [].
Proof.
  intros f q c al. unfold track.
  destruct (fl_annonly f && negb (fl_ann f)); [reflexivity|].
  destruct (hidden f q); [reflexivity|].
  destruct c; [reflexivity| |reflexivity]. destruct (fl_incomp f); reflexivity.
Qed.

Lemma pr_union : forall s1 s2, pr s1 = [] -> pr s2 = [] -> pr (union s1 s2) = [].
Proof. intros s1 s2 H1 H2. simpl. rewrite H1, H2. reflexivity. Qed.

Lemma prn_visit : forall t f, cpure t = true -> pr (visit Q f t) = []
with prn_list : forall ts f, cpure_list ts = true -> pr (visit_list Q f ts) = []
with prn_gens : forall ts f tg, gens_ok ts = true -> pr (fst (visit_gens Q f tg ts)) = [].
Proof.
  - intros t f H. destruct t as [k ch]. destruct k; simpl in H; try discriminate.
    + rewrite visit_gen. apply prn_list; assumption.
    + rewrite visit_name. apply pr_track.
    + rewrite visit_attr. apply pr_union; [apply prn_list; assumption|].
      destruct (qn_of (N (KAttr a c) ch)); [apply pr_track | reflexivity].
    + rewrite visit_sub. apply pr_union; [apply prn_list; assumption|].
      destruct (qn_of (N (KSub c) ch)); [apply pr_track | reflexivity].
    + reflexivity.
    + destruct ch as [|[ka [|dflt [|[kd decls] [|]]]] [|body [|]]]; simpl in H; try discriminate;
        destruct kd; simpl in H; try discriminate.
      rewrite visit_lambda. reflexivity.
    + destruct ch as [|[kg gens] [|elts [|]]]; simpl in H; try discriminate.
      apply andb_true_iff in H. destruct H as [Hg He].
      rewrite visit_comp. pose proof (prn_gens gens f (fl_tg f) Hg) as G.
      destruct (visit_gens Q f (fl_tg f) gens) as [s tg]. simpl in G.
      apply pr_union; [assumption | apply prn_visit; assumption].
  - intros ts f H. destruct ts as [|t r]; [reflexivity|].
    simpl in H. apply andb_true_iff in H. destruct H as [H1 H2].
    rewrite visit_cons. apply pr_union; [apply prn_visit | apply prn_list]; assumption.
  - intros ts f tg H. destruct ts as [|t r]; [reflexivity|].
    destruct t as [k [|tgt [|it [|ifs [|]]]]]; simpl in H; try discriminate.
    apply andb_true_iff in H. destruct H as [H Hr]. apply andb_true_iff in H. destruct H as [Hi Hf].
    rewrite visit_gens_cons. cbv zeta.
    pose proof (prn_gens r f (tg ++ targets tgt) Hr) as G.
    destruct (visit_gens Q f (tg ++ targets tgt) r) as [s3 tg'']. simpl fst in *.
    repeat apply pr_union; try assumption; apply prn_visit; assumption.
Qed.

(* _visit_arg_declarations, inside the function's own scope *)
Lemma decl_pass : forall ts f, fl_annonly f = false -> decls_ok ts = true ->
  (forall n, exemptf n (facts_decls Q ts) = false ->
     memq (QS n) (bd (visit_list Q f ts)) = mem_name n (arg_names ts))
  /\ (forall n, memq (QS n) (gl (visit_list Q f ts)) = false)
  /\ (forall n, memq (QS n) (nl (visit_list Q f ts)) = false)
  /\ (forall n, memq (QS n) (pr (visit_list Q f ts)) = mem_name n (arg_names ts)).
Proof.
  intros ts f Ha. induction ts as [|t r IH]; intros H.
  - repeat split; reflexivity.
  - destruct t as [k ch]. simpl in H. destruct k; try discriminate.
    apply andb_true_iff in H. destruct H as [Hc Hr].
    destruct (IH Hr) as [b2 [g2 [n2 p2]]].
    assert (A : C2 (if q_annfn Q then visit_list Q f ch else empty) (facts_list Q ch)).
    { destruct (q_annfn Q); [apply cp_list; assumption|].
      destruct (cp_list ch f Hc) as [_ [_ [_ o]]]. repeat split; simpl; auto; try discriminate; apply o. }
    assert (P : pr (if q_annfn Q then visit_list Q f ch else empty) = []).
    { destruct (q_annfn Q); [apply prn_list; assumption | reflexivity]. }
    destruct A as [b1 [g1 [n1 o1]]].
    rewrite visit_cons, visit_arg, Ha, facts_decls_cons.
    repeat split.
    + intros m Hm. rewrite exemptf_app in Hm. apply orb_false_iff in Hm. destruct Hm as [Hm1 Hm2].
      simpl bd. rewrite !memq_app, (b2 m Hm2). simpl arg_names. simpl mem_name.
      assert (Z : memq (QS m) (bd (if q_annfn Q then visit_list Q f ch else empty)) = false).
      { destruct (memq (QS m) (bd (if q_annfn Q then visit_list Q f ch else empty))) eqn:E; [|reflexivity].
        unfold exemptf in Hm1. rewrite (b1 m E) in Hm1. discriminate. }
      rewrite Z. simpl. rewrite orb_false_r. reflexivity.
    + intros m. simpl gl. rewrite !memq_app, g1, g2. reflexivity.
    + intros m. simpl nl. rewrite !memq_app, n1, n2. reflexivity.
    + intros m. simpl pr. rewrite P. simpl. rewrite p2. reflexivity.
Qed.

(* ---------------------------------------------------------------- functions *)
(* the scope of a def / lambda with arguments node `args` (well-formed: N _ [defaults; N KGen decls])
   and body `body`, analysed under flags f' *)
Lemma fn_scope_matches : forall f ka dflt decls body n,
  fok f -> decls_ok decls = true -> wf body = true ->
  let args := N ka (NCons dflt (NCons (N KGen decls) NNil)) in
  let sc := fn_scope Q f args body in
  (exemptf n (facts_decls Q decls) = false -> exempt Q body n = false ->
     memq (QS n) (bd sc) && negb (memq (QS n) (gl sc)) && negb (memq (QS n) (nl sc)) = is_local Q args body n)
  /\ memq (QS n) (gl sc) = declared_global Q body n
  /\ memq (QS n) (nl sc) = declared_nonlocal Q body n
  /\ memq (QS n) (pr (visit_args_decl Q f args)) = is_param args n.
Proof.
  intros f ka dflt decls body n Hf Hd Hb args sc.
  destruct (m_visit body f Hf Hb) as [b1 [g1 n1]].
  destruct Hf as [Ha _].
  destruct (decl_pass decls f Ha Hd) as [b2 [g2 [n2 p2]]].
  assert (G : memq (QS n) (gl sc) = declared_global Q body n).
  { unfold sc, fn_scope, args. rewrite visit_args_decl_eq, visit_gen. simpl gl.
    rewrite memq_app, g2, g1. reflexivity. }
  assert (NL : memq (QS n) (nl sc) = declared_nonlocal Q body n).
  { unfold sc, fn_scope, args. rewrite visit_args_decl_eq, visit_gen. simpl nl.
    rewrite memq_app, n2, n1. reflexivity. }
  repeat split; try assumption.
  - intros E1 E2. rewrite G, NL. unfold sc, fn_scope, args. rewrite visit_args_decl_eq, visit_gen. simpl bd.
    rewrite memq_app, (b2 n E1), (b1 n E2). unfold is_local, is_param, declared_global, declared_nonlocal, bnd.
    simpl params. btauto.
  - unfold args. rewrite visit_args_decl_eq, visit_gen. apply p2.
Qed.

(* ---------------------------------------------------------------- statements *)
(* expressions and targets of simple statements: names, attributes, subscripts, constants, generic
   nodes (operators, calls, tuples, ...), import aliases *)
Fixpoint fexpr (t : node) {struct t} : bool :=
  match t with
  | N k ch =>
    match k with
    | KGen | KName _ _ | KAttr _ _ | KSub _ | KConst _ | KAlias _ => fexpr_list ch
    | _ => false
    end
  end
with fexpr_list (ts : nodes) {struct ts} : bool :=
  match ts with NNil => true | NCons t r => fexpr t && fexpr_list r end.

(* every name the evaluation rule says is read / written / deleted is in read / modified / deleted *)
Definition R3 (s : scope) (F : list fact) : Prop :=
  (forall n, memf (FRead n) F = true -> memq (QS n) (rd s) = true)
  /\ (forall n, memf (FWrite n) F = true -> memq (QS n) (md s) = true)
  /\ (forall n, memf (FDel n) F = true -> memq (QS n) (dl s) = true).

Lemma R3_nil : forall s, R3 s [].
Proof. intros s. repeat split; simpl; intros; discriminate. Qed.

Lemma R3_union : forall s1 s2 F1 F2, R3 s1 F1 -> R3 s2 F2 -> R3 (union s1 s2) (F1 ++ F2).
Proof.
  intros s1 s2 F1 F2 [r1 [w1 d1]] [r2 [w2 d2]]. repeat split; simpl; intros n H;
    rewrite memf_app in H; rewrite memq_app; apply orb_true_iff in H; destruct H as [H|H].
  - rewrite (r1 n H). reflexivity.
  - rewrite (r2 n H). apply orb_true_r.
  - rewrite (w1 n H). reflexivity.
  - rewrite (w2 n H). apply orb_true_r.
  - rewrite (d1 n H). reflexivity.
  - rewrite (d2 n H). apply orb_true_r.
Qed.

Lemma R3_track : forall f n c ch, fok f -> R3 (track f (QS n) c false) (facts Q (N (KName n c) ch)).
Proof.
  intros f n c ch H. unfold track. rewrite (hidden_fok f (QS n) H).
  destruct H as [H1 [H2 _]]. rewrite H1, H2. simpl.
  destruct c; repeat split; simpl; intros m Hm; rewrite ?orb_false_r in *; try discriminate; try assumption.
Qed.

Lemma r_visit : forall t f, fok f -> fexpr t = true -> R3 (visit Q f t) (facts Q t)
with r_list : forall ts f, fok f -> fexpr_list ts = true -> R3 (visit_list Q f ts) (facts_list Q ts).
Proof.
  - intros t f Hf H. destruct t as [k ch]. destruct k; simpl in H; try discriminate.
    + rewrite visit_gen. apply r_list; assumption.
    + rewrite visit_name. apply R3_track; assumption.
    + rewrite visit_attr. change (facts Q (N (KAttr a c) ch)) with (facts_list Q ch).
      rewrite <- (app_nil_r (facts_list Q ch)). apply R3_union; [apply r_list; assumption | apply R3_nil].
    + rewrite visit_sub. change (facts Q (N (KSub c) ch)) with (facts_list Q ch).
      rewrite <- (app_nil_r (facts_list Q ch)). apply R3_union; [apply r_list; assumption | apply R3_nil].
    + apply R3_nil.
    + rewrite visit_alias. change (facts Q (N (KAlias n) ch)) with ([FBind n; FWrite n] ++ facts_list Q ch).
      destruct (r_list ch f Hf H) as [r1 [w1 d1]].
      repeat split; simpl; intros m Hm; rewrite memq_app.
      * rewrite (r1 m Hm). reflexivity.
      * rewrite memq_single. destruct (Nat.eqb m n) eqn:E; simpl in Hm; [apply orb_true_r | rewrite (w1 m Hm); reflexivity].
      * rewrite (d1 m Hm). reflexivity.
  - intros ts f Hf H. destruct ts as [|t r]; [apply R3_nil|].
    simpl in H. apply andb_true_iff in H. destruct H as [H1 H2].
    rewrite visit_cons, facts_cons. apply R3_union; [apply r_visit | apply r_list]; assumption.
Qed.

(* the scope recorded on an augmented assignment *)
Lemma r_aug : forall f tg v, fok f -> fexpr tg = true -> fexpr v = true ->
  R3 (union (visit Q (with_aug f) tg) (visit Q f v)) (facts Q (N KAug (NCons tg (NCons v NNil)))).
Proof.
  intros f tg v Hf H1 H2. rewrite facts_aug.
  pose proof (r_visit tg (with_aug f) (fok_aug f Hf) H1) as A.
  pose proof (r_visit v f Hf H2) as B.
  pose proof (R3_union _ _ _ _ A B) as [r [w d]].
  repeat split; intros n H; rewrite memf_app in H; apply orb_true_iff in H; destruct H as [H|H]; auto.
  - destruct tg as [[] ch]; simpl in H; try discriminate. destruct c; simpl in H; try discriminate.
    rewrite orb_false_r in H. apply Nat.eqb_eq in H; subst n0.
    simpl rd. rewrite memq_app, visit_name. unfold track. rewrite (hidden_fok _ (QS n) (fok_aug f Hf)).
    destruct Hf as [X1 [X2 _]]. simpl. rewrite X1, X2. simpl. rewrite Nat.eqb_refl. reflexivity.
  - destruct tg as [[] ch]; simpl in H; try discriminate. destruct c; simpl in H; discriminate.
  - destruct tg as [[] ch]; simpl in H; try discriminate. destruct c; simpl in H; discriminate.
Qed.

(* ---------------------------------------------------------------- nonlocal declarations are reads *)
(* a name declared nonlocal in the block is in read and in nonlocals of what the node contributes *)
Definition N3 (s : scope) (F : list fact) : Prop :=
  forall n, exemptf n F = false -> memf (FDeclN n) F = true ->
    memq (QS n) (rd s) = true /\ memq (QS n) (nl s) = true.

Lemma N3_nob : forall s F, nob F -> N3 s F.
Proof. intros s F H n _ Hn. destruct (H n) as [_ [_ X]]. rewrite X in Hn. discriminate. Qed.

Lemma N3_union : forall s1 s2 F1 F2, N3 s1 F1 -> N3 s2 F2 -> N3 (union s1 s2) (F1 ++ F2).
Proof.
  intros s1 s2 F1 F2 H1 H2 n He Hn. rewrite exemptf_app in He. apply orb_false_iff in He. destruct He as [E1 E2].
  rewrite memf_app in Hn. simpl. rewrite !memq_app. apply orb_true_iff in Hn. destruct Hn as [Hn|Hn].
  - destruct (H1 n E1 Hn) as [a b]. rewrite a, b. auto.
  - destruct (H2 n E2 Hn) as [a b]. rewrite a, b, !orb_true_r. auto.
Qed.

Lemma N3_fin : forall s F, N3 s F -> N3 (fin_noniso s) F.
Proof. intros s F H n He Hn. exact (H n He Hn). Qed.

Lemma N3_ext : forall s F G, (forall x, rel x = true -> memf x F = memf x G) -> N3 s F -> N3 s G.
Proof.
  intros s F G E H n He Hn. unfold exemptf in He.
  rewrite <- (E (FExempt n) eq_refl), <- (E (FComp n) eq_refl) in He. rewrite <- (E (FDeclN n) eq_refl) in Hn.
  exact (H n He Hn).
Qed.

Lemma N3_handler : forall nm s F, N3 s F ->
  N3 (fin_handler nm s) (match nm with Some m => FBind m :: FExempt m :: F | None => F end).
Proof.
  intros nm s F H. destruct nm as [m|]; intros n He Hn.
  - unfold exemptf in He. simpl in He, Hn.
    destruct (Nat.eqb n m) eqn:E; simpl in He; [discriminate|].
    destruct (H n He Hn) as [a b]. simpl. rewrite memq_minus, a, b, memq_single, E. auto.
  - destruct (H n He Hn) as [a b]. simpl. rewrite memq_minus, a, b. auto.
Qed.

Lemma nob_facts_decls : forall decls, decls_ok decls = true -> nob (facts_decls Q decls).
Proof.
  intros decls H. destruct (cp_decls decls (with_annonly fl0) eq_refl H) as [_ [_ [_ o]]]. exact o.
Qed.

Lemma N3_args_annot : forall f ka dflt decls,
  N3 (visit Q f dflt) (facts Q dflt) -> decls_ok decls = true ->
  N3 (visit_args_annot Q f (N ka (NCons dflt (NCons (N KGen decls) NNil))))
     (facts_args Q (N ka (NCons dflt (NCons (N KGen decls) NNil)))
      ++ leak Q (N ka (NCons dflt (NCons (N KGen decls) NNil)))).
Proof.
  intros f ka dflt decls H Hk. rewrite visit_args_annot_eq, facts_args_eq, visit_gen.
  assert (X : N3 (union (visit Q f dflt) (visit_list Q (with_annonly f) decls))
                 (facts Q dflt ++ annot_facts Q (facts_decls Q decls))).
  { apply N3_union; [assumption|]. apply N3_nob, nob_annot, nob_facts_decls; assumption. }
  intros n He Hn. rewrite exemptf_app in He. apply orb_false_iff in He. destruct He as [E1 _].
  rewrite memf_app in Hn. destruct (nob_leak (N ka (NCons dflt (NCons (N KGen decls) NNil))) n) as [_ [_ L]].
  rewrite L, orb_false_r in Hn. exact (X n E1 Hn).
Qed.

Lemma n_visit : forall t f, wf t = true -> N3 (visit Q f t) (facts Q t)
with n_list : forall ts f, wf_list ts = true -> N3 (visit_list Q f ts) (facts_list Q ts).
Proof.
  - intros t f H. destruct t as [k ch]. destruct k; simpl in H; try discriminate.
    + rewrite visit_gen. apply n_list; assumption.
    + rewrite visit_stmt. apply N3_fin, n_list; assumption.
    + intros m _ Hm. destruct c; simpl in Hm; discriminate.
    + rewrite visit_attr. change (facts Q (N (KAttr a c) ch)) with (facts_list Q ch).
      rewrite <- (app_nil_r (facts_list Q ch)). apply N3_union; [apply n_list; assumption | apply N3_nob, nob_nil].
    + rewrite visit_sub. change (facts Q (N (KSub c) ch)) with (facts_list Q ch).
      rewrite <- (app_nil_r (facts_list Q ch)). apply N3_union; [apply n_list; assumption | apply N3_nob, nob_nil].
    + destruct ch as [|tg [|v [|]]]; try discriminate.
      apply andb_true_iff in H. destruct H as [H1 H2].
      rewrite visit_aug, facts_aug. apply N3_fin.
      apply (N3_ext _ (facts Q tg ++ facts Q v)).
      { intros x Hx. rewrite !memf_app. destruct tg as [[] ?]; simpl; try reflexivity.
        destruct c; simpl; try reflexivity. destruct x; simpl in *; try reflexivity; discriminate. }
      apply N3_union; apply n_visit; assumption.
    + destruct ch as [|tg [|v [|a [|]]]]; try discriminate.
      apply andb_true_iff in H. destruct H as [H H3]. apply andb_true_iff in H. destruct H as [H1 H2].
      rewrite visit_ann, facts_ann. apply N3_fin.
      apply N3_union; [apply n_visit; assumption|]. apply N3_union; apply n_visit; assumption.
    + intros m _ Hm. change (facts Q (N (KGlobal ns) ch)) with (map FDeclG ns) in Hm.
      rewrite memf_map in Hm by (intro; reflexivity). discriminate.
    + rewrite visit_nonlocal. change (facts Q (N (KNonlocal ns) ch)) with (map FDeclN ns).
      intros m _ Hm. rewrite (memf_map_same FDeclN) in Hm by (intro; reflexivity).
      simpl. rewrite !memq_names, Hm. auto.
    + rewrite visit_alias. change (facts Q (N (KAlias n) ch)) with ([FBind n; FWrite n] ++ facts_list Q ch).
      apply (N3_ext _ (facts_list Q ch ++ [FBind n; FWrite n])).
      { intros x _. rewrite !memf_app. btauto. }
      apply N3_union; [apply n_list; assumption|]. intros m _ Hm; simpl in Hm; discriminate.
    + destruct ch as [|tst r]; try discriminate.
      apply andb_true_iff in H. destruct H as [H1 H2].
      rewrite visit_if. change (facts Q (N KIf (NCons tst r))) with (facts Q tst ++ facts_list Q r).
      apply N3_union; [apply N3_fin, n_visit | apply n_list]; assumption.
    + destruct ch as [|tst r]; try discriminate.
      apply andb_true_iff in H. destruct H as [H1 H2].
      rewrite visit_while. change (facts Q (N KWhile (NCons tst r))) with (facts Q tst ++ facts_list Q r).
      apply N3_union; [apply N3_fin, n_visit | apply n_list]; assumption.
    + destruct ch as [|tg [|it r]]; try discriminate.
      apply andb_true_iff in H. destruct H as [H H3]. apply andb_true_iff in H. destruct H as [H1 H2].
      rewrite visit_for, facts_for.
      apply (N3_ext _ ((facts Q tg ++ facts Q it) ++ (facts Q tg ++ facts_list Q r))).
      { intros x _. rewrite !memf_app. btauto. }
      apply N3_union; [apply N3_fin, N3_union; apply n_visit; assumption|].
      apply N3_union; [apply N3_fin, n_visit | apply n_list]; assumption.
    + rewrite visit_with. apply N3_fin, n_list; assumption.
    + rewrite visit_block. apply N3_fin, n_list; assumption.
    + rewrite visit_handler.
      replace (facts Q (N (KHandler nm) ch))
        with (match nm with Some m => FBind m :: FExempt m :: facts_list Q ch | None => facts_list Q ch end)
        by (destruct nm; reflexivity).
      apply N3_handler, n_list; assumption.
    + destruct ch as [|decos [|rets [|[ka [|dflt [|[kd decls] [|]]]] [|body [|]]]]]; simpl in H; try discriminate;
        destruct kd; simpl in H; try discriminate.
      repeat (apply andb_true_iff in H; let X := fresh "W" in destruct H as [H X]).
      rewrite visit_def, facts_def. cbv zeta.
      set (f' := enter f false (fl_pcls f && Nat.eqb n INIT)).
      rewrite <- (app_nil_r (FBind n :: _)).
      apply N3_union; [|apply N3_nob, nob_nil]. apply N3_fin.
      apply (N3_ext _ (facts Q decos ++ facts Q rets
                        ++ (facts_args Q (N ka (NCons dflt (NCons (N KGen decls) NNil)))
                            ++ leak Q (N ka (NCons dflt (NCons (N KGen decls) NNil)))) ++ [FBind n; FWrite n])).
      { intros x _. rewrite ?memf_cons, ?memf_app, ?memf_cons, ?memf_app, ?memf_cons, ?memf_nil. btauto. }
      apply N3_union; [apply n_visit; assumption|].
      apply N3_union; [apply n_visit; assumption|].
      apply N3_union; [|intros m' _ Hm; simpl in Hm; discriminate].
      apply N3_args_annot; [apply n_visit|]; assumption.
    + destruct ch as [|[ka [|dflt [|[kd decls] [|]]]] [|body [|]]]; simpl in H; try discriminate;
        destruct kd; simpl in H; try discriminate.
      repeat (apply andb_true_iff in H; let X := fresh "W" in destruct H as [H X]).
      rewrite visit_lambda, facts_lambda.
      rewrite <- (app_nil_r (_ ++ leak Q _)).
      apply N3_union; [|apply N3_nob, nob_nil]. apply N3_fin.
      apply N3_args_annot; [apply n_visit|]; assumption.
    + destruct ch as [|decos [|bases [|body [|]]]]; try discriminate.
      repeat (apply andb_true_iff in H; let X := fresh "W" in destruct H as [H X]).
      rewrite visit_class, facts_class. cbv zeta.
      rewrite <- (app_nil_r (FBind n :: _)).
      apply N3_union; [|apply N3_nob, nob_nil]. apply N3_fin.
      apply (N3_ext _ (facts Q decos ++ [FBind n; FWrite n] ++ facts Q bases)).
      { intros x _. rewrite ?memf_cons, ?memf_app, ?memf_cons, ?memf_app, ?memf_cons, ?memf_nil. btauto. }
      apply N3_union; [apply n_visit; assumption|].
      apply N3_union; [intros m' _ Hm; simpl in Hm; discriminate | apply n_visit; assumption].
    + apply N3_nob. destruct (cp_visit (N KComp ch) f H) as [_ [_ [_ o]]]. exact o.
  - intros ts f H. destruct ts as [|t r].
    + apply N3_nob, nob_nil.
    + simpl in H. apply andb_true_iff in H. destruct H as [H1 H2].
      rewrite visit_cons, facts_cons. apply N3_union; [apply n_visit | apply n_list]; assumption.
Qed.

(* Scope.finalize of the function scope of a def (isolated): with read - (bound - nonlocals) every name the
   body declares nonlocal reaches the scope the def statement is written in *)
Lemma nonlocal_exported : forall f m decos rets ka dflt decls body n,
  q_nlhide Q = false -> wf body = true ->
  exempt Q body n = false -> declared_nonlocal Q body n = true ->
  memq (QS n) (rd (visit Q f (N (KDef m) (NCons decos (NCons rets
        (NCons (N ka (NCons dflt (NCons (N KGen decls) NNil))) (NCons body NNil))))))) = true.
Proof.
  intros f m decos rets ka dflt decls body n Hq Hb He Hn.
  rewrite visit_def. cbv zeta. set (f' := enter f false (fl_pcls f && Nat.eqb m INIT)).
  destruct (n_visit body f' Hb n He Hn) as [a b].
  rewrite Hq. simpl rd. rewrite memq_app. apply orb_true_iff. right.
  rewrite memq_minus, memq_minus. simpl. rewrite !memq_app, a, b, !orb_true_r. simpl.
  rewrite andb_false_r. reflexivity.
Qed.

End Proofs.
