(* C08 -- lemmas relating the activity model (H, Activity.v) to CPython's rule (S, Binders.v). *)
From Coq Require Import List Arith Bool Btauto.
Import ListNotations.
Require Import MV.Scope.Ast MV.Scope.Activity MV.Scope.Binders.

(* ---------------------------------------------------------------- sets *)
Lemma qn_eqb_qs : forall n x, qn_eqb (QS n) x = true -> x = QS n.
Proof. intros n x; destruct x; simpl; try discriminate. intros H; apply Nat.eqb_eq in H; subst; reflexivity. Qed.

Lemma memq_app : forall q a b, memq q (a ++ b) = memq q a || memq q b.
Proof. intros; apply existsb_app. Qed.

Lemma memf_app : forall x a b, memf x (a ++ b) = memf x a || memf x b.
Proof. intros; apply existsb_app. Qed.

Lemma memq_cons : forall q x l, memq q (x :: l) = qn_eqb q x || memq q l.
Proof. reflexivity. Qed.

Lemma memq_minus : forall n a b, memq (QS n) (minus a b) = memq (QS n) a && negb (memq (QS n) b).
Proof.
  intros n a b. induction a as [|x a IH]; [reflexivity|].
  unfold minus in *. simpl filter. rewrite (memq_cons (QS n) x a).
  destruct (memq x b) eqn:Eb; simpl negb; cbv iota.
  - rewrite IH. destruct (qn_eqb (QS n) x) eqn:E; [|reflexivity].
    apply qn_eqb_qs in E; subst x. rewrite Eb. btauto.
  - rewrite memq_cons, IH. destruct (qn_eqb (QS n) x) eqn:E; [|reflexivity].
    apply qn_eqb_qs in E; subst x. rewrite Eb. reflexivity.
Qed.

Lemma memq_names : forall n ns, memq (QS n) (names ns) = mem_name n ns.
Proof. intros n ns. induction ns; simpl; [reflexivity|]. rewrite IHns. reflexivity. Qed.

Lemma memq_single : forall n m, memq (QS n) [QS m] = Nat.eqb n m.
Proof. intros; simpl. apply orb_false_r. Qed.

Lemma memf_map : forall (x : fact) (g : name -> fact) ns,
  (forall m, fact_eqb x (g m) = false) -> memf x (map g ns) = false.
Proof. intros x g ns H. induction ns; simpl; [reflexivity|]. rewrite H, IHns. reflexivity. Qed.

Lemma memf_map_same : forall (g : name -> fact) n ns,
  (forall m, fact_eqb (g n) (g m) = Nat.eqb n m) -> memf (g n) (map g ns) = mem_name n ns.
Proof. intros g n ns H. induction ns; simpl; [reflexivity|]. rewrite H, IHns. reflexivity. Qed.

Lemma memq_simple : forall n l, memq (QS n) l = mem_name n (simple_names l).
Proof.
  intros n l. induction l as [|x l IH]; simpl; [reflexivity|].
  destruct x; simpl; rewrite IH; reflexivity.
Qed.

(* ---------------------------------------------------------------- composite names *)
Definition composite (q : qn) : Prop := forall n, qn_eqb (QS n) q = false.

Lemma qn_of_attr : forall a c ch q, qn_of (N (KAttr a c) ch) = Some q -> composite q.
Proof.
  intros a c ch q H. destruct ch as [|v [|]]; simpl in H; try discriminate.
  destruct (qn_of v); inversion H; subst. intros n; reflexivity.
Qed.

Lemma qn_of_sub : forall c ch q, qn_of (N (KSub c) ch) = Some q -> composite q.
Proof.
  intros c ch q H. destruct ch as [|v [|s [|]]]; simpl in H; try discriminate.
  destruct (match s with N (KConst (Some k)) _ => Some (QL k) | N (KConst None) _ => None | _ => qn_of s end);
    try discriminate.
  destruct (qn_of v); inversion H; subst. intros n; reflexivity.
Qed.

Lemma track_composite : forall f q c al n, composite q ->
  memq (QS n) (bd (track f q c al)) = false /\ gl (track f q c al) = [] /\ nl (track f q c al) = [].
Proof.
  intros f q c al n H. pose proof (H n) as Hn. simpl in Hn. unfold track.
  destruct (fl_annonly f && negb (fl_ann f)); [simpl; auto|].
  destruct (hidden f q); [simpl; auto|].
  destruct c; [simpl; auto | | simpl; rewrite ?Hn; auto].
  destruct (fl_incomp f); simpl; rewrite ?Hn; auto.
Qed.

Lemma track_simple_gn : forall f q c al, gl (track f q c al) = [] /\ nl (track f q c al) = [].
Proof.
  intros f q c al. unfold track.
  destruct (fl_annonly f && negb (fl_ann f)); [simpl; auto|].
  destruct (hidden f q); [simpl; auto|].
  destruct c; simpl; auto. destruct (fl_incomp f); simpl; auto.
Qed.
