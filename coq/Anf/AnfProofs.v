(* C18: lemmas about the model of AnfTransformer (Anf.v) and the semantics (AnfSem.v). *)
From Coq Require Import List String Bool Arith Lia.
From Coq Require Import DecimalString DecimalNat Decimal.
Import ListNotations.
Require Import MV.Anf.Anf MV.Anf.AnfSem.
Local Open Scope string_scope.
Local Open Scope list_scope.

(* ------------------------------------------------------------------ induction on expressions *)
Section ExprInd.
  Variable P : expr -> Prop.
  Hypothesis Hname : forall x, P (EName x).
  Hypothesis Htmp : forall n, P (ETmp n).
  Hypothesis Hconst : forall c, P (EConst c).
  Hypothesis Hbad : forall k, P (EBad k).
  Hypothesis Hop : forall k lab cs, Forall (fun c : child => P (snd c)) cs -> P (EOp k lab cs).
  Fixpoint expr_ind' (e : expr) : P e :=
    match e with
    | EName x => Hname x
    | ETmp n => Htmp n
    | EConst c => Hconst c
    | EBad k => Hbad k
    | EOp k lab cs =>
        Hop k lab cs
          ((fix go (cs : list child) : Forall (fun c : child => P (snd c)) cs :=
              match cs with
              | [] => Forall_nil _
              | (fw, c) :: r => Forall_cons (fw, c) (expr_ind' c) (go r)
              end) cs)
    end.
End ExprInd.

(* unfolding of the nested walk *)
Lemma anf_expr_op : forall cfg k lab cs n,
  anf_expr cfg (EOp k lab cs) n =
  match visit_children cfg cs n with
  | None => None
  | Some (cs1, H1, n1) =>
      let '(cs2, H2, n2) := ensure_children cfg k cs1 n1 in
      if triv_only k && negb (match H1 ++ H2 with [] => true | _ => false end) then None
      else Some (EOp k lab cs2, H1 ++ H2, n2)
  end.
Proof.
  intros. simpl.
  match goal with |- match ?F cs n with _ => _ end = _ =>
    assert (E : forall cs n, F cs n = visit_children cfg cs n) end.
  { clear. induction cs as [|[[f w] c] r IH]; intros; simpl; [reflexivity|].
    destruct (anf_expr cfg c n) as [[[? ?] ?]|]; [|reflexivity]. rewrite IH. reflexivity. }
  rewrite E. reflexivity.
Qed.

(* ------------------------------------------------------------------ temporaries are consecutive *)
Lemma ensure_children_fresh : forall cfg k cs n cs' H n',
  ensure_children cfg k cs n = (cs', H, n') ->
  n <= n' /\ map fst H = seq (S n) (n' - n).
Proof.
  induction cs as [|[[f w] c] rest IH]; intros n cs' H n' E; simpl in E.
  - inversion E; subst. split; [lia|]. now rewrite Nat.sub_diag.
  - destruct (negb (is_trivial c) && should_transform cfg k f (tag_of c)).
    + destruct (ensure_children cfg k rest (S n)) as [[r' H'] n1] eqn:E1. inversion E; subst.
      apply IH in E1. destruct E1 as [L E1]. split; [lia|].
      simpl. rewrite E1. replace (n' - n) with (S (n' - S n)) by lia. reflexivity.
    + destruct (ensure_children cfg k rest n) as [[r' H'] n1] eqn:E1. inversion E; subst.
      apply IH in E1. exact E1.
Qed.

Lemma seq_app' : forall a b c, a <= b -> b <= c -> seq (S a) (b - a) ++ seq (S b) (c - b) = seq (S a) (c - a).
Proof.
  intros. replace (c - a) with ((b - a) + (c - b)) by lia. rewrite seq_app.
  replace (S a + (b - a)) with (S b) by lia. reflexivity.
Qed.

Lemma anf_expr_fresh : forall cfg e n e' H n',
  anf_expr cfg e n = Some (e', H, n') -> n <= n' /\ map fst H = seq (S n) (n' - n).
Proof.
  intros cfg e. induction e using expr_ind'; intros n0 e' H0 n' E; try (simpl in E; inversion E; subst; split; [lia|now rewrite Nat.sub_diag]).
  - simpl in E. discriminate.
  - rewrite anf_expr_op in E.
    assert (V : forall cs1 H1 n1 m, visit_children cfg cs m = Some (cs1, H1, n1) -> m <= n1 /\ map fst H1 = seq (S m) (n1 - m)).
    { clear E. induction H as [|[[f w] c] rest Hc Hr IH]; intros cs1 H1 n1 m E; simpl in E.
      - inversion E; subst. split; [lia|now rewrite Nat.sub_diag].
      - destruct (anf_expr cfg c m) as [[[c' Hc'] m1]|] eqn:Ec; [|discriminate].
        destruct (visit_children cfg rest m1) as [[[r' Hr'] m2]|] eqn:Er; [|discriminate].
        inversion E; subst. apply Hc in Ec. apply IH in Er. destruct Ec as [L1 M1], Er as [L2 M2].
        split; [lia|]. rewrite map_app. unfold pend in *. rewrite M1, M2. apply seq_app'; lia. }
    destruct (visit_children cfg cs n0) as [[[cs1 H1] n1]|] eqn:Ev; [|discriminate].
    destruct (ensure_children cfg k cs1 n1) as [[cs2 H2] n2] eqn:Ee.
    destruct (triv_only k && _); [discriminate|]. inversion E; subst.
    apply V in Ev. apply ensure_children_fresh in Ee. destruct Ev as [L1 M1], Ee as [L2 M2].
    split; [lia|]. rewrite map_app. unfold pend in *. rewrite M1, M2. apply seq_app'; lia.
Qed.

Lemma pending_nodup : forall cfg e n e' H n',
  anf_expr cfg e n = Some (e', H, n') -> NoDup (map fst H) /\ (forall t, In t (map fst H) -> n < t <= n').
Proof.
  intros. apply anf_expr_fresh in H0. destruct H0 as [L E]. rewrite E. split; [apply seq_NoDup|].
  intros t I. apply in_seq in I. lia.
Qed.

(* ------------------------------------------------------------------ rendering of temporaries *)
Definition render (stem : string) (base n : nat) : string :=
  (stem ++ NilEmpty.string_of_uint (Nat.to_uint (base + n)))%string.
Definition gensym_shape (stem x : string) : Prop := exists d, x = (stem ++ NilEmpty.string_of_uint d)%string.

Lemma append_inj_l : forall s a b : string, (s ++ a = s ++ b)%string -> a = b.
Proof. induction s; simpl; intros a0 b0 E; [exact E|]. inversion E. auto. Qed.

Lemma render_inj : forall stem base n m, render stem base n = render stem base m -> n = m.
Proof.
  unfold render. intros stem base n m E. apply append_inj_l in E.
  assert (U : Nat.to_uint (base + n) = Nat.to_uint (base + m)).
  { pose proof (NilEmpty.usu (Nat.to_uint (base + n))) as A. pose proof (NilEmpty.usu (Nat.to_uint (base + m))) as B.
    rewrite E in A. rewrite A in B. now inversion B. }
  apply Unsigned.to_uint_inj in U. lia.
Qed.

Lemma render_not_user : forall stem base n x, ~ gensym_shape stem x -> render stem base n <> x.
Proof. intros stem base n x N E. apply N. eexists. symmetry. exact E. Qed.

(* ------------------------------------------------------------------ lazy constructs *)
Lemma lazy_no_hoist : forall cfg k lab cs n e' H n',
  triv_only k = true -> anf_expr cfg (EOp k lab cs) n = Some (e', H, n') -> H = [].
Proof.
  intros cfg k lab cs n e' H n' T E. rewrite anf_expr_op in E.
  destruct (visit_children cfg cs n) as [[[cs1 H1] n1]|]; [|discriminate].
  destruct (ensure_children cfg k cs1 n1) as [[cs2 H2] n2].
  rewrite T in E. destruct (H1 ++ H2) as [|p0 l0] eqn:A; simpl in E.
  - now inversion E.
  - inversion E.
Qed.

Lemma ensure_children_nil : forall cfg k cs n cs' n',
  ensure_children cfg k cs n = (cs', [], n') -> cs' = cs /\ n' = n.
Proof.
  induction cs as [|[[f w] c] rest IH]; intros n cs' n' E; simpl in E.
  - now inversion E.
  - destruct (negb (is_trivial c) && should_transform cfg k f (tag_of c)).
    + destruct (ensure_children cfg k rest (S n)) as [[r' H'] n1]. discriminate.
    + destruct (ensure_children cfg k rest n) as [[r' H'] n1] eqn:E1. inversion E; subst.
      apply IH in E1. destruct E1; subst. auto.
Qed.

Lemma no_hoist_unchanged : forall cfg e n e' n',
  anf_expr cfg e n = Some (e', [], n') -> e' = e /\ n' = n.
Proof.
  intros cfg e. induction e using expr_ind'; intros n0 e' n' E; try (simpl in E; inversion E; subst; auto; fail).
  rewrite anf_expr_op in E.
    assert (V : forall cs1 n1 m, visit_children cfg cs m = Some (cs1, [], n1) -> cs1 = cs /\ n1 = m).
    { clear E. induction H as [|[[f w] c] rest Hc Hr IH]; intros cs1 n1 m E; simpl in E.
      - now inversion E.
      - destruct (anf_expr cfg c m) as [[[c' Hc'] m1]|] eqn:Ec; [|discriminate].
        destruct (visit_children cfg rest m1) as [[[r' Hr'] m2]|] eqn:Er; [|discriminate].
        inversion E as [[Q1 Q2 Q3]]; subst. apply app_eq_nil in Q2. destruct Q2; subst.
        apply Hc in Ec. destruct Ec; subst. apply IH in Er. destruct Er; subst. auto. }
    destruct (visit_children cfg cs n0) as [[[cs1 H1] n1]|] eqn:Ev; [|discriminate].
    destruct (ensure_children cfg k cs1 n1) as [[cs2 H2] n2] eqn:Ee.
    destruct (triv_only k && _); [discriminate|]. inversion E as [[Q1 Q2 Q3]]; subst.
    apply app_eq_nil in Q2. destruct Q2; subst.
    apply V in Ev. destruct Ev; subst. apply ensure_children_nil in Ee. destruct Ee; subst. auto.
Qed.

(* ------------------------------------------------------------------ the output is in A-normal form *)
(* every position of a strict or trivial-only node, and of a hoisted right-hand side, that the
   configuration asks to be named holds a trivial node *)
Fixpoint in_anf (cfg : config) (e : expr) : bool :=
  match e with
  | EOp k _ cs =>
      (fix go (cs : list child) : bool :=
         match cs with
         | [] => true
         | (f, w, c) :: rest =>
             (is_trivial c || negb (should_transform cfg k f (tag_of c))) && in_anf cfg c && go rest
         end) cs
  | _ => true
  end.

Fixpoint children_in_anf (cfg : config) (k : tag) (cs : list child) : bool :=
  match cs with
  | [] => true
  | (f, w, c) :: rest =>
      (is_trivial c || negb (should_transform cfg k f (tag_of c))) && in_anf cfg c && children_in_anf cfg k rest
  end.

Lemma in_anf_op : forall cfg k lab cs, in_anf cfg (EOp k lab cs) = children_in_anf cfg k cs.
Proof. intros. simpl. induction cs as [|[[f w] c] r IH]; simpl; [reflexivity|]. now rewrite IH. Qed.

Lemma ensure_children_anf : forall cfg k cs n cs' H n',
  ensure_children cfg k cs n = (cs', H, n') ->
  forallb (fun c => in_anf cfg (snd c)) cs = true ->
  children_in_anf cfg k cs' = true /\ forallb (fun p => in_anf cfg (snd p)) H = true.
Proof.
  induction cs as [|[[f w] c] rest IH]; intros n cs' H n' E A; simpl in E.
  - inversion E; subst. auto.
  - simpl in A. apply andb_true_iff in A. destruct A as [Ac Ar].
    destruct (negb (is_trivial c) && should_transform cfg k f (tag_of c)) eqn:D.
    + destruct (ensure_children cfg k rest (S n)) as [[r' H'] n1] eqn:E1. inversion E; subst.
      destruct (IH _ _ _ _ E1 Ar) as [B C]. simpl. rewrite B, C, Ac. auto.
    + destruct (ensure_children cfg k rest n) as [[r' H'] n1] eqn:E1. inversion E; subst.
      destruct (IH _ _ _ _ E1 Ar) as [B C]. simpl. rewrite B, C, Ac.
      apply andb_false_iff in D. destruct D as [D|D].
      * apply negb_false_iff in D. rewrite D. auto.
      * rewrite D. rewrite orb_true_r. auto.
Qed.

Lemma anf_expr_in_anf : forall cfg e n e' H n',
  anf_expr cfg e n = Some (e', H, n') ->
  in_anf cfg e' = true /\ forallb (fun p => in_anf cfg (snd p)) H = true.
Proof.
  intros cfg e. induction e using expr_ind'; intros n0 e' H0 n' E; try (simpl in E; inversion E; subst; auto; fail).
  rewrite anf_expr_op in E.
    assert (V : forall cs1 H1 n1 m, visit_children cfg cs m = Some (cs1, H1, n1) ->
                forallb (fun c => in_anf cfg (snd c)) cs1 = true /\ forallb (fun p => in_anf cfg (snd p)) H1 = true).
    { clear E. induction H as [|[[f w] c] rest Hc Hr IH]; intros cs1 H1 n1 m E; simpl in E.
      - inversion E; subst. auto.
      - destruct (anf_expr cfg c m) as [[[c' Hc'] m1]|] eqn:Ec; [|discriminate].
        destruct (visit_children cfg rest m1) as [[[r' Hr'] m2]|] eqn:Er; [|discriminate].
        inversion E; subst. apply Hc in Ec. apply IH in Er. destruct Ec as [A B], Er as [C D].
        simpl. unfold pend in *. rewrite A, C, forallb_app, B, D. auto. }
    destruct (visit_children cfg cs n0) as [[[cs1 H1] n1]|] eqn:Ev; [|discriminate].
    destruct (ensure_children cfg k cs1 n1) as [[cs2 H2] n2] eqn:Ee.
    destruct (triv_only k && _); [discriminate|]. inversion E; subst.
    apply V in Ev. destruct Ev as [A B]. destruct (ensure_children_anf _ _ _ _ _ _ _ Ee A) as [C D].
    unfold pend in *. rewrite in_anf_op, forallb_app, B, D. auto.
Qed.
