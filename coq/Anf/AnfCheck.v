(* C18: checker evaluated in Coq on the cases written by tools/props/c18.py. *)
From Coq Require Import List String Bool Arith.
Import ListNotations.
Require Import MV.Anf.Anf.

Definition wrap_beq (a b : wrap) : bool :=
  match a, b with
  | WPlain, WPlain | WStar, WStar | WDStar, WDStar => true
  | WKw x, WKw y => String.eqb x y
  | _, _ => false
  end.

Fixpoint expr_beq (a b : expr) {struct a} : bool :=
  match a, b with
  | EName x, EName y => String.eqb x y
  | ETmp n, ETmp m => Nat.eqb n m
  | EConst x, EConst y => String.eqb x y
  | EBad k, EBad k' => tag_eqb k k'
  | EOp k l cs, EOp k' l' cs' =>
      tag_eqb k k' && String.eqb l l' &&
      (fix go (xs ys : list child) {struct xs} : bool :=
         match xs, ys with
         | [], [] => true
         | (f, w, c) :: xs', (f', w', c') :: ys' => String.eqb f f' && wrap_beq w w' && expr_beq c c' && go xs' ys'
         | _, _ => false
         end) cs cs'
  | _, _ => false
  end.

Fixpoint list_beq {A} (eq : A -> A -> bool) (xs ys : list A) : bool :=
  match xs, ys with
  | [], [] => true
  | x :: xs', y :: ys' => eq x y && list_beq eq xs' ys'
  | _, _ => false
  end.

Definition opt_beq {A} (eq : A -> A -> bool) (a b : option A) : bool :=
  match a, b with None, None => true | Some x, Some y => eq x y | _, _ => false end.

Fixpoint stmt_beq (a b : stmt) {struct a} : bool :=
  let fix blk (xs ys : list stmt) {struct xs} : bool :=
    match xs, ys with
    | [], [] => true
    | x :: xs', y :: ys' => stmt_beq x y && blk xs' ys'
    | _, _ => false
    end in
  match a, b with
  | SExpr e, SExpr e' => expr_beq e e'
  | SAssign ts e, SAssign ts' e' => list_beq expr_beq ts ts' && expr_beq e e'
  | SAug t o e, SAug t' o' e' => expr_beq t t' && String.eqb o o' && expr_beq e e'
  | SReturn o, SReturn o' => opt_beq expr_beq o o'
  | SRaise o c, SRaise o' c' => opt_beq expr_beq o o' && opt_beq expr_beq c c'
  | SPass, SPass | SBreak, SBreak | SContinue, SContinue => true
  | SIf e b1 b2, SIf e' b1' b2' => expr_beq e e' && blk b1 b1' && blk b2 b2'
  | SWhile e b1 b2, SWhile e' b1' b2' => expr_beq e e' && blk b1 b1' && blk b2 b2'
  | SFor t e b1 b2, SFor t' e' b1' b2' => expr_beq t t' && expr_beq e e' && blk b1 b1' && blk b2 b2'
  | SWith e v b, SWith e' v' b' => expr_beq e e' && opt_beq String.eqb v v' && blk b b'
  | STry b hs o f, STry b' hs' o' f' =>
      blk b b' &&
      (fix hbeq (xs ys : list handler) {struct xs} : bool :=
         match xs, ys with
         | [], [] => true
         | (t, v, hb) :: xs', (t', v', hb') :: ys' =>
             opt_beq expr_beq t t' && opt_beq String.eqb v v' && blk hb hb' && hbeq xs' ys'
         | _, _ => false
         end) hs hs' &&
      blk o o' && blk f f'
  | _, _ => false
  end.

(* index, configuration, program, what anf.transform returned (None = raised),
   the order guard as computed by the Python mirror (classifier of the known findings) *)
Definition case : Set := (nat * config * list stmt * option (list stmt) * bool)%type.

Definition check_case (c : case) : bool :=
  match c with
  | (_, cfg, p, expected, g) =>
      opt_beq (list_beq stmt_beq) (transform cfg p) expected
      && match expected with Some _ => Bool.eqb (guard cfg p) g | None => true end
  end.

Definition failing (cs : list case) : list nat :=
  map (fun c => match c with (i, _, _, _, _) => i end) (filter (fun c => negb (check_case c)) cs).
