(* C18 model (H): malt/pyct/common_transformers/anf.py  AnfTransformer, and (S): the
   evaluation-order semantics of the expression/statement fragment it is run on.
   No proofs in this file.

   Syntax.  Every non-atomic expression is `EOp k lab cs`: k = node class, lab = printing
   payload (operator / attribute name), cs = the children in *AST field order* -- the
   order in which generic_visit and _ensure_fields_in_anf walk them -- each with its
   field name and the transparent wrapper it sits in (Starred / keyword).
   Temporaries are a constructor of their own (ETmp n, printed "tmp_<1000+n>"): the
   rendering and its distinctness is AnfProofs.gensym_distinct. *)
From Coq Require Import List String Bool Arith.
Import ListNotations.
Local Open Scope string_scope.
Local Open Scope list_scope.

Inductive tag :=
  (* strict expressions *)
  | KCall | KBinOp | KUnaryOp | KCompare | KAttribute | KSubscript | KTuple | KList | KSet | KDict
  (* assignment expression `lab := value`: no visitor, walked by generic_visit only *)
  | KNamedExpr
  (* accepted only when nothing has to be hoisted out of them *)
  | KBoolOp | KIfExp | KLambda
  (* always rejected *)
  | KComp | KMultiCompare
  (* atoms (child classes in patterns) *)
  | KName | KConstant
  (* statements (parent classes in patterns) *)
  | KReturn | KRaise | KIf | KFor | KWhile | KWith | KExpr | KAssign | KAugAssign
  (* events of the semantics that have no expression node *)
  | KTruth | KIter | KStoreAttr | KStoreSub | KAug | KEnter | KExit.

Definition tag_eqb (a b : tag) : bool :=
  match a, b with
  | KCall, KCall | KBinOp, KBinOp | KUnaryOp, KUnaryOp | KCompare, KCompare | KAttribute, KAttribute
  | KNamedExpr, KNamedExpr | KSubscript, KSubscript | KTuple, KTuple | KList, KList | KSet, KSet | KDict, KDict
  | KBoolOp, KBoolOp | KIfExp, KIfExp | KLambda, KLambda | KComp, KComp | KMultiCompare, KMultiCompare
  | KName, KName | KConstant, KConstant | KReturn, KReturn | KRaise, KRaise | KIf, KIf | KFor, KFor
  | KWhile, KWhile | KWith, KWith | KExpr, KExpr | KAssign, KAssign | KAugAssign, KAugAssign
  | KTruth, KTruth | KIter, KIter | KStoreAttr, KStoreAttr | KStoreSub, KStoreSub | KAug, KAug
  | KEnter, KEnter | KExit, KExit => true
  | _, _ => false
  end.

Inductive wrap := WPlain | WStar | WKw (k : string) | WDStar.

Inductive expr :=
  | EName (x : string)
  | ETmp (n : nat)
  | EConst (c : string)                  (* repr text; "Ellipsis" is the Ellipsis constant *)
  | EOp (k : tag) (lab : string) (cs : list (string * wrap * expr))
  | EBad (k : tag).

Definition child := (string * wrap * expr)%type.
Definition cexpr (c : child) : expr := snd c.

Inductive stmt :=
  | SExpr (e : expr)
  | SAssign (ts : list expr) (e : expr)
  | SAug (t : expr) (op : string) (e : expr)
  | SReturn (e : option expr)
  | SRaise (e c : option expr)
  | SPass | SBreak | SContinue
  | SIf (e : expr) (b1 b2 : list stmt)
  | SWhile (e : expr) (b1 b2 : list stmt)
  | SFor (t e : expr) (b1 b2 : list stmt)
  | SWith (e : expr) (v : option string) (b : list stmt)
  (* try: body, except clauses (type expression, `as` name, body), else, finally *)
  | STry (b : list stmt) (hs : list (option expr * option string * list stmt)) (o f : list stmt).

Definition handler := (option expr * option string * list stmt)%type.
Definition htype (h : handler) : option expr := fst (fst h).

(* ------------------------------------------------------------------ configuration *)
(* ASTEdgePattern(parent, field, child); None = anf.ANY; a class (or tuple of classes) is
   exported as the list of model tags it covers.  The outer option is the bare ANY pattern.
   The directive is REPLACE (true) or LEAVE (false). *)
Definition pattern := option (option (list tag) * option string * option (list tag))%type.
Definition config := list (pattern * bool).

Definition mem_tag (t : tag) (l : list tag) : bool := existsb (tag_eqb t) l.

Definition pat_matches (p : pattern) (parent : tag) (field : string) (c : tag) : bool :=
  match p with
  | None => true
  | Some (pp, pf, pc) =>
      (match pp with None => true | Some l => mem_tag parent l end)
      && (match pf with None => true | Some f => String.eqb field f end)
      && (match pc with None => true | Some l => mem_tag c l end)
  end.

Fixpoint should_cfg (cfg : config) (parent : tag) (field : string) (c : tag) : bool :=
  match cfg with
  | [] => false
  | (p, r) :: rest => if pat_matches p parent field c then r else should_cfg rest parent field c
  end.

(* nodes without a visit_ method are walked by generic_visit only: their children are visited,
   but _ensure_fields_in_anf never asks the configuration about them *)
Definition generic_only (k : tag) : bool := match k with KNamedExpr => true | _ => false end.

Definition should_transform (cfg : config) (parent : tag) (field : string) (c : tag) : bool :=
  negb (generic_only parent) && should_cfg cfg parent field c.

Definition expr_tags : list tag :=
  [KCall; KBinOp; KUnaryOp; KCompare; KAttribute; KSubscript; KTuple; KList; KSet; KDict; KNamedExpr;
   KBoolOp; KIfExp; KLambda; KComp; KMultiCompare; KName; KConstant].

(* the configuration used when config is None *)
Definition default_config : config :=
  [ (Some (None, None, Some [KConstant; KName]), false);
    (Some (None, None, Some expr_tags), true) ].

(* ------------------------------------------------------------------ the transformer *)
Definition tag_of (e : expr) : tag :=
  match e with
  | EName _ | ETmp _ => KName
  | EConst _ => KConstant
  | EOp k _ _ => k
  | EBad k => k
  end.

(* _is_trivial *)
Definition is_trivial (e : expr) : bool :=
  match e with
  | EName _ | ETmp _ => true
  | EConst c => String.eqb c "Ellipsis"
  | _ => false
  end.

Definition triv_only (k : tag) : bool :=
  match k with KBoolOp | KIfExp | KLambda => true | _ => false end.

Definition pend := (nat * expr)%type.       (* tmp_<1000+n> = expr *)

(* _ensure_fields_in_anf over the (already visited) children, in field order *)
Fixpoint ensure_children (cfg : config) (parent : tag) (cs : list child) (n : nat)
  : list child * list pend * nat :=
  match cs with
  | [] => ([], [], n)
  | (f, w, c) :: rest =>
      if negb (is_trivial c) && should_transform cfg parent f (tag_of c) then
        let '(rest', H, n') := ensure_children cfg parent rest (S n) in
        ((f, w, ETmp (S n)) :: rest', (S n, c) :: H, n')
      else
        let '(rest', H, n') := ensure_children cfg parent rest n in
        ((f, w, c) :: rest', H, n')
  end.

(* visit(e): returns the rewritten node, the statements it appended to the pending list,
   and the gensym counter *)
Fixpoint anf_expr (cfg : config) (e : expr) (n : nat) : option (expr * list pend * nat) :=
  match e with
  | EName _ | ETmp _ | EConst _ => Some (e, [], n)
  | EBad _ => None
  | EOp k lab cs =>
      let fix visit_children (cs : list child) (n : nat) : option (list child * list pend * nat) :=
        match cs with
        | [] => Some ([], [], n)
        | (f, w, c) :: rest =>
            match anf_expr cfg c n with
            | None => None
            | Some (c', H1, n1) =>
                match visit_children rest n1 with
                | None => None
                | Some (rest', H2, n2) => Some ((f, w, c') :: rest', H1 ++ H2, n2)
                end
            end
        end in
      match visit_children cs n with
      | None => None
      | Some (cs1, H1, n1) =>
          let '(cs2, H2, n2) := ensure_children cfg k cs1 n1 in
          (* _visit_trivial_only_expression: the baseline k = len(pending) is taken BEFORE generic_visit, so a
             lazy construct is rejected iff anything was hoisted from inside it at any depth (H1: out of its
             descendants, H2: its direct operands); theorem lazy_rejected *)
          if triv_only k && negb (match H1 ++ H2 with [] => true | _ => false end) then None
          else Some (EOp k lab cs2, H1 ++ H2, n2)
      end
  end.

Fixpoint visit_children (cfg : config) (cs : list child) (n : nat) : option (list child * list pend * nat) :=
  match cs with
  | [] => Some ([], [], n)
  | (f, w, c) :: rest =>
      match anf_expr cfg c n with
      | None => None
      | Some (c', H1, n1) =>
          match visit_children cfg rest n1 with
          | None => None
          | Some (rest', H2, n2) => Some ((f, w, c') :: rest', H1 ++ H2, n2)
          end
      end
  end.

Definition is_nil {A} (l : list A) : bool := match l with [] => true | _ => false end.

(* self.visit(e); e = self._ensure_node_in_anf(parent, field, e) *)
Definition anf_named (cfg : config) (parent : tag) (field : string) (e : expr) (n : nat)
  : option (expr * list pend * nat) :=
  match anf_expr cfg e n with
  | None => None
  | Some (e1, H1, n1) =>
      let '(cs2, H2, n2) := ensure_children cfg parent [(field, WPlain, e1)] n1 in
      match cs2 with
      | [(_, _, e2)] => Some (e2, H1 ++ H2, n2)
      | _ => None
      end
  end.

Definition flush (H : list pend) : list stmt := map (fun p => SAssign [ETmp (fst p)] (snd p)) H.

Definition opt_children (f : string) (o : option expr) : list child :=
  match o with None => [] | Some e => [(f, WPlain, e)] end.
Definition opt_of_children (cs : list child) : option expr :=
  match cs with [] => None | c :: _ => Some (cexpr c) end.

(* The type expression of an except clause.  Try and ExceptHandler have no visit_ method: generic_visit walks the
   body, then every clause (type, body), then else and finally.  The configuration is never asked about the type
   (no _ensure_fields_in_anf on the clause), and there is no statement position where something hoisted out of it
   could go: whatever its visit leaves pending trips `assert not self._pending_statements` of the next statement
   (or is lost, the known finding anf-pending-lost, which the exporter keeps out of the tie).  The type of an
   except clause is evaluated lazily -- only while an exception propagates, after the body and the clauses before
   it -- so the model accepts a try statement only when nothing at all is hoisted out of the types of its clauses. *)
Definition anf_htype (cfg : config) (t : option expr) (n : nat) : option (option expr * nat) :=
  match t with
  | None => Some (None, n)
  | Some e => match anf_expr cfg e n with
              | Some (e', [], n') => Some (Some e', n')
              | _ => None
              end
  end.

Fixpoint anf_stmt (cfg : config) (s : stmt) (n : nat) : option (list stmt * nat) :=
  let fix anf_block (b : list stmt) (n : nat) : option (list stmt * nat) :=
    match b with
    | [] => Some ([], n)
    | s :: rest =>
        match anf_stmt cfg s n with
        | None => None
        | Some (ss, n1) =>
            match anf_block rest n1 with
            | None => None
            | Some (rest', n2) => Some (ss ++ rest', n2)
            end
        end
    end in
  match s with
  | SExpr e =>          (* _visit_strict_statement(children_ok_to_transform=False) *)
      match anf_expr cfg e n with
      | None => None
      | Some (e', H, n') => Some (flush H ++ [SExpr e'], n')
      end
  | SAssign ts e =>     (* fields: targets, value *)
      match visit_children cfg (map (fun t => ("targets", WPlain, t)) ts ++ [("value", WPlain, e)]) n with
      | None => None
      | Some (cs, H, n') =>
          Some (flush H ++ [SAssign (map cexpr (removelast cs)) (cexpr (last cs ("", WPlain, e)))], n')
      end
  | SAug t op e =>      (* fields: target, op, value *)
      match visit_children cfg [("target", WPlain, t); ("value", WPlain, e)] n with
      | Some ([c1; c2], H, n') => Some (flush H ++ [SAug (cexpr c1) op (cexpr c2)], n')
      | _ => None
      end
  | SReturn o =>        (* _visit_strict_statement *)
      match visit_children cfg (opt_children "value" o) n with
      | None => None
      | Some (cs1, H1, n1) =>
          let '(cs2, H2, n2) := ensure_children cfg KReturn cs1 n1 in
          Some (flush (H1 ++ H2) ++ [SReturn (opt_of_children cs2)], n2)
      end
  | SRaise o c =>
      match o, c with
      | None, Some _ => None     (* not Python *)
      | _, _ =>
        match visit_children cfg (opt_children "exc" o ++ opt_children "cause" c) n with
        | None => None
        | Some (cs1, H1, n1) =>
            let '(cs2, H2, n2) := ensure_children cfg KRaise cs1 n1 in
            Some (flush (H1 ++ H2) ++
                  [SRaise (opt_of_children cs2) (match c with None => None | Some _ => opt_of_children (tl cs2) end)], n2)
        end
      end
  | SPass | SBreak | SContinue => Some ([s], n)
  | SIf e b1 b2 =>
      match anf_named cfg KIf "test" e n with
      | None => None
      | Some (e', H, n1) =>
          match anf_block b1 n1 with
          | None => None
          | Some (b1', n2) =>
              match anf_block b2 n2 with
              | None => None
              | Some (b2', n3) => Some (flush H ++ [SIf e' b1' b2'], n3)
              end
          end
      end
  | SWhile e b1 b2 =>
      match anf_named cfg KWhile "test" e n with
      | Some (e', [], n1) =>
          match anf_block b1 n1 with
          | None => None
          | Some (b1', n2) =>
              match anf_block b2 n2 with
              | None => None
              | Some (b2', n3) => Some ([SWhile e' b1' b2'], n3)
              end
          end
      | _ => None
      end
  | SFor t e b1 b2 =>
      match anf_named cfg KFor "iter" e n with
      | None => None
      | Some (e', H, n1) =>
          match anf_expr cfg t n1 with       (* generic_visit: target first; must leave nothing pending *)
          | Some (t', [], n1') =>
              match anf_block b1 n1' with
              | None => None
              | Some (b1', n2) =>
                  match anf_block b2 n2 with
                  | None => None
                  | Some (b2', n3) => Some (flush H ++ [SFor t' e' b1' b2'], n3)
                  end
              end
          | _ => None
          end
      end
  | SWith e v b =>     (* one item, optional_vars a plain name or absent *)
      match anf_named cfg KWith "items" e n with
      | None => None
      | Some (e', H, n1) =>
          match anf_block b n1 with
          | None => None
          | Some (b', n2) => Some (flush H ++ [SWith e' v b'], n2)
          end
      end
  | STry b hs o f =>   (* no visitor: generic_visit over body, handlers, orelse, finalbody *)
      let fix anf_handlers (hs : list handler) (n : nat) : option (list handler * nat) :=
        match hs with
        | [] => Some ([], n)
        | (t, v, hb) :: rest =>
            match anf_htype cfg t n with
            | None => None
            | Some (t', n1) =>
                match anf_block hb n1 with
                | None => None
                | Some (hb', n2) =>
                    match anf_handlers rest n2 with
                    | None => None
                    | Some (rest', n3) => Some ((t', v, hb') :: rest', n3)
                    end
                end
            end
        end in
      match anf_block b n with
      | None => None
      | Some (b', n1) =>
          match anf_handlers hs n1 with
          | None => None
          | Some (hs', n2) =>
              match anf_block o n2 with
              | None => None
              | Some (o', n3) =>
                  match anf_block f n3 with
                  | None => None
                  | Some (f', n4) => Some ([STry b' hs' o' f'], n4)
                  end
              end
          end
      end
  end.

Fixpoint anf_block (cfg : config) (b : list stmt) (n : nat) : option (list stmt * nat) :=
  match b with
  | [] => Some ([], n)
  | s :: rest =>
      match anf_stmt cfg s n with
      | None => None
      | Some (ss, n1) =>
          match anf_block cfg rest n1 with
          | None => None
          | Some (rest', n2) => Some (ss ++ rest', n2)
          end
      end
  end.

Fixpoint anf_handlers (cfg : config) (hs : list handler) (n : nat) : option (list handler * nat) :=
  match hs with
  | [] => Some ([], n)
  | (t, v, hb) :: rest =>
      match anf_htype cfg t n with
      | None => None
      | Some (t', n1) =>
          match anf_block cfg hb n1 with
          | None => None
          | Some (hb', n2) =>
              match anf_handlers cfg rest n2 with
              | None => None
              | Some (rest', n3) => Some ((t', v, hb') :: rest', n3)
              end
          end
      end
  end.

(* anf.transform on a function body *)
Definition transform (cfg : config) (b : list stmt) : option (list stmt) :=
  match anf_block cfg b 0 with Some (b', _) => Some b' | None => None end.

(* ------------------------------------------------------------------ order guard *)
(* The two-phase walk (first everything below all children, then the children) keeps the
   order of evaluation only if no child that still does something is followed by a sibling
   out of which something is hoisted, and no child evaluated in place is followed by a
   named one (both doing something).  `quiet` = evaluation has no event and cannot fail. *)
Definition silent_kind (k : tag) : bool := match k with KTuple | KList => true | _ => false end.
Definition plain (w : wrap) : bool := match w with WPlain => true | _ => false end.

Fixpoint quiet (e : expr) : bool :=
  match e with
  | EName _ | ETmp _ | EConst _ => true
  | EBad _ => false
  | EOp k _ cs =>
      silent_kind k &&
      (fix go (cs : list child) : bool :=
         match cs with
         | [] => true
         | (_, w, c) :: rest => plain w && quiet c && go rest
         end) cs
  end.

(* a starred / ** operand is unpacked in place, right after it has been evaluated: a second,
   never quiet, never named entry *)
Record cinfo := mkinfo { ci_quiet : bool; ci_nohoist : bool; ci_named : bool }.

Fixpoint order_ok (l : list cinfo) : bool :=
  match l with
  | [] => true
  | x :: r =>
      (ci_quiet x || forallb (fun y => ci_nohoist y && (ci_named x || negb (ci_named y) || ci_quiet y)) r)
      && order_ok r
  end.

Fixpoint child_infos (cfg : config) (ens : bool) (parent : tag) (cs : list child) (n : nat) : list cinfo :=
  match cs with
  | [] => []
  | (f, w, c) :: rest =>
      match anf_expr cfg c n with
      | None => []
      | Some (c', H, n1) =>
          mkinfo (quiet c') (is_nil H) (ens && negb (is_trivial c') && should_transform cfg parent f (tag_of c'))
          :: (if plain w || match w with WKw _ => true | _ => false end then [] else [mkinfo false true false])
          ++ child_infos cfg ens parent rest n1
      end
  end.

(* Dict displays: AST order is keys..., values...; Python evaluates k1, v1, k2, v2 *)
(* Set displays with a starred item are built incrementally (the items before the star are hashed
   before the starred operand is evaluated): outside the semantics of AnfSem *)
Definition arity_ok (k : tag) (cs : list child) : bool :=
  match k with
  | KDict => Nat.leb (List.length cs) 2
  | KSet => forallb (fun c : child => plain (snd (fst c))) cs
  | KNamedExpr => false     (* binds a user variable: names are no longer atoms; outside the semantics of AnfSem *)
  | _ => true
  end.

Fixpoint guard_expr (cfg : config) (e : expr) (n : nat) : bool :=
  match e with
  | EOp k lab cs =>
      (fix gc (cs : list child) (n : nat) : bool :=
         match cs with
         | [] => true
         | (_, _, c) :: rest =>
             guard_expr cfg c n &&
             match anf_expr cfg c n with Some (_, _, n1) => gc rest n1 | None => true end
         end) cs n
      && arity_ok k cs
      && order_ok (child_infos cfg true k cs n)
  | _ => true
  end.

Fixpoint guard_children (cfg : config) (cs : list child) (n : nat) : bool :=
  match cs with
  | [] => true
  | (_, _, c) :: rest =>
      guard_expr cfg c n &&
      match anf_expr cfg c n with Some (_, _, n1) => guard_children cfg rest n1 | None => true end
  end.

Definition guard_named (cfg : config) (e : expr) (n : nat) : bool := guard_expr cfg e n.

Fixpoint guard_stmt (cfg : config) (s : stmt) (n : nat) : bool :=
  let fix gb (b : list stmt) (n : nat) : bool :=
    match b with
    | [] => true
    | s :: rest =>
        guard_stmt cfg s n &&
        match anf_stmt cfg s n with Some (_, n1) => gb rest n1 | None => true end
    end in
  match s with
  | SExpr e => guard_expr cfg e n
  | SAssign ts e =>
      let cs := map (fun t => ("targets", WPlain, t)) ts in
      guard_children cfg (cs ++ [("value", WPlain, e)]) n
      && forallb ci_nohoist (child_infos cfg false KAssign cs n)     (* nothing hoisted out of a target *)
  | SAug t op e =>
      let cs := [("target", WPlain, t); ("value", WPlain, e)] in
      guard_children cfg cs n && order_ok (child_infos cfg false KAugAssign cs n)
  | SReturn o =>
      let cs := opt_children "value" o in
      guard_children cfg cs n && order_ok (child_infos cfg true KReturn cs n)
  | SRaise o c =>
      let cs := opt_children "exc" o ++ opt_children "cause" c in
      guard_children cfg cs n && order_ok (child_infos cfg true KRaise cs n)
  | SPass | SBreak | SContinue => true
  | SIf e b1 b2 =>
      guard_expr cfg e n &&
      match anf_named cfg KIf "test" e n with
      | Some (_, _, n1) => gb b1 n1 && match anf_block cfg b1 n1 with Some (_, n2) => gb b2 n2 | None => true end
      | None => true
      end
  | SWhile e b1 b2 =>
      guard_expr cfg e n &&
      match anf_named cfg KWhile "test" e n with
      | Some (_, _, n1) => gb b1 n1 && match anf_block cfg b1 n1 with Some (_, n2) => gb b2 n2 | None => true end
      | None => true
      end
  | SFor t e b1 b2 =>
      guard_expr cfg e n &&
      match anf_named cfg KFor "iter" e n with
      | Some (_, _, n1) =>
          guard_expr cfg t n1 &&
          match anf_expr cfg t n1 with
          | Some (_, _, n1') =>
              gb b1 n1' && match anf_block cfg b1 n1' with Some (_, n2) => gb b2 n2 | None => true end
          | None => true
          end
      | None => true
      end
  | SWith e v b =>
      guard_expr cfg e n &&
      match anf_named cfg KWith "items" e n with
      | Some (_, _, n1) => gb b n1
      | None => true
      end
  | STry b hs o f =>
      let fix gh (hs : list handler) (n : nat) : bool :=
        match hs with
        | [] => true
        | (t, v, hb) :: rest =>
            match t with Some e => guard_expr cfg e n | None => true end &&
            match anf_htype cfg t n with
            | Some (_, n1) =>
                gb hb n1 && match anf_block cfg hb n1 with Some (_, n2) => gh rest n2 | None => true end
            | None => true
            end
        end in
      gb b n &&
      match anf_block cfg b n with
      | Some (_, n1) =>
          gh hs n1 &&
          match anf_handlers cfg hs n1 with
          | Some (_, n2) =>
              gb o n2 && match anf_block cfg o n2 with Some (_, n3) => gb f n3 | None => true end
          | None => true
          end
      | None => true
      end
  end.

Fixpoint guard_block (cfg : config) (b : list stmt) (n : nat) : bool :=
  match b with
  | [] => true
  | s :: rest =>
      guard_stmt cfg s n &&
      match anf_stmt cfg s n with Some (_, n1) => guard_block cfg rest n1 | None => true end
  end.

Definition guard (cfg : config) (b : list stmt) : bool := guard_block cfg b 0.

(* ------------------------------------------------------------------ discipline of the generated tables *)
(* Generated/C18_gen.v lists how every AnfTransformer.visit_<Node> dispatches; the model above
   hard-wires the following dispatch, which the per-run obligation tables_ok re-checks. *)
Inductive vmode := VStrictStmt (ok : bool) | VTrivStmt | VStrictExpr | VTrivExpr | VReject | VCompare | VDisplay | VCustom.

Definition vmode_eqb (a b : vmode) : bool :=
  match a, b with
  | VStrictStmt x, VStrictStmt y => Bool.eqb x y
  | VTrivStmt, VTrivStmt | VStrictExpr, VStrictExpr | VTrivExpr, VTrivExpr | VReject, VReject
  | VCompare, VCompare | VDisplay, VDisplay | VCustom, VCustom => true
  | _, _ => false
  end.

Definition expected_modes : list (string * vmode) :=
  [("Return", VStrictStmt true); ("Raise", VStrictStmt true); ("Assign", VStrictStmt false);
   ("AugAssign", VStrictStmt false); ("Expr", VStrictStmt false);
   ("BinOp", VStrictExpr); ("UnaryOp", VStrictExpr); ("Call", VStrictExpr); ("Attribute", VStrictExpr);
   ("Subscript", VStrictExpr); ("Dict", VStrictExpr); ("Set", VStrictExpr); ("Compare", VCompare);
   ("List", VDisplay); ("Tuple", VDisplay);
   ("BoolOp", VTrivExpr); ("IfExp", VTrivExpr); ("Lambda", VTrivExpr);
   ("ListComp", VReject); ("SetComp", VReject); ("DictComp", VReject); ("GeneratorExp", VReject);
   ("If", VCustom); ("For", VCustom); ("With", VCustom); ("While", VCustom)].

(* node classes the model assumes are walked by generic_visit only *)
Definition no_visitor : list string :=
  ["Name"; "Constant"; "Starred"; "keyword"; "withitem"; "Pass"; "Break"; "Continue"; "NamedExpr";
   "Try"; "ExceptHandler"].

Fixpoint lookup_mode (n : string) (t : list (string * vmode)) : option vmode :=
  match t with
  | [] => None
  | (m, v) :: r => if String.eqb n m then Some v else lookup_mode n r
  end.

Definition table_ok (t : list (string * vmode)) : bool :=
  forallb (fun p => match lookup_mode (fst p) t with Some m => vmode_eqb m (snd p) | None => false end) expected_modes
  && forallb (fun n => match lookup_mode n t with None => true | Some _ => false end) no_visitor.

Definition strs_eqb (a b : list string) : bool :=
  Nat.eqb (List.length a) (List.length b) && forallb (fun p => String.eqb (fst p) (snd p)) (combine a b).

Definition default_rules_ok (r : list (option (list string) * option string * option (list string) * bool)) : bool :=
  match r with
  | [ (None, None, Some lits, false); (None, None, Some ex, true) ] =>
      strs_eqb lits ["Constant"; "Name"] && strs_eqb ex ["expr"]
  | _ => false
  end.

Definition wrappers_ok (w : list string) : bool :=
  existsb (String.eqb "keyword") w && existsb (String.eqb "Starred") w && existsb (String.eqb "withitem") w.

(* Generated/C18_gen.v lists the classes _is_trivial treats as trivial (never hoisted, the
   configuration is not even asked).  Only reads of variables, the non-node field values, operator
   tokens and expression contexts may be there: a node kind whose evaluation is an effect (a call, an
   assignment expression, ...) in that table makes the obligation tables_ok fail. *)
Definition allowed_trivial : list string :=
  ["Name"; "bool"; "str"; "expr_context";
   "Add"; "Sub"; "Mult"; "Div"; "Mod"; "Pow"; "LShift"; "RShift"; "BitOr"; "BitXor"; "BitAnd"; "FloorDiv"; "MatMult";
   "And"; "Or"; "Invert"; "Not"; "UAdd"; "USub";
   "Eq"; "NotEq"; "Lt"; "LtE"; "Gt"; "GtE"; "Is"; "IsNot"; "In"; "NotIn"].
Definition trivial_ok (l : list string) : bool :=
  forallb (fun n => existsb (String.eqb n) allowed_trivial) l && existsb (String.eqb "Name") l.

(* Generated/C18_gen.v gives the template _do_transform_node instantiates for every hoisted operand and the
   names of its two placeholders.  The model's hoisted statement is `SAssign [ETmp n] e` with e the operand
   itself: the template must be exactly "<target> = <value>" with two different placeholder names.  (That
   the template engine fills the placeholders without looking into the operand -- variables of the program
   spelled like a placeholder stay what they are -- is the renaming invariance AnfRenameProofs.transform_ren
   of the model, tied to the implementation by the hygiene stream of the check.) *)
Definition hoist_template_ok (t : string * string * string) : bool :=
  let '(text, target, value) := t in
  negb (String.eqb target value) && String.eqb text (target ++ " = " ++ value)%string.
