(* C18: the transformed expression, run after its hoisted statements, has the same effect on
   the world and the same result as the original -- for every interpretation of the operations. *)
From Coq Require Import List String Bool Arith Lia.
Import ListNotations.
Require Import MV.Anf.Anf MV.Anf.AnfSem MV.Anf.AnfProofs.
Local Open Scope string_scope.
Local Open Scope list_scope.

Fixpoint tmps_le (a : nat) (e : expr) : bool :=
  match e with
  | ETmp n => Nat.leb n a
  | EOp _ _ cs => (fix go (cs : list child) : bool :=
                     match cs with [] => true | (_, _, c) :: r => tmps_le a c && go r end) cs
  | _ => true
  end.
Fixpoint ctmps_le (a : nat) (cs : list child) : bool :=
  match cs with [] => true | (_, _, c) :: r => tmps_le a c && ctmps_le a r end.
Lemma tmps_le_op : forall a k lab cs, tmps_le a (EOp k lab cs) = ctmps_le a cs.
Proof. intros. simpl. induction cs as [|[[f w] c] r IH]; simpl; [reflexivity|]. now rewrite IH. Qed.

Fixpoint cquiet (cs : list child) : bool :=
  match cs with [] => true | (_, w, c) :: r => plain w && quiet c && cquiet r end.
Lemma quiet_op : forall k lab cs, quiet (EOp k lab cs) = silent_kind k && cquiet cs.
Proof.
  intros. simpl. destruct (silent_kind k); simpl; [|reflexivity].
  induction cs as [|[[f w] c] r IH]; simpl; [reflexivity|]. now rewrite IH.
Qed.

Lemma tmps_le_mono : forall a b e, a <= b -> tmps_le a e = true -> tmps_le b e = true.
Proof.
  intros a b e L. induction e using expr_ind'; try (simpl; auto; fail).
  - simpl. intros E. apply Nat.leb_le in E. apply Nat.leb_le. lia.
  - rewrite !tmps_le_op.
    induction H as [|[[f w] c] r Hc Hr IH]; simpl; auto.
    intros E. apply andb_true_iff in E. destruct E as [E1 E2]. simpl in Hc. rewrite (Hc E1), (IH E2). reflexivity.
Qed.

Section Order.
  Variable value : Type.
  Variable world : Type.
  Variable interp : tag -> string -> list (string * wrap * value) -> M value world value.
  Variable build : tag -> list value -> value.
  Variable unpack : wrap -> value -> M value world value.
  Variable opaque : expr -> (string -> value) -> M value world value.
  Variable const_val : string -> value.
  Variable rho : string -> value.

  Notation MV := (M value world).
  Notation E := (eval value world interp build unpack opaque const_val rho).
  Notation EC := (eval_children value world interp build unpack opaque const_val rho).
  Notation R := (run_pending value world interp build unpack opaque const_val rho).
  Notation bnd := (bind value world).
  Notation rt := (ret value world).
  Notation unw := (unwrap value world unpack).

  Definition meq {A} (m1 m2 : MV A) : Prop := forall w, m1 w = m2 w.
  Infix "==" := meq (at level 70).

  Lemma bind_cong : forall A B (m1 m2 : MV A) (f1 f2 : A -> MV B),
    m1 == m2 -> (forall a, f1 a == f2 a) -> bnd m1 f1 == bnd m2 f2.
  Proof. intros A B m1 m2 f1 f2 H1 H2 w. unfold bind. rewrite H1. destruct (m2 w) as [w1 [a|x]]; auto. apply H2. Qed.
  Lemma bind_assoc : forall A B C (m : MV A) (f : A -> MV B) (g : B -> MV C),
    bnd (bnd m f) g == bnd m (fun a => bnd (f a) g).
  Proof. intros. intro w. unfold bind. destruct (m w) as [w1 [a|x]]; auto. Qed.
  Lemma bind_ret_l : forall A B (a : A) (f : A -> MV B), bnd (rt a) f == f a.
  Proof. intros. intro w. reflexivity. Qed.
  Lemma meq_refl : forall A (m : MV A), m == m. Proof. intros A m w. reflexivity. Qed.
  Lemma meq_trans : forall A (a b c : MV A), a == b -> b == c -> a == c.
  Proof. intros A a b c H1 H2 w. now rewrite H1. Qed.
  Lemma meq_sym : forall A (a b : MV A), a == b -> b == a.
  Proof. intros A a b H1 w. now rewrite H1. Qed.

  Lemma eval_op : forall tau k lab cs,
    E tau (EOp k lab cs) =
    if triv_only k then opaque (EOp k lab cs) rho
    else bnd (EC tau cs) (fun vs => if silent k cs then rt (build k (map snd vs)) else interp k lab vs).
  Proof.
    intros. simpl. destruct (triv_only k); [reflexivity|]. f_equal.
    induction cs as [|[[f w] c] r IH]; simpl; [reflexivity|]. now rewrite IH.
  Qed.

  Lemma run_app : forall H1 H2 tau, R (H1 ++ H2) tau == bnd (R H1 tau) (fun t => R H2 t).
  Proof.
    induction H1 as [|[n e] r IH]; intros H2 tau; simpl.
    - intro w. reflexivity.
    - eapply meq_trans; [|apply meq_sym, bind_assoc]. apply bind_cong; [apply meq_refl|]. intro v. apply IH.
  Qed.

  (* ---- frames ---- *)
  Definition agree (a : nat) (t1 t2 : nat -> value) : Prop := forall n, n <= a -> t1 n = t2 n.

  Lemma eval_frame : forall a e t1 t2, tmps_le a e = true -> agree a t1 t2 -> E t1 e = E t2 e.
  Proof.
    intros a e. induction e using expr_ind'; intros t1 t2 T A; try reflexivity.
    - simpl in *. apply Nat.leb_le in T. now rewrite (A _ T).
    - rewrite tmps_le_op in T. rewrite !eval_op. destruct (triv_only k); [reflexivity|]. f_equal.
      induction H as [|[[f w] c] r Hc Hr IH]; simpl in *; [reflexivity|].
      apply andb_true_iff in T. destruct T as [T1 T2]. rewrite (Hc t1 t2 T1 A), (IH T2). reflexivity.
  Qed.
  Lemma evalc_frame : forall a cs t1 t2, ctmps_le a cs = true -> agree a t1 t2 -> EC t1 cs = EC t2 cs.
  Proof.
    induction cs as [|[[f w] c] r IH]; intros t1 t2 T A; simpl in *; [reflexivity|].
    apply andb_true_iff in T. destruct T as [T1 T2]. rewrite (eval_frame a c t1 t2 T1 A), (IH t1 t2 T2 A). reflexivity.
  Qed.

  Lemma run_frame : forall H tau w w' tau',
    R H tau w = (w', Val tau') -> forall n, ~ In n (map fst H) -> tau' n = tau n.
  Proof.
    induction H as [|[m e] r IH]; intros tau w w' tau' Er n NI; simpl in *.
    - unfold ret in Er. inversion Er. reflexivity.
    - unfold bind in Er. destruct (E tau e w) as [w1 [v|x]]; [|discriminate].
      rewrite (IH _ _ _ _ Er n); [|tauto]. unfold upd_t. destruct (Nat.eqb n m) eqn:Q; [|reflexivity].
      apply Nat.eqb_eq in Q. subst. tauto.
  Qed.

  (* a quiet expression is a value *)
  Lemma quiet_pure : forall e tau, quiet e = true -> exists v, forall w, E tau e w = (w, Val v).
  Proof.
    intros e tau. induction e using expr_ind'; intros Q; try (eexists; intro; reflexivity); try discriminate.
    rewrite quiet_op in Q. apply andb_true_iff in Q. destruct Q as [S Q].
    assert (C : exists vs, forall w, EC tau cs w = (w, Val vs)).
    { induction H as [|[[f w] c] r Hc Hr IH]; simpl in *; [eexists; intro; reflexivity|].
      apply andb_true_iff in Q. destruct Q as [Q1 Q2]. apply andb_true_iff in Q1. destruct Q1 as [P Qc].
      destruct (Hc Qc) as [v Hv]. destruct (IH Q2) as [vs Hvs]. destruct w; try discriminate.
      exists ((f, WPlain, v) :: vs). intro w. unfold bind. rewrite Hv. simpl. unfold ret. rewrite Hvs. reflexivity. }
    destruct C as [vs Hvs]. rewrite eval_op.
    assert (T : triv_only k = false) by (destruct k; simpl in S; try discriminate; reflexivity). rewrite T.
    assert (SS : silent k cs = true).
    { unfold silent. rewrite S. simpl. clear - Q. induction cs as [|[[f w] c] r IH]; simpl in *; [reflexivity|].
      apply andb_true_iff in Q. destruct Q as [Q1 Q2]. apply andb_true_iff in Q1. destruct Q1 as [P _]. rewrite P. auto. }
    rewrite SS. eexists. intro w. unfold bind. rewrite Hvs. reflexivity.
  Qed.

End Order.

(* ---- bounds: everything mentions only temporaries up to the current counter ---- *)
Lemma ctmps_le_mono : forall a b cs, a <= b -> ctmps_le a cs = true -> ctmps_le b cs = true.
Proof.
  intros a b cs L. induction cs as [|[[f w] c] r IH]; simpl; auto. intros T.
  apply andb_true_iff in T. destruct T as [A B]. rewrite (tmps_le_mono a b c L A), (IH B). reflexivity.
Qed.

Lemma ensure_children_bound : forall cfg k cs n cs' H n',
  ensure_children cfg k cs n = (cs', H, n') -> ctmps_le n cs = true -> ctmps_le n' cs' = true.
Proof.
  induction cs as [|[[f w] c] rest IH]; intros n cs' H n' E T; simpl in E.
  - inversion E; subst. auto.
  - simpl in T. apply andb_true_iff in T. destruct T as [Tc Tr].
    destruct (negb (is_trivial c) && should_transform cfg k f (tag_of c)).
    + destruct (ensure_children cfg k rest (S n)) as [[r' H'] n1] eqn:E1. inversion E; subst.
      pose proof (ensure_children_fresh _ _ _ _ _ _ _ E1) as [L _].
      simpl. rewrite (IH _ _ _ _ E1 (ctmps_le_mono n (S n) rest (Nat.le_succ_diag_r n) Tr)).
      rewrite andb_true_r. destruct n'; [lia|]. apply Nat.leb_le. lia.
    + destruct (ensure_children cfg k rest n) as [[r' H'] n1] eqn:E1. inversion E; subst.
      pose proof (ensure_children_fresh _ _ _ _ _ _ _ E1) as [L _].
      simpl. rewrite (IH _ _ _ _ E1 Tr), (tmps_le_mono n n' c L Tc). reflexivity.
Qed.

Lemma visit_children_fresh : forall cfg cs n cs1 H n1,
  visit_children cfg cs n = Some (cs1, H, n1) -> n <= n1 /\ map fst H = seq (S n) (n1 - n).
Proof.
  induction cs as [|[[f w] c] rest IH]; intros n cs1 H n1 E; simpl in E.
  - inversion E; subst. split; [lia|now rewrite Nat.sub_diag].
  - destruct (anf_expr cfg c n) as [[[c' Hc'] m1]|] eqn:Ec; [|discriminate].
    destruct (visit_children cfg rest m1) as [[[r' Hr'] m2]|] eqn:Er; [|discriminate].
    inversion E; subst. apply anf_expr_fresh in Ec. apply IH in Er. destruct Ec as [L1 M1], Er as [L2 M2].
    split; [lia|]. rewrite map_app. unfold pend in *. rewrite M1, M2. apply seq_app'; lia.
Qed.

Lemma anf_expr_bound : forall cfg e n e' H n',
  anf_expr cfg e n = Some (e', H, n') -> tmps_le n e = true -> tmps_le n' e' = true.
Proof.
  intros cfg e. induction e using expr_ind'; intros n0 e' H0 n' E T; try (simpl in E; inversion E; subst; auto; fail).
  rewrite anf_expr_op in E. rewrite tmps_le_op in T.
  assert (V : forall cs1 H1 n1 m, visit_children cfg cs m = Some (cs1, H1, n1) -> ctmps_le m cs = true -> ctmps_le n1 cs1 = true).
  { clear E T. induction H as [|[[f w] c] rest Hc Hr IH]; intros cs1 H1 n1 m E T; simpl in E.
    - inversion E; subst. auto.
    - destruct (anf_expr cfg c m) as [[[c' Hc'] m1]|] eqn:Ec; [|discriminate].
      destruct (visit_children cfg rest m1) as [[[r' Hr'] m2]|] eqn:Er; [|discriminate].
      inversion E; subst. simpl in T. apply andb_true_iff in T. destruct T as [Tc Tr].
      pose proof (anf_expr_fresh _ _ _ _ _ _ Ec) as [L1 _]. pose proof (visit_children_fresh _ _ _ _ _ _ Er) as [L2 _].
      simpl in Hc. simpl. rewrite (tmps_le_mono m1 n1 c' L2 (Hc _ _ _ _ Ec Tc)).
      rewrite (IH _ _ _ _ Er (ctmps_le_mono m m1 rest L1 Tr)). reflexivity. }
  destruct (visit_children cfg cs n0) as [[[cs1 H1] n1]|] eqn:Ev; [|discriminate].
  destruct (ensure_children cfg k cs1 n1) as [[cs2 H2] n2] eqn:Ee.
  destruct (triv_only k && _); [discriminate|]. inversion E; subst.
  rewrite tmps_le_op. eapply ensure_children_bound; eauto.
Qed.

Lemma visit_children_bound : forall cfg cs n cs1 H n1,
  visit_children cfg cs n = Some (cs1, H, n1) -> ctmps_le n cs = true -> ctmps_le n1 cs1 = true.
Proof.
  induction cs as [|[[f w] c] rest IH]; intros m cs1 H1 n1 E T; simpl in E.
  - inversion E; subst. auto.
  - destruct (anf_expr cfg c m) as [[[c' Hc'] m1]|] eqn:Ec; [|discriminate].
    destruct (visit_children cfg rest m1) as [[[r' Hr'] m2]|] eqn:Er; [|discriminate].
    inversion E; subst. simpl in T. apply andb_true_iff in T. destruct T as [Tc Tr].
    pose proof (anf_expr_fresh _ _ _ _ _ _ Ec) as [L1 _]. pose proof (visit_children_fresh _ _ _ _ _ _ Er) as [L2 _].
    simpl. rewrite (tmps_le_mono m1 n1 c' L2 (anf_expr_bound _ _ _ _ _ _ Ec Tc)).
    rewrite (IH _ _ _ _ Er (ctmps_le_mono m m1 rest L1 Tr)). reflexivity.
Qed.

(* ---- what the order guard gives ---- *)
Definition plainish (w : wrap) : bool := plain w || match w with WKw _ => true | _ => false end.
Definition cq (w : wrap) (e : expr) : bool := plainish w && quiet e.

Lemma infos_cons : forall cfg ens k f w c rest n c' H n1,
  anf_expr cfg c n = Some (c', H, n1) ->
  child_infos cfg ens k ((f, w, c) :: rest) n =
  mkinfo (quiet c') (is_nil H) (ens && negb (is_trivial c') && should_transform cfg k f (tag_of c'))
  :: (if plainish w then [] else [mkinfo false true false]) ++ child_infos cfg ens k rest n1.
Proof. intros. simpl. rewrite H0. reflexivity. Qed.

Lemma order_ok_tail : forall x l, order_ok (x :: l) = true -> order_ok l = true.
Proof. intros x l O. simpl in O. apply andb_true_iff in O. tauto. Qed.
Lemma order_ok_app_tail : forall l1 l2, order_ok (l1 ++ l2) = true -> order_ok l2 = true.
Proof. induction l1; simpl; auto. intros l2 O. apply andb_true_iff in O. destruct O. auto. Qed.

(* head: evaluated-in-place quiet, or nothing is hoisted out of the later children *)
Lemma guard_head1 : forall cfg ens k f w c rest n c' H n1,
  anf_expr cfg c n = Some (c', H, n1) ->
  order_ok (child_infos cfg ens k ((f, w, c) :: rest) n) = true ->
  cq w c' = true \/ forallb ci_nohoist (child_infos cfg ens k rest n1) = true.
Proof.
  intros cfg ens k f w c rest n c' H n1 Ea O. rewrite (infos_cons _ _ _ _ _ _ _ _ _ _ _ Ea) in O.
  unfold cq. destruct (plainish w) eqn:P; simpl in O.
  - apply andb_true_iff in O. destruct O as [O _]. apply orb_true_iff in O. destruct O as [O|O]; [left; now rewrite O|].
    right. rewrite forallb_forall in *. intros y I. specialize (O y I). apply andb_true_iff in O. tauto.
  - apply andb_true_iff in O. destruct O as [_ O]. apply andb_true_iff in O. destruct O as [O _].
    right. rewrite forallb_forall in *. intros y I. specialize (O y I). apply andb_true_iff in O. tauto.
Qed.

Lemma guard_tail : forall cfg ens k f w c rest n c' H n1,
  anf_expr cfg c n = Some (c', H, n1) ->
  order_ok (child_infos cfg ens k ((f, w, c) :: rest) n) = true ->
  order_ok (child_infos cfg ens k rest n1) = true.
Proof.
  intros cfg ens k f w c rest n c' H n1 Ea O. rewrite (infos_cons _ _ _ _ _ _ _ _ _ _ _ Ea) in O.
  apply order_ok_tail in O. now apply order_ok_app_tail in O.
Qed.

Lemma nohoist_nil : forall cfg ens k rest n r' Hr n2,
  visit_children cfg rest n = Some (r', Hr, n2) ->
  forallb ci_nohoist (child_infos cfg ens k rest n) = true -> Hr = [].
Proof.
  induction rest as [|[[f w] c] rest IH]; intros n r' Hr n2 V F; simpl in V.
  - now inversion V.
  - destruct (anf_expr cfg c n) as [[[c' Hc'] m1]|] eqn:Ec; [|discriminate].
    destruct (visit_children cfg rest m1) as [[[r1 Hr1] m2]|] eqn:Er; [|discriminate].
    inversion V; subst. rewrite (infos_cons _ _ _ _ _ _ _ _ _ _ _ Ec) in F. simpl in F.
    apply andb_true_iff in F. destruct F as [F1 F2]. rewrite forallb_app in F2. apply andb_true_iff in F2. destruct F2 as [_ F2].
    rewrite (IH _ _ _ _ Er F2). destruct Hc'; [reflexivity|discriminate].
Qed.

Section Order2.
  Variable value : Type.
  Variable world : Type.
  Variable interp : tag -> string -> list (string * wrap * value) -> M value world value.
  Variable build : tag -> list value -> value.
  Variable unpack : wrap -> value -> M value world value.
  Variable opaque : expr -> (string -> value) -> M value world value.
  Variable const_val : string -> value.
  Variable rho : string -> value.
  Variable cfg : config.

  Notation E := (eval value world interp build unpack opaque const_val rho).
  Notation EC := (eval_children value world interp build unpack opaque const_val rho).
  Notation R := (run_pending value world interp build unpack opaque const_val rho).
  Notation bnd := (bind value world).
  Notation rt := (ret value world).
  Notation unw := (unwrap value world unpack).

  Definition IHP (e : expr) : Prop :=
    forall n e' H n' tau w, tmps_le n e = true -> anf_expr cfg e n = Some (e', H, n') -> guard_expr cfg e n = true ->
      E tau e w = bnd (R H tau) (fun t => E t e') w.

  Lemma cq_pure : forall w c tau, cq w c = true ->
    exists v, forall w0, E tau c w0 = (w0, Val v) /\ unw w v w0 = (w0, Val v).
  Proof.
    intros w c tau Q. unfold cq in Q. apply andb_true_iff in Q. destruct Q as [P Q].
    destruct (quiet_pure value world interp build unpack opaque const_val rho c tau Q) as [v Hv].
    exists v. intro w0. split; [apply Hv|]. destruct w; simpl in *; try discriminate; reflexivity.
  Qed.

  Lemma run_agree : forall H tau w w' tau' a,
    R H tau w = (w', Val tau') -> (forall t, In t (map fst H) -> a < t) -> agree value a tau tau'.
  Proof.
    intros H tau w w' tau' a Er L n Ln. symmetry.
    eapply (run_frame value world interp build unpack opaque const_val rho); eauto.
    intro I. apply L in I. lia.
  Qed.

  Lemma bind_val : forall A B (m : M value world A) (f : A -> M value world B) w w1 a,
    m w = (w1, Val a) -> bnd m f w = f a w1.
  Proof. intros. unfold bind. now rewrite H. Qed.
  Lemma bind_exn : forall A B (m : M value world A) (f : A -> M value world B) w w1 x,
    m w = (w1, Exn x) -> bnd m f w = (w1, Exn x).
  Proof. intros. unfold bind. now rewrite H. Qed.
  Lemma bind_head : forall A B (m1 m2 : M value world A) (f : A -> M value world B) w,
    m1 w = m2 w -> bnd m1 f w = bnd m2 f w.
  Proof. intros. unfold bind. now rewrite H. Qed.
  Lemma bind_assoc_w : forall A B C (m : M value world A) (f : A -> M value world B) (g : B -> M value world C) w,
    bnd (bnd m f) g w = bnd m (fun a => bnd (f a) g) w.
  Proof. intros. apply bind_assoc. Qed.
  Lemma bind_run_app : forall A H1 H2 tau (f : _ -> M value world A) w,
    bnd (R (H1 ++ H2) tau) f w = bnd (R H1 tau) (fun t1 => bnd (R H2 t1) f) w.
  Proof.
    intros. rewrite (bind_head _ _ _ _ f w (run_app value world interp build unpack opaque const_val rho H1 H2 tau w)).
    apply bind_assoc_w.
  Qed.

  (* phase 1: hoisting out of all children before evaluating the children *)
  Lemma phase1 : forall ens k cs, Forall (fun c : child => IHP (snd c)) cs ->
    forall n cs1 Hs n1 tau w,
      ctmps_le n cs = true -> visit_children cfg cs n = Some (cs1, Hs, n1) -> guard_children cfg cs n = true ->
      order_ok (child_infos cfg ens k cs n) = true ->
      EC tau cs w = bnd (R Hs tau) (fun t => EC t cs1) w.
  Proof.
    intros ens k cs F. induction F as [|[[f w] c] rest Hc Hr IH]; intros n cs1 Hs n1 tau w0 T V G O; simpl in V.
    - inversion V; subst. reflexivity.
    - destruct (anf_expr cfg c n) as [[[c' H1] m1]|] eqn:Ec; [|discriminate].
      destruct (visit_children cfg rest m1) as [[[r' Hr'] m2]|] eqn:Er; [|discriminate].
      inversion V; subst. simpl in T. apply andb_true_iff in T. destruct T as [Tc Tr].
      simpl in G. rewrite Ec in G. apply andb_true_iff in G. destruct G as [Gc Gr].
      pose proof (anf_expr_fresh _ _ _ _ _ _ Ec) as [L1 M1].
      pose proof (visit_children_fresh _ _ _ _ _ _ Er) as [L2 M2].
      pose proof (anf_expr_bound _ _ _ _ _ _ Ec Tc) as Bc.
      pose proof (guard_tail _ _ _ _ _ _ _ _ _ _ _ Ec O) as Ot.
      rewrite bind_run_app.
      change (EC tau ((f, w, c) :: rest)) with
        (bnd (E tau c) (fun v => bnd (unw w v) (fun v' => bnd (EC tau rest) (fun vs => rt ((f, w, v') :: vs))))).
      simpl in Hc. rewrite (bind_head _ _ _ _ _ w0 (Hc n c' H1 m1 tau w0 Tc Ec Gc)). rewrite bind_assoc_w.
      destruct (R H1 tau w0) as [w1 [t1|x]] eqn:R1;
        [|rewrite !(bind_exn _ _ (R H1 tau) _ w0 w1 x R1); reflexivity].
      rewrite !(bind_val _ _ (R H1 tau) _ w0 w1 t1 R1).
      assert (A1 : agree value n tau t1).
      { eapply run_agree; eauto. intros t I. unfold pend in *. rewrite M1 in I. apply in_seq in I. lia. }
      assert (Trest : EC tau rest = EC t1 rest).
      { eapply (evalc_frame value world interp build unpack opaque const_val rho); eauto. }
      rewrite Trest.
      destruct (guard_head1 _ _ _ _ _ _ _ _ _ _ _ Ec O) as [Q|Q].
      + (* the head is a value: it commutes with what is hoisted out of the rest *)
        destruct (cq_pure w c' t1 Q) as [v Hv]. destruct (Hv w1) as [Hv1 Hv2].
        rewrite (bind_val _ _ (E t1 c') _ w1 w1 v Hv1). rewrite (bind_val _ _ (unw w v) _ w1 w1 v Hv2).
        rewrite (bind_head _ _ _ _ _ w1 (IH m1 r' Hr' n1 t1 w1 (ctmps_le_mono _ _ _ L1 Tr) Er Gr Ot)).
        rewrite bind_assoc_w.
        destruct (R Hr' t1 w1) as [w2 [t2|x]] eqn:R2;
          [|rewrite !(bind_exn _ _ (R Hr' t1) _ w1 w2 x R2); reflexivity].
        rewrite !(bind_val _ _ (R Hr' t1) _ w1 w2 t2 R2).
        assert (A2 : agree value m1 t1 t2).
        { eapply run_agree; eauto. intros t I. unfold pend in *. rewrite M2 in I. apply in_seq in I. lia. }
        change (EC t2 ((f, w, c') :: r')) with
          (bnd (E t2 c') (fun v => bnd (unw w v) (fun v' => bnd (EC t2 r') (fun vs => rt ((f, w, v') :: vs))))).
        rewrite <- (eval_frame value world interp build unpack opaque const_val rho m1 c' t1 t2 Bc A2).
        destruct (Hv w2) as [Hw1 Hw2].
        rewrite (bind_val _ _ (E t1 c') _ w2 w2 v Hw1). rewrite (bind_val _ _ (unw w v) _ w2 w2 v Hw2). reflexivity.
      + (* nothing is hoisted out of the rest *)
        pose proof (nohoist_nil _ _ _ _ _ _ _ _ Er Q) as N. subst Hr'.
        change (R [] t1) with (rt t1). rewrite (bind_val _ _ (rt t1) _ w1 w1 t1 eq_refl).
        change (EC t1 ((f, w, c') :: r')) with
          (bnd (E t1 c') (fun v => bnd (unw w v) (fun v' => bnd (EC t1 r') (fun vs => rt ((f, w, v') :: vs))))).
        destruct (E t1 c' w1) as [w2 [v|x]] eqn:E1;
          [|rewrite !(bind_exn _ _ (E t1 c') _ w1 w2 x E1); reflexivity].
        rewrite !(bind_val _ _ (E t1 c') _ w1 w2 v E1).
        destruct (unw w v w2) as [w3 [v'|x]] eqn:E2;
          [|rewrite !(bind_exn _ _ (unw w v) _ w2 w3 x E2); reflexivity].
        rewrite !(bind_val _ _ (unw w v) _ w2 w3 v' E2).
        rewrite (bind_head _ _ _ _ _ w3 (IH m1 r' [] n1 t1 w3 (ctmps_le_mono _ _ _ L1 Tr) Er Gr Ot)).
        rewrite bind_assoc_w.
        change (R [] t1) with (rt t1). rewrite (bind_val _ _ (rt t1) _ w3 w3 t1 eq_refl). reflexivity.
  Qed.

  (* ---- phase 2: naming the children ---- *)
  Definition named (k : tag) (f : string) (c : expr) : bool :=
    negb (is_trivial c) && should_transform cfg k f (tag_of c).
  Definition nq (k : tag) (y : child) : bool :=
    match y with (f, _, c) => negb (named k f c) || quiet c end.
  Fixpoint g2 (k : tag) (cs1 : list child) : bool :=
    match cs1 with
    | [] => true
    | (f, w, c) :: r => ((if named k f c then plainish w else cq w c) || forallb (nq k) r) && g2 k r
    end.

  Lemma infos_forall : forall k rest n r' Hr n2,
    visit_children cfg rest n = Some (r', Hr, n2) ->
    forallb (fun y => negb (ci_named y) || ci_quiet y) (child_infos cfg true k rest n) = true ->
    forallb (nq k) r' = true.
  Proof.
    induction rest as [|[[f w] c] rest IH]; intros n r' Hr n2 V F; simpl in V.
    - inversion V. reflexivity.
    - destruct (anf_expr cfg c n) as [[[c' Hc'] m1]|] eqn:Ec; [|discriminate].
      destruct (visit_children cfg rest m1) as [[[r1 Hr1] m2]|] eqn:Er; [|discriminate].
      inversion V; subst. rewrite (infos_cons _ _ _ _ _ _ _ _ _ _ _ Ec) in F. simpl in F.
      apply andb_true_iff in F. destruct F as [F1 F2]. rewrite forallb_app in F2. apply andb_true_iff in F2. destruct F2 as [_ F2].
      simpl. unfold named. rewrite F1. simpl. eapply IH; eauto.
  Qed.

  Lemma g2_from_order : forall k cs n cs1 Hs n1,
    visit_children cfg cs n = Some (cs1, Hs, n1) ->
    order_ok (child_infos cfg true k cs n) = true -> g2 k cs1 = true.
  Proof.
    induction cs as [|[[f w] c] rest IH]; intros n cs1 Hs n1 V O; simpl in V.
    - inversion V. reflexivity.
    - destruct (anf_expr cfg c n) as [[[c' Hc'] m1]|] eqn:Ec; [|discriminate].
      destruct (visit_children cfg rest m1) as [[[r1 Hr1] m2]|] eqn:Er; [|discriminate].
      inversion V; subst. pose proof (guard_tail _ _ _ _ _ _ _ _ _ _ _ Ec O) as Ot.
      simpl. rewrite (IH _ _ _ _ Er Ot). rewrite andb_true_r.
      rewrite (infos_cons _ _ _ _ _ _ _ _ _ _ _ Ec) in O. unfold cq, named.
      destruct (plainish w) eqn:P; simpl in O.
      + apply andb_true_iff in O. destruct O as [O _].
        destruct (negb (is_trivial c') && should_transform cfg k f (tag_of c')) eqn:Nm; [reflexivity|].
        simpl. apply orb_true_iff in O. destruct O as [O|O]; [now rewrite O|].
        apply orb_true_iff. right. eapply infos_forall; eauto.
        rewrite forallb_forall in *. intros y I. specialize (O y I). apply andb_true_iff in O. destruct O as [_ O]. exact O.
      + apply andb_true_iff in O. destruct O as [_ O]. apply andb_true_iff in O. destruct O as [O _].
        assert (Fq : forallb (nq k) r1 = true).
        { eapply infos_forall; eauto.
          rewrite forallb_forall in *. intros y I. specialize (O y I). apply andb_true_iff in O. destruct O as [_ O]. exact O. }
        rewrite Fq. destruct (negb (is_trivial c') && should_transform cfg k f (tag_of c')); simpl; reflexivity.
  Qed.

  Lemma pure_naming : forall k r m r2 N m',
    forallb (nq k) r = true -> ensure_children cfg k r m = (r2, N, m') ->
    forall tau, exists tau', (forall w, R N tau w = (w, Val tau')) /\ agree value m tau tau'.
  Proof.
    induction r as [|[[f w] c] r IH]; intros m r2 N m' F En tau; simpl in En.
    - inversion En; subst. exists tau. split; [reflexivity|intros t _; reflexivity].
    - simpl in F. apply andb_true_iff in F. destruct F as [F1 F2]. unfold named in F1.
      destruct (negb (is_trivial c) && should_transform cfg k f (tag_of c)) eqn:Nm.
      + destruct (ensure_children cfg k r (S m)) as [[r' N'] m1] eqn:E1. inversion En; subst. simpl in F1.
        destruct (quiet_pure value world interp build unpack opaque const_val rho c tau F1) as [v Hv].
        destruct (IH _ _ _ _ F2 E1 (upd_t value tau (S m) v)) as [tau' [P A]].
        exists tau'. split.
        * intro w0. simpl. rewrite (bind_val _ _ (E tau c) _ w0 w0 v (Hv w0)). apply P.
        * intros t Lt. rewrite <- (A t); [|lia]. unfold upd_t. destruct (Nat.eqb t (S m)) eqn:Q; [|reflexivity].
          apply Nat.eqb_eq in Q. lia.
      + destruct (ensure_children cfg k r m) as [[r' N'] m1] eqn:E1. inversion En; subst.
        eapply IH; eauto.
  Qed.

  Lemma phase2 : forall k cs1 m cs2 N m' tau A (K : _ -> M value world A) w,
    ensure_children cfg k cs1 m = (cs2, N, m') -> ctmps_le m cs1 = true -> g2 k cs1 = true ->
    bnd (EC tau cs1) K w = bnd (R N tau) (fun t => bnd (EC t cs2) K) w.
  Proof.
    induction cs1 as [|[[f w] c] r IH]; intros m cs2 N m' tau A K w0 En T G; simpl in En.
    - inversion En; subst. change (R [] tau) with (rt tau). now rewrite (bind_val _ _ (rt tau) _ w0 w0 tau eq_refl).
    - simpl in T. apply andb_true_iff in T. destruct T as [Tc Tr].
      simpl in G. apply andb_true_iff in G. destruct G as [G1 G2]. unfold named in G1.
      change (EC tau ((f, w, c) :: r)) with
        (bnd (E tau c) (fun v => bnd (unw w v) (fun v' => bnd (EC tau r) (fun vs => rt ((f, w, v') :: vs))))).
      rewrite bind_assoc_w.
      destruct (negb (is_trivial c) && should_transform cfg k f (tag_of c)) eqn:Nm.
      + (* named *)
        destruct (ensure_children cfg k r (S m)) as [[r' N'] m1] eqn:E1. inversion En; subst.
        pose proof (ensure_children_fresh _ _ _ _ _ _ _ E1) as [L1 M1].
        change (R ((S m, c) :: N') tau) with (bnd (E tau c) (fun v => R N' (upd_t value tau (S m) v))).
        rewrite bind_assoc_w.
        destruct (E tau c w0) as [w1 [v|x]] eqn:E0;
          [|rewrite !(bind_exn _ _ (E tau c) _ w0 w1 x E0); reflexivity].
        rewrite !(bind_val _ _ (E tau c) _ w0 w1 v E0).
        set (t1 := upd_t value tau (S m) v).
        assert (A1 : agree value m tau t1).
        { intros t Lt. unfold t1, upd_t. destruct (Nat.eqb t (S m)) eqn:Q; [|reflexivity]. apply Nat.eqb_eq in Q. lia. }
        assert (Trest : EC tau r = EC t1 r).
        { eapply (evalc_frame value world interp build unpack opaque const_val rho); eauto. }
        rewrite Trest.
        assert (Tr' : ctmps_le (S m) r = true) by (eapply ctmps_le_mono; [|exact Tr]; lia).
        (* the temporary keeps its value while the later children are named *)
        assert (Keep : forall wa wb t2, R N' t1 wa = (wb, Val t2) -> t2 (S m) = v).
        { intros wa wb t2 Rr. rewrite (run_frame value world interp build unpack opaque const_val rho N' t1 wa wb t2 Rr (S m)).
          - unfold t1, upd_t. now rewrite Nat.eqb_refl.
          - unfold pend in *. rewrite M1. intro I. apply in_seq in I. lia. }
        apply orb_true_iff in G1. destruct G1 as [P|P].
        * (* no unpacking in place *)
          assert (U : forall wx, unw w v wx = (wx, Val v)).
          { intro. clear - P. destruct w; simpl in *; try discriminate; reflexivity. }
          rewrite bind_assoc_w. rewrite (bind_val _ _ (unw w v) _ w1 w1 v (U _ )).
          rewrite bind_assoc_w.
          rewrite (IH (S m) r' N' m' t1 _ _ w1 E1 Tr' G2).
          destruct (R N' t1 w1) as [w2 [t2|x]] eqn:R2;
            [|rewrite !(bind_exn _ _ (R N' t1) _ w1 w2 x R2); reflexivity].
          rewrite !(bind_val _ _ (R N' t1) _ w1 w2 t2 R2).
          change (EC t2 ((f, w, ETmp (S m)) :: r')) with
            (bnd (rt (t2 (S m))) (fun v => bnd (unw w v) (fun v' => bnd (EC t2 r') (fun vs => rt ((f, w, v') :: vs))))).
          rewrite bind_assoc_w. rewrite (bind_val _ _ (rt (t2 (S m))) _ w2 w2 _ eq_refl).
          rewrite (Keep _ _ _ R2). rewrite bind_assoc_w. rewrite (bind_val _ _ (unw w v) _ w2 w2 v (U _)).
          rewrite bind_assoc_w. reflexivity.
        * (* naming the later children is pure *)
          destruct (pure_naming k r (S m) r' N' m' P E1 t1) as [t2 [Pn An]].
          rewrite (bind_val _ _ (R N' t1) _ w1 w1 t2 (Pn w1)).
          change (EC t2 ((f, w, ETmp (S m)) :: r')) with
            (bnd (rt (t2 (S m))) (fun v => bnd (unw w v) (fun v' => bnd (EC t2 r') (fun vs => rt ((f, w, v') :: vs))))).
          cbv beta. rewrite !bind_assoc_w. cbv beta. rewrite (bind_val _ _ (rt (t2 (S m))) _ w1 w1 _ eq_refl).
          rewrite (Keep _ _ _ (Pn w1)).
          rewrite !bind_assoc_w.
          destruct (unw w v w1) as [w2 [v'|x]] eqn:U;
            [|rewrite !(bind_exn _ _ (unw w v) _ w1 w2 x U); reflexivity].
          rewrite !(bind_val _ _ (unw w v) _ w1 w2 v' U).
          rewrite !bind_assoc_w.
          rewrite (IH (S m) r' N' m' t1 _ _ w2 E1 Tr' G2).
          rewrite (bind_val _ _ (R N' t1) _ w2 w2 t2 (Pn w2)). reflexivity.
      + (* evaluated in place *)
        destruct (ensure_children cfg k r m) as [[r' N'] m1] eqn:E1. inversion En; subst. rename N into N'.
        pose proof (ensure_children_fresh _ _ _ _ _ _ _ E1) as [L1 M1].
        apply orb_true_iff in G1. destruct G1 as [Q|P].
        * (* the head is a value *)
          destruct (cq_pure w c tau Q) as [v Hv]. destruct (Hv w0) as [Hv1 Hv2].
          rewrite (bind_val _ _ (E tau c) _ w0 w0 v Hv1). rewrite bind_assoc_w.
          rewrite (bind_val _ _ (unw w v) _ w0 w0 v Hv2). rewrite bind_assoc_w.
          rewrite (IH m r' N' m' tau _ _ w0 E1 Tr G2).
          destruct (R N' tau w0) as [w2 [t2|x]] eqn:R2;
            [|rewrite !(bind_exn _ _ (R N' tau) _ w0 w2 x R2); reflexivity].
          rewrite !(bind_val _ _ (R N' tau) _ w0 w2 t2 R2).
          assert (A2 : agree value m tau t2).
          { eapply run_agree; eauto. intros t I. unfold pend in *. rewrite M1 in I. apply in_seq in I. lia. }
          change (EC t2 ((f, w, c) :: r')) with
            (bnd (E t2 c) (fun v => bnd (unw w v) (fun v' => bnd (EC t2 r') (fun vs => rt ((f, w, v') :: vs))))).
          rewrite <- (eval_frame value world interp build unpack opaque const_val rho m c tau t2 Tc A2).
          destruct (Hv w2) as [Hw1 Hw2]. rewrite bind_assoc_w.
          rewrite (bind_val _ _ (E tau c) _ w2 w2 v Hw1). rewrite bind_assoc_w.
          rewrite (bind_val _ _ (unw w v) _ w2 w2 v Hw2). rewrite bind_assoc_w. reflexivity.
        * (* naming the later children is pure *)
          destruct (pure_naming k r m r' N' m' P E1 tau) as [t2 [Pn An]].
          rewrite (bind_val _ _ (R N' tau) _ w0 w0 t2 (Pn w0)).
          change (EC t2 ((f, w, c) :: r')) with
            (bnd (E t2 c) (fun v => bnd (unw w v) (fun v' => bnd (EC t2 r') (fun vs => rt ((f, w, v') :: vs))))).
          rewrite <- (eval_frame value world interp build unpack opaque const_val rho m c tau t2 Tc An).
          rewrite !bind_assoc_w.
          destruct (E tau c w0) as [w1 [v|x]] eqn:E0;
            [|rewrite !(bind_exn _ _ (E tau c) _ w0 w1 x E0); reflexivity].
          rewrite !(bind_val _ _ (E tau c) _ w0 w1 v E0). rewrite !bind_assoc_w.
          destruct (unw w v w1) as [w2 [v'|x]] eqn:U;
            [|rewrite !(bind_exn _ _ (unw w v) _ w1 w2 x U); reflexivity].
          rewrite !(bind_val _ _ (unw w v) _ w1 w2 v' U). rewrite !bind_assoc_w.
          rewrite (IH m r' N' m' tau _ _ w2 E1 Tr G2).
          rewrite (bind_val _ _ (R N' tau) _ w2 w2 t2 (Pn w2)). reflexivity.
  Qed.

  Lemma guard_expr_op : forall k lab cs n,
    guard_expr cfg (EOp k lab cs) n =
    guard_children cfg cs n && arity_ok k cs && order_ok (child_infos cfg true k cs n).
  Proof.
    intros. simpl. f_equal. f_equal. revert n.
    induction cs as [|[[f w] c] r IH]; intros; simpl; [reflexivity|].
    destruct (anf_expr cfg c n) as [[[? ?] ?]|]; [|reflexivity]. now rewrite IH.
  Qed.

  Definition wraps (cs : list child) : list wrap := map (fun c : child => snd (fst c)) cs.
  Lemma silent_wraps : forall k cs cs', wraps cs = wraps cs' -> silent k cs = silent k cs'.
  Proof.
    intros k cs cs' Wr. unfold silent. f_equal. revert cs' Wr.
    induction cs as [|[[f w] c] r IH]; intros [|[[f' w'] c'] r'] Wr; simpl in *; try discriminate; auto.
    inversion Wr; subst. f_equal. auto.
  Qed.
  Lemma ensure_wraps : forall k cs n cs' H n', ensure_children cfg k cs n = (cs', H, n') -> wraps cs' = wraps cs.
  Proof.
    induction cs as [|[[f w] c] r IH]; intros n cs' H n' En; simpl in En.
    - now inversion En.
    - destruct (negb (is_trivial c) && should_transform cfg k f (tag_of c)).
      + destruct (ensure_children cfg k r (S n)) as [[r' N'] m1] eqn:E1. inversion En; subst. simpl. f_equal. eauto.
      + destruct (ensure_children cfg k r n) as [[r' N'] m1] eqn:E1. inversion En; subst. simpl. f_equal. eauto.
  Qed.
  Lemma visit_wraps : forall cs n cs' H n', visit_children cfg cs n = Some (cs', H, n') -> wraps cs' = wraps cs.
  Proof.
    induction cs as [|[[f w] c] r IH]; intros n cs' H n' V; simpl in V.
    - now inversion V.
    - destruct (anf_expr cfg c n) as [[[c' Hc'] m1]|] eqn:Ec; [|discriminate].
      destruct (visit_children cfg r m1) as [[[r1 Hr1] m2]|] eqn:Er; [|discriminate].
      inversion V; subst. simpl. f_equal. eauto.
  Qed.

  Theorem anf_expr_preserves : forall e, IHP e.
  Proof.
    induction e using expr_ind'; intros n0 e' H0 n' tau w0 T An G;
      try (simpl in An; inversion An; subst; reflexivity).
    destruct (triv_only k) eqn:Tk.
    - pose proof (lazy_no_hoist _ _ _ _ _ _ _ _ Tk An) as N. subst H0.
      destruct (no_hoist_unchanged _ _ _ _ _ An) as [Q _]. subst e'. reflexivity.
    - rewrite anf_expr_op in An. rewrite guard_expr_op in G. rewrite tmps_le_op in T.
      apply andb_true_iff in G. destruct G as [G O]. apply andb_true_iff in G. destruct G as [G _].
      destruct (visit_children cfg cs n0) as [[[cs1 H1] n1]|] eqn:Ev; [|discriminate].
      destruct (ensure_children cfg k cs1 n1) as [[cs2 H2] n2] eqn:Ee.
      rewrite Tk in An. simpl in An. inversion An; subst. clear An.
      rewrite bind_run_app.
      rewrite (eval_op value world interp build unpack opaque const_val rho tau k lab cs). rewrite Tk.
      rewrite (bind_head _ _ _ _ _ w0 (phase1 true k cs H n0 cs1 H1 n1 tau w0 T Ev G O)).
      rewrite bind_assoc_w.
      destruct (R H1 tau w0) as [w1 [t1|x]] eqn:R1;
        [|rewrite !(bind_exn _ _ (R H1 tau) _ w0 w1 x R1); reflexivity].
      rewrite !(bind_val _ _ (R H1 tau) _ w0 w1 t1 R1).
      rewrite (phase2 k cs1 n1 cs2 H2 n' t1 _ _ w1 Ee (visit_children_bound _ _ _ _ _ _ Ev T) (g2_from_order _ _ _ _ _ _ Ev O)).
      destruct (R H2 t1 w1) as [w2 [t2|x]] eqn:R2;
        [|rewrite !(bind_exn _ _ (R H2 t1) _ w1 w2 x R2); reflexivity].
      rewrite !(bind_val _ _ (R H2 t1) _ w1 w2 t2 R2).
      rewrite (eval_op value world interp build unpack opaque const_val rho t2 k lab cs2). rewrite Tk.
      rewrite (silent_wraps k cs cs2); [reflexivity|].
      rewrite (ensure_wraps _ _ _ _ _ _ Ee). symmetry. eapply visit_wraps; eauto.
  Qed.
End Order2.
