(* C18 (S): evaluation-order semantics of the fragment, parametric in the meaning of the
   operations.  Every strict operation is an event: `interp` may change the world (log) and
   may raise; the value it returns is arbitrary.  Names are atoms.  A starred / ** operand is
   unpacked (an event) right after it has been evaluated.  Tuple and list displays without
   starred items are built silently.  Children are evaluated left to right in the order of
   `pyview`, which is AST order except for dict displays (key1, value1, key2, value2, ...).
   BoolOp / IfExp / lambda (and the rejected comprehension / chained comparison) are opaque:
   the transformer either rejects them or leaves them untouched.
   No proofs in this file. *)
From Coq Require Import List String Bool Arith.
Import ListNotations.
Require Import MV.Anf.Anf.
Local Open Scope string_scope.
Local Open Scope list_scope.

(* ---- the order in which Python evaluates the children ---- *)
Fixpoint interleave {A} (ks vs : list A) : list A :=
  match ks, vs with
  | k :: ks', v :: vs' => k :: v :: interleave ks' vs'
  | _, _ => ks ++ vs
  end.

Definition py_children {A} (k : tag) (cs : list A) : list A :=
  match k with
  | KDict => let h := Nat.div2 (List.length cs) in interleave (firstn h cs) (skipn h cs)
  | _ => cs
  end.

Fixpoint pyview (e : expr) : expr :=
  match e with
  | EOp k lab cs => EOp k lab (py_children k (map (fun c => (fst c, pyview (snd c))) cs))
  | _ => e
  end.

Section Sem.
  Variable value : Type.
  Variable world : Type.

  Inductive res (A : Type) : Type := Val (a : A) | Exn (x : value).
  Arguments Val {A} a.
  Arguments Exn {A} x.
  Definition M (A : Type) : Type := world -> world * res A.
  Definition ret {A} (a : A) : M A := fun w => (w, Val a).
  Definition bind {A B} (m : M A) (f : A -> M B) : M B :=
    fun w => match m w with
             | (w1, Val a) => f a w1
             | (w1, Exn x) => (w1, Exn x)
             end.

  Variable interp : tag -> string -> list (string * wrap * value) -> M value.
  Variable build : tag -> list value -> value.
  Variable unpack : wrap -> value -> M value.
  Variable opaque : expr -> (string -> value) -> M value.
  Variable const_val : string -> value.

  Definition uenv := string -> value.
  Definition tenv := nat -> value.
  Definition upd_t (t : tenv) (n : nat) (v : value) : tenv := fun m => if Nat.eqb m n then v else t m.
  Definition upd_u (r : uenv) (x : string) (v : value) : uenv := fun y => if String.eqb y x then v else r y.

  Definition unwrap (w : wrap) (v : value) : M value :=
    match w with WPlain | WKw _ => ret v | _ => unpack w v end.

  Definition silent (k : tag) (cs : list child) : bool :=
    silent_kind k && forallb (fun c => plain (snd (fst c))) cs.

  Fixpoint eval (rho : uenv) (tau : tenv) (e : expr) {struct e} : M value :=
    match e with
    | EName x => ret (rho x)
    | ETmp n => ret (tau n)
    | EConst c => ret (const_val c)
    | EBad _ => opaque e rho
    | EOp k lab cs =>
        if triv_only k then opaque e rho else
        bind ((fix go (cs : list child) : M (list (string * wrap * value)) :=
                 match cs with
                 | [] => ret []
                 | (f, w, c) :: rest =>
                     bind (eval rho tau c) (fun v =>
                     bind (unwrap w v) (fun v' =>
                     bind (go rest) (fun vs => ret ((f, w, v') :: vs))))
                 end) cs)
             (fun vs => if silent k cs then ret (build k (map snd vs)) else interp k lab vs)
    end.

  Fixpoint eval_children (rho : uenv) (tau : tenv) (cs : list child) : M (list (string * wrap * value)) :=
    match cs with
    | [] => ret []
    | (f, w, c) :: rest =>
        bind (eval rho tau c) (fun v =>
        bind (unwrap w v) (fun v' =>
        bind (eval_children rho tau rest) (fun vs => ret ((f, w, v') :: vs))))
    end.

  (* hoisted statements: tmp_n = e *)
  Fixpoint run_pending (rho : uenv) (H : list pend) (tau : tenv) : M tenv :=
    match H with
    | [] => ret tau
    | (n, e) :: rest => bind (eval rho tau e) (fun v => run_pending rho rest (upd_t tau n v))
    end.
End Sem.

Arguments Val {value A} a.
Arguments Exn {value A} x.

(* ---- a concrete instance: the world is the log of events, values are descriptions ---- *)
Definition tag_name (k : tag) : string :=
  match k with
  | KCall => "call" | KBinOp => "binop" | KUnaryOp => "unop" | KCompare => "cmp" | KAttribute => "attr"
  | KSubscript => "sub" | KTuple => "tuple" | KList => "list" | KSet => "set" | KDict => "dict"
  | KNamedExpr => "walrus" | KStoreAttr => "setattr" | KStoreSub => "setitem" | _ => "op"
  end.

Fixpoint join (l : list string) : string :=
  match l with [] => "" | [x] => x | x :: r => (x ++ "," ++ join r)%string end.

Definition log_interp (k : tag) (lab : string) (vs : list (string * wrap * string)) : M string (list string) string :=
  fun w => let d := (tag_name k ++ ":" ++ lab ++ "(" ++ join (map snd vs) ++ ")")%string in (w ++ [d], Val d).
Definition log_build (k : tag) (vs : list string) : string := (tag_name k ++ "(" ++ join vs ++ ")")%string.
Definition log_unpack (w : wrap) (v : string) : M string (list string) string :=
  fun l => (l ++ [("iter(" ++ v ++ ")")%string], Val ("*" ++ v)%string).
Definition log_opaque (e : expr) (rho : string -> string) : M string (list string) string :=
  fun l => (l ++ ["opaque"], Val "opaque").

Definition log_eval (tau : nat -> string) (e : expr) : list string * res string string :=
  eval string (list string) log_interp log_build log_unpack log_opaque (fun c => c) (fun x => x) tau (pyview e) [].
Definition log_run (H : list pend) (e : expr) : list string * res string string :=
  bind string (list string)
    (run_pending string (list string) log_interp log_build log_unpack log_opaque (fun c => c) (fun x => x)
       (map (fun p => (fst p, pyview (snd p))) H) (fun _ => "?"))
    (fun tau => eval string (list string) log_interp log_build log_unpack log_opaque (fun c => c) (fun x => x) tau (pyview e)) [].
