(* C18 model: renaming of the variables (and any rewriting of the labels) of a program.
   r renames variables: EName x, the `as` name of a with statement / an except clause; lab k rewrites the printing
   payload of a node of class k (operator / attribute name, the variable bound by an assignment
   expression, the parameter list of a lambda) -- a consistent renaming takes lab KNamedExpr = r.
   Temporaries (ETmp) are not variables of the program and are left alone.
   No proofs in this file. *)
From Coq Require Import List String Bool.
Import ListNotations.
Require Import MV.Anf.Anf.

Section Rename.
  Variable r : string -> string.
  Variable lab : tag -> string -> string.

  Fixpoint ren_expr (e : expr) : expr :=
    match e with
    | EName x => EName (r x)
    | ETmp n => ETmp n
    | EConst c => EConst c
    | EBad k => EBad k
    | EOp k l cs =>
        EOp k (lab k l)
            ((fix go (cs : list child) : list child :=
                match cs with
                | [] => []
                | (f, w, c) :: rest => (f, w, ren_expr c) :: go rest
                end) cs)
    end.

  Definition ren_child (c : child) : child :=
    match c with (f, w, e) => (f, w, ren_expr e) end.
  Definition ren_children (cs : list child) : list child := map ren_child cs.
  Definition ren_pend (H : list pend) : list pend := map (fun p : pend => (fst p, ren_expr (snd p))) H.

  Fixpoint ren_stmt (s : stmt) : stmt :=
    let fix blk (b : list stmt) : list stmt :=
      match b with
      | [] => []
      | s :: rest => ren_stmt s :: blk rest
      end in
    match s with
    | SExpr e => SExpr (ren_expr e)
    | SAssign ts e => SAssign (map ren_expr ts) (ren_expr e)
    | SAug t op e => SAug (ren_expr t) op (ren_expr e)
    | SReturn o => SReturn (option_map ren_expr o)
    | SRaise o c => SRaise (option_map ren_expr o) (option_map ren_expr c)
    | SPass => SPass
    | SBreak => SBreak
    | SContinue => SContinue
    | SIf e b1 b2 => SIf (ren_expr e) (blk b1) (blk b2)
    | SWhile e b1 b2 => SWhile (ren_expr e) (blk b1) (blk b2)
    | SFor t e b1 b2 => SFor (ren_expr t) (ren_expr e) (blk b1) (blk b2)
    | SWith e v b => SWith (ren_expr e) (option_map r v) (blk b)
    | STry b hs o f =>
        STry (blk b)
             ((fix goh (hs : list handler) : list handler :=
                 match hs with
                 | [] => []
                 | (t, v, hb) :: rest => (option_map ren_expr t, option_map r v, blk hb) :: goh rest
                 end) hs)
             (blk o) (blk f)
    end.

  Definition ren_block (b : list stmt) : list stmt := map ren_stmt b.
  Definition ren_handler (h : handler) : handler :=
    match h with (t, v, hb) => (option_map ren_expr t, option_map r v, ren_block hb) end.
  Definition ren_handlers (hs : list handler) : list handler := map ren_handler hs.
End Rename.
