From Coq Require Import List String Bool Arith Lia.
Import ListNotations.
Require Import MV.Anf.Anf MV.Anf.AnfProofs MV.Anf.AnfRename.
Local Open Scope string_scope.
Local Open Scope list_scope.

Section RenameProofs.
  Variable r : string -> string.
  Variable lab : tag -> string -> string.
  Notation rE := (ren_expr r lab).
  Notation rC := (ren_children r lab).
  Notation rP := (ren_pend r lab).
  Notation rS := (ren_stmt r lab).
  Notation rB := (ren_block r lab).

  Lemma ren_expr_op : forall k l cs, rE (EOp k l cs) = EOp k (lab k l) (rC cs).
  Proof.
    intros. simpl. f_equal. induction cs as [|[[f w] c] rest IH]; simpl; [reflexivity|]. now rewrite IH.
  Qed.

  Lemma ren_tag_of : forall e, tag_of (rE e) = tag_of e.
  Proof. destruct e; reflexivity. Qed.
  Lemma ren_is_trivial : forall e, is_trivial (rE e) = is_trivial e.
  Proof. destruct e; reflexivity. Qed.

  Definition ren_eres (x : expr * list pend * nat) : expr * list pend * nat :=
    match x with (e, H, n) => (rE e, rP H, n) end.
  Definition ren_cres (x : list child * list pend * nat) : list child * list pend * nat :=
    match x with (cs, H, n) => (rC cs, rP H, n) end.

  Lemma ren_pend_app : forall a b, rP (a ++ b) = rP a ++ rP b.
  Proof. intros. unfold ren_pend. apply map_app. Qed.

  Lemma ensure_children_ren : forall cfg k cs n,
    ensure_children cfg k (rC cs) n = ren_cres (ensure_children cfg k cs n).
  Proof.
    induction cs as [|[[f w] c] rest IH]; intros n; simpl; [reflexivity|].
    rewrite ren_is_trivial, ren_tag_of.
    destruct (negb (is_trivial c) && should_transform cfg k f (tag_of c)).
    - rewrite IH. destruct (ensure_children cfg k rest (S n)) as [[r' H'] n1]. reflexivity.
    - rewrite IH. destruct (ensure_children cfg k rest n) as [[r' H'] n1]. reflexivity.
  Qed.

  Lemma is_nil_ren : forall H, match rP H with [] => true | _ => false end = match H with [] => true | _ => false end.
  Proof. destruct H; reflexivity. Qed.

  Lemma anf_expr_ren : forall cfg e n, anf_expr cfg (rE e) n = option_map ren_eres (anf_expr cfg e n).
  Proof.
    intros cfg e. induction e using expr_ind'; intros n0; try reflexivity.
    rewrite ren_expr_op, !anf_expr_op.
    assert (V : forall m, visit_children cfg (rC cs) m = option_map ren_cres (visit_children cfg cs m)).
    { induction H as [|[[f w] c] rest Hc Hr IH]; intros m; simpl; [reflexivity|].
      simpl in Hc. rewrite Hc. destruct (anf_expr cfg c m) as [[[c' Hc'] m1]|]; simpl; [|reflexivity].
      rewrite IH. destruct (visit_children cfg rest m1) as [[[r' Hr'] m2]|]; simpl; [|reflexivity].
      now rewrite ren_pend_app. }
    rewrite V. destruct (visit_children cfg cs n0) as [[[cs1 H1] n1]|]; simpl; [|reflexivity].
    rewrite ensure_children_ren. destruct (ensure_children cfg k cs1 n1) as [[cs2 H2] n2]. unfold ren_cres.
    rewrite <- ren_pend_app, is_nil_ren.
    destruct (triv_only k && _); [reflexivity|].
    unfold option_map, ren_eres. now rewrite ren_expr_op.
  Qed.

  Lemma visit_children_ren : forall cfg cs m,
    visit_children cfg (rC cs) m = option_map ren_cres (visit_children cfg cs m).
  Proof.
    induction cs as [|[[f w] c] rest IH]; intros m; simpl; [reflexivity|].
    rewrite anf_expr_ren. destruct (anf_expr cfg c m) as [[[c' Hc'] m1]|]; simpl; [|reflexivity].
    rewrite IH. destruct (visit_children cfg rest m1) as [[[r' Hr'] m2]|]; simpl; [|reflexivity].
    now rewrite ren_pend_app.
  Qed.

  Lemma anf_named_ren : forall cfg k f e n,
    anf_named cfg k f (rE e) n = option_map ren_eres (anf_named cfg k f e n).
  Proof.
    intros. unfold anf_named. rewrite anf_expr_ren.
    destruct (anf_expr cfg e n) as [[[e1 H1] n1]|]; simpl; [|reflexivity].
    rewrite ren_is_trivial, ren_tag_of.
    destruct (negb (is_trivial e1) && should_transform cfg k f (tag_of e1)); simpl; now rewrite ren_pend_app.
  Qed.

  Lemma flush_ren : forall H, flush (rP H) = rB (flush H).
  Proof. induction H as [|[n e] H IH]; simpl; [reflexivity|]. now rewrite IH. Qed.

  (* ---------------------------------------------------------------- statements *)
  Lemma ren_blk_map : forall b,
    (fix blk (b : list stmt) : list stmt := match b with [] => [] | s :: rest => rS s :: blk rest end) b = rB b.
  Proof. induction b as [|s b IH]; simpl; [reflexivity|]. now rewrite IH. Qed.

  Definition ren_sres (x : list stmt * nat) : list stmt * nat := match x with (ss, n) => (rB ss, n) end.
End RenameProofs.

(* induction on statements (blocks nested in lists) *)
Section StmtInd.
  Variable P : stmt -> Prop.
  Hypothesis Hexpr : forall e, P (SExpr e).
  Hypothesis Hassign : forall ts e, P (SAssign ts e).
  Hypothesis Haug : forall t op e, P (SAug t op e).
  Hypothesis Hreturn : forall o, P (SReturn o).
  Hypothesis Hraise : forall o c, P (SRaise o c).
  Hypothesis Hpass : P SPass.
  Hypothesis Hbreak : P SBreak.
  Hypothesis Hcontinue : P SContinue.
  Hypothesis Hif : forall e b1 b2, Forall P b1 -> Forall P b2 -> P (SIf e b1 b2).
  Hypothesis Hwhile : forall e b1 b2, Forall P b1 -> Forall P b2 -> P (SWhile e b1 b2).
  Hypothesis Hfor : forall t e b1 b2, Forall P b1 -> Forall P b2 -> P (SFor t e b1 b2).
  Hypothesis Hwith : forall e v b, Forall P b -> P (SWith e v b).
  Hypothesis Htry : forall b hs o f, Forall P b -> Forall (fun h : handler => Forall P (snd h)) hs ->
                                     Forall P o -> Forall P f -> P (STry b hs o f).
  Fixpoint stmt_ind' (s : stmt) : P s :=
    let fix go (b : list stmt) : Forall P b :=
      match b with
      | [] => Forall_nil _
      | s :: r => Forall_cons s (stmt_ind' s) (go r)
      end in
    match s with
    | SExpr e => Hexpr e
    | SAssign ts e => Hassign ts e
    | SAug t op e => Haug t op e
    | SReturn o => Hreturn o
    | SRaise o c => Hraise o c
    | SPass => Hpass
    | SBreak => Hbreak
    | SContinue => Hcontinue
    | SIf e b1 b2 => Hif e b1 b2 (go b1) (go b2)
    | SWhile e b1 b2 => Hwhile e b1 b2 (go b1) (go b2)
    | SFor t e b1 b2 => Hfor t e b1 b2 (go b1) (go b2)
    | SWith e v b => Hwith e v b (go b)
    | STry b hs o f =>
        Htry b hs o f (go b)
             ((fix goh (hs : list handler) : Forall (fun h : handler => Forall P (snd h)) hs :=
                 match hs with
                 | [] => Forall_nil _
                 | (tv, hb) :: r => Forall_cons (P := fun h : handler => Forall P (snd h)) (tv, hb) (go hb) (goh r)
                 end) hs)
             (go o) (go f)
    end.
End StmtInd.

(* unfolding of the nested walk over blocks *)
Ltac inner_block cfg b1 n1 E :=
  match goal with |- match ?F b1 n1 with _ => _ end = _ =>
    assert (E : forall b n, F b n = anf_block cfg b n);
    [ clear; let bb := fresh "b" in intro bb; induction bb as [|? ? IH]; intros ?; simpl; [reflexivity|];
      match goal with |- match anf_stmt ?c ?s ?n with _ => _ end = _ =>
        destruct (anf_stmt c s n) as [[? ?]|]; [|reflexivity] end;
      rewrite IH; reflexivity | ]
  end.

Lemma anf_stmt_if : forall cfg e b1 b2 n,
  anf_stmt cfg (SIf e b1 b2) n =
  match anf_named cfg KIf "test" e n with
  | None => None
  | Some (e', H, n1) =>
      match anf_block cfg b1 n1 with
      | None => None
      | Some (b1', n2) =>
          match anf_block cfg b2 n2 with
          | None => None
          | Some (b2', n3) => Some (flush H ++ [SIf e' b1' b2'], n3)
          end
      end
  end.
Proof.
  intros. simpl.
  destruct (anf_named cfg KIf "test" e n) as [[[e' H] n1]|]; [|reflexivity].
  inner_block cfg b1 n1 E.
  rewrite E. destruct (anf_block cfg b1 n1) as [[b1' n2]|]; [|reflexivity]. rewrite E. reflexivity.
Qed.

Lemma anf_stmt_while : forall cfg e b1 b2 n,
  anf_stmt cfg (SWhile e b1 b2) n =
  match anf_named cfg KWhile "test" e n with
  | Some (e', [], n1) =>
      match anf_block cfg b1 n1 with
      | None => None
      | Some (b1', n2) =>
          match anf_block cfg b2 n2 with
          | None => None
          | Some (b2', n3) => Some ([SWhile e' b1' b2'], n3)
          end
      end
  | _ => None
  end.
Proof.
  intros. simpl.
  destruct (anf_named cfg KWhile "test" e n) as [[[e' [|p H]] n1]|]; try reflexivity.
  inner_block cfg b1 n1 E.
  rewrite E. destruct (anf_block cfg b1 n1) as [[b1' n2]|]; [|reflexivity]. rewrite E. reflexivity.
Qed.

Lemma anf_stmt_for : forall cfg t e b1 b2 n,
  anf_stmt cfg (SFor t e b1 b2) n =
  match anf_named cfg KFor "iter" e n with
  | None => None
  | Some (e', H, n1) =>
      match anf_expr cfg t n1 with
      | Some (t', [], n1') =>
          match anf_block cfg b1 n1' with
          | None => None
          | Some (b1', n2) =>
              match anf_block cfg b2 n2 with
              | None => None
              | Some (b2', n3) => Some (flush H ++ [SFor t' e' b1' b2'], n3)
              end
          end
      | _ => None
      end
  end.
Proof.
  intros. simpl.
  destruct (anf_named cfg KFor "iter" e n) as [[[e' H] n1]|]; [|reflexivity].
  destruct (anf_expr cfg t n1) as [[[t' [|p Ht]] n1']|]; try reflexivity.
  inner_block cfg b1 n1' E.
  rewrite E. destruct (anf_block cfg b1 n1') as [[b1' n2]|]; [|reflexivity]. rewrite E. reflexivity.
Qed.

Lemma anf_stmt_with : forall cfg e v b n,
  anf_stmt cfg (SWith e v b) n =
  match anf_named cfg KWith "items" e n with
  | None => None
  | Some (e', H, n1) =>
      match anf_block cfg b n1 with
      | None => None
      | Some (b', n2) => Some (flush H ++ [SWith e' v b'], n2)
      end
  end.
Proof.
  intros. simpl.
  destruct (anf_named cfg KWith "items" e n) as [[[e' H] n1]|]; [|reflexivity].
  inner_block cfg b n1 E.
  rewrite E. reflexivity.
Qed.

Lemma anf_stmt_try : forall cfg b hs o f n,
  anf_stmt cfg (STry b hs o f) n =
  match anf_block cfg b n with
  | None => None
  | Some (b', n1) =>
      match anf_handlers cfg hs n1 with
      | None => None
      | Some (hs', n2) =>
          match anf_block cfg o n2 with
          | None => None
          | Some (o', n3) =>
              match anf_block cfg f n3 with
              | None => None
              | Some (f', n4) => Some ([STry b' hs' o' f'], n4)
              end
          end
      end
  end.
Proof.
  intros. simpl.
  inner_block cfg b n E.
  rewrite E. destruct (anf_block cfg b n) as [[b' n1]|]; [|reflexivity].
  match goal with |- match ?F hs n1 with _ => _ end = _ =>
    assert (EH : forall hs n, F hs n = anf_handlers cfg hs n) end.
  { clear - E. intro hh. induction hh as [|[[t v] hb] rest IH]; intros m; simpl; [reflexivity|].
    destruct (anf_htype cfg t m) as [[t' m1]|]; [|reflexivity].
    rewrite E. destruct (anf_block cfg hb m1) as [[hb' m2]|]; [|reflexivity].
    rewrite IH. reflexivity. }
  rewrite EH. destruct (anf_handlers cfg hs n1) as [[hs' n2]|]; [|reflexivity].
  rewrite E. destruct (anf_block cfg o n2) as [[o' n3]|]; [|reflexivity].
  rewrite E. reflexivity.
Qed.

(* an accepted try statement: nothing is put in front of it and every except clause keeps the type expression
   it had (nothing is hoisted out of a position that is evaluated lazily) *)
Lemma anf_htype_kept : forall cfg t n t' n', anf_htype cfg t n = Some (t', n') -> t' = t /\ n' = n.
Proof.
  intros cfg [e|] n t' n' E; simpl in E; [|inversion E; auto].
  destruct (anf_expr cfg e n) as [[[e' [|p H]] m]|] eqn:Ee; try discriminate.
  inversion E; subst. apply no_hoist_unchanged in Ee. destruct Ee; subst. auto.
Qed.

Lemma anf_handlers_types : forall cfg hs n hs' n',
  anf_handlers cfg hs n = Some (hs', n') -> map htype hs' = map htype hs.
Proof.
  induction hs as [|[[t v] hb] rest IH]; intros n hs' n' E; simpl in E.
  - inversion E. reflexivity.
  - destruct (anf_htype cfg t n) as [[t' n1]|] eqn:Et; [|discriminate].
    destruct (anf_block cfg hb n1) as [[hb' n2]|]; [|discriminate].
    destruct (anf_handlers cfg rest n2) as [[rest' n3]|] eqn:Er; [|discriminate].
    inversion E; subst. simpl. apply anf_htype_kept in Et. destruct Et; subst.
    f_equal. eapply IH; eauto.
Qed.

Lemma try_except_types_kept : forall cfg b hs o f n ss n',
  anf_stmt cfg (STry b hs o f) n = Some (ss, n') ->
  exists b' hs' o' f', ss = [STry b' hs' o' f'] /\ map htype hs' = map htype hs.
Proof.
  intros cfg b hs o f n ss n' E. rewrite anf_stmt_try in E.
  destruct (anf_block cfg b n) as [[b' n1]|]; [|discriminate].
  destruct (anf_handlers cfg hs n1) as [[hs' n2]|] eqn:Eh; [|discriminate].
  destruct (anf_block cfg o n2) as [[o' n3]|]; [|discriminate].
  destruct (anf_block cfg f n3) as [[f' n4]|]; [|discriminate].
  inversion E; subst. exists b', hs', o', f'. split; [reflexivity|]. eapply anf_handlers_types; eauto.
Qed.

Section RenameStmt.
  Variable r : string -> string.
  Variable lab : tag -> string -> string.
  Notation rE := (ren_expr r lab).
  Notation rC := (ren_children r lab).
  Notation rP := (ren_pend r lab).
  Notation rS := (ren_stmt r lab).
  Notation rB := (ren_block r lab).

  Lemma ren_stmt_if : forall e b1 b2, rS (SIf e b1 b2) = SIf (rE e) (rB b1) (rB b2).
  Proof. intros. simpl. now rewrite !ren_blk_map. Qed.
  Lemma ren_stmt_while : forall e b1 b2, rS (SWhile e b1 b2) = SWhile (rE e) (rB b1) (rB b2).
  Proof. intros. simpl. now rewrite !ren_blk_map. Qed.
  Lemma ren_stmt_for : forall t e b1 b2, rS (SFor t e b1 b2) = SFor (rE t) (rE e) (rB b1) (rB b2).
  Proof. intros. simpl. now rewrite !ren_blk_map. Qed.
  Lemma ren_stmt_with : forall e v b, rS (SWith e v b) = SWith (rE e) (option_map r v) (rB b).
  Proof. intros. simpl. now rewrite !ren_blk_map. Qed.

  Lemma ren_stmt_try : forall b hs o f, rS (STry b hs o f) = STry (rB b) (ren_handlers r lab hs) (rB o) (rB f).
  Proof.
    intros. simpl. rewrite !ren_blk_map. f_equal.
    induction hs as [|[[t v] hb] rest IH]; [reflexivity|]. rewrite IH. simpl. now rewrite ren_blk_map.
  Qed.

  Lemma ren_block_app : forall a b, rB (a ++ b) = rB a ++ rB b.
  Proof. intros. unfold ren_block. apply map_app. Qed.

  Lemma opt_children_ren : forall f o, opt_children f (option_map rE o) = rC (opt_children f o).
  Proof. destruct o; reflexivity. Qed.
  Lemma opt_of_children_ren : forall cs, opt_of_children (rC cs) = option_map rE (opt_of_children cs).
  Proof. destruct cs as [|[[f w] c] cs]; reflexivity. Qed.
  Lemma ren_children_app : forall a b, rC (a ++ b) = rC a ++ rC b.
  Proof. intros. unfold ren_children. apply map_app. Qed.
  Lemma cexpr_ren : forall c, cexpr (ren_child r lab c) = rE (cexpr c).
  Proof. destruct c as [[f w] c]. reflexivity. Qed.
  Lemma map_cexpr_ren : forall cs, map cexpr (rC cs) = map rE (map cexpr cs).
  Proof. induction cs as [|c cs IH]; simpl; [reflexivity|]. now rewrite cexpr_ren, IH. Qed.
  Lemma removelast_map' : forall A B (f : A -> B) l, removelast (map f l) = map f (removelast l).
  Proof.
    induction l as [|a l IH]; [reflexivity|]. destruct l as [|b l]; [reflexivity|].
    simpl in *. rewrite IH. reflexivity.
  Qed.
  Lemma last_map' : forall A B (f : A -> B) l d, last (map f l) (f d) = f (last l d).
  Proof.
    induction l as [|a l IH]; intros d; [reflexivity|]. destruct l as [|b l]; [reflexivity|].
    simpl in *. apply IH.
  Qed.
  Lemma removelast_ren : forall cs, removelast (rC cs) = rC (removelast cs).
  Proof. intros. apply removelast_map'. Qed.
  Lemma last_ren : forall cs d, last (rC cs) (ren_child r lab d) = ren_child r lab (last cs d).
  Proof. intros. apply last_map'. Qed.
  Lemma targets_ren : forall ts e,
    map (fun t => ("targets", WPlain, t)) (map rE ts) ++ [("value", WPlain, rE e)] =
    rC (map (fun t => ("targets", WPlain, t)) ts ++ [("value", WPlain, e)]).
  Proof. intros. rewrite ren_children_app. f_equal. unfold ren_children. rewrite !map_map. reflexivity. Qed.

  Lemma anf_block_ren_of : forall cfg b,
    Forall (fun s => forall n, anf_stmt cfg (rS s) n = option_map (ren_sres r lab) (anf_stmt cfg s n)) b ->
    forall n, anf_block cfg (rB b) n = option_map (ren_sres r lab) (anf_block cfg b n).
  Proof.
    induction 1 as [|s b Hs Hb IH]; intros n; simpl; [reflexivity|].
    rewrite Hs. destruct (anf_stmt cfg s n) as [[ss n1]|]; simpl; [|reflexivity].
    rewrite IH. destruct (anf_block cfg b n1) as [[b' n2]|]; simpl; [|reflexivity].
    now rewrite ren_block_app.
  Qed.

  Lemma anf_htype_ren : forall cfg t n,
    anf_htype cfg (option_map rE t) n = option_map (fun x : option expr * nat => (option_map rE (fst x), snd x)) (anf_htype cfg t n).
  Proof.
    intros cfg [e|] n; simpl; [|reflexivity]. rewrite anf_expr_ren.
    destruct (anf_expr cfg e n) as [[[e' [|p H]] m]|]; reflexivity.
  Qed.

  Definition ren_hres (x : list handler * nat) : list handler * nat := match x with (hs, n) => (ren_handlers r lab hs, n) end.

  Lemma anf_handlers_ren_of : forall cfg hs,
    Forall (fun h : handler => Forall (fun s => forall n, anf_stmt cfg (rS s) n = option_map (ren_sres r lab) (anf_stmt cfg s n)) (snd h)) hs ->
    forall n, anf_handlers cfg (ren_handlers r lab hs) n = option_map ren_hres (anf_handlers cfg hs n).
  Proof.
    induction 1 as [|[[t v] hb] rest Hh Hr IH]; intros n; simpl; [reflexivity|].
    rewrite anf_htype_ren. destruct (anf_htype cfg t n) as [[t' n1]|]; simpl; [|reflexivity].
    simpl in Hh. rewrite (anf_block_ren_of cfg hb Hh). destruct (anf_block cfg hb n1) as [[hb' n2]|]; simpl; [|reflexivity].
    rewrite IH. destruct (anf_handlers cfg rest n2) as [[rest' n3]|]; simpl; reflexivity.
  Qed.

  Theorem anf_stmt_ren : forall cfg s n,
    anf_stmt cfg (rS s) n = option_map (ren_sres r lab) (anf_stmt cfg s n).
  Proof.
    intros cfg s. induction s using stmt_ind'; intros n.
    - (* SExpr *) simpl. rewrite anf_expr_ren. destruct (anf_expr cfg e n) as [[[e' H] n']|]; simpl; [|reflexivity].
      now rewrite ren_block_app, flush_ren.
    - (* SAssign *) cbn [ren_stmt anf_stmt]. rewrite targets_ren, visit_children_ren.
      destruct (visit_children cfg _ n) as [[[cs H] n']|]; simpl; [|reflexivity].
      rewrite ren_block_app, flush_ren. simpl. rewrite removelast_ren, map_cexpr_ren.
      change ("", WPlain, rE e) with (ren_child r lab ("", WPlain, e)). rewrite last_ren, cexpr_ren. reflexivity.
    - (* SAug *) cbn [ren_stmt anf_stmt].
      change [("target", WPlain, rE t); ("value", WPlain, rE e)] with (rC [("target", WPlain, t); ("value", WPlain, e)]).
      rewrite visit_children_ren.
      destruct (visit_children cfg _ n) as [[[cs H] n']|]; simpl; [|reflexivity].
      destruct cs as [|c1 [|c2 [|c3 cs]]]; simpl; try reflexivity.
      rewrite ren_block_app, flush_ren, !cexpr_ren. reflexivity.
    - (* SReturn *) cbn [ren_stmt anf_stmt]. rewrite opt_children_ren, visit_children_ren.
      destruct (visit_children cfg _ n) as [[[cs1 H1] n1]|]; simpl; [|reflexivity].
      rewrite ensure_children_ren. destruct (ensure_children cfg KReturn cs1 n1) as [[cs2 H2] n2]. simpl.
      rewrite ren_block_app, <- ren_pend_app, flush_ren, opt_of_children_ren. reflexivity.
    - (* SRaise *) cbn [ren_stmt anf_stmt].
      destruct o as [eo|], c as [ec|]; cbn [option_map]; try reflexivity.
      + change (opt_children "exc" (Some (rE eo)) ++ opt_children "cause" (Some (rE ec)))
          with (rC (opt_children "exc" (Some eo) ++ opt_children "cause" (Some ec))).
        rewrite visit_children_ren.
        destruct (visit_children cfg _ n) as [[[cs1 H1] n1]|]; simpl; [|reflexivity].
        rewrite ensure_children_ren. destruct (ensure_children cfg KRaise cs1 n1) as [[cs2 H2] n2]. simpl.
        rewrite ren_block_app, <- ren_pend_app, flush_ren, opt_of_children_ren. simpl.
        destruct cs2 as [|c0 cs2]; simpl; [reflexivity|]. rewrite opt_of_children_ren. reflexivity.
      + change (opt_children "exc" (Some (rE eo)) ++ opt_children "cause" None)
          with (rC (opt_children "exc" (Some eo) ++ opt_children "cause" None)).
        rewrite visit_children_ren.
        destruct (visit_children cfg _ n) as [[[cs1 H1] n1]|]; simpl; [|reflexivity].
        rewrite ensure_children_ren. destruct (ensure_children cfg KRaise cs1 n1) as [[cs2 H2] n2]. simpl.
        rewrite ren_block_app, <- ren_pend_app, flush_ren, opt_of_children_ren. reflexivity.
    - reflexivity.
    - reflexivity.
    - reflexivity.
    - (* SIf *) rewrite ren_stmt_if, !anf_stmt_if, anf_named_ren.
      destruct (anf_named cfg KIf "test" e n) as [[[e' He] n1]|]; cbn [option_map ren_sres ren_eres ren_pend map]; [|reflexivity].
      rewrite (anf_block_ren_of cfg b1 H). destruct (anf_block cfg b1 n1) as [[b1' n2]|]; cbn [option_map ren_sres ren_eres ren_pend map]; [|reflexivity].
      rewrite (anf_block_ren_of cfg b2 H0). destruct (anf_block cfg b2 n2) as [[b2' n3]|]; cbn [option_map ren_sres ren_eres ren_pend map]; [|reflexivity].
      rewrite ren_block_app, flush_ren. change (rB [SIf e' b1' b2']) with [rS (SIf e' b1' b2')]. rewrite ren_stmt_if. reflexivity.
    - (* SWhile *) rewrite ren_stmt_while, !anf_stmt_while, anf_named_ren.
      destruct (anf_named cfg KWhile "test" e n) as [[[e' [|p He]] n1]|]; cbn [option_map ren_sres ren_eres ren_pend map]; try reflexivity.
      rewrite (anf_block_ren_of cfg b1 H). destruct (anf_block cfg b1 n1) as [[b1' n2]|]; cbn [option_map ren_sres ren_eres ren_pend map]; [|reflexivity].
      rewrite (anf_block_ren_of cfg b2 H0). destruct (anf_block cfg b2 n2) as [[b2' n3]|]; cbn [option_map ren_sres ren_eres ren_pend map]; [|reflexivity].
      change (rB [SWhile e' b1' b2']) with [rS (SWhile e' b1' b2')]. rewrite ren_stmt_while. reflexivity.
    - (* SFor *) rewrite ren_stmt_for, !anf_stmt_for, anf_named_ren.
      destruct (anf_named cfg KFor "iter" e n) as [[[e' He] n1]|]; cbn [option_map ren_sres ren_eres ren_pend map]; [|reflexivity].
      rewrite anf_expr_ren. destruct (anf_expr cfg t n1) as [[[t' [|p Ht]] n1']|]; cbn [option_map ren_sres ren_eres ren_pend map]; try reflexivity.
      rewrite (anf_block_ren_of cfg b1 H). destruct (anf_block cfg b1 n1') as [[b1' n2]|]; cbn [option_map ren_sres ren_eres ren_pend map]; [|reflexivity].
      rewrite (anf_block_ren_of cfg b2 H0). destruct (anf_block cfg b2 n2) as [[b2' n3]|]; cbn [option_map ren_sres ren_eres ren_pend map]; [|reflexivity].
      rewrite ren_block_app, flush_ren. change (rB [SFor t' e' b1' b2']) with [rS (SFor t' e' b1' b2')]. rewrite ren_stmt_for. reflexivity.
    - (* SWith *) rewrite ren_stmt_with, !anf_stmt_with, anf_named_ren.
      destruct (anf_named cfg KWith "items" e n) as [[[e' He] n1]|]; cbn [option_map ren_sres ren_eres ren_pend map]; [|reflexivity].
      rewrite (anf_block_ren_of cfg b H). destruct (anf_block cfg b n1) as [[b' n2]|]; cbn [option_map ren_sres ren_eres ren_pend map]; [|reflexivity].
      rewrite ren_block_app, flush_ren. change (rB [SWith e' v b']) with [rS (SWith e' v b')]. rewrite ren_stmt_with. reflexivity.
    - (* STry *) rewrite ren_stmt_try, !anf_stmt_try.
      rewrite (anf_block_ren_of cfg b H). destruct (anf_block cfg b n) as [[b' n1]|]; cbn [option_map ren_sres]; [|reflexivity].
      rewrite (anf_handlers_ren_of cfg hs H0). destruct (anf_handlers cfg hs n1) as [[hs' n2]|]; cbn [option_map ren_hres]; [|reflexivity].
      rewrite (anf_block_ren_of cfg o H1). destruct (anf_block cfg o n2) as [[o' n3]|]; cbn [option_map ren_sres]; [|reflexivity].
      rewrite (anf_block_ren_of cfg f H2). destruct (anf_block cfg f n3) as [[f' n4]|]; cbn [option_map ren_sres]; [|reflexivity].
      change (rB [STry b' hs' o' f']) with [rS (STry b' hs' o' f')]. rewrite ren_stmt_try. reflexivity.
  Qed.

  Lemma anf_block_ren : forall cfg b n,
    anf_block cfg (rB b) n = option_map (ren_sres r lab) (anf_block cfg b n).
  Proof.
    intros. apply anf_block_ren_of. apply Forall_forall. intros s _ m. apply anf_stmt_ren.
  Qed.

  (* the transformer is parametric in the spelling of variables and labels: it commutes with every
     renaming (not necessarily injective), accepted and rejected programs alike *)
  Theorem transform_ren : forall cfg b,
    transform cfg (rB b) = option_map rB (transform cfg b).
  Proof.
    intros. unfold transform. rewrite anf_block_ren. destruct (anf_block cfg b 0) as [[b' n]|]; reflexivity.
  Qed.
End RenameStmt.
