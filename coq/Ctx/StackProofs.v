(* C16: proofs about the context-stack model. *)
From Coq Require Import List Bool Arith Lia.
Import ListNotations.
Require Import MV.Ctx.CtxSyntax MV.Ctx.Stack MV.Ctx.StackSpec.

Ltac inv H := inversion H; subst; clear H.

(* ---------- decidable equalities ---------- *)
Lemma status_eqb_eq : forall a b, status_eqb a b = true <-> a = b.
Proof. destruct a, b; simpl; split; intro H; try reflexivity; try discriminate. Qed.
Lemma status_eqb_refl : forall a, status_eqb a a = true.
Proof. destruct a; reflexivity. Qed.
Lemma ctxop_eqb_eq : forall a b, ctxop_eqb a b = true -> a = b.
Proof. destruct a, b; simpl; intro H; try reflexivity; discriminate. Qed.
Lemma sguard_eqb_eq : forall a b, sguard_eqb a b = true -> a = b.
Proof. destruct a, b; simpl; intro H; try reflexivity; discriminate. Qed.
Lemma factory_eqb_eq : forall a b, factory_eqb a b = true -> a = b.
Proof. destruct a, b; simpl; intro H; try reflexivity; discriminate. Qed.
Lemma list_eqb_eq : forall (A : Type) (eqb : A -> A -> bool),
  (forall x y, eqb x y = true -> x = y) -> forall a b, list_eqb eqb a b = true -> a = b.
Proof.
  intros A eqb He; induction a as [|x a IH]; destruct b as [|y b]; simpl; intro H; try reflexivity; try discriminate.
  apply andb_true_iff in H; destruct H as [H1 H2]. f_equal; [apply He; exact H1 | apply IH; exact H2].
Qed.
Lemma wexpr_eqb_eq : forall a b, wexpr_eqb a b = true -> a = b.
Proof.
  destruct a, b; simpl; intro H; try reflexivity; try discriminate.
  apply status_eqb_eq in H; subst; reflexivity.
Qed.
Lemma wcode_eqb_eq : forall a b, wcode_eqb a b = true -> a = b.
Proof.
  induction a; destruct b; simpl; intro H; try reflexivity; try discriminate.
  - apply andb_true_iff in H; destruct H. f_equal; auto.
  - apply andb_true_iff in H; destruct H as [H1 H2]. apply wexpr_eqb_eq in H1. f_equal; auto.
  - f_equal; auto.
  - apply andb_true_iff in H; destruct H. f_equal; auto.
Qed.
Lemma same_object_refl : forall c, same_object c c = true.
Proof. intro c; unfold same_object; apply Nat.eqb_refl. Qed.
Lemma ctx_beq_refl : forall c, ctx_beq c c = true.
Proof. intro c; unfold ctx_beq; rewrite Nat.eqb_refl, status_eqb_refl; reflexivity. Qed.

(* ---------- replay ---------- *)
Lemma replay_app : forall a b s,
  replay (a ++ b) s = match replay a s with Some s' => replay b s' | None => None end.
Proof.
  induction a as [|e a IH]; simpl; intros; [reflexivity|].
  destruct (apply_event e s); [apply IH | reflexivity].
Qed.

(* ---------- semantics preserved by norm ---------- *)
Lemma seq_skip_l : forall (X : M) st, seqM (fun st => (ONorm, st)) X st = X st.
Proof. reflexivity. Qed.
Lemma seq_skip_r : forall (X : M) st, seqM X (fun st => (ONorm, st)) st = X st.
Proof. intros; unfold seqM; destruct (X st) as [[|] s]; reflexivity. Qed.
Lemma finally_skip : forall (X : M) st, finallyM X (fun st => (ONorm, st)) st = X st.
Proof. intros; unfold finallyM; destruct (X st) as [o s]; reflexivity. Qed.

Lemma seqM_ext : forall (a a' b b' : M), (forall st, a st = a' st) -> (forall st, b st = b' st) ->
  forall st, seqM a b st = seqM a' b' st.
Proof. intros a a' b b' Ha Hb st; unfold seqM; rewrite Ha; destruct (a' st) as [[|] s]; [apply Hb | reflexivity]. Qed.
Lemma finallyM_ext : forall (a a' b b' : M), (forall st, a st = a' st) -> (forall st, b st = b' st) ->
  forall st, finallyM a b st = finallyM a' b' st.
Proof. intros a a' b b' Ha Hb st; unfold finallyM; rewrite Ha; destruct (a' st) as [o s]; rewrite Hb; reflexivity. Qed.
Lemma withM_ext : forall T en e (b b' : M), (forall st, b st = b' st) ->
  forall st, withM T en e b st = withM T en e b' st.
Proof.
  intros T en e b b' Hb st; unfold withM. destruct (eval_wexpr T en e st) as [v st1].
  apply seqM_ext; [reflexivity|]. intro s; apply finallyM_ext; [exact Hb | reflexivity].
Qed.

Lemma exec_w_norm : forall T en w body st, exec_w T en (norm w) body st = exec_w T en w body st.
Proof.
  intros T en w body; induction w; intro st; simpl; try reflexivity.
  - (* WSeq *)
    destruct (norm w1) eqn:E1.
    + destruct (norm w2) eqn:E2; simpl;
        try (apply seqM_ext; [exact IHw1 | exact IHw2]).
      rewrite <- (seqM_ext _ _ _ _ IHw1 IHw2). simpl. rewrite seq_skip_r. reflexivity.
    + rewrite <- (seqM_ext _ _ _ _ IHw1 IHw2). simpl. rewrite seq_skip_l. reflexivity.
    + destruct (norm w2) eqn:E2; simpl;
        try (apply seqM_ext; [exact IHw1 | exact IHw2]).
      rewrite <- (seqM_ext _ _ _ _ IHw1 IHw2). rewrite seq_skip_r. reflexivity.
    + destruct (norm w2) eqn:E2; simpl;
        try (apply seqM_ext; [exact IHw1 | exact IHw2]).
      rewrite <- (seqM_ext _ _ _ _ IHw1 IHw2). rewrite seq_skip_r. reflexivity.
    + destruct (norm w2) eqn:E2; simpl;
        try (apply seqM_ext; [exact IHw1 | exact IHw2]).
      rewrite <- (seqM_ext _ _ _ _ IHw1 IHw2). rewrite seq_skip_r. reflexivity.
    + destruct (norm w2) eqn:E2; simpl;
        try (apply seqM_ext; [exact IHw1 | exact IHw2]).
      rewrite <- (seqM_ext _ _ _ _ IHw1 IHw2). rewrite seq_skip_r. reflexivity.
  - (* WWith *) apply withM_ext. exact IHw.
  - (* WTryReraise *) apply IHw.
  - (* WTryFinally *)
    destruct (norm w2) eqn:E2; simpl;
      try (apply finallyM_ext; [exact IHw1 | exact IHw2]).
    rewrite <- (finallyM_ext _ _ _ _ IHw1 IHw2). simpl. rewrite finally_skip. reflexivity.
Qed.

Lemma shape_is_sem : forall T en w e body st, shape_is w e = true ->
  exec_w T en w body st = withM T en e body st.
Proof.
  intros T en w e body st H. unfold shape_is in H. apply wcode_eqb_eq in H.
  rewrite <- exec_w_norm. rewrite H. reflexivity.
Qed.

(* ---------- what tables_ok gives ---------- *)
Lemma ctx_ok_enter : forall T, ctx_ok T = true -> t_ctx_enter T = [OpAppendSelf].
Proof.
  intros T H; unfold ctx_ok in H; apply andb_true_iff in H; destruct H as [H _].
  apply (list_eqb_eq _ _ ctxop_eqb_eq) in H; exact H.
Qed.
Lemma ctx_ok_exit : forall T, ctx_ok T = true ->
  t_ctx_exit T = [OpAssertTopIsSelf; OpPop] \/ t_ctx_exit T = [OpPop].
Proof.
  intros T H; unfold ctx_ok in H; apply andb_true_iff in H; destruct H as [_ H].
  apply orb_true_iff in H; destruct H as [H|H]; apply (list_eqb_eq _ _ ctxop_eqb_eq) in H; auto.
Qed.
Lemma scope_ok_inv : forall T, scope_ok T = true ->
  sd_init_guard (t_scope T) = GUserRequested /\ sd_enter (t_scope T) = [GUserRequested]
  /\ sd_exit (t_scope T) = [GUserRequested].
Proof.
  intros T H; unfold scope_ok in H. repeat (apply andb_true_iff in H; destruct H as [H ?]).
  repeat split; [apply sguard_eqb_eq; assumption | |]; apply (list_eqb_eq _ _ sguard_eqb_eq); assumption.
Qed.

(* the context object a manager value pushes while entered *)
Definition active (v : mval) : option ctx :=
  match v with
  | VNull => None
  | VCtx c => Some c
  | VScope oc ur => if ur then oc else None
  end.
Definition wfv (v : mval) : Prop :=
  match v with
  | VScope None true => False
  | _ => True
  end.
Definition entered (v : mval) (st : state) : state :=
  match active v with
  | Some c => log (set_stk st (c :: stk st)) (EvPush c)
  | None => st
  end.
Definition exited (v : mval) (st : state) : state :=
  match active v with
  | Some c => log (set_stk st (tl (stk st))) (EvPop c)
  | None => st
  end.

Lemma enter_spec : forall T v st, ctx_ok T = true -> scope_ok T = true -> wfv v ->
  enter_mval T v st = (ONorm, entered v st).
Proof.
  intros T v st Hc Hs Hw. pose proof (ctx_ok_enter T Hc) as He.
  destruct (scope_ok_inv T Hs) as [_ [Hen _]].
  destruct v as [|c|oc ur]; unfold enter_mval, entered; simpl.
  - reflexivity.
  - rewrite He; reflexivity.
  - rewrite Hen, He. destruct ur; simpl; [|reflexivity].
    destruct oc as [c|]; [reflexivity | contradiction].
Qed.

Lemma exit_spec : forall T v st, ctx_ok T = true -> scope_ok T = true -> wfv v ->
  (forall c, active v = Some c -> exists s, stk st = c :: s) ->
  exit_mval T v st = (ONorm, exited v st).
Proof.
  intros T v st Hc Hs Hw Htop.
  destruct (scope_ok_inv T Hs) as [_ [_ Hex]].
  assert (Hrun : forall c, (exists s, stk st = c :: s) ->
            run_ops (t_ctx_exit T) c st = (ONorm, log (set_stk st (tl (stk st))) (EvPop c))).
  { intros c [s Hst]. destruct (ctx_ok_exit T Hc) as [E|E]; rewrite E; simpl; rewrite Hst; simpl.
    - rewrite same_object_refl. simpl. reflexivity.
    - reflexivity. }
  destruct v as [|c|oc ur]; unfold exit_mval, exited; simpl.
  - reflexivity.
  - apply Hrun. apply Htop. reflexivity.
  - rewrite Hex. destruct ur; simpl; [|reflexivity].
    destruct oc as [c|]; [|contradiction]. simpl.
    rewrite Hrun; [reflexivity|]. apply Htop. reflexivity.
Qed.

(* ---------- good is closed under the combinators ---------- *)
Section Good.
Variable F : obs_pred.

Lemma good_skip : forall st, good F (fun st => (ONorm, st)) st.
Proof. intro st; exists []; simpl; repeat split; auto. Qed.

Lemma good_seq : forall (a b : M) st, good F a st -> (forall st1, stk st1 = stk st -> good F b st1) ->
  good F (seqM a b) st.
Proof.
  intros a b st [na [A1 [A2 [A3 [A4 [A5 A6]]]]]] Hb. unfold good, seqM.
  destruct (a st) as [[|] st1] eqn:Ea; simpl in *.
  - destruct (Hb st1 A2) as [nb [B1 [B2 [B3 [B4 [B5 B6]]]]]].
    exists (nb ++ na). repeat split.
    + rewrite B1, A1, app_assoc; reflexivity.
    + congruence.
    + congruence.
    + lia.
    + rewrite rev_app_distr, replay_app, A5. rewrite <- A2. rewrite B5. rewrite A2. reflexivity.
    + apply Forall_app; split; assumption.
  - exists na. repeat split; auto.
Qed.

Lemma good_finally : forall (a f : M) st, good F a st -> (forall st1, stk st1 = stk st -> good F f st1) ->
  good F (finallyM a f) st.
Proof.
  intros a f st [na [A1 [A2 [A3 [A4 [A5 A6]]]]]] Hf. unfold good, finallyM.
  destruct (a st) as [o st1] eqn:Ea; simpl in *.
  destruct (Hf st1 A2) as [nb [B1 [B2 [B3 [B4 [B5 B6]]]]]].
  assert (G : exists new, tr (snd (f st1)) = new ++ tr st /\ stk (snd (f st1)) = stk st
            /\ bad (snd (f st1)) = bad st /\ next st <= next (snd (f st1))
            /\ replay (rev new) (stk st) = Some (stk st) /\ Forall (ev_ok F) new).
  { exists (nb ++ na). repeat split.
    + rewrite B1, A1, app_assoc; reflexivity.
    + congruence.
    + congruence.
    + lia.
    + rewrite rev_app_distr, replay_app, A5. rewrite <- A2. rewrite B5. rewrite A2. reflexivity.
    + apply Forall_app; split; assumption. }
  destruct (f st1) as [[|] st2]; simpl in *; exact G.
Qed.

(* with v: b *)
Lemma good_with_val : forall T v (b : M) st, ctx_ok T = true -> scope_ok T = true -> wfv v ->
  good F b (entered v st) ->
  good F (seqM (enter_mval T v) (finallyM b (exit_mval T v))) st.
Proof.
  intros T v b st Hc Hs Hw [nb [B1 [B2 [B3 [B4 [B5 B6]]]]]].
  unfold good, seqM. rewrite (enter_spec T v st Hc Hs Hw). unfold finallyM.
  destruct (b (entered v st)) as [o st3] eqn:Eb; simpl in *.
  assert (Htop : forall c, active v = Some c -> exists s, stk st3 = c :: s).
  { intros c Hc'. rewrite B2. unfold entered. rewrite Hc'. simpl. eauto. }
  rewrite (exit_spec T v st3 Hc Hs Hw Htop).
  unfold entered, exited in *. destruct (active v) as [c|] eqn:Ea.
  - simpl in *. exists (EvPop c :: nb ++ [EvPush c]). repeat split.
    + rewrite B1. simpl. rewrite <- app_assoc. reflexivity.
    + rewrite B2. reflexivity.
    + exact B3.
    + exact B4.
    + simpl. rewrite rev_app_distr. simpl.
      rewrite replay_app. rewrite B5. simpl. rewrite ctx_beq_refl. reflexivity.
    + constructor; [exact I|]. apply Forall_app; split; [exact B6|]. constructor; [exact I|constructor].
  - exists nb. repeat split; auto.
Qed.

Lemma good_next_irrel : forall (f : M) st st1,
  stk st1 = stk st -> bad st1 = bad st -> tr st1 = tr st -> next st <= next st1 ->
  good F f st1 -> exists new,
    tr (snd (f st1)) = new ++ tr st /\ stk (snd (f st1)) = stk st /\ bad (snd (f st1)) = bad st
    /\ next st <= next (snd (f st1)) /\ replay (rev new) (stk st) = Some (stk st) /\ Forall (ev_ok F) new.
Proof.
  intros f st st1 H1 H2 H3 H4 [n [A1 [A2 [A3 [A4 [A5 A6]]]]]].
  exists n. rewrite <- H1, <- H2, <- H3. repeat split; auto. lia.
Qed.

(* results of evaluating a with-item *)
Lemma eval_wexpr_cases : forall T en e st, scope_ok T = true -> wfv (e_param en) ->
  exists v st1, eval_wexpr T en e st = (v, st1) /\ wfv v
    /\ stk st1 = stk st /\ bad st1 = bad st /\ tr st1 = tr st /\ next st <= next st1
    /\ match e with
       | WFresh s => exists c, v = VCtx c /\ cst c = s
       | WParam => v = e_param en
       | WScope => if e_ur en then exists c, v = VScope (Some c) true /\ cst c = sd_init_status (t_scope T)
                   else v = VScope None false
       end.
Proof.
  intros T en e st Hs Hp. destruct (scope_ok_inv T Hs) as [Hi _].
  destruct e; simpl.
  - eexists; eexists; split; [reflexivity|]. simpl. repeat split; auto. eexists; split; reflexivity.
  - eexists; eexists; split; [reflexivity|]. repeat split; auto.
  - rewrite Hi. simpl. destruct (e_ur en); simpl.
    + eexists; eexists; split; [reflexivity|]. simpl. repeat split; auto. eexists; split; reflexivity.
    + eexists; eexists; split; [reflexivity|]. simpl. repeat split; auto.
Qed.

Lemma good_with : forall T en e (b : M) st, ctx_ok T = true -> scope_ok T = true -> wfv (e_param en) ->
  (forall v st1, eval_wexpr T en e st = (v, st1) -> good F b (entered v st1)) ->
  good F (withM T en e b) st.
Proof.
  intros T en e b st Hc Hs Hp Hb. unfold good, withM.
  destruct (eval_wexpr_cases T en e st Hs Hp) as [v [st1 [E [Hw [S1 [S2 [S3 [S4 _]]]]]]]].
  rewrite E. specialize (Hb v st1 E).
  apply (good_next_irrel _ st st1 S1 S2 S3 S4). apply good_with_val; assumption.
Qed.

(* any with/try skeleton around a body that is good from every state *)
Lemma good_exec_w_any : forall T en w (body : M), ctx_ok T = true -> scope_ok T = true -> wfv (e_param en) ->
  (forall st, good F body st) -> forall st, good F (exec_w T en w body) st.
Proof.
  intros T en w body Hc Hs Hp Hb. induction w; intro st; simpl.
  - apply Hb.
  - apply good_skip.
  - apply good_seq; [apply IHw1 | intros; apply IHw2].
  - apply good_with; auto.
  - apply IHw.
  - apply good_finally; [apply IHw1 | intros; apply IHw2].
Qed.
End Good.

(* ---------- node bodies ---------- *)
Definition rel_good (F : obs_pred) (st st' : state) : Prop :=
  exists new, tr st' = new ++ tr st /\ stk st' = stk st /\ bad st' = bad st /\ next st <= next st'
    /\ replay (rev new) (stk st) = Some (stk st) /\ Forall (ev_ok F) new.

Lemma good_rel : forall F f st, good F f st <-> rel_good F st (snd (f st)).
Proof. intros; unfold good, rel_good; tauto. Qed.

Lemma rel_of_good : forall F f st, good F f st -> rel_good F st (snd (f st)).
Proof. intros; apply good_rel; assumption. Qed.

Lemma rel_good_trans : forall F a b c, rel_good F a b -> rel_good F b c -> rel_good F a c.
Proof.
  intros F a b c [n1 [A1 [A2 [A3 [A4 [A5 A6]]]]]] [n2 [B1 [B2 [B3 [B4 [B5 B6]]]]]].
  exists (n2 ++ n1). repeat split.
  - rewrite B1, A1, app_assoc; reflexivity.
  - congruence.
  - congruence.
  - lia.
  - rewrite rev_app_distr, replay_app, A5. rewrite <- A2. rewrite B5. rewrite A2. reflexivity.
  - apply Forall_app; split; assumption.
Qed.

Lemma replay_obs_self : forall o s, ob_top o = top_of s -> replay [EvObs o] s = Some s.
Proof. intros o s H. unfold replay, apply_event. rewrite H. rewrite ctx_beq_refl. reflexivity. Qed.

Lemma rel_good_observe : forall (F : obs_pred)
  lbl pos k outer dyn arg cs urconv st,
  F k outer dyn arg cs urconv (top_of (stk st)) ->
  rel_good F st (observe lbl pos k outer dyn arg cs urconv st).
Proof.
  intros. unfold observe, log.
  exists [EvObs (mkobs lbl pos k dyn outer arg cs urconv (top_of (stk st)) (length (stk st)))].
  split; [reflexivity|]. split; [reflexivity|]. split; [reflexivity|]. split; [apply le_n|].
  split; [apply replay_obs_self; reflexivity|]. constructor; [exact H|constructor].
Qed.

Lemma good_run_body : forall F (exec_child : tree -> M) lbl k outer dyn catches r arg cs urconv children,
  Forall (fun c => forall st, good F (exec_child c) st) children ->
  forall pos st, F k outer dyn arg cs urconv (top_of (stk st)) ->
  good F (run_body exec_child lbl k outer dyn catches r arg cs urconv pos children) st.
Proof.
  intros F exec_child lbl k outer dyn catches r arg cs urconv children Hch.
  induction Hch as [|c rest Hc Hrest IH]; intros pos st HF; apply good_rel; simpl.
  - pose proof (rel_good_observe F lbl pos k outer dyn arg cs urconv st HF) as Ho.
    destruct (raises_here r pos); simpl; exact Ho.
  - pose proof (rel_good_observe F lbl pos k outer dyn arg cs urconv st HF) as Ho.
    destruct (raises_here r pos); simpl; [exact Ho|].
    set (st1 := observe lbl pos k outer dyn arg cs urconv st) in *.
    pose proof (proj1 (good_rel F _ _) (Hc st1)) as H1.
    assert (Hs1 : stk st1 = stk st) by reflexivity.
    destruct (exec_child c st1) as [o st2] eqn:E. simpl in H1.
    assert (H02 : rel_good F st st2) by (eapply rel_good_trans; eassumption).
    assert (HF2 : F k outer dyn arg cs urconv (top_of (stk st2))).
    { destruct H1 as [_ [_ [S _]]]. rewrite S, Hs1. exact HF. }
    pose proof (proj1 (good_rel F _ _) (IH (S pos) st2 HF2)) as H3.
    destruct o.
    + eapply rel_good_trans; eassumption.
    + destruct catches; simpl; [eapply rel_good_trans; eassumption | exact H02].
Qed.

(* ---------- wrappers ---------- *)
Lemma rel_good_refl : forall F st, rel_good F st st.
Proof. intros; exists []; simpl; repeat split; auto. Qed.

Lemma rel_good_frame : forall F st st1 st', stk st1 = stk st -> bad st1 = bad st -> tr st1 = tr st ->
  next st <= next st1 -> rel_good F st1 st' -> rel_good F st st'.
Proof.
  intros F st st1 st' H1 H2 H3 H4 [n [A1 [A2 [A3 [A4 [A5 A6]]]]]].
  exists n. rewrite <- H1, <- H2, <- H3. repeat split; auto. lia.
Qed.

Lemma eval_cexpr_frame : forall c st x st1, eval_cexpr c st = (x, st1) ->
  stk st1 = stk st /\ bad st1 = bad st /\ tr st1 = tr st /\ next st <= next st1.
Proof.
  intros c st x st1 H. destruct c; simpl in H; inv H; simpl; repeat split; auto.
Qed.

Lemma tables_ok_all : forall T, tables_ok T = true ->
  (ctx_ok T = true /\ scope_ok T = true /\ shapes_ok T = true /\ internal_ok T = true
   /\ sd_init_status (t_scope T) = Enabled /\ t_to_graph_user_requested T = true)
  /\ (t_disabled_check T = true /\ t_dnc_skips_art T = false /\ t_unspec_skips_art T = false
      /\ t_convert_skips_art T = false).
Proof.
  intros T H. unfold tables_ok in H.
  apply andb_true_iff in H; destruct H as [H _].
  apply andb_true_iff in H; destruct H as [H H10]. apply andb_true_iff in H; destruct H as [H H9].
  apply andb_true_iff in H; destruct H as [H H8]. apply andb_true_iff in H; destruct H as [H H7].
  apply andb_true_iff in H; destruct H as [H H6]. apply andb_true_iff in H; destruct H as [H H5].
  apply andb_true_iff in H; destruct H as [H H4]. apply andb_true_iff in H; destruct H as [H H3].
  apply andb_true_iff in H; destruct H as [H1 H2].
  apply status_eqb_eq in H5. apply negb_true_iff in H8. apply negb_true_iff in H9. apply negb_true_iff in H10.
  repeat split; assumption.
Qed.

Lemma tables_ok_inv : forall T, tables_ok T = true ->
  ctx_ok T = true /\ scope_ok T = true /\ shapes_ok T = true /\ internal_ok T = true
  /\ sd_init_status (t_scope T) = Enabled /\ t_to_graph_user_requested T = true.
Proof. intros T H. exact (proj1 (tables_ok_all T H)). Qed.

Lemma tables_ok_flags : forall T, tables_ok T = true ->
  t_disabled_check T = true /\ t_dnc_skips_art T = false /\ t_unspec_skips_art T = false
  /\ t_convert_skips_art T = false.
Proof. intros T H. exact (proj2 (tables_ok_all T H)). Qed.

Lemma tables_ok_scope_options : forall T, tables_ok T = true ->
  (forall ur rc, top_ur T ur rc = ur) /\ (forall ur rc, nested_ur T ur rc = false)
  /\ (forall u, t_call_options_user_requested T u = false).
Proof.
  intros T H. unfold tables_ok in H. apply andb_true_iff in H; destruct H as [_ H].
  unfold scope_options_ok in H. simpl in H.
  repeat match goal with X : _ && _ = true |- _ => apply andb_true_iff in X; destruct X end.
  repeat match goal with X : Bool.eqb _ _ = true |- _ => apply eqb_prop in X end.
  repeat match goal with X : negb _ = true |- _ => apply negb_true_iff in X end.
  unfold top_ur, nested_ur.
  split; [|split]; [intros [|] [|] | intros [|] [|] | intros [|]]; assumption.
Qed.

Lemma balance_tables_ok_inv : forall T, balance_tables_ok T = true -> ctx_ok T = true /\ scope_ok T = true.
Proof. intros T H; unfold balance_tables_ok in H; apply andb_true_iff in H; exact H. Qed.

Lemma tables_ok_balance : forall T, tables_ok T = true -> balance_tables_ok T = true.
Proof.
  intros T H; destruct (tables_ok_inv T H) as [A [B _]]. unfold balance_tables_ok; rewrite A, B; reflexivity.
Qed.

Lemma shapes_ok_inv : forall T, shapes_ok T = true ->
  shape_is (t_do_not_convert T) (WFresh Disabled) = true
  /\ shape_is (t_unspecified T) (WFresh Unspecified) = true
  /\ shape_is (t_convert T) WParam = true
  /\ shape_is (t_converted_fn T) WScope = true
  /\ shape_is (t_with_function_scope T) WScope = true.
Proof.
  intros T H. unfold shapes_ok in H. repeat (apply andb_true_iff in H; destruct H as [H ?]). repeat split; auto.
Qed.

Lemma internal_ok_inv : forall T, internal_ok T = true -> forall s b, t_internal T s b = internal_spec s b.
Proof.
  intros T H s b. unfold internal_ok in H. simpl in H.
  repeat (apply andb_true_iff in H; destruct H as [? H]).
  repeat match goal with X : _ && _ = true |- _ => apply andb_true_iff in X; destruct X end.
  destruct s, b; apply factory_eqb_eq; assumption.
Qed.

(* -- balance: any wrapper shapes -- *)
Lemma invoke_good_any : forall T k dyn (bodyf : bool -> option ctx -> status -> M),
  balance_tables_ok T = true ->
  (forall u a cs st, good obs_true (bodyf u a cs) st) ->
  forall st, good obs_true (invoke T k dyn bodyf) st.
Proof.
  intros T k dyn bodyf Hok Hb st. destruct (balance_tables_ok_inv T Hok) as [Hc Hs].
  assert (Hcc : forall ur v (bf : bool -> M), (forall u st, good obs_true (bf u) st) -> wfv v ->
            forall st, good obs_true (invoke_convert T ur dyn v bf) st).
  { intros ur v bf Hbf Hv st0. unfold invoke_convert. apply good_exec_w_any; auto.
    intro st1. apply good_rel. unfold call_converted.
    destruct ((t_disabled_check T && status_eqb (cst (top_of (stk st1))) Disabled) || dyn).
    - apply (proj1 (good_rel _ (bf false) st1)). apply Hbf.
    - apply (proj1 (good_rel _ _ st1)). apply good_exec_w_any; simpl; auto. }
  assert (Hcall : forall ur (bf : bool -> M), (forall u st, good obs_true (bf u) st) ->
            forall st, good obs_true (call_converted T ur dyn bf) st).
  { intros ur bf Hbf st1. apply good_rel. unfold call_converted.
    destruct ((t_disabled_check T && status_eqb (cst (top_of (stk st1))) Disabled) || dyn).
    - apply (proj1 (good_rel _ (bf false) st1)). apply Hbf.
    - apply (proj1 (good_rel _ _ st1)). apply good_exec_w_any; simpl; auto. }
  assert (Hnest : forall ur rc (bf : bool -> M), (forall u st, good obs_true (bf u) st) ->
            forall st, good obs_true (invoke_nested T ur rc dyn bf) st).
  { intros ur rc bf Hbf st0. unfold invoke_nested. cbv zeta. apply good_exec_w_any; simpl; auto.
    intro st1. destruct rc; [apply Hcall; exact Hbf | apply Hbf]. }
  apply good_rel. unfold invoke. cbv zeta.
  destruct k as [| | |c|ur rc m|c cbd ur|ur|ur|rc| |ur rc|rc].
  2:{ apply rel_of_good. apply good_exec_w_any; simpl; auto. }
  9:{ apply rel_of_good. apply Hb. }
  9:{ apply rel_of_good. apply Hnest. intros; apply Hb. }
  9:{ apply rel_of_good. apply Hnest. intros; apply Hb. }
  - apply rel_of_good. apply Hb.
  - apply rel_of_good. apply good_exec_w_any; simpl; auto.
  - destruct (eval_cexpr c st) as [x st1] eqn:E. destruct (eval_cexpr_frame _ _ _ _ E) as [S1 [S2 [S3 S4]]].
    eapply rel_good_frame; eauto. apply rel_of_good. apply good_exec_w_any; simpl; auto.
  - destruct m as [|c].
    + apply rel_of_good. apply Hcc; simpl; auto.
    + destruct (eval_cexpr c st) as [x st1] eqn:E. destruct (eval_cexpr_frame _ _ _ _ E) as [S1 [S2 [S3 S4]]].
      eapply rel_good_frame; eauto. apply rel_of_good. apply Hcc; simpl; auto.
  - destruct (eval_cexpr c st) as [x st1] eqn:E. destruct (eval_cexpr_frame _ _ _ _ E) as [S1 [S2 [S3 S4]]].
    eapply rel_good_frame; eauto.
    destruct (t_internal T (cst x) cbd); apply rel_of_good.
    + apply Hcc; simpl; auto.
    + apply good_exec_w_any; simpl; auto.
    + apply good_exec_w_any; simpl; auto.
  - apply rel_of_good. apply good_exec_w_any; simpl; auto.
  - apply rel_of_good. apply good_exec_w_any; simpl; auto.
  - destruct dyn.
    + simpl. apply rel_good_refl.
    + apply rel_of_good. apply good_exec_w_any; simpl; auto.
Qed.

(* a wrapper stacked on a callable that is good from every state *)
Lemma invoke_layer_good : forall F T l artf (body : M),
  balance_tables_ok T = true -> (forall st, good F body st) ->
  forall st, good F (invoke_layer T l artf body) st.
Proof.
  intros F T l artf body Hok Hb st. destruct (balance_tables_ok_inv T Hok) as [Hc Hs].
  assert (Hd : forall st, good F (layer_dnc T artf body) st).
  { intro s0. apply good_rel. unfold layer_dnc. destruct (t_dnc_skips_art T && artf); apply rel_of_good;
      [apply Hb | apply good_exec_w_any; simpl; auto]. }
  assert (Hu : forall st, good F (layer_unspec T artf body) st).
  { intro s0. apply good_rel. unfold layer_unspec. destruct (t_unspec_skips_art T && artf); apply rel_of_good;
      [apply Hb | apply good_exec_w_any; simpl; auto]. }
  assert (Hcv : forall v, wfv v -> forall st, good F (layer_convert T artf v body) st).
  { intros v Hv s0. apply good_rel. unfold layer_convert. destruct (t_convert_skips_art T && artf); apply rel_of_good;
      [apply Hb | apply good_exec_w_any; simpl; auto]. }
  apply good_rel. unfold invoke_layer.
  destruct l as [| | |c|ur rc m|c cbd ur|ur|ur|rc| |ur rc|rc].
  11:{ apply rel_of_good. apply Hb. }
  11:{ apply rel_of_good. apply Hb. }
  - apply rel_of_good. apply Hb.
  - apply rel_of_good. apply Hd.
  - apply rel_of_good. apply Hu.
  - destruct (eval_cexpr c st) as [x st1] eqn:E. destruct (eval_cexpr_frame _ _ _ _ E) as [S1 [S2 [S3 S4]]].
    eapply rel_good_frame; eauto. apply rel_of_good. apply good_exec_w_any; simpl; auto.
  - destruct m as [|c].
    + apply rel_of_good. apply Hcv. exact I.
    + destruct (eval_cexpr c st) as [x st1] eqn:E. destruct (eval_cexpr_frame _ _ _ _ E) as [S1 [S2 [S3 S4]]].
      eapply rel_good_frame; eauto. apply rel_of_good. apply Hcv. exact I.
  - destruct (eval_cexpr c st) as [x st1] eqn:E. destruct (eval_cexpr_frame _ _ _ _ E) as [S1 [S2 [S3 S4]]].
    eapply rel_good_frame; eauto.
    destruct (t_internal_skips_art T && artf); [apply rel_of_good; apply Hb|].
    destruct (t_internal T (cst x) cbd); apply rel_of_good; [apply Hcv; exact I | apply Hd | apply Hu].
  - apply rel_of_good. apply good_exec_w_any; simpl; auto.
  - apply rel_of_good. apply good_exec_w_any; simpl; auto.
  - apply rel_of_good. apply Hb.
  - apply rel_of_good. apply Hb.
Qed.

(* induction principle for trees *)
Lemma tree_ind' : forall P : tree -> Prop,
  (forall lbl k dyn catches r children, Forall P children -> P (Node lbl k dyn catches r children)) ->
  (forall l t, P t -> P (Wrap l t)) ->
  forall t, P t.
Proof.
  intros P H HW. fix IH 1. intro t. destruct t as [lbl k dyn catches r children|l t'].
  - apply H. induction children as [|c cs IHcs]; constructor; [apply IH | exact IHcs].
  - apply HW. apply IH.
Qed.

Theorem exec_in_good_any : forall T, balance_tables_ok T = true ->
  forall t outer st, good obs_true (exec_in T outer t) st.
Proof.
  intros T Hok t. induction t as [lbl k dyn catches r children IH|l t IH] using tree_ind'; intros outer st; simpl.
  - apply invoke_good_any; [exact Hok|].
    intros u a cs st0. apply good_run_body; [|exact I].
    rewrite Forall_forall in *. intros c Hc s0. apply (IH c Hc [] s0).
  - apply invoke_layer_good; [exact Hok|]. intro s0. apply IH.
Qed.

Theorem exec_good_any : forall T, balance_tables_ok T = true ->
  forall t st, good obs_true (exec T t) st.
Proof. intros T Hok t st. apply exec_in_good_any. exact Hok. Qed.

(* -- status inside: the wrapper shapes matter -- *)
Lemma good_shape : forall F T en w e (body : M) st,
  ctx_ok T = true -> scope_ok T = true -> shape_is w e = true -> wfv (e_param en) ->
  (forall v st1, eval_wexpr T en e st = (v, st1) -> good F body (entered v st1)) ->
  good F (exec_w T en w body) st.
Proof.
  intros F T en w e body st Hc Hs Hsh Hp Hb.
  pose proof (good_with F T en e body st Hc Hs Hp Hb) as G.
  unfold good in *. rewrite (shape_is_sem T en w e body st Hsh). exact G.
Qed.

Lemma good_call_converted : forall T (G : bool -> ctx -> Prop) ur dyn (bf : bool -> M) st,
  tables_ok T = true ->
  (forall u st', G u (top_of (stk st')) -> good obs_spec (bf u) st') ->
  ((t_disabled_check T && status_eqb (cst (top_of (stk st))) Disabled) || dyn = true -> G false (top_of (stk st))) ->
  ((t_disabled_check T && status_eqb (cst (top_of (stk st))) Disabled) || dyn = false ->
     forall c, (ur = true -> cst c = Enabled) -> (ur = false -> c = top_of (stk st)) -> G ur c) ->
  good obs_spec (call_converted T ur dyn bf) st.
Proof.
  intros T G ur dyn bf st Hok Hb H1 H2.
  destruct (tables_ok_inv T Hok) as [Hc [Hs [Hsh [Hi [Hen Htg]]]]].
  destruct (shapes_ok_inv T Hsh) as [_ [_ [_ [Hcf _]]]].
  apply good_rel. unfold call_converted.
  destruct ((t_disabled_check T && status_eqb (cst (top_of (stk st))) Disabled) || dyn) eqn:E.
  - apply rel_of_good. apply Hb. apply H1. reflexivity.
  - apply rel_of_good. eapply good_shape; eauto; [exact I|].
    intros v st1 Ev. simpl in Ev. destruct (scope_ok_inv T Hs) as [Hig _]. rewrite Hig in Ev. simpl in Ev.
    destruct ur; simpl in Ev; inv Ev.
    + apply Hb. unfold entered; simpl. apply H2; auto. intro; discriminate.
    + apply Hb. unfold entered; simpl. apply H2; auto. intro; discriminate.
Qed.

Lemma good_invoke_convert : forall T (G : bool -> ctx -> Prop) ur dyn v (bf : bool -> M) st,
  tables_ok T = true ->
  (v = VNull \/ exists x, v = VCtx x) ->
  (forall u st', G u (top_of (stk st')) -> good obs_spec (bf u) st') ->
  (forall top, top = match v with VCtx x => x | _ => top_of (stk st) end ->
     ((t_disabled_check T && status_eqb (cst top) Disabled) || dyn = true -> G false top)
     /\ ((t_disabled_check T && status_eqb (cst top) Disabled) || dyn = false ->
         forall c, (ur = true -> cst c = Enabled) -> (ur = false -> c = top) -> G ur c)) ->
  good obs_spec (invoke_convert T ur dyn v bf) st.
Proof.
  intros T G ur dyn v bf st Hok Hv Hb HG.
  destruct (tables_ok_inv T Hok) as [Hc [Hs [Hsh [Hi [Hen Htg]]]]].
  destruct (shapes_ok_inv T Hsh) as [_ [_ [Hcv _]]].
  unfold invoke_convert. eapply good_shape; eauto.
  - simpl. destruct Hv as [->|[x ->]]; exact I.
  - intros v' st1 Ev. simpl in Ev. inv Ev.
    destruct Hv as [->|[x ->]]; unfold entered; simpl.
    + destruct (HG _ eq_refl) as [G1 G2]. eapply good_call_converted; eauto.
    + destruct (HG _ eq_refl) as [G1 G2]. eapply good_call_converted; simpl; eauto.
Qed.

(* calling an inner function (nested def) of converted code: nothing is entered, the body sees the call site's context *)
Lemma good_invoke_nested : forall T (G : bool -> ctx -> Prop) ur rc dyn (bf : bool -> M) st,
  tables_ok T = true ->
  (forall u st', G u (top_of (stk st')) -> good obs_spec (bf u) st') ->
  G false (top_of (stk st)) ->
  good obs_spec (invoke_nested T ur rc dyn bf) st.
Proof.
  intros T G ur rc dyn bf st Hok Hb HG.
  destruct (tables_ok_inv T Hok) as [Hc [Hs [Hsh [Hi [Hen Htg]]]]].
  destruct (shapes_ok_inv T Hsh) as [_ [_ [_ [Hcf _]]]].
  destruct (tables_ok_scope_options T Hok) as [Htop [Hnest Hcall]].
  destruct (scope_ok_inv T Hs) as [Hig _].
  unfold invoke_nested. cbv zeta. rewrite Hnest, Hcall, Htop.
  eapply good_shape; eauto; [exact I|].
  intros v st1 Ev. simpl in Ev. rewrite Hig in Ev. simpl in Ev. inv Ev. unfold entered; simpl.
  destruct rc.
  - apply (good_call_converted T G false dyn bf st1 Hok Hb).
    + intros _. exact HG.
    + intros _ c _ C2. rewrite (C2 eq_refl). exact HG.
  - apply Hb. exact HG.
Qed.

Ltac spec_split := unfold obs_spec; repeat split; try (intros; discriminate); try (simpl; intros; contradiction);
  try assumption; try (simpl; intros; reflexivity).

Lemma disabled_branch_absurd : forall (chk : bool) s dyn,
  chk && status_eqb s Disabled = true \/ dyn = true -> dyn = false -> s <> Disabled -> False.
Proof.
  intros chk s dyn [H|H] Hd Hs; [|congruence].
  apply andb_true_iff in H; destruct H as [_ H]. apply status_eqb_eq in H. contradiction.
Qed.

Lemma converted_branch_not_disabled : forall s dyn,
  (true && status_eqb s Disabled) || dyn = false -> s = Disabled -> False.
Proof. intros s dyn H E. subst. simpl in H. discriminate. Qed.

Definition outer_pre (outer : list kind) (s0 : status) : Prop :=
  forall pre l s, outer = pre ++ [l] -> layer_status l = Some s -> s0 = s.

Lemma invoke_good_spec : forall T k outer dyn (bodyf : bool -> option ctx -> status -> M) st,
  tables_ok T = true ->
  outer_pre outer (cst (top_of (stk st))) ->
  (forall u a cs st', obs_spec k outer dyn a cs u (top_of (stk st')) -> good obs_spec (bodyf u a cs) st') ->
  good obs_spec (invoke T k dyn bodyf) st.
Proof.
  intros T k outer dyn bodyf st Hok Hpre Hb. unfold outer_pre in Hpre.
  destruct (tables_ok_inv T Hok) as [Hc [Hs [Hsh [Hi [Hen Htg]]]]].
  destruct (tables_ok_flags T Hok) as [Hdc _].
  destruct (shapes_ok_inv T Hsh) as [Hdn [Hun [Hcv [Hcf Hwf]]]].
  destruct (scope_ok_inv T Hs) as [Hig _].
  pose proof (internal_ok_inv T Hi) as Hint.
  destruct (tables_ok_scope_options T Hok) as [Htop _].
  apply good_rel. unfold invoke. cbv zeta.
  destruct k as [| | |c|ur rc m|c cbd ur|ur|ur|rc| |ur rc|rc]; rewrite ?Htop.
  11:{ (* nested def of an entity converted by convert() *) apply rel_of_good.
       eapply (good_invoke_nested T (fun u top => obs_spec (KNested ur rc) outer dyn None (cst (top_of (stk st))) u top)); eauto.
       spec_split. }
  11:{ (* nested def of an entity converted by to_graph() *) apply rel_of_good.
       eapply (good_invoke_nested T (fun u top => obs_spec (KNestedG rc) outer dyn None (cst (top_of (stk st))) u top)); eauto.
       spec_split. }
  - (* plain *) apply rel_of_good. apply Hb. spec_split.
  - (* do_not_convert *) apply rel_of_good. eapply good_shape; eauto; [exact I|].
    intros v st1 Ev. simpl in Ev. inv Ev. apply Hb. unfold entered; simpl. spec_split.
  - (* unspecified *) apply rel_of_good. eapply good_shape; eauto; [exact I|].
    intros v st1 Ev. simpl in Ev. inv Ev. apply Hb. unfold entered; simpl. spec_split.
  - (* with *) destruct (eval_cexpr c st) as [x st1] eqn:E.
    destruct (eval_cexpr_frame _ _ _ _ E) as [S1 [S2 [S3 S4]]].
    eapply rel_good_frame; eauto. apply rel_of_good. apply good_with; auto; [exact I|].
    intros v st2 Ev. simpl in Ev. inv Ev. apply Hb. unfold entered; simpl. spec_split.
  - (* convert *) destruct m as [|c].
    + apply rel_of_good.
      eapply (good_invoke_convert T (fun u top => obs_spec (KConvert ur rc MNull) outer dyn None (cst (top_of (stk st))) u top));
        eauto.
      intros top ->. split.
      * intros Hd. apply orb_true_iff in Hd. spec_split.
        simpl. destruct ur; [|contradiction]. intros [U1 U2]. exfalso.
        eapply disabled_branch_absurd; eauto.
      * intros Hd c0 C1 C2. spec_split.
        -- simpl. destruct ur; [reflexivity|contradiction].
        -- simpl. intro Hu. rewrite (C2 Hu). reflexivity.
        -- intros ur' rc' _ Hdis. destruct ur; [|reflexivity]. exfalso. rewrite Hdc in Hd.
           eapply converted_branch_not_disabled; eauto.
    + destruct (eval_cexpr c st) as [x st1] eqn:E.
      destruct (eval_cexpr_frame _ _ _ _ E) as [S1 [S2 [S3 S4]]].
      eapply rel_good_frame; eauto. apply rel_of_good.
      eapply (good_invoke_convert T (fun u top => obs_spec (KConvert ur rc (MCtx c)) outer dyn (Some x) (cst (top_of (stk st))) u top));
        eauto.
      intros top ->. split.
      * intros Hd. apply orb_true_iff in Hd. spec_split.
        simpl. destruct ur; [|contradiction]. intros [U1 U2]. exfalso.
        eapply disabled_branch_absurd; eauto.
      * intros Hd c0 C1 C2. spec_split.
        -- simpl. destruct ur; [reflexivity|contradiction].
  - (* internal_convert *)
    destruct (eval_cexpr c st) as [x st1] eqn:E.
    destruct (eval_cexpr_frame _ _ _ _ E) as [S1 [S2 [S3 S4]]].
    eapply rel_good_frame; eauto. rewrite Hint.
    destruct (internal_spec (cst x) cbd) eqn:Ei; apply rel_of_good.
    + eapply (good_invoke_convert T (fun u top => obs_spec (KInternal c cbd ur) outer dyn (Some x) (cst (top_of (stk st))) u top));
        eauto.
      intros top ->. split.
      * intros Hd. apply orb_true_iff in Hd. spec_split.
        -- intros c' cbd' ur' _ Hx. simpl in Hx. rewrite Hx in Ei. discriminate.
        -- intros c' ur' Hk Hx. inv Hk. simpl in Hx. rewrite Hx in Ei. discriminate.
        -- simpl. destruct ur; [|contradiction]. intros [U1 U2]. exfalso.
           eapply disabled_branch_absurd; eauto. intro Hx. rewrite Hx in Ei. discriminate.
      * intros Hd c0 C1 C2. spec_split.
        -- intros c' cbd' ur' _ Hx. simpl in Hx. rewrite Hx in Ei. discriminate.
        -- intros c' ur' Hk Hx. inv Hk. simpl in Hx. rewrite Hx in Ei. discriminate.
        -- simpl. destruct ur; [reflexivity|contradiction].
    + eapply good_shape; eauto; [exact I|].
      intros v st2 Ev. simpl in Ev. inv Ev. apply Hb. unfold entered; simpl. spec_split.
      * intros c' ur' Hk Hx. inv Hk. simpl in Hx. rewrite Hx in Ei. discriminate.
      * simpl. destruct ur; [|contradiction]. intros [U1 [U2|[U2 U3]]]; rewrite U2 in Ei; subst; discriminate.
    + eapply good_shape; eauto; [exact I|].
      intros v st2 Ev. simpl in Ev. inv Ev. apply Hb. unfold entered; simpl. spec_split.
      * intros c' cbd' ur' _ Hx. simpl in Hx. rewrite Hx in Ei. discriminate.
      * simpl. destruct ur; [|contradiction]. intros [U1 [U2|[U2 U3]]]; rewrite U2 in Ei; subst; discriminate.
  - (* FunctionScope *) apply rel_of_good. apply good_with; auto; [exact I|].
    intros v st1 Ev. simpl in Ev. rewrite Hig in Ev. simpl in Ev.
    destruct ur; simpl in Ev; inv Ev; apply Hb; unfold entered; simpl; spec_split; simpl; try contradiction; auto.
  - (* with_function_scope *) apply rel_of_good. eapply good_shape; eauto; [exact I|].
    intros v st1 Ev. simpl in Ev. rewrite Hig in Ev. simpl in Ev.
    destruct ur; simpl in Ev; inv Ev; apply Hb; unfold entered; simpl; spec_split; simpl; try contradiction; auto.
  - (* to_graph *) destruct dyn.
    + simpl. apply rel_good_refl.
    + apply rel_of_good. eapply good_shape; eauto; [exact I|].
      intros v st1 Ev. simpl in Ev. rewrite Hig, Htg in Ev. simpl in Ev. inv Ev.
      apply Hb. rewrite Htg. unfold entered; simpl. spec_split; auto.
  - (* artifact *) apply rel_of_good. apply Hb. spec_split.
Qed.

(* a stacked wrapper establishes its status for what it calls *)
Lemma invoke_layer_good_spec : forall F T l artf (body : M) st,
  tables_ok T = true ->
  (forall st', (forall s, layer_status l = Some s -> cst (top_of (stk st')) = s) -> good F body st') ->
  good F (invoke_layer T l artf body) st.
Proof.
  intros F T l artf body st Hok Hb.
  destruct (tables_ok_inv T Hok) as [Hc [Hs [Hsh _]]].
  destruct (tables_ok_flags T Hok) as [_ [Hd [Hu _]]].
  destruct (shapes_ok_inv T Hsh) as [Hdn [Hun _]].
  destruct l as [| | |c|ur rc m|c cbd ur|ur|ur|rc| |ur rc|rc];
    try (apply invoke_layer_good; [apply tables_ok_balance; exact Hok |
                                   intro s0; apply Hb; intros s E; discriminate]).
  - apply good_rel. unfold invoke_layer, layer_dnc. rewrite Hd. simpl.
    apply rel_of_good. eapply good_shape; eauto; [exact I|].
    intros v st1 Ev. simpl in Ev. inv Ev. apply Hb. unfold entered; simpl.
    intros s E. inv E. reflexivity.
  - apply good_rel. unfold invoke_layer, layer_unspec. rewrite Hu. simpl.
    apply rel_of_good. eapply good_shape; eauto; [exact I|].
    intros v st1 Ev. simpl in Ev. inv Ev. apply Hb. unfold entered; simpl.
    intros s E. inv E. reflexivity.
Qed.

Theorem exec_in_good_spec : forall T, tables_ok T = true -> forall t outer st,
  outer_pre outer (cst (top_of (stk st))) -> good obs_spec (exec_in T outer t) st.
Proof.
  intros T Hok t. induction t as [lbl k dyn catches r children IH|l t IH] using tree_ind'; intros outer st Hpre; simpl.
  - apply invoke_good_spec with (outer := outer); [exact Hok | exact Hpre |].
    intros u a cs st0 Hp. apply good_run_body; [|exact Hp].
    rewrite Forall_forall in *. intros c Hc s0. apply (IH c Hc [] s0).
    intros pre l s E. destruct pre; discriminate.
  - apply invoke_layer_good_spec; [exact Hok|].
    intros st' Hl. apply IH. intros pre l' s E Hs.
    apply app_inj_tail in E. destruct E as [_ <-]. apply Hl. exact Hs.
Qed.

Theorem exec_good_spec : forall T, tables_ok T = true -> forall t st, good obs_spec (exec T t) st.
Proof.
  intros T Hok t st. apply exec_in_good_spec; [exact Hok|]. intros pre l s E. destruct pre; discriminate.
Qed.

(* ---------- the statements used by the obligations ---------- *)
Theorem balanced : forall T, balance_tables_ok T = true -> forall t st,
  stk (snd (exec T t st)) = stk st /\ bad (snd (exec T t st)) = bad st.
Proof.
  intros T Hok t st. destruct (exec_good_any T Hok t st) as [n [_ [A [B _]]]]. split; assumption.
Qed.

Lemma obs_of_in : forall l o, In o (obs_of l) -> In (EvObs o) l.
Proof.
  induction l as [|e l IH]; simpl; intros o H; [contradiction|].
  destruct e; simpl in H.
  - destruct H as [->|H]; [left; reflexivity | right; apply IH; exact H].
  - right; apply IH; exact H.
  - right; apply IH; exact H.
Qed.

Definition obs_spec_of (o : obs) : Prop :=
  obs_spec (ob_kind o) (ob_outer o) (ob_dyn o) (ob_arg o) (ob_call_status o) (ob_urconv o) (ob_top o).

Theorem status_inside_all : forall T, tables_ok T = true -> forall t st, tr st = [] ->
  forall o, In o (trace (snd (exec T t st))) -> obs_spec_of o.
Proof.
  intros T Hok t st Htr o Hin. destruct (exec_good_spec T Hok t st) as [n [A [_ [_ [_ [_ Fa]]]]]].
  unfold trace in Hin. rewrite A, Htr, app_nil_r in Hin. apply obs_of_in in Hin.
  apply in_rev in Hin. rewrite Forall_forall in Fa. exact (Fa _ Hin).
Qed.

Theorem log_replays : forall T, balance_tables_ok T = true -> forall t st,
  exists new, tr (snd (exec T t st)) = new ++ tr st /\ replay (rev new) (stk st) = Some (stk st).
Proof.
  intros T Hok t st. destruct (exec_good_any T Hok t st) as [n [A [_ [_ [_ [R _]]]]]].
  exists n; split; assumption.
Qed.
