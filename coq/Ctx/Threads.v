(* C16: threads.  The store of context stacks is a map from cells to stacks; with
   thread-local storage every thread has its own cell, otherwise all threads share
   cell 0.  A thread's program is the chronological event log of its own execution
   (pushes, identity-checked pops, observations with the object they saw); a
   schedule picks, step by step, which thread performs its next event.  A step is
   stuck (None) when a pop does not remove the object the thread's own execution
   removed or an observation does not see the object it saw alone: interference.
   Definitions only. *)
From Coq Require Import List Bool Arith.
Import ListNotations.
Require Import MV.Ctx.CtxSyntax MV.Ctx.Stack MV.Ctx.StackSpec.

Definition cells := nat -> stack.
Definition progs := nat -> list event.

Definition cell_of (thread_local : bool) (t : nat) : nat := if thread_local then t else 0.

Definition upd {A : Type} (f : nat -> A) (k : nat) (v : A) : nat -> A :=
  fun n => if Nat.eqb n k then v else f n.

Fixpoint run (thread_local : bool) (sched : list nat) (ps : progs) (cs : cells) : option (progs * cells) :=
  match sched with
  | [] => Some (ps, cs)
  | t :: rest =>
      match ps t with
      | [] => run thread_local rest ps cs                 (* thread t has finished: idle step *)
      | e :: es =>
          match apply_event e (cs (cell_of thread_local t)) with
          | Some s' => run thread_local rest (upd ps t es) (upd cs (cell_of thread_local t) s')
          | None => None
          end
      end
  end.

(* the program of a thread that executes tree t from state st *)
Definition prog_of (T : tables) (t : tree) (st : state) : list event :=
  rev (firstn (length (tr (snd (exec T t st))) - length (tr st)) (tr (snd (exec T t st)))).
