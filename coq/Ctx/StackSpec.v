(* C16: decidable disciplines on the generated tables, replay of event logs,
   and the per-observation specification.  Definitions only. *)
From Coq Require Import List Bool Arith.
Import ListNotations.
Require Import MV.Ctx.CtxSyntax MV.Ctx.Stack.

Fixpoint list_eqb {A : Type} (eqb : A -> A -> bool) (a b : list A) : bool :=
  match a, b with
  | [], [] => true
  | x :: a', y :: b' => eqb x y && list_eqb eqb a' b'
  | _, _ => false
  end.

Definition wexpr_eqb (a b : wexpr) : bool :=
  match a, b with
  | WFresh s, WFresh s' => status_eqb s s'
  | WParam, WParam | WScope, WScope => true
  | _, _ => false
  end.

Fixpoint wcode_eqb (a b : wcode) : bool :=
  match a, b with
  | WBody, WBody | WSkip, WSkip => true
  | WSeq a1 a2, WSeq b1 b2 => wcode_eqb a1 b1 && wcode_eqb a2 b2
  | WWith e a1, WWith e' b1 => wexpr_eqb e e' && wcode_eqb a1 b1
  | WTryReraise a1, WTryReraise b1 => wcode_eqb a1 b1
  | WTryFinally a1 a2, WTryFinally b1 b2 => wcode_eqb a1 b1 && wcode_eqb a2 b2
  | _, _ => false
  end.

(* semantics-preserving normal form: try/re-raise and effect-free statements disappear *)
Fixpoint norm (w : wcode) : wcode :=
  match w with
  | WTryReraise b => norm b
  | WSeq a b =>
      match norm a with
      | WSkip => norm b
      | a' => match norm b with WSkip => a' | b' => WSeq a' b' end
      end
  | WWith e b => WWith e (norm b)
  | WTryFinally b f =>
      match norm f with
      | WSkip => norm b
      | f' => WTryFinally (norm b) f'
      end
  | WBody => WBody
  | WSkip => WSkip
  end.

(* "the wrapped call runs exactly once, directly inside `with e:`" *)
Definition shape_is (w : wcode) (e : wexpr) : bool := wcode_eqb (norm w) (WWith e WBody).

(* ControlStatusCtx pushes itself on entry and pops (after the identity check, if present) on exit *)
Definition ctx_ok (T : tables) : bool :=
  list_eqb ctxop_eqb (t_ctx_enter T) [OpAppendSelf]
  && (list_eqb ctxop_eqb (t_ctx_exit T) [OpAssertTopIsSelf; OpPop]
      || list_eqb ctxop_eqb (t_ctx_exit T) [OpPop]).

(* FunctionScope creates, enters and exits its context under one and the same guard *)
Definition scope_ok (T : tables) : bool :=
  sguard_eqb (sd_init_guard (t_scope T)) GUserRequested
  && list_eqb sguard_eqb (sd_enter (t_scope T)) [GUserRequested]
  && list_eqb sguard_eqb (sd_exit (t_scope T)) [GUserRequested].

Definition shapes_ok (T : tables) : bool :=
  shape_is (t_do_not_convert T) (WFresh Disabled)
  && shape_is (t_unspecified T) (WFresh Unspecified)
  && shape_is (t_convert T) WParam
  && shape_is (t_converted_fn T) WScope
  && shape_is (t_with_function_scope T) WScope.

Definition internal_spec (s : status) (convert_by_default : bool) : factory :=
  match s with
  | Enabled => FConvert
  | Disabled => FDoNotConvert
  | Unspecified => if convert_by_default then FConvert else FUnspec
  end.

Definition internal_ok (T : tables) : bool :=
  forallb (fun s => forallb (fun b => factory_eqb (t_internal T s b) (internal_spec s b)) [true; false])
          [Unspecified; Enabled; Disabled].

(* the code generator gives the requested options (user_requested as requested) to the top-level function of a
   converted entity only; every function definition nested in it gets options that are not user requested, whatever
   was requested (recursive or not), and call options are never user requested: calling an inner function of
   converted code enters no context *)
Definition scope_options_ok (T : tables) : bool :=
  forallb (fun ur => forallb (fun rc =>
             Bool.eqb (t_scope_user_requested T false ur rc) ur && negb (t_scope_user_requested T true ur rc))
           [true; false]) [true; false]
  && forallb (fun u => negb (t_call_options_user_requested T u)) [true; false].

Definition balance_tables_ok (T : tables) : bool := ctx_ok T && scope_ok T.

Definition tables_ok (T : tables) : bool :=
  ctx_ok T && scope_ok T && shapes_ok T && internal_ok T
  && status_eqb (sd_init_status (t_scope T)) Enabled
  && t_to_graph_user_requested T
  && t_disabled_check T
  && negb (t_dnc_skips_art T) && negb (t_unspec_skips_art T) && negb (t_convert_skips_art T)
  && scope_options_ok T.

(* ---- replaying an event log on a stack: every pop removes the object the log says,
        every observation sees the object the log says ---- *)
Definition apply_event (e : event) (s : stack) : option stack :=
  match e with
  | EvPush c => Some (c :: s)
  | EvPop c => match s with
               | x :: s' => if ctx_beq x c then Some s' else None
               | [] => None
               end
  | EvObs o => if ctx_beq (top_of s) (ob_top o) then Some s else None
  end.

Fixpoint replay (es : list event) (s : stack) : option stack :=
  match es with
  | [] => Some s
  | e :: r => match apply_event e s with
              | Some s' => replay r s'
              | None => None
              end
  end.

(* ---- what the property says about one observation ---- *)
(* status the conversion decision of convert()/internal_convert() looks at: that of the
   context object handed in, else the one current at the call site *)
Definition eff_status (arg : option ctx) (cs : status) : status :=
  match arg with Some x => cst x | None => cs end.

Definition user_converted (k : kind) (dyn : bool) (arg : option ctx) (cs : status) : Prop :=
  match k with
  | KConvert true _ _ => dyn = false /\ eff_status arg cs <> Disabled
  | KInternal _ cbd true =>
      dyn = false /\ (eff_status arg cs = Enabled \/ (eff_status arg cs = Unspecified /\ cbd = true))
  | KToGraph _ => dyn = false
  | KScope true | KLambdaScope true => True
  | _ => False
  end.

(* the call itself enters no context: the function sees the context of its call site *)
Definition enters_nothing (k : kind) (urconv : bool) : Prop :=
  match k with
  | KPlain | KArtifact => True
  | KConvert _ _ MNull => urconv = false
  | KScope false | KLambdaScope false => True
  | KNested _ _ | KNestedG _ => True      (* an inner function (nested def) of converted code, whatever the conversion *)
  | _ => False
  end.

(* status a wrapper establishes for what it calls, when that is fixed by the wrapper alone *)
Definition layer_status (l : kind) : option status :=
  match l with
  | KDoNotConvert => Some Disabled
  | KUnspec => Some Unspecified
  | _ => None
  end.

Definition obs_spec (k : kind) (outer : list kind) (dyn : bool) (arg : option ctx) (cs : status) (urconv : bool) (top : ctx) : Prop :=
  (k = KDoNotConvert -> cst top = Disabled)
  /\ (k = KUnspec -> cst top = Unspecified)
  /\ (forall c, k = KWith c -> arg = Some top)
  /\ (forall c cbd ur, k = KInternal c cbd ur -> eff_status arg cs = Disabled -> cst top = Disabled)
  /\ (forall c ur, k = KInternal c false ur -> eff_status arg cs = Unspecified -> cst top = Unspecified)
  /\ (user_converted k dyn arg cs -> urconv = true)
  /\ (urconv = true -> cst top = Enabled)
  (* stacked decorators *)
  /\ (enters_nothing k urconv -> cst top = cs)
  /\ (forall ur rc, k = KConvert ur rc MNull -> cs = Disabled -> urconv = false)
  /\ (forall pre l s, outer = pre ++ [l] -> layer_status l = Some s -> cs = s).

Definition obs_true (k : kind) (outer : list kind) (dyn : bool) (arg : option ctx) (cs : status) (urconv : bool) (top : ctx) : Prop := True.

Definition obs_pred := kind -> list kind -> bool -> option ctx -> status -> bool -> ctx -> Prop.

Definition ev_ok (F : obs_pred) (e : event) : Prop :=
  match e with
  | EvObs o => F (ob_kind o) (ob_outer o) (ob_dyn o) (ob_arg o) (ob_call_status o) (ob_urconv o) (ob_top o)
  | _ => True
  end.

(* f, started in st, leaves the stack and the failure flag as they were, only allocates,
   and its log replays on the initial stack back to the initial stack *)
Definition good (F : obs_pred) (f : M) (st : state) : Prop :=
  exists new,
    tr (snd (f st)) = new ++ tr st
    /\ stk (snd (f st)) = stk st
    /\ bad (snd (f st)) = bad st
    /\ next st <= next (snd (f st))
    /\ replay (rev new) (stk st) = Some (stk st)
    /\ Forall (ev_ok F) new.
