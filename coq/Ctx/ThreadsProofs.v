(* C16: thread isolation. *)
From Coq Require Import List Bool Arith Lia.
Import ListNotations.
Require Import MV.Ctx.CtxSyntax MV.Ctx.Stack MV.Ctx.StackSpec MV.Ctx.StackProofs MV.Ctx.Threads.

Lemma upd_same : forall (A : Type) (f : nat -> A) k v, upd f k v k = v.
Proof. intros; unfold upd; rewrite Nat.eqb_refl; reflexivity. Qed.
Lemma upd_other : forall (A : Type) (f : nat -> A) k v n, n <> k -> upd f k v n = f n.
Proof. intros; unfold upd. destruct (Nat.eqb n k) eqn:E; [apply Nat.eqb_eq in E; contradiction | reflexivity]. Qed.

(* With thread-local storage: whatever the schedule, no step is stuck, and every thread's
   remaining program still leads from its current stack to the final stack of its solo run. *)
Theorem isolation : forall sched (ps : progs) (cs : cells) (fin : nat -> stack),
  (forall t, replay (ps t) (cs t) = Some (fin t)) ->
  exists ps' cs', run true sched ps cs = Some (ps', cs')
    /\ (forall t, replay (ps' t) (cs' t) = Some (fin t))
    /\ (forall t, ~ In t sched -> ps' t = ps t /\ cs' t = cs t).
Proof.
  induction sched as [|t rest IH]; intros ps cs fin H; simpl.
  - exists ps, cs. repeat split; auto.
  - destruct (ps t) as [|e es] eqn:Ep.
    + destruct (IH ps cs fin H) as [ps' [cs' [R [I1 I2]]]]. exists ps', cs'. repeat split; auto;
        apply I2; intro; apply H0; right; assumption.
    + pose proof (H t) as Ht. rewrite Ep in Ht. simpl in Ht.
      destruct (apply_event e (cs t)) as [s'|] eqn:Ea; [|discriminate].
      assert (H' : forall u, replay (upd ps t es u) (upd cs t s' u) = Some (fin u)).
      { intro u. destruct (Nat.eq_dec u t) as [->|Hne].
        - rewrite !upd_same. exact Ht.
        - rewrite !upd_other by assumption. apply H. }
      destruct (IH _ _ fin H') as [ps' [cs' [R [I1 I2]]]]. exists ps', cs'. split; [exact R|]. split; [exact I1|].
      intros u Hu. assert (u <> t) by (intro; subst; apply Hu; left; reflexivity).
      destruct (I2 u) as [P1 P2]; [intro; apply Hu; right; assumption|].
      rewrite P1, P2, !upd_other by assumption. split; reflexivity.
Qed.

(* when every program has run to completion each thread's stack is its solo final stack *)
Corollary isolation_complete : forall sched ps cs fin,
  (forall t, replay (ps t) (cs t) = Some (fin t)) ->
  forall ps' cs', run true sched ps cs = Some (ps', cs') -> (forall t, ps' t = []) ->
  forall t, cs' t = fin t.
Proof.
  intros sched ps cs fin H ps' cs' R Hd t.
  destruct (isolation sched ps cs fin H) as [ps2 [cs2 [R2 [I1 _]]]].
  rewrite R in R2. inversion R2; subst. specialize (I1 t). rewrite Hd in I1. simpl in I1. congruence.
Qed.

Lemma firstn_len_app : forall (A : Type) (a b : list A), firstn (length (a ++ b) - length b) (a ++ b) = a.
Proof.
  intros. rewrite app_length. replace (length a + length b - length b) with (length a) by lia.
  rewrite firstn_app, firstn_all, Nat.sub_diag. simpl. apply app_nil_r.
Qed.

Lemma prog_of_replays : forall T, balance_tables_ok T = true -> forall t st,
  replay (prog_of T t st) (stk st) = Some (stk st).
Proof.
  intros T Hok t st. destruct (log_replays T Hok t st) as [n [A R]].
  unfold prog_of. rewrite A. rewrite firstn_len_app. exact R.
Qed.

(* Threads running arbitrary call trees under any schedule: nobody is ever disturbed, and
   a thread that has finished has its stack back. *)
Theorem threads_isolated : forall T, balance_tables_ok T = true -> t_thread_local T = true ->
  forall (trees : nat -> tree) (sts : nat -> state) sched,
  exists ps' cs',
    run (t_thread_local T) sched (fun t => prog_of T (trees t) (sts t)) (fun t => stk (sts t)) = Some (ps', cs')
    /\ forall t, replay (ps' t) (cs' t) = Some (stk (sts t)).
Proof.
  intros T Hok Htl trees sts sched. rewrite Htl.
  destruct (isolation sched (fun t => prog_of T (trees t) (sts t)) (fun t => stk (sts t)) (fun t => stk (sts t)))
    as [ps' [cs' [R [I1 _]]]].
  - intro t. apply prog_of_replays. exact Hok.
  - exists ps', cs'. split; assumption.
Qed.

(* non-vacuity: with one shared stack two threads do disturb each other *)
Example shared_stack_interferes :
  let c1 := mkctx 4 Disabled in let c2 := mkctx 5 Enabled in
  let o := mkobs 1 0 KDoNotConvert false [] None Unspecified false c1 2 in
  let ps := fun t => match t with 0 => [EvPush c1; EvObs o; EvPop c1] | 1 => [EvPush c2; EvPop c2] | _ => [] end in
  let cs := fun _ : nat => [mkctx 0 Unspecified] in
  run false [0; 1; 0] ps cs = None /\ (exists r, run true [0; 1; 0] ps cs = Some r).
Proof. simpl. split; [reflexivity | eexists; reflexivity]. Qed.
