(* C16: vocabulary shared by the generated tables (Generated/C16_gen.v) and the
   hand-written model (Ctx/Stack.v).  Definitions only. *)
From Coq Require Import List Bool Arith.
Import ListNotations.

(* malt.core.ag_ctx.Status *)
Inductive status : Set := Unspecified | Enabled | Disabled.

Definition status_eqb (a b : status) : bool :=
  match a, b with
  | Unspecified, Unspecified | Enabled, Enabled | Disabled, Disabled => true
  | _, _ => false
  end.

(* The statements of ControlStatusCtx.__enter__ / __exit__ that touch the stack. *)
Inductive ctxop : Set :=
| OpAppendSelf          (* _control_ctx().append(self) *)
| OpAssertTopIsSelf     (* assert _control_ctx()[-1] is self *)
| OpPop.                (* _control_ctx().pop() *)

Definition ctxop_eqb (a b : ctxop) : bool :=
  match a, b with
  | OpAppendSelf, OpAppendSelf | OpAssertTopIsSelf, OpAssertTopIsSelf | OpPop, OpPop => true
  | _, _ => false
  end.

(* Context-manager expressions that occur as with-items in the wrappers. *)
Inductive wexpr : Set :=
| WFresh (s : status)   (* ag_ctx.ControlStatusCtx(status=ag_ctx.Status.<s>)  -- a new object per evaluation *)
| WParam                (* the wrapper's context parameter (convert: conversion_ctx) *)
| WScope.               (* FunctionScope(<name>, <scope name>, options) *)

(* The with/try skeleton of a wrapper around the call of the wrapped function.
   Every stack effect in this language is produced by a with statement: the
   translator fails closed on explicit __enter__/__exit__ calls or direct
   stack manipulation in a wrapper. *)
Inductive wcode : Set :=
| WBody                               (* the call of the wrapped function / thunk / converted_call / the function body *)
| WSkip                               (* statements without effect on the context stack *)
| WSeq (a b : wcode)
| WWith (e : wexpr) (b : wcode)       (* with e: b *)
| WTryReraise (b : wcode)             (* try: b  except ...: <every path raises> *)
| WTryFinally (b f : wcode).          (* try: b  finally: f *)

(* Guards in FunctionScope.__init__/__enter__/__exit__ *)
Inductive sguard : Set :=
| GUserRequested        (* [self.]options.user_requested *)
| GAlways.

Definition sguard_eqb (a b : sguard) : bool :=
  match a, b with
  | GUserRequested, GUserRequested | GAlways, GAlways => true
  | _, _ => false
  end.

Record scope_desc : Set := mk_scope_desc {
  sd_init_guard : sguard;          (* guard under which __init__ creates self.autograph_ctx *)
  sd_init_status : status;         (* status of that ControlStatusCtx *)
  sd_enter : list sguard;          (* guards of the `self.autograph_ctx.__enter__()` statements of __enter__, in order *)
  sd_exit : list sguard            (* guards of the `self.autograph_ctx.__exit__(...)` statements of __exit__, in order *)
}.

(* what internal_convert wraps f with *)
Inductive factory : Set :=
| FConvert              (* convert(recursive=True, user_requested=user_requested, conversion_ctx=ctx) *)
| FDoNotConvert
| FUnspec.              (* call_with_unspecified_conversion_status *)

Definition factory_eqb (a b : factory) : bool :=
  match a, b with
  | FConvert, FConvert | FDoNotConvert, FDoNotConvert | FUnspec, FUnspec => true
  | _, _ => false
  end.

Record tables : Set := mk_tables {
  t_ctx_enter : list ctxop;                 (* ag_ctx.ControlStatusCtx.__enter__ *)
  t_ctx_exit : list ctxop;                  (* ag_ctx.ControlStatusCtx.__exit__ *)
  t_default_status : status;                (* ag_ctx._default_control_status_ctx *)
  t_thread_local : bool;                    (* ag_ctx.stacks = threading.local(), only reached through _control_ctx() *)
  t_scope : scope_desc;                     (* function_wrappers.FunctionScope *)
  t_with_function_scope : wcode;            (* function_wrappers.with_function_scope *)
  t_converted_fn : wcode;                   (* the template converters/functions.py wraps every converted def with *)
  t_do_not_convert : wcode;                 (* api.do_not_convert.wrapper *)
  t_unspecified : wcode;                    (* api.call_with_unspecified_conversion_status.wrapper *)
  t_convert : wcode;                        (* api.convert.decorator.wrapper; WBody = converted_call(f, ..., options) *)
  t_internal : status -> bool -> factory;   (* api.internal_convert: ctx.status -> convert_by_default -> wrapper factory *)
  t_disabled_check : bool;                  (* converted_call runs f unconverted when the current status is DISABLED,
                                               before any conversion is attempted *)
  t_to_graph_user_requested : bool;         (* api.to_graph converts with user_requested=True *)
  (* `if is_autograph_artifact(f): return f` at the head of the decorator: applied to a callable that already
     carries autograph_info__ (another wrapper's result, an inner function of converted code, a marked function)
     the decorator hands it back unwrapped *)
  t_dnc_skips_art : bool;                   (* api.do_not_convert *)
  t_unspec_skips_art : bool;                (* api.call_with_unspecified_conversion_status *)
  t_convert_skips_art : bool;               (* api.convert.decorator *)
  t_internal_skips_art : bool;              (* api.internal_convert *)
  (* converters/functions.py FunctionTransformer._function_scope_options: which options the code generator bakes into
     the FunctionScope(..) of a function definition of a converted entity.
     nested (false = the entity's top-level function, true = a def nested in it, at any depth) ->
     user_requested of the requested options -> recursive of the requested options ->
     user_requested of the options the scope is created with.  (The recursive flag is the requested one in
     every shape the translator accepts.) *)
  t_scope_user_requested : bool -> bool -> bool -> bool;
  (* core/converter.py ConversionOptions.call_options(): user_requested of the receiver -> user_requested of the
     result (recursive is kept, internal_convert_user_code := recursive: pinned by the translator);
     FunctionScope.callopts = options.call_options() is what converted code passes to converted_call *)
  t_call_options_user_requested : bool -> bool
}.
