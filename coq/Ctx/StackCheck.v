(* C16: correspondence checker evaluated by vm_compute on the cases the harness writes
   (tools/props/c16.py): the model, run on the tables generated from the current source,
   must reproduce what the real API showed for the same call tree. *)
From Coq Require Import List Bool Arith.
Import ListNotations.
Require Import MV.Ctx.CtxSyntax MV.Ctx.Stack MV.Ctx.StackSpec MV.Generated.C16_gen.

(* one observation as recorded on the implementation:
   label, position, object number (by first appearance in this thread), status, stack depth,
   "the enclosing activation is a converted function with user_requested options" *)
Definition eobs : Set := (nat * nat * nat * status * nat * bool)%type.

(* index, tree, expected observations, compare depths?, expected "the root call raised" *)
Definition case : Set := (nat * tree * list eobs * bool * bool)%type.

Fixpoint index_of (x : nat) (l : list nat) (i : nat) : option nat :=
  match l with
  | [] => None
  | y :: r => if Nat.eqb x y then Some i else index_of x r (S i)
  end.

Fixpoint canon (seen : list nat) (ids : list nat) : list nat :=
  match ids with
  | [] => []
  | i :: r => match index_of i seen 0 with
              | Some k => k :: canon seen r
              | None => length seen :: canon (seen ++ [i]) r
              end
  end.

Definition is_scope_kind (k : kind) : bool :=
  match k with KScope _ | KLambdaScope _ => true | _ => false end.

Definition eobs_match (with_depth : bool) (o : obs) (cid' : nat) (e : eobs) : bool :=
  match e with
  | (l, p, i, s, d, u) =>
      Nat.eqb (ob_lbl o) l && Nat.eqb (ob_pos o) p && Nat.eqb cid' i && status_eqb (cst (ob_top o)) s
      && (negb with_depth || Nat.eqb (ob_depth o) d)
      && (is_scope_kind (ob_kind o) || Bool.eqb (ob_urconv o) u)
  end.

Fixpoint all_match (with_depth : bool) (os : list obs) (ids : list nat) (es : list eobs) : bool :=
  match os, ids, es with
  | [], [], [] => true
  | o :: os', i :: ids', e :: es' => eobs_match with_depth o i e && all_match with_depth os' ids' es'
  | _, _, _ => false
  end.

Definition root (t : tree) : tree := Node 0 KPlain false true None [t].

Definition model_trace (t : tree) : list obs := trace (snd (exec gen_tables (root t) (init_state gen_tables))).
Definition model_raised (t : tree) : bool :=
  match fst (exec gen_tables t (init_state gen_tables)) with ORaise => true | ONorm => false end.

Definition check_case (c : case) : bool :=
  match c with
  | (_, t, es, with_depth, raised) =>
      let os := model_trace t in
      wf_tree t
      && all_match with_depth os (canon [] (map (fun o => cid (ob_top o)) os)) es
      && Bool.eqb (model_raised t) raised
      && negb (bad (snd (exec gen_tables (root t) (init_state gen_tables))))
  end.

Definition case_index (c : case) : nat := match c with (n, _, _, _, _) => n end.
Definition failing (cs : list case) : list nat := map case_index (filter (fun c => negb (check_case c)) cs).
