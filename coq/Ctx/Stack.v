(* C16: executable model of malt's conversion-status context (H), interpreting
   the tables generated from the source (G).  Definitions only.

   A thread's context state is a stack of context objects (head = top =
   control_status_ctx()).  Objects have an identity (cid) and an immutable
   status.  Call trees: every node is a Python function invoked by its parent
   through one of malt's wrappers; it observes the current context before its
   first child and after every child, may raise at any position, and may swallow
   the exceptions of its children.  A callee may also be an inner function of
   converted code (KNested / KNestedG): a def nested in a converted entity, whose
   function scope is generated with the options the code generator picks for
   nested definitions (t_scope_user_requested, from converters/functions.py). *)
From Coq Require Import List Bool Arith.
Import ListNotations.
Require Import MV.Ctx.CtxSyntax.

Record ctx : Set := mkctx { cid : nat; cst : status }.
Definition stack := list ctx.

Definition same_object (a b : ctx) : bool := Nat.eqb (cid a) (cid b).      (* Python `is` *)
Definition ctx_beq (a b : ctx) : bool := Nat.eqb (cid a) (cid b) && status_eqb (cst a) (cst b).

(* object ids: 0 = the thread's default context, 1..3 = three module-level objects the
   harness creates once (one per status, possibly shared by many threads), >= 4 fresh *)
Definition status_index (s : status) : nat :=
  match s with Unspecified => 0 | Enabled => 1 | Disabled => 2 end.
Definition global_ctx (s : status) : ctx := mkctx (1 + status_index s) s.
Definition first_fresh : nat := 4.

(* how the harness obtains a ControlStatusCtx object it passes to the API *)
Inductive cexpr : Set :=
| CFresh (s : status)       (* ControlStatusCtx(status=s): a new object *)
| CAt (n : nat)             (* an object that is on the stack now: n-th from the top (0 = control_status_ctx()),
                               the bottom one if n is too large *)
| CGlobal (s : status).     (* module-level object *)

Inductive cmgr : Set := MNull | MCtx (c : cexpr).     (* conversion_ctx argument: NullCtx() or a context *)

Inductive kind : Set :=
| KPlain                                         (* f(...) *)
| KDoNotConvert                                  (* do_not_convert(f)(...) *)
| KUnspec                                        (* call_with_unspecified_conversion_status(f)(...) *)
| KWith (c : cexpr)                              (* with <ctx>: f(...) *)
| KConvert (user_requested recursive : bool) (m : cmgr)      (* convert(recursive, user_requested, conversion_ctx)(f)(...) *)
| KInternal (c : cexpr) (convert_by_default user_requested : bool)   (* internal_convert(f, ctx, ...)(...) *)
| KScope (user_requested : bool)                 (* with FunctionScope(.., options): f(...) *)
| KLambdaScope (user_requested : bool)           (* with_function_scope(lambda scope: f(...), .., options) *)
| KToGraph (recursive : bool)                    (* to_graph(f, recursive)(...) *)
| KArtifact                                      (* autograph_artifact(f)(...), or an inner function handed out by converted
                                                    code: carries autograph_info__, enters nothing *)
| KNested (user_requested recursive : bool)      (* inner(...), where inner is a function definition NESTED in an entity that
                                                    was converted through convert(recursive, user_requested) and handed
                                                    inner out (closure / callback): inner's body `return f(...)` runs inside
                                                    the function scope the code generator gave the nested def; it may be
                                                    called from anywhere (the converted entity, a do_not_convert region,
                                                    a with-block, plain code) *)
| KNestedG (recursive : bool).                   (* the same, the entity converted through to_graph(entity, recursive) *)

Inductive tree : Set :=
| Node (lbl : nat) (k : kind)       (* k applied to the plain function f *)
       (dyn : bool)                 (* f is dynamic code (exec): malt never converts it *)
       (catches : bool)             (* f swallows exceptions of its children *)
       (raise_at : option nat)      (* f raises just before child number n (after the last one if n = #children) *)
       (children : list tree)
| Wrap (l : kind) (t : tree).       (* wrapper l applied to the callable t denotes (itself a wrapper's result or an
                                       artifact): decorators stacked on decorators *)

(* does the callable carry autograph_info__ ?  every wrapper of the API marks its result *)
Definition is_art_kind (k : kind) : bool := match k with KPlain => false | _ => true end.
Fixpoint art (t : tree) : bool :=
  match t with
  | Node _ k _ _ _ _ => is_art_kind k
  | Wrap l t' => is_art_kind l || art t'
  end.

(* the trees the harness generates: a wrapper is only stacked on an artifact (Wrap l (Node KPlain ..) is written
   Node l ..), to_graph is only applied to plain functions *)
Fixpoint wf_tree (t : tree) : bool :=
  match t with
  | Node _ _ _ _ _ children => forallb wf_tree children
  | Wrap l t' => art t' && wf_tree t' && match l with KToGraph _ | KPlain | KNested _ _ | KNestedG _ => false | _ => true end
  end.

Record obs : Set := mkobs {
  ob_lbl : nat; ob_pos : nat;
  ob_kind : kind; ob_dyn : bool;
  ob_outer : list kind;             (* the wrappers stacked around this call, outermost first *)
  ob_arg : option ctx;              (* the context object passed to the wrapper, if any *)
  ob_call_status : status;          (* status current at the call site *)
  ob_urconv : bool;                 (* f runs converted, inside a FunctionScope with user_requested options *)
  ob_top : ctx;                     (* control_status_ctx() *)
  ob_depth : nat
}.

Inductive event : Set :=
| EvObs (o : obs)
| EvPush (c : ctx)
| EvPop (c : ctx).

Record state : Set := mkstate {
  stk : stack;
  next : nat;                       (* next fresh object id *)
  bad : bool;                       (* the identity assertion of __exit__ failed / pop of an empty stack / missing attribute *)
  tr : list event                   (* newest first *)
}.

Inductive outcome : Set := ONorm | ORaise.
Definition M := state -> outcome * state.

Definition dflt : ctx := mkctx 0 Unspecified.
Definition top_of (s : stack) : ctx := hd dflt s.

Definition set_stk (st : state) (s : stack) : state := mkstate s (next st) (bad st) (tr st).
Definition set_bad (st : state) : state := mkstate (stk st) (next st) true (tr st).
Definition log (st : state) (e : event) : state := mkstate (stk st) (next st) (bad st) (e :: tr st).
Definition fresh (s : status) (st : state) : ctx * state :=
  (mkctx (next st) s, mkstate (stk st) (S (next st)) (bad st) (tr st)).

Definition init_state (T : tables) : state :=
  mkstate [mkctx 0 (t_default_status T)] first_fresh false [].

Definition eval_cexpr (c : cexpr) (st : state) : ctx * state :=
  match c with
  | CFresh s => fresh s st
  | CAt n => (nth n (stk st) (last (stk st) dflt), st)
  | CGlobal s => (global_ctx s, st)
  end.

(* ---- ControlStatusCtx.__enter__ / __exit__, as generated ---- *)
Fixpoint run_ops (ops : list ctxop) (self : ctx) (st : state) : outcome * state :=
  match ops with
  | [] => (ONorm, st)
  | OpAppendSelf :: r => run_ops r self (log (set_stk st (self :: stk st)) (EvPush self))
  | OpAssertTopIsSelf :: r =>
      match stk st with
      | c :: _ => if same_object c self then run_ops r self st else (ORaise, set_bad st)
      | [] => (ORaise, set_bad st)
      end
  | OpPop :: r =>
      match stk st with
      | c :: s' => run_ops r self (log (set_stk st s') (EvPop c))
      | [] => (ORaise, set_bad st)
      end
  end.

(* ---- context-manager values ---- *)
Inductive mval : Set :=
| VNull                                   (* ag_ctx.NullCtx() *)
| VCtx (c : ctx)
| VScope (oc : option ctx) (ur : bool).   (* FunctionScope: its autograph_ctx attribute (if created), options.user_requested *)

Definition guard_holds (g : sguard) (ur : bool) : bool :=
  match g with GUserRequested => ur | GAlways => true end.

Fixpoint apply_guards (ops : list ctxop) (gs : list sguard) (oc : option ctx) (ur : bool) (st : state)
  : outcome * state :=
  match gs with
  | [] => (ONorm, st)
  | g :: r =>
      if guard_holds g ur then
        match oc with
        | Some c => match run_ops ops c st with
                    | (ONorm, st1) => apply_guards ops r oc ur st1
                    | (ORaise, st1) => (ORaise, st1)
                    end
        | None => (ORaise, set_bad st)     (* AttributeError: no autograph_ctx *)
        end
      else apply_guards ops r oc ur st
  end.

Definition enter_mval (T : tables) (v : mval) (st : state) : outcome * state :=
  match v with
  | VNull => (ONorm, st)
  | VCtx c => run_ops (t_ctx_enter T) c st
  | VScope oc ur => apply_guards (t_ctx_enter T) (sd_enter (t_scope T)) oc ur st
  end.

Definition exit_mval (T : tables) (v : mval) (st : state) : outcome * state :=
  match v with
  | VNull => (ONorm, st)
  | VCtx c => run_ops (t_ctx_exit T) c st
  | VScope oc ur => apply_guards (t_ctx_exit T) (sd_exit (t_scope T)) oc ur st
  end.

Record env : Set := mkenv { e_param : mval; e_ur : bool (* options.user_requested seen by FunctionScope *) }.
Definition env0 : env := mkenv VNull false.

Definition eval_wexpr (T : tables) (en : env) (e : wexpr) (st : state) : mval * state :=
  match e with
  | WFresh s => let (c, st1) := fresh s st in (VCtx c, st1)
  | WParam => (e_param en, st)
  | WScope =>
      if guard_holds (sd_init_guard (t_scope T)) (e_ur en)
      then let (c, st1) := fresh (sd_init_status (t_scope T)) st in (VScope (Some c) (e_ur en), st1)
      else (VScope None (e_ur en), st)
  end.

Definition seqM (a b : M) : M := fun st =>
  match a st with
  | (ONorm, st1) => b st1
  | (ORaise, st1) => (ORaise, st1)
  end.

(* run a, then f whatever a did; the result is a's unless f raises *)
Definition finallyM (a f : M) : M := fun st =>
  match a st with
  | (o, st1) => match f st1 with
                | (ONorm, st2) => (o, st2)
                | (ORaise, st2) => (ORaise, st2)
                end
  end.

Definition withM (T : tables) (en : env) (e : wexpr) (b : M) : M := fun st =>
  match eval_wexpr T en e st with
  | (v, st1) => seqM (enter_mval T v) (finallyM b (exit_mval T v)) st1
  end.

Fixpoint exec_w (T : tables) (en : env) (w : wcode) (body : M) : M :=
  match w with
  | WBody => body
  | WSkip => fun st => (ONorm, st)
  | WSeq a b => seqM (exec_w T en a body) (exec_w T en b body)
  | WWith e b => withM T en e (exec_w T en b body)
  | WTryReraise b => exec_w T en b body
  | WTryFinally b f => finallyM (exec_w T en b body) (exec_w T en f body)
  end.

(* ---- the wrappers ---- *)
(* converted_call(f, args, kwargs, options=ConversionOptions(user_requested=ur, ...)) as reached from convert():
   f runs unconverted when the status is DISABLED or f is dynamic code; otherwise the converted f runs,
   whose body is wrapped by the function-scope template. *)
Definition call_converted (T : tables) (ur dyn : bool) (bodyf : bool -> M) : M := fun st =>
  if (t_disabled_check T && status_eqb (cst (top_of (stk st))) Disabled) || dyn
  then bodyf false st
  else exec_w T (mkenv VNull ur) (t_converted_fn T) (bodyf ur) st.

Definition invoke_convert (T : tables) (ur dyn : bool) (v : mval) (bodyf : bool -> M) : M :=
  exec_w T (mkenv v false) (t_convert T) (call_converted T ur dyn bodyf).

(* user_requested flag of the options baked into the FunctionScope of the top-level function / of a nested function
   definition of an entity converted with ConversionOptions(user_requested=ur, recursive=rc) *)
Definition top_ur (T : tables) (ur rc : bool) : bool := t_scope_user_requested T false ur rc.
Definition nested_ur (T : tables) (ur rc : bool) : bool := t_scope_user_requested T true ur rc.

(* inner(...) for a nested def `def inner(..): return f(..)` of an entity converted with (ur, rc): the function-scope
   template with the options chosen for nested definitions; inside it f is reached through
   converted_call(f, .., fscope) with fscope.callopts = <those options>.call_options(): only a recursive conversion
   (internal_convert_user_code = recursive) converts f, as an entity of its own, with the call options *)
Definition invoke_nested (T : tables) (ur rc dyn : bool) (bodyf : bool -> M) : M :=
  let sur := nested_ur T ur rc in
  exec_w T (mkenv VNull sur) (t_converted_fn T)
         (if rc then call_converted T (top_ur T (t_call_options_user_requested T sur) rc) dyn bodyf
          else bodyf false).

(* bodyf urconv arg call_status *)
Definition invoke (T : tables) (k : kind) (dyn : bool) (bodyf : bool -> option ctx -> status -> M) : M := fun st =>
  let cs := cst (top_of (stk st)) in
  match k with
  | KPlain | KArtifact => bodyf false None cs st
  | KDoNotConvert => exec_w T env0 (t_do_not_convert T) (bodyf false None cs) st
  | KUnspec => exec_w T env0 (t_unspecified T) (bodyf false None cs) st
  | KWith c =>
      let (x, st1) := eval_cexpr c st in
      exec_w T (mkenv (VCtx x) false) (WWith WParam WBody) (bodyf false (Some x) cs) st1
  | KConvert ur rc MNull => invoke_convert T (top_ur T ur rc) dyn VNull (fun u => bodyf u None cs) st
  | KConvert ur rc (MCtx c) =>
      let (x, st1) := eval_cexpr c st in
      invoke_convert T (top_ur T ur rc) dyn (VCtx x) (fun u => bodyf u (Some x) cs) st1
  | KInternal c cbd ur =>
      let (x, st1) := eval_cexpr c st in
      match t_internal T (cst x) cbd with
      | FConvert => invoke_convert T (top_ur T ur true) dyn (VCtx x) (fun u => bodyf u (Some x) cs) st1
      | FDoNotConvert => exec_w T env0 (t_do_not_convert T) (bodyf false (Some x) cs) st1
      | FUnspec => exec_w T env0 (t_unspecified T) (bodyf false (Some x) cs) st1
      end
  | KScope ur => exec_w T (mkenv VNull ur) (WWith WScope WBody) (bodyf ur None cs) st
  | KLambdaScope ur => exec_w T (mkenv VNull ur) (t_with_function_scope T) (bodyf ur None cs) st
  | KToGraph rc =>
      if dyn then (ORaise, st)      (* no source code: to_graph itself raises *)
      else exec_w T (mkenv VNull (top_ur T (t_to_graph_user_requested T) rc)) (t_converted_fn T)
                  (bodyf (top_ur T (t_to_graph_user_requested T) rc) None cs) st
  | KNested ur rc => invoke_nested T ur rc dyn (fun u => bodyf u None cs) st
  | KNestedG rc => invoke_nested T (t_to_graph_user_requested T) rc dyn (fun u => bodyf u None cs) st
  end.

(* wrapper l applied to a callable that is already an artifact (art = true for every tree the harness
   generates; see wf_tree): convert()/internal_convert never convert such a callable, they only enter their
   context around the call *)
Definition layer_dnc (T : tables) (artf : bool) (body : M) : M := fun st =>
  if t_dnc_skips_art T && artf then body st else exec_w T env0 (t_do_not_convert T) body st.
Definition layer_unspec (T : tables) (artf : bool) (body : M) : M := fun st =>
  if t_unspec_skips_art T && artf then body st else exec_w T env0 (t_unspecified T) body st.
Definition layer_convert (T : tables) (artf : bool) (v : mval) (body : M) : M := fun st =>
  if t_convert_skips_art T && artf then body st else exec_w T (mkenv v false) (t_convert T) body st.

Definition invoke_layer (T : tables) (l : kind) (artf : bool) (body : M) : M := fun st =>
  match l with
  | KPlain | KArtifact | KToGraph _ | KNested _ _ | KNestedG _ => body st
  | KDoNotConvert => layer_dnc T artf body st
  | KUnspec => layer_unspec T artf body st
  | KWith c =>
      let (x, st1) := eval_cexpr c st in
      exec_w T (mkenv (VCtx x) false) (WWith WParam WBody) body st1
  | KConvert _ _ MNull => layer_convert T artf VNull body st
  | KConvert _ _ (MCtx c) =>
      let (x, st1) := eval_cexpr c st in layer_convert T artf (VCtx x) body st1
  | KInternal c cbd _ =>
      let (x, st1) := eval_cexpr c st in
      if t_internal_skips_art T && artf then body st1
      else match t_internal T (cst x) cbd with
           | FConvert => layer_convert T artf (VCtx x) body st1
           | FDoNotConvert => layer_dnc T artf body st1
           | FUnspec => layer_unspec T artf body st1
           end
  | KScope ur => exec_w T (mkenv VNull ur) (WWith WScope WBody) body st
  | KLambdaScope ur => exec_w T (mkenv VNull ur) (t_with_function_scope T) body st
  end.

Definition observe (lbl pos : nat) (k : kind) (outer : list kind) (dyn : bool) (arg : option ctx) (cs : status) (urconv : bool) (st : state) : state :=
  log st (EvObs (mkobs lbl pos k dyn outer arg cs urconv (top_of (stk st)) (length (stk st)))).

Definition raises_here (r : option nat) (pos : nat) : bool :=
  match r with Some n => Nat.eqb n pos | None => false end.

(* the body of a node: `exec_child` runs one child *)
Section Body.
  Variable exec_child : tree -> M.
  Variables (lbl : nat) (k : kind) (outer : list kind) (dyn catches : bool) (r : option nat)
            (arg : option ctx) (cs : status) (urconv : bool).
  Fixpoint run_body (pos : nat) (children : list tree) (st : state) {struct children} : outcome * state :=
    let st1 := observe lbl pos k outer dyn arg cs urconv st in
    if raises_here r pos then (ORaise, st1)
    else match children with
         | [] => (ONorm, st1)
         | c :: rest =>
             match exec_child c st1 with
             | (ONorm, st2) => run_body (S pos) rest st2
             | (ORaise, st2) => if catches then run_body (S pos) rest st2 else (ORaise, st2)
             end
         end.
End Body.

(* `outer`: the wrappers already passed on the way to t (outermost first) *)
Fixpoint exec_in (T : tables) (outer : list kind) (t : tree) {struct t} : M :=
  match t with
  | Node lbl k dyn catches r children =>
      invoke T k dyn (fun urconv arg cs =>
        run_body (exec_in T []) lbl k outer dyn catches r arg cs urconv 0 children)
  | Wrap l t' => invoke_layer T l (art t') (exec_in T (outer ++ [l]) t')
  end.
Definition exec (T : tables) (t : tree) : M := exec_in T [] t.

(* observations in chronological order *)
Fixpoint obs_of (es : list event) : list obs :=
  match es with
  | [] => []
  | EvObs o :: r => o :: obs_of r
  | _ :: r => obs_of r
  end.
Definition trace (st : state) : list obs := obs_of (rev (tr st)).
