(* C07: the case checker evaluated in Coq on exported programs (the generated transfer of
   liveness.Analyzer.visit_node is read from Generated/C07_gen.v). *)
From Coq Require Import List Arith Bool.
Import ListNotations.
Require Import MV.Cfg.Skel MV.Cfg.SkelCheck MV.Flow.SetExpr MV.Flow.Dataflow MV.Generated.C07_gen.

Definition lv_table : table :=
  mktable lv_scoped_in lv_scoped_out lv_ignored_in lv_ignored_out XEmpty
          lv_include_annotations lv_join_over_next lv_join_reads_in false.

Record lv_case : Type := mklvcase {
  lc_idx : nat; lc_fn : fn; lc_edges : list edge; lc_nodes : list lnode;
  lc_annos : list sanno; lc_fnrows : list fnrow;
  lc_lambdas : list label }.     (* labels of lambda-expression nodes (not part of the skeleton / of any trace) *)

(* 0 ok | 1 model graph not contained in the implementation's | 2 reported sets are not the fixed point of the
   generated equations | 3 soundness inclusions (Python-side gen/kill) | 4 annotations | 5 DEFINED_FNS_IN
   | 6 only: variables a reaching local function reads and declares nonlocal are not live
   | 7 only: the edge-sensitive (unguarded) inclusions fail: a for header kills its target on the exit edge (known finding)
   | 8 only: free variables of lambda expressions that may be called later are not live (known finding) *)
Definition lv_code (c : lv_case) : nat :=
  let E := lc_edges c in                          (* the implementation's graph, lambda nodes included *)
  let Ec := contract E (lc_lambdas c) in          (* lambda nodes contracted: the graph traces live in *)
  let ns := lc_nodes c in
  let R := reach_bwd E in
  let Rc := reach_bwd Ec in
  if negb (incl_edges (cfg_fn (lc_fn c)) Ec) then 1
  else if negb (lv_fix lv_table E ns R) then 2
  else if negb (lv_sound Ec ns false false Rc) then 3
  else if negb (forallb (lv_anno_ok Ec ns) (lc_annos c)) then 4
  else if negb (fn_sound Ec (reach_fwd Ec (f_args (lc_fn c))) (lc_fnrows c)) then 5
  else if negb (lv_sound Ec ns true false Rc) then 6
  else if negb (lv_sound_e Ec ns true false Rc) then 7
  else if negb (lv_sound Ec ns true true Rc && lv_sound_e Ec ns true true Rc) then 8
  else 0.

Definition lv_failing (cs : list lv_case) : list nat :=
  flat_map (fun c => match lv_code c with 0 => [] | k => [lc_idx c * 16 + k] end) cs.
