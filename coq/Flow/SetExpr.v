(* Set-algebra expressions: the language the transfer equations of liveness.Analyzer.visit_node and
   reaching_definitions.Analyzer.visit_node are translated to (tools/translate/c06_transfer.py,
   c07_transfer.py -> coq/Generated/C06_gen.v, C07_gen.v), their interpretation, and the decidable
   syntactic disciplines ("is of gen/kill form") whose soundness is proved in SetExprProofs.v.

   Items: A with a key (the variable an item is about): A = name for liveness, (name * label) for
   reaching definitions.  A scope field denotes the items whose key is in that field.
   Model only -- no proofs here. *)
From Coq Require Import List Arith Bool.
Import ListNotations.

Definition name := nat.          (* the exporter numbers the identifiers of a program *)

Inductive field : Set :=
| FRead | FModified | FBound | FDeleted | FGlobals | FNonlocals | FAnnotations | FParams | FIsolated.

Record scope : Set := mkscope {
  s_read : list name; s_modified : list name; s_bound : list name; s_deleted : list name;
  s_globals : list name; s_nonlocals : list name; s_annotations : list name; s_params : list name;
  s_isolated : list name }.

Definition empty_scope : scope := mkscope [] [] [] [] [] [] [] [] [].

Definition fld (f : field) (s : scope) : list name :=
  match f with
  | FRead => s_read s | FModified => s_modified s | FBound => s_bound s | FDeleted => s_deleted s
  | FGlobals => s_globals s | FNonlocals => s_nonlocals s | FAnnotations => s_annotations s
  | FParams => s_params s | FIsolated => s_isolated s
  end.

Definition field_eqb (a b : field) : bool :=
  match a, b with
  | FRead, FRead | FModified, FModified | FBound, FBound | FDeleted, FDeleted | FGlobals, FGlobals
  | FNonlocals, FNonlocals | FAnnotations, FAnnotations | FParams, FParams | FIsolated, FIsolated => true
  | _, _ => false
  end.

Definition memn (x : nat) (l : list nat) : bool := existsb (Nat.eqb x) l.
Definition memf (f : field) (l : list field) : bool := existsb (field_eqb f) l.

Inductive sx : Set :=
| XEmpty
| XScope (f : field)            (* node_scope.<f> *)
| XFnScope (f : field)          (* fn_scope.<f> inside XClosure *)
| XState                        (* the joined incoming state (live_out / defs_in) *)
| XStateExit                    (* for-loop header: the join over the neighbours on loop-EXIT edges only *)
| XLoopTargets                  (* node_scope.iterate_targets: loop targets of a for header (else empty) *)
| XGenMap                       (* reaching definitions: the node's own definitions, gen_map[node] *)
| XUnion (a b : sx)
| XDiff (a b : sx)
| XInter (a b : sx)
| XClosure (skip_lambda : bool) (body : sx)   (* union over the reaching function definitions *)
| XIfAnn (a b : sx).            (* a if include_annotations else b *)

Section Eval.
  Variable A : Type.
  Variable key : A -> name.

  Record env : Type := mkenv {
    e_scope : scope;
    e_fn : scope;
    e_state : A -> bool;
    e_state_exit : A -> bool;
    e_targets : list name;
    e_genmap : A -> bool;
    e_fns : list (bool * scope);       (* (is_lambda, ARGS_AND_BODY_SCOPE) of DEFINED_FNS_IN *)
    e_ann : bool }.

  Definition with_fn (e : env) (s : scope) : env :=
    mkenv (e_scope e) s (e_state e) (e_state_exit e) (e_targets e) (e_genmap e) (e_fns e) (e_ann e).

  Fixpoint ev (t : sx) (e : env) (a : A) : bool :=
    match t with
    | XEmpty => false
    | XScope f => memn (key a) (fld f (e_scope e))
    | XFnScope f => memn (key a) (fld f (e_fn e))
    | XState => e_state e a
    | XStateExit => e_state_exit e a
    | XLoopTargets => memn (key a) (e_targets e)
    | XGenMap => e_genmap e a
    | XUnion x y => ev x e a || ev y e a
    | XDiff x y => ev x e a && negb (ev y e a)
    | XInter x y => ev x e a && ev y e a
    | XClosure sk body =>
        existsb (fun p => negb (sk && fst p) && ev body (with_fn e (snd p)) a) (e_fns e)
    | XIfAnn x y => if e_ann e then ev x e a else ev y e a
    end.
End Eval.

(* ---- syntactic disciplines --------------------------------------------------------------- *)

(* every item of t has its key in one of the node-scope fields K *)
Fixpoint only_fields (t : sx) (K : list field) : bool :=
  match t with
  | XEmpty => true
  | XScope g => memf g K
  | XUnion a b => only_fields a K && only_fields b K
  | XInter a b => only_fields a K || only_fields b K
  | XDiff a _ => only_fields a K
  | _ => false
  end.

(* t contains every item whose key is in node-scope field f and in none of the fields K *)
Fixpoint cov (ia : bool) (t : sx) (f : field) (K : list field) : bool :=
  match t with
  | XScope g => field_eqb f g
  | XUnion a b => cov ia a f K || cov ia b f K
  | XDiff a b => cov ia a f K && only_fields b K
  | XIfAnn a b => if ia then cov ia a f K else cov ia b f K
  | _ => false
  end.

(* t contains every item of the incoming state whose key is in none of the fields K *)
Fixpoint passes (ia : bool) (t : sx) (K : list field) : bool :=
  match t with
  | XState => true
  | XUnion a b => passes ia a K || passes ia b K
  | XDiff a b => passes ia a K && only_fields b K
  | XIfAnn a b => if ia then passes ia a K else passes ia b K
  | _ => false
  end.

(* t contains every item of the exit-edge state whose key is a loop target (edge-sensitive for header) *)
Fixpoint passes_exit (ia : bool) (t : sx) : bool :=
  match t with
  | XInter XStateExit XLoopTargets | XInter XLoopTargets XStateExit => true
  | XUnion a b => passes_exit ia a || passes_exit ia b
  | XDiff a b => passes_exit ia a && only_fields b []
  | XIfAnn a b => if ia then passes_exit ia a else passes_exit ia b
  | _ => false
  end.

(* t contains the node's own definitions *)
Fixpoint covg (ia : bool) (t : sx) : bool :=
  match t with
  | XGenMap => true
  | XUnion a b => covg ia a || covg ia b
  | XDiff a b => covg ia a && only_fields b []
  | XIfAnn a b => if ia then covg ia a else covg ia b
  | _ => false
  end.

(* closure rule: body (evaluated in a function's scope) ... *)
Fixpoint only_fn (t : sx) (K : list field) : bool :=
  match t with
  | XEmpty => true
  | XFnScope g => memf g K
  | XUnion a b => only_fn a K && only_fn b K
  | XInter a b => only_fn a K || only_fn b K
  | XDiff a _ => only_fn a K
  | _ => false
  end.
(* ... contains no item whose key is in fn-scope field g *)
Fixpoint avoids (t : sx) (g : field) : bool :=
  match t with
  | XEmpty => true
  | XUnion a b => avoids a g && avoids b g
  | XInter a b => avoids a g || avoids b g
  | XDiff a c => avoids a g || (match c with XFnScope h => field_eqb g h | _ => false end)
  | _ => false
  end.
(* ... contains fn.read \ fn.bound (what the function reads and does not bind itself) *)
Fixpoint fcov_unbound (t : sx) : bool :=
  match t with
  | XFnScope FRead => true
  | XUnion a b => fcov_unbound a || fcov_unbound b
  | XDiff a b => fcov_unbound a && only_fn b [FBound]
  | _ => false
  end.
(* ... contains fn.read /\ fn.nonlocals (what it reads of the enclosing function although it binds it) *)
Fixpoint fcov_nonlocal (t : sx) : bool :=
  match t with
  | XFnScope FRead => true
  | XFnScope FNonlocals => true
  | XUnion a b => fcov_nonlocal a || fcov_nonlocal b
  | XDiff a b => fcov_nonlocal a && avoids b FNonlocals
  | _ => false
  end.
(* t contains, for every reaching def (not a lambda), the items selected by `sel` *)
Fixpoint has_closure (ia : bool) (sel : sx -> bool) (t : sx) : bool :=
  match t with
  | XClosure _ body => sel body
  | XUnion a b => has_closure ia sel a || has_closure ia sel b
  | XDiff a b => has_closure ia sel a && only_fields b []
  | XIfAnn a b => if ia then has_closure ia sel a else has_closure ia sel b
  | _ => false
  end.
