(* C06 / C07: the boolean checks of Dataflow.v establish the hypotheses of MayAnalysis (reflection),
   and the event-level soundness theorems: what a run really reads and writes (S: Python's rules per
   node) versus the reported sets, along every execution of the skeleton semantics. *)
From Coq Require Import List Arith Bool Lia.
Import ListNotations.
Require Import MV.Cfg.Skel MV.Cfg.SkelCheck MV.Cfg.SkelProofs.
Require Import MV.Flow.SetExpr MV.Flow.MayAnalysis MV.Flow.Dataflow.

Lemma memn_In x l : memn x l = true <-> In x l.
Proof.
  unfold memn. rewrite existsb_exists. split.
  - intros [y [Hy E]]. apply Nat.eqb_eq in E. subst. exact Hy.
  - intros H. exists x. split; [exact H | apply Nat.eqb_refl].
Qed.

Lemma mem_edge_In e l : mem_edge e l = true -> In e l.
Proof.
  unfold mem_edge. rewrite existsb_exists. intros [[a b] [Hy E]]. unfold edge_beq in E. simpl in E.
  apply andb_true_iff in E. destruct E as [E1 E2]. apply Nat.eqb_eq in E1, E2. destruct e; simpl in *; subst. exact Hy.
Qed.

Lemma incl_edges_incl a b : incl_edges a b = true -> incl a b.
Proof.
  unfold incl_edges. rewrite forallb_forall. intros H e He. apply mem_edge_In. apply H. exact He.
Qed.

Lemma in_exits E a : In (a, EXIT) E -> In a (exits E).
Proof.
  intros H. unfold exits, preds. apply in_map_iff. exists (a, EXIT). split; [reflexivity|].
  apply filter_In. split; [exact H | reflexivity].
Qed.

Lemma memd_In a l : memd a l = true <-> In a l.
Proof.
  unfold memd, mema. rewrite existsb_exists. split.
  - intros [y [Hy E]]. unfold ditem_eqb in E. apply andb_true_iff in E. destruct E as [E1 E2].
    apply Nat.eqb_eq in E1, E2. destruct a, y; simpl in *; subst. exact Hy.
  - intros H. exists a. split; [exact H|]. unfold ditem_eqb. rewrite !Nat.eqb_refl. reflexivity.
Qed.

Lemma find_node_lab A (ns : list (node A)) l : n_lab (find_node ns l) = l.
Proof.
  induction ns as [|n r IH]; simpl; [reflexivity|].
  destruct (Nat.eqb (n_lab n) l) eqn:Eq; [apply Nat.eqb_eq; exact Eq | exact IH].
Qed.

Lemma steps_in mid k m : In m mid -> exists nx, In (m, nx) (steps mid k).
Proof.
  induction mid as [|a r IH]; simpl; [contradiction|]. intros [->|H].
  - exists (hd k r). left. reflexivity.
  - destruct (IH H) as [nx Hn]. exists nx. right. exact Hn.
Qed.

Section Events.
  Variable A : Type.
  Variable nd : label -> node A.
  (* the instance of node m that is followed by node nx (re)binds or deletes x *)
  Definition dynw (m nx : label) (x : name) : Prop :=
    In x (n_writes (nd m)) \/ In x (n_dels (nd m)) \/ (In x (n_ftarget (nd m)) /\ n_body (nd m) = nx).
  (* m is a for header with target x and this evaluation did not start an iteration *)
  Definition exhausted (m nx : label) (x : name) : Prop :=
    In x (n_ftarget (nd m)) /\ n_body (nd m) <> nx.

  Lemma no_static_kill mid k x :
    (forall m nx, In (m, nx) (steps mid k) -> ~ dynw m nx x) ->
    (forall m nx, In (m, nx) (steps mid k) -> ~ exhausted m nx x) ->
    forall m, In m mid ->
      ~ (memn x (n_writes (nd m)) || memn x (n_dels (nd m)) || memn x (n_ftarget (nd m)) = true).
  Proof.
    intros NW G m Hm K. destruct (steps_in mid k m Hm) as [nx Hs].
    apply orb_true_iff in K. destruct K as [K|K]; [apply orb_true_iff in K; destruct K as [K|K]|];
      apply memn_In in K.
    - apply (NW m nx Hs). left. exact K.
    - apply (NW m nx Hs). right. left. exact K.
    - destruct (Nat.eq_dec (n_body (nd m)) nx) as [Eb|Eb].
      + apply (NW m nx Hs). right. right. split; assumption.
      + apply (G m nx Hs). split; assumption.
  Qed.
End Events.

(* ------------------------------------------------------------------------------------------ *)
Section LvReflect.
  Variables (E : list edge) (ns : list lnode) (R : list label) (nl lam : bool).
  Let nd := find_node ns.
  Definition lR (n : label) : Prop := memn n R = true.
  Definition lgen (n : label) (x : name) : Prop :=
    In x (n_reads (nd n)) \/ In x (n_cread (nd n)) \/ (nl = true /\ In x (n_cread_nl (nd n)))
    \/ (lam = true /\ In x (n_cread_lam (nd n))).
  Definition lkill (n : label) (x : name) : Prop := kill_s (nd n) x = true.
  Definition lin (n : label) (x : name) : Prop := memn x (n_in (nd n)) = true.
  Definition lout (n : label) (x : name) : Prop := memn x (n_out (nd n)) = true.

  Lemma lv_sound_reflect E' :
    lv_sound E ns nl lam R = true -> incl E' E ->
    bwd_solution name E' lR lgen lkill lin lout /\ (forall a, In (a, EXIT) E' -> lR a).
  Proof.
    unfold lv_sound. intros H I.
    apply andb_true_iff in H; destruct H as [H Hn]. apply andb_true_iff in H; destruct H as [H He].
    apply andb_true_iff in H; destruct H as [H Hx]. apply andb_true_iff in H; destruct H as [Hc H0].
    unfold closed_bwd in Hc. unfold lv_sound_edges in He. rewrite forallb_forall in Hc, Hx, He, Hn.
    apply negb_true_iff in H0.
    split; [constructor|].
    - intros n m Hin Rm. specialize (Hc (n, m) (I _ Hin)). simpl in Hc. unfold lR in *.
      rewrite Rm in Hc. simpl in Hc. exact Hc.
    - intros n m x Hin Rm Im. specialize (He (n, m) (I _ Hin)). simpl in He. unfold lR in Rm.
      rewrite Rm in He. simpl in He. rewrite forallb_forall in He. apply He. apply memn_In. exact Im.
    - intros n x Rn G. unfold lR in Rn. apply memn_In in Rn. specialize (Hn n Rn).
      unfold lv_sound_node, lv_gen_node in Hn.
      apply andb_true_iff in Hn; destruct Hn as [Hn _]. apply andb_true_iff in Hn; destruct Hn as [Hn H4].
      apply andb_true_iff in Hn; destruct Hn as [Hn H3].
      apply andb_true_iff in Hn; destruct Hn as [H1 H2].
      rewrite forallb_forall in H1, H2. unfold lin. destruct G as [G|[G|[[-> G]|[-> G]]]].
      + apply H1. exact G.
      + apply H2. exact G.
      + simpl in H3. rewrite forallb_forall in H3. apply H3. exact G.
      + simpl in H4. rewrite forallb_forall in H4. apply H4. exact G.
    - intros n x Rn O NK. unfold lR in Rn. apply memn_In in Rn. specialize (Hn n Rn).
      unfold lv_sound_node in Hn. apply andb_true_iff in Hn; destruct Hn as [_ H].
      rewrite forallb_forall in H. unfold lout in O. apply memn_In in O. specialize (H x O).
      apply orb_true_iff in H. destruct H as [H|H]; [elim NK; exact H | exact H].
    - intros a Ha. apply Hx. apply in_exits. apply I. exact Ha.
  Qed.
End LvReflect.

(* C07, event level: whenever a run reads x at node k (directly, or through a reaching local
   function called there) and no node instance strictly between s and k rebinds or deletes x, x is
   reported live at the exit of s and at the entry of the node executed right after s.
   Guard (known finding for-target-killed-on-exit-edge): no for header with target x is evaluated in
   between without starting an iteration. *)
Theorem liveness_sound_events_thm (E : list edge) (ns : list lnode) (nl lam : bool) (f : fn) :
  incl_edges (cfg_fn f) E = true -> lv_sound E ns nl lam (reach_bwd E) = true ->
  forall n d tr o d', exec_fn n f d = (tr, o, d') -> o <> OFuel -> top_ok f = true -> guard_block (f_body f) = true ->
  normal_end o ->
  forall pre s mid k post x, tr = pre ++ s :: mid ++ k :: post ->
    lgen ns nl lam k x ->
    (forall m nx, In (m, nx) (steps mid k) -> ~ dynw name (find_node ns) m nx x) ->
    (forall m nx, In (m, nx) (steps mid k) -> ~ exhausted name (find_node ns) m nx x) ->
    memn x (n_out (find_node ns s)) = true /\ memn x (n_in (find_node ns (hd k mid))) = true.
Proof.
  intros I S n d tr o d' H Ho T G N pre s mid k post x Etr Gk NW GU.
  destruct (lv_sound_reflect E ns (reach_bwd E) nl lam (cfg_fn f) S (incl_edges_incl _ _ I)) as [B X].
  apply (liveness_sound_exec name (lgen ns nl lam) (lkill ns) (lin ns) (lout ns) (lR (reach_bwd E))
           n f d tr o d' H Ho T G B pre s mid k post x Etr (or_intror (conj N X)) Gk).
  unfold lkill, kill_s. apply (no_static_kill name (find_node ns) mid k x NW GU).
Qed.

(* ------------------------------------------------------------------------------------------ *)
Section RdReflect.
  Variables (E : list edge) (ns : list rnode) (R : list label) (entry : label).
  Let nd := find_node ns.
  Definition rR (n : label) : Prop := n = EXIT \/ memn n R = true.
  Definition rgen (n : label) (a : ditem) : Prop := snd a = n /\ In (fst a) (gen_s (nd n)).
  Definition rkill (n : label) (a : ditem) : Prop := rkill_s (nd n) (fst a) = true.
  Definition rin (n : label) (a : ditem) : Prop := n = EXIT \/ memd a (n_in (nd n)) = true.
  Definition rout (n : label) (a : ditem) : Prop := n = EXIT \/ memd a (n_out (nd n)) = true.

  Lemma rd_sound_reflect E' :
    rd_sound E ns entry R = true -> incl E' E ->
    fwd_solution ditem E' rR rgen rkill rin rout /\ rR entry.
  Proof.
    unfold rd_sound. intros H I.
    apply andb_true_iff in H; destruct H as [H Hn]. apply andb_true_iff in H; destruct H as [H He].
    apply andb_true_iff in H; destruct H as [H Hne]. apply andb_true_iff in H; destruct H as [Hc Hent].
    unfold closed_fwd in Hc. unfold rd_sound_edges in He. rewrite forallb_forall in Hc, Hne, He, Hn.
    assert (NE : forall n m, In (n, m) E -> n <> EXIT).
    { intros n m Hin. specialize (Hne _ Hin). simpl in Hne. apply negb_true_iff in Hne.
      apply Nat.eqb_neq in Hne. exact Hne. }
    split; [constructor | right; exact Hent].
    - intros n m Hin [Rn|Rn]; [elim (NE n m (I _ Hin) Rn)|].
      specialize (Hc (n, m) (I _ Hin)). simpl in Hc. rewrite Rn in Hc. simpl in Hc.
      destruct (Nat.eqb m EXIT) eqn:Em; [left; apply Nat.eqb_eq; exact Em | right; exact Hc].
    - intros n m a Hin [Rn|Rn] O; [elim (NE n m (I _ Hin) Rn)|].
      destruct O as [O|O]; [elim (NE n m (I _ Hin) O)|].
      specialize (He (n, m) (I _ Hin)). simpl in He. rewrite Rn in He. simpl in He.
      destruct (Nat.eqb m EXIT) eqn:Em; [left; apply Nat.eqb_eq; exact Em|]. simpl in He.
      rewrite forallb_forall in He. right. apply He. apply memd_In. exact O.
    - intros n a [Rn|Rn] [G1 G2]; [left; exact Rn|]. right. apply memn_In in Rn. specialize (Hn n Rn).
      unfold rd_sound_node in Hn. apply andb_true_iff in Hn. destruct Hn as [Hn _].
      rewrite forallb_forall in Hn. specialize (Hn _ G2). destruct a as [x l]. simpl in *. subst l.
      rewrite find_node_lab in Hn. exact Hn.
    - intros n a [Rn|Rn] Ia NK; [left; exact Rn|]. destruct Ia as [Ia|Ia]; [left; exact Ia|].
      right. apply memn_In in Rn. specialize (Hn n Rn).
      unfold rd_sound_node in Hn. apply andb_true_iff in Hn. destruct Hn as [_ Hn].
      rewrite forallb_forall in Hn. apply memd_In in Ia. specialize (Hn _ Ia).
      apply orb_true_iff in Hn. destruct Hn as [Hn|Hn]; [elim NK; exact Hn | exact Hn].
  Qed.
End RdReflect.

(* C06, event level: when the instance of node w binds x (an assignment, a parameter binding, a for
   header that starts an iteration) and no node instance strictly between w and r rebinds or deletes x,
   the definition (x, w) is in in(r) -- the definitions attached to the reads of x at r -- and in
   out of the node executed right before r.  Same guard as for liveness. *)
Theorem reachdef_sound_events_thm (E : list edge) (ns : list rnode) (f : fn) :
  incl_edges (cfg_fn f) E = true -> rd_sound E ns (f_args f) (reach_fwd E (f_args f)) = true ->
  forall n d tr o d', exec_fn n f d = (tr, o, d') -> o <> OFuel -> top_ok f = true -> guard_block (f_body f) = true ->
  forall pre w mid r post x, tr = pre ++ w :: mid ++ r :: post -> r <> EXIT -> lastd w mid <> EXIT ->
    (In x (n_writes (find_node ns w)) \/ In x (n_ftarget (find_node ns w))) ->
    (forall m nx, In (m, nx) (steps mid r) -> ~ dynw ditem (find_node ns) m nx x) ->
    (forall m nx, In (m, nx) (steps mid r) -> ~ exhausted ditem (find_node ns) m nx x) ->
    memd (x, w) (n_in (find_node ns r)) = true /\ memd (x, w) (n_out (find_node ns (lastd w mid))) = true.
Proof.
  intros I S n d tr o d' H Ho T G pre w mid r post x Etr Hr Hl Gw NW GU.
  destruct (rd_sound_reflect E ns (reach_fwd E (f_args f)) (f_args f) (cfg_fn f) S (incl_edges_incl _ _ I)) as [B X].
  destruct (reachdef_sound_exec ditem (rgen ns) (rkill ns) (rin ns) (rout ns) (rR (reach_fwd E (f_args f)))
              n f d tr o d' H Ho T G B X pre w mid r post (x, w) Etr) as [P Q].
  - split; [reflexivity|]. simpl. unfold gen_s. apply in_or_app. exact Gw.
  - unfold rkill, rkill_s. simpl. apply (no_static_kill ditem (find_node ns) mid r x NW GU).
  - destruct P as [P|P]; [elim Hr; exact P|]. destruct Q as [Q|Q]; [elim Hl; exact Q|]. auto.
Qed.

(* defined-on-entry: if the annotation is what the node-level solution implies (rd_danno_ok), a
   definition that is in out of a node p outside the statement with an edge to a node inside it makes
   its variable a member of DEFINED_VARS_IN *)
Lemma defined_in_from_out (E : list edge) (ns : list rnode) (a : danno) p r x w :
  rd_danno_ok E ns a = true -> In (p, r) E ->
  memn r (da_inside a) = true -> memn p (da_inside a) = false ->
  memd (x, w) (n_out (find_node ns p)) = true -> memn x (da_defined a) = true.
Proof.
  unfold rd_danno_ok, seteqn, seteq. intros H Hin Ri Pi O.
  apply andb_true_iff in H. destruct H as [_ H]. unfold incla in H. rewrite forallb_forall in H.
  assert (M : In x (flat_map (fun p0 => map fst (n_out (find_node ns p0))) (stmt_preds E (da_inside a)))).
  { apply in_flat_map. exists p. split.
    - unfold stmt_preds. apply in_map_iff. exists (p, r). split; [reflexivity|]. apply filter_In.
      split; [exact Hin|]. simpl. rewrite Ri, Pi. reflexivity.
    - apply in_map_iff. exists (x, w). split; [reflexivity|]. apply memd_In. exact O. }
  specialize (H x M). unfold mema in H. exact H.
Qed.

(* reaching function definitions: kill-free forward analysis *)
Section FnReflect.
  Variables (E : list edge) (R : list label) (rows : list fnrow).
  Lemma fn_sound_step n m d :
    fn_sound E R rows = true -> In (n, m) E -> m <> EXIT -> memn n R = true ->
    In d (fn_out rows n) -> In d (fn_in rows m).
  Proof.
    unfold fn_sound. rewrite forallb_forall. intros H Hin Hm Rn Hd. specialize (H _ Hin). simpl in H.
    apply Nat.eqb_neq in Hm. rewrite Hm, Rn in H. simpl in H. rewrite forallb_forall in H.
    apply memn_In. apply H. exact Hd.
  Qed.
End FnReflect.

(* ------------------------------------------------------------------------------------------ *)
(* Edge-sensitive (unguarded) versions: valid for an implementation that treats the for header
   edge-sensitively (fixes/C07-for-header-edge-sensitive.diff); the checks fail on the unrepaired one. *)

Lemma dyn_kill_dynw A (nd : label -> node A) m nx x : dyn_kill (nd m) nx x = true -> dynw A nd m nx x.
Proof.
  unfold dyn_kill, dynw. intros H. apply orb_true_iff in H. destruct H as [H|H].
  - apply orb_true_iff in H. destruct H as [H|H]; apply memn_In in H; auto.
  - apply andb_true_iff in H. destruct H as [H1 H2]. apply memn_In in H1. apply Nat.eqb_eq in H2. auto.
Qed.

Section LvReflectE.
  Variables (E : list edge) (ns : list lnode) (R : list label) (nl lam : bool).
  Let nd := find_node ns.
  Definition lkille (n m : label) (x : name) : Prop := dyn_kill (nd n) m x = true.

  Lemma lv_sound_e_reflect E' :
    lv_sound_e E ns nl lam R = true -> incl E' E ->
    bwd_solution_e name E' (lR R) (lgen ns nl lam) lkille (lin ns) (lout ns) /\ (forall a, In (a, EXIT) E' -> lR R a).
  Proof.
    unfold lv_sound_e. intros H I.
    apply andb_true_iff in H; destruct H as [H Hn]. apply andb_true_iff in H; destruct H as [H He].
    apply andb_true_iff in H; destruct H as [H Hx]. apply andb_true_iff in H; destruct H as [Hc H0].
    unfold closed_bwd in Hc. unfold lv_sound_e_edges in He. rewrite forallb_forall in Hc, Hx, He, Hn.
    split; [constructor|].
    - intros n m Hin Rm. specialize (Hc (n, m) (I _ Hin)). simpl in Hc. unfold lR in *.
      rewrite Rm in Hc. simpl in Hc. exact Hc.
    - intros n m x Hin Rm Im. specialize (He (n, m) (I _ Hin)). simpl in He. unfold lR in Rm.
      rewrite Rm in He. simpl in He. rewrite forallb_forall in He. apply memn_In in Im. specialize (He x Im).
      apply andb_true_iff in He. destruct He as [He _]. exact He.
    - intros n x Rn G. unfold lR in Rn. apply memn_In in Rn. specialize (Hn n Rn).
      unfold lv_gen_node in Hn.
      apply andb_true_iff in Hn; destruct Hn as [Hn H4]. apply andb_true_iff in Hn; destruct Hn as [Hn H3].
      apply andb_true_iff in Hn; destruct Hn as [H1 H2].
      rewrite forallb_forall in H1, H2. unfold lin. destruct G as [G|[G|[[-> G]|[-> G]]]].
      + apply H1. exact G.
      + apply H2. exact G.
      + simpl in H3. rewrite forallb_forall in H3. apply H3. exact G.
      + simpl in H4. rewrite forallb_forall in H4. apply H4. exact G.
    - intros n m x Hin Rm Im NK. specialize (He (n, m) (I _ Hin)). simpl in He. unfold lR in Rm.
      rewrite Rm in He. simpl in He. rewrite forallb_forall in He. apply memn_In in Im. specialize (He x Im).
      apply andb_true_iff in He. destruct He as [_ He]. apply orb_true_iff in He.
      destruct He as [He|He]; [elim NK; exact He | exact He].
    - intros a Ha. apply Hx. apply in_exits. apply I. exact Ha.
  Qed.
End LvReflectE.

Theorem liveness_sound_events_edge_thm (E : list edge) (ns : list lnode) (nl lam : bool) (f : fn) :
  incl_edges (cfg_fn f) E = true -> lv_sound_e E ns nl lam (reach_bwd E) = true ->
  forall n d tr o d', exec_fn n f d = (tr, o, d') -> o <> OFuel -> top_ok f = true -> guard_block (f_body f) = true ->
  normal_end o ->
  forall pre s mid k post x, tr = pre ++ s :: mid ++ k :: post ->
    lgen ns nl lam k x ->
    (forall m nx, In (m, nx) (steps mid k) -> ~ dynw name (find_node ns) m nx x) ->
    memn x (n_out (find_node ns s)) = true /\ memn x (n_in (find_node ns (hd k mid))) = true.
Proof.
  intros I S n d tr o d' H Ho T G N pre s mid k post x Etr Gk NW.
  destruct (lv_sound_e_reflect E ns (reach_bwd E) nl lam (cfg_fn f) S (incl_edges_incl _ _ I)) as [B X].
  apply (liveness_sound_exec_e name (lgen ns nl lam) (lkille ns) (lin ns) (lout ns) (lR (reach_bwd E))
           n f d tr o d' H Ho T G B N X pre s mid k post x Etr Gk).
  intros m nx Hs K. apply (NW m nx Hs). apply dyn_kill_dynw. exact K.
Qed.

Section RdReflectE.
  Variables (E : list edge) (ns : list rnode) (R : list label) (entry : label).
  Let nd := find_node ns.
  (* the instance of n that is followed by m binds fst a, and a is that definition *)
  Definition rgene (n m : label) (a : ditem) : Prop :=
    snd a = n /\ (In (fst a) (n_writes (nd n)) \/ (In (fst a) (n_ftarget (nd n)) /\ n_body (nd n) = m)).
  Definition rkille (n m : label) (a : ditem) : Prop := dyn_kill (nd n) m (fst a) = true.

  Lemma rd_sound_e_reflect E' :
    rd_sound_e E ns entry R = true -> incl E' E ->
    fwd_solution_e ditem E' (rR R) rgene rkille (rin ns) /\ rR R entry.
  Proof.
    unfold rd_sound_e. intros H I.
    apply andb_true_iff in H; destruct H as [H He]. apply andb_true_iff in H; destruct H as [H Hne].
    apply andb_true_iff in H; destruct H as [Hc Hent].
    unfold closed_fwd in Hc. unfold rd_sound_e_edges in He. rewrite forallb_forall in Hc, Hne, He.
    assert (NE : forall n m, In (n, m) E -> n <> EXIT).
    { intros n m Hin. specialize (Hne _ Hin). simpl in Hne. apply negb_true_iff in Hne.
      apply Nat.eqb_neq in Hne. exact Hne. }
    split; [constructor | right; exact Hent].
    - intros n m Hin [Rn|Rn]; [elim (NE n m (I _ Hin) Rn)|].
      specialize (Hc (n, m) (I _ Hin)). simpl in Hc. rewrite Rn in Hc. simpl in Hc.
      destruct (Nat.eqb m EXIT) eqn:Em; [left; apply Nat.eqb_eq; exact Em | right; exact Hc].
    - intros n m a Hin [Rn|Rn] [G1 G2]; [elim (NE n m (I _ Hin) Rn)|].
      specialize (He (n, m) (I _ Hin)). simpl in He. rewrite Rn in He. simpl in He.
      destruct (Nat.eqb m EXIT) eqn:Em; [left; apply Nat.eqb_eq; exact Em|]. simpl in He.
      apply andb_true_iff in He. destruct He as [He _]. rewrite forallb_forall in He. right.
      destruct a as [x l]. simpl in *. subst l. apply He. apply in_or_app. destruct G2 as [G2|[G2 G3]].
      + left. exact G2.
      + right. fold nd. rewrite G3. rewrite Nat.eqb_refl. exact G2.
    - intros n m a Hin [Rn|Rn] Ia NK; [elim (NE n m (I _ Hin) Rn)|].
      destruct Ia as [Ia|Ia]; [elim (NE n m (I _ Hin) Ia)|].
      specialize (He (n, m) (I _ Hin)). simpl in He. rewrite Rn in He. simpl in He.
      destruct (Nat.eqb m EXIT) eqn:Em; [left; apply Nat.eqb_eq; exact Em|]. simpl in He.
      apply andb_true_iff in He. destruct He as [_ He]. rewrite forallb_forall in He. right.
      apply memd_In in Ia. specialize (He _ Ia). apply orb_true_iff in He.
      destruct He as [He|He]; [elim NK; exact He | exact He].
  Qed.
End RdReflectE.

Theorem reachdef_sound_events_edge_thm (E : list edge) (ns : list rnode) (f : fn) :
  incl_edges (cfg_fn f) E = true -> rd_sound_e E ns (f_args f) (reach_fwd E (f_args f)) = true ->
  forall n d tr o d', exec_fn n f d = (tr, o, d') -> o <> OFuel -> top_ok f = true -> guard_block (f_body f) = true ->
  forall pre w mid r post x, tr = pre ++ w :: mid ++ r :: post -> r <> EXIT ->
    (In x (n_writes (find_node ns w)) \/ (In x (n_ftarget (find_node ns w)) /\ n_body (find_node ns w) = hd r mid)) ->
    (forall m nx, In (m, nx) (steps mid r) -> ~ dynw ditem (find_node ns) m nx x) ->
    memd (x, w) (n_in (find_node ns r)) = true.
Proof.
  intros I S n d tr o d' H Ho T G pre w mid r post x Etr Hr Gw NW.
  destruct (rd_sound_e_reflect E ns (reach_fwd E (f_args f)) (f_args f) (cfg_fn f) S (incl_edges_incl _ _ I)) as [B X].
  assert (P : rin ns r (x, w)).
  { apply (reachdef_sound_exec_e ditem (rgene ns) (rkille ns) (rin ns) (rR (reach_fwd E (f_args f)))
             n f d tr o d' H Ho T G B X pre w mid r post (x, w) Etr).
    - split; [reflexivity | exact Gw].
    - intros m nx Hs K. apply (NW m nx Hs). apply (dyn_kill_dynw ditem (find_node ns)). exact K. }
  destruct P as [P|P]; [elim Hr; exact P | exact P].
Qed.
