(* Generic theory of may-analyses in gen/kill form over an edge list (DESIGN.md 3.4), shared by
   C06 (reaching definitions, forward), C07 (liveness, backward) and reaching function definitions.

   A node carries  gen n, kill n : A -> Prop  (A = the items the analysis tracks: variable names
   for liveness, (variable, defining node) pairs for reaching definitions) and a candidate solution
   sin n, sout n : A -> Prop.  Only the inclusions soundness needs are required (`*_solution`); the
   reported sets of the implementation satisfy them with equality (checked per run, FlowCheck.v).
   The equations are required on a set R of nodes closed in walk direction (the nodes the worklist of
   cfg.GraphVisitor reaches from its start set); nothing is assumed about other nodes.

   Paths are C05's `chain E a tr`  (a -> tr[0] -> tr[1] -> ...), so that the results compose with
   `exec_fn_is_path`: the `*_exec` theorems speak about execution traces of the skeleton semantics. *)
From Coq Require Import List Arith Bool Lia.
Import ListNotations.
Require Import MV.Cfg.Skel MV.Cfg.SkelProofs.

(* a list of labels is a path when consecutive elements are edges *)
Definition pathl (E : list edge) (l : list label) : Prop :=
  match l with [] => True | a :: r => chain E a r end.

Lemma chain_app_inv E a l1 b l2 :
  chain E a (l1 ++ b :: l2) -> chain E a l1 /\ In (lastd a l1, b) E /\ chain E b l2.
Proof.
  revert a. induction l1 as [|c l1 IH]; intros a H; simpl in *.
  - destruct H as [H1 H2]. auto.
  - destruct H as [H1 H2]. destruct (IH _ H2) as [P [Q S]]. auto.
Qed.

Lemma pathl_app_inv E l1 l2 : pathl E (l1 ++ l2) -> pathl E l1 /\ pathl E l2.
Proof.
  destruct l1 as [|a l1]; simpl; [auto|]. destruct l2 as [|b l2].
  - rewrite app_nil_r. simpl. auto.
  - intros H. destruct (chain_app_inv _ _ _ _ _ H) as [P [_ Q]]. simpl. auto.
Qed.

(* the segment between two positions of a path is a path *)
Lemma pathl_segment E pre seg post : pathl E (pre ++ seg ++ post) -> pathl E seg.
Proof.
  intros H. apply pathl_app_inv in H. destruct H as [_ H]. apply pathl_app_inv in H. tauto.
Qed.

Section May.
  Variable A : Type.
  Variable E : list edge.
  Variable R : label -> Prop.
  Variables gen kill sin sout : label -> A -> Prop.

  (* ---- backward (liveness): sin n = gen n \/ (sout n \ kill n), sout n = U sin (succ n) ---- *)
  Record bwd_solution : Prop := {
    b_closed : forall n m, In (n, m) E -> R m -> R n;
    b_join : forall n m x, In (n, m) E -> R m -> sin m x -> sout n x;
    b_gen : forall n x, R n -> gen n x -> sin n x;
    b_pass : forall n x, R n -> sout n x -> ~ kill n x -> sin n x }.

  Lemma bwd_chain_R : bwd_solution -> forall tr a, chain E a tr -> R (lastd a tr) -> R a.
  Proof.
    intros S tr. induction tr as [|b r IH]; intros a C H; simpl in *; [exact H|].
    destruct C as [C1 C2]. apply (b_closed S a b C1). apply IH; assumption.
  Qed.

  (* a -> mid_1 -> ... -> mid_j -> k :  x generated at k and killed by no node in between
     is in sout a and in sin of the node that follows a *)
  Theorem fixpoint_sound_bwd : bwd_solution -> forall mid a k x,
    chain E a (mid ++ [k]) -> R k -> gen k x -> (forall m, In m mid -> ~ kill m x) ->
    sout a x /\ sin (hd k mid) x.
  Proof.
    intros S mid. induction mid as [|m r IH]; intros a k x C Rk G NK; simpl in *.
    - destruct C as [C _]. assert (I : sin k x) by (apply (b_gen S); assumption).
      split; [apply (b_join S a k); assumption | exact I].
    - destruct C as [C1 C2].
      destruct (IH m k x C2 Rk G (fun m' H => NK m' (or_intror H))) as [O _].
      assert (Rm : R m).
      { apply (bwd_chain_R S _ _ C2). clear - Rk. induction r; simpl; [exact Rk|].
        destruct r; simpl in *; auto. }
      assert (I : sin m x) by (apply (b_pass S); [exact Rm | exact O | apply NK; left; reflexivity]).
      split; [apply (b_join S a m); assumption | exact I].
  Qed.

  (* ---- forward (reaching definitions): sout n = gen n \/ (sin n \ kill n), sin n = U sout (pred n) ---- *)
  Record fwd_solution : Prop := {
    f_closed : forall n m, In (n, m) E -> R n -> R m;
    f_join : forall n m x, In (n, m) E -> R n -> sout n x -> sin m x;
    f_gen : forall n x, R n -> gen n x -> sout n x;
    f_pass : forall n x, R n -> sin n x -> ~ kill n x -> sout n x }.

  Lemma fwd_flow : fwd_solution -> forall mid w r x,
    R w -> sout w x -> chain E w (mid ++ [r]) -> (forall m, In m mid -> ~ kill m x) ->
    sin r x /\ sout (lastd w mid) x /\ R (lastd w mid) /\ R r.
  Proof.
    intros S mid. induction mid as [|m t IH]; intros w r x Rw O C NK; simpl in *.
    - destruct C as [C _]. split; [apply (f_join S w r); assumption|]. split; [exact O|]. split; [exact Rw|].
      apply (f_closed S w r); assumption.
    - destruct C as [C1 C2].
      assert (Rm : R m) by (apply (f_closed S w m); assumption).
      assert (I : sin m x) by (apply (f_join S w m); assumption).
      assert (O' : sout m x) by (apply (f_pass S); [exact Rm | exact I | apply NK; left; reflexivity]).
      apply (IH m r x Rm O' C2). intros m' H. apply NK. right. exact H.
  Qed.

  (* w -> mid_1 -> ... -> mid_j -> r : what w generates and no node in between kills reaches r *)
  Theorem fixpoint_sound_fwd : fwd_solution -> forall mid w r x,
    R w -> gen w x -> chain E w (mid ++ [r]) -> (forall m, In m mid -> ~ kill m x) ->
    sin r x /\ sout (lastd w mid) x.
  Proof.
    intros S mid w r x Rw G C NK.
    destruct (fwd_flow S mid w r x Rw (f_gen S w x Rw G) C NK) as [P [Q _]]. auto.
  Qed.

  Lemma fwd_chain_R : fwd_solution -> forall tr a, R a -> chain E a tr -> forall n, In n tr -> R n.
  Proof.
    intros S tr. induction tr as [|b r IH]; intros a Ra C n H; simpl in *; [contradiction|].
    destruct C as [C1 C2]. assert (Rb : R b) by (apply (f_closed S a b); assumption).
    destruct H as [<-|H]; [exact Rb|]. apply (IH b Rb C2 n H).
  Qed.
End May.

(* ------------------------------------------------------------------------------------------ *)
(* Edge-sensitive variant: gen / kill depend on the edge taken out of a node (a for-loop header binds
   its targets only on the edge into the loop body).  One state per node (`st`: live-in for the
   backward analysis, and for the forward analysis the state at node entry). *)

(* the pairs (node, node executed next) of the nodes strictly between two positions *)
Fixpoint steps (mid : list label) (k : label) : list (label * label) :=
  match mid with [] => [] | m :: r => (m, hd k r) :: steps r k end.

Section MayEdge.
  Variable A : Type.
  Variable E : list edge.
  Variable R : label -> Prop.
  Variable gen : label -> A -> Prop.                 (* backward: what the node reads *)
  Variables gene kille : label -> label -> A -> Prop. (* per edge *)
  Variables sin sout : label -> A -> Prop.

  Record bwd_solution_e : Prop := {
    be_closed : forall n m, In (n, m) E -> R m -> R n;
    be_join : forall n m x, In (n, m) E -> R m -> sin m x -> sout n x;
    be_gen : forall n x, R n -> gen n x -> sin n x;
    be_pass : forall n m x, In (n, m) E -> R m -> sin m x -> ~ kille n m x -> sin n x }.

  Lemma bwd_e_chain_R : bwd_solution_e -> forall tr a, chain E a tr -> R (lastd a tr) -> R a.
  Proof.
    clear gene.
    intros S tr. induction tr as [|b r IH]; intros a C H; simpl in *; [exact H|].
    destruct C as [C1 C2]. apply (be_closed S a b C1). apply IH; assumption.
  Qed.

  Theorem fixpoint_sound_bwd_e : bwd_solution_e -> forall mid a k x,
    chain E a (mid ++ [k]) -> R k -> gen k x ->
    (forall m nx, In (m, nx) (steps mid k) -> ~ kille m nx x) ->
    sout a x /\ sin (hd k mid) x.
  Proof.
    clear gene.
    intros S mid. induction mid as [|m r IH]; intros a k x C Rk G NK; simpl in *.
    - destruct C as [C _]. assert (I : sin k x) by (apply (be_gen S); assumption).
      split; [apply (be_join S a k); assumption | exact I].
    - destruct C as [C1 C2].
      destruct (IH m k x C2 Rk G (fun m' nx H => NK m' nx (or_intror H))) as [_ I'].
      assert (Rn : R (hd k r)).
      { destruct r as [|b r']; simpl in *; [exact Rk|]. destruct C2 as [_ C3].
        apply (bwd_e_chain_R S _ _ C3). clear - Rk. revert b. induction r'; intros; simpl; [exact Rk|]. apply IHr'. }
      assert (Ed : In (m, hd k r) E).
      { destruct r as [|b r']; simpl in *; tauto. }
      assert (I : sin m x).
      { apply (be_pass S m (hd k r) x Ed Rn I'). apply NK. left. reflexivity. }
      assert (Rm : R m) by (apply (be_closed S m (hd k r) Ed Rn)).
      split; [apply (be_join S a m); assumption | exact I].
  Qed.

  (* forward: sin is the state at node entry; gene n m: what flows out of n along (n, m) anew *)
  Record fwd_solution_e : Prop := {
    fe_closed : forall n m, In (n, m) E -> R n -> R m;
    fe_gen : forall n m x, In (n, m) E -> R n -> gene n m x -> sin m x;
    fe_pass : forall n m x, In (n, m) E -> R n -> sin n x -> ~ kille n m x -> sin m x }.

  Lemma fwd_e_flow : fwd_solution_e -> forall mid w r x,
    R w -> sin w x -> chain E w (mid ++ [r]) ->
    (forall m nx, In (m, nx) (steps (w :: mid) r) -> ~ kille m nx x) -> sin r x.
  Proof.
    intros S mid. induction mid as [|m t IH]; intros w r x Rw I C NK; simpl in *.
    - destruct C as [C _]. apply (fe_pass S w r x C Rw I). apply NK. left. reflexivity.
    - destruct C as [C1 C2].
      assert (I' : sin m x) by (apply (fe_pass S w m x C1 Rw I); apply NK; left; reflexivity).
      apply (IH m r x (fe_closed S w m C1 Rw) I' C2). intros m' nx H. apply NK. right. exact H.
  Qed.

  (* w -> mid -> r: what w generates on the edge it takes, and no later step kills, is in sin r *)
  Theorem fixpoint_sound_fwd_e : fwd_solution_e -> forall mid w r x,
    R w -> chain E w (mid ++ [r]) -> gene w (hd r mid) x ->
    (forall m nx, In (m, nx) (steps mid r) -> ~ kille m nx x) -> sin r x.
  Proof.
    intros S mid w r x Rw C G NK. destruct mid as [|m t]; simpl in *.
    - destruct C as [C _]. apply (fe_gen S w r x C Rw G).
    - destruct C as [C1 C2]. assert (I : sin m x) by (apply (fe_gen S w m x C1 Rw G)).
      apply (fwd_e_flow S t m r x (fe_closed S w m C1 Rw) I C2). exact NK.
  Qed.

  Lemma fwd_e_chain_R : fwd_solution_e -> forall tr a, R a -> chain E a tr -> forall n, In n tr -> R n.
  Proof.
    intros S tr. induction tr as [|b r IH]; intros a Ra C n H; simpl in *; [contradiction|].
    destruct C as [C1 C2]. assert (Rb : R b) by (apply (fe_closed S a b); assumption).
    destruct H as [<-|H]; [exact Rb|]. apply (IH b Rb C2 n H).
  Qed.
End MayEdge.

(* ------------------------------------------------------------------------------------------ *)
(* Composition with C05: the same statements along every execution of the skeleton semantics. *)

Definition normal_end (o : outcome) : Prop := o = ONormal \/ o = ORet \/ o = ORaised.

Section Exec.
  Variable A : Type.
  Variables gen kill sin sout : label -> A -> Prop.
  Variable R : label -> Prop.

  Lemma exec_trace_path n f d tr o d' :
    exec_fn n f d = (tr, o, d') -> o <> OFuel -> top_ok f = true -> guard_block (f_body f) = true ->
    pathl (cfg_fn f) tr /\ hd 0 tr = f_args f /\
    (normal_end o -> In (lastd 0 tr, EXIT) (cfg_fn f)).
  Proof.
    intros H Ho T G. destruct (exec_fn_is_path _ _ _ _ _ _ H Ho T G) as [r [-> [C L]]].
    simpl. split; [exact C|]. split; [reflexivity|].
    unfold normal_end. intros [ -> | [ -> | -> ] ]; exact L.
  Qed.

  (* every node of an execution that ends normally / by return / by an explicit raise leaving the
     function reaches an exit node, hence lies in any backward-closed set that contains the exits *)
  Lemma exec_nodes_bwd_reachable n f d tr o d' :
    exec_fn n f d = (tr, o, d') -> o <> OFuel -> top_ok f = true -> guard_block (f_body f) = true ->
    normal_end o ->
    (forall a b, In (a, b) (cfg_fn f) -> R b -> R a) -> (forall a, In (a, EXIT) (cfg_fn f) -> R a) ->
    forall k, In k tr -> R k.
  Proof.
    intros H Ho T G N Cl Ex k Hk.
    destruct (exec_trace_path _ _ _ _ _ _ H Ho T G) as [P [_ L]]. specialize (L N).
    apply in_split in Hk. destruct Hk as [l1 [l2 ->]].
    apply pathl_app_inv in P. destruct P as [_ P]. simpl in P.
    assert (Hl : lastd 0 (l1 ++ k :: l2) = lastd k l2).
    { clear. generalize 0. induction l1; intros; simpl; auto. }
    rewrite Hl in L. clear Hl. apply Ex in L. clear H. revert k P L.
    induction l2 as [|b r IH]; intros k P L; simpl in *; [exact L|].
    destruct P as [P1 P2]. apply (Cl k b P1). apply IH; assumption.
  Qed.

  (* C07: in every execution  ... s, mid, k ...  : an item generated by node k (k reads x) that no
     node strictly between s and k kills is in sout s and in sin of the node executed right after s. *)
  Theorem liveness_sound_exec n f d tr o d' :
    exec_fn n f d = (tr, o, d') -> o <> OFuel -> top_ok f = true -> guard_block (f_body f) = true ->
    bwd_solution A (cfg_fn f) R gen kill sin sout ->
    forall pre s mid k post x,
      tr = pre ++ s :: mid ++ k :: post ->
      (R k \/ (normal_end o /\ forall a, In (a, EXIT) (cfg_fn f) -> R a)) ->
      gen k x -> (forall m, In m mid -> ~ kill m x) ->
      sout s x /\ sin (hd k mid) x.
  Proof.
    intros H Ho T G S pre s mid k post x Etr HR Gk NK.
    destruct (exec_trace_path _ _ _ _ _ _ H Ho T G) as [P _].
    assert (Rk : R k).
    { destruct HR as [HR|[N Ex]]; [exact HR|].
      apply (exec_nodes_bwd_reachable _ _ _ _ _ _ H Ho T G N (b_closed _ _ _ _ _ _ _ S) Ex).
      rewrite Etr. apply in_or_app. right. right. apply in_or_app. right. left. reflexivity. }
    assert (C : chain (cfg_fn f) s (mid ++ [k])).
    { rewrite Etr in P. change (s :: mid ++ k :: post) with ((s :: mid) ++ k :: post) in P.
      replace (pre ++ (s :: mid) ++ k :: post) with (pre ++ (s :: mid ++ [k]) ++ post) in P
        by (simpl; rewrite <- app_assoc; reflexivity).
      apply pathl_segment in P. exact P. }
    apply (fixpoint_sound_bwd A (cfg_fn f) R gen kill sin sout S mid s k x C Rk Gk NK).
  Qed.

  (* C06: in every execution  ... w, mid, r ...  : an item generated by node w (w defines x) that no
     node strictly between w and r kills is in sin r (and in sout of the node executed right before r). *)
  Theorem reachdef_sound_exec n f d tr o d' :
    exec_fn n f d = (tr, o, d') -> o <> OFuel -> top_ok f = true -> guard_block (f_body f) = true ->
    fwd_solution A (cfg_fn f) R gen kill sin sout -> R (f_args f) ->
    forall pre w mid r post x,
      tr = pre ++ w :: mid ++ r :: post ->
      gen w x -> (forall m, In m mid -> ~ kill m x) ->
      sin r x /\ sout (lastd w mid) x.
  Proof.
    intros H Ho T G S Ra pre w mid r post x Etr Gw NK.
    destruct (exec_trace_path _ _ _ _ _ _ H Ho T G) as [P [Hd _]].
    assert (Rw : R w).
    { destruct tr as [|a0 r0]; [destruct pre; discriminate|]. simpl in Hd. subst a0.
      destruct pre as [|p0 pre]; simpl in Etr; injection Etr as E1 E2.
      - subst w. exact Ra.
      - subst p0. simpl in P. apply (fwd_chain_R A (cfg_fn f) R gen kill sin sout S r0 (f_args f) Ra P).
        rewrite E2. apply in_or_app. right. left. reflexivity. }
    assert (C : chain (cfg_fn f) w (mid ++ [r])).
    { rewrite Etr in P.
      replace (pre ++ w :: mid ++ r :: post) with (pre ++ (w :: mid ++ [r]) ++ post) in P
        by (simpl; rewrite <- app_assoc; reflexivity).
      apply pathl_segment in P. exact P. }
    apply (fixpoint_sound_fwd A (cfg_fn f) R gen kill sin sout S mid w r x Rw Gw C NK).
  Qed.
End Exec.

Section ExecEdge.
  Variable A : Type.
  Variable gen : label -> A -> Prop.
  Variables gene kille : label -> label -> A -> Prop.
  Variables sin sout : label -> A -> Prop.
  Variable R : label -> Prop.

  Theorem liveness_sound_exec_e n f d tr o d' :
    exec_fn n f d = (tr, o, d') -> o <> OFuel -> top_ok f = true -> guard_block (f_body f) = true ->
    bwd_solution_e A (cfg_fn f) R gen kille sin sout ->
    normal_end o -> (forall a, In (a, EXIT) (cfg_fn f) -> R a) ->
    forall pre s mid k post x,
      tr = pre ++ s :: mid ++ k :: post ->
      gen k x -> (forall m nx, In (m, nx) (steps mid k) -> ~ kille m nx x) ->
      sout s x /\ sin (hd k mid) x.
  Proof.
    intros H Ho T G S N Ex pre s mid k post x Etr Gk NK.
    destruct (exec_trace_path _ _ _ _ _ _ H Ho T G) as [P _].
    assert (Rk : R k).
    { apply (exec_nodes_bwd_reachable R _ _ _ _ _ _ H Ho T G N (be_closed _ _ _ _ _ _ _ S) Ex).
      rewrite Etr. apply in_or_app. right. right. apply in_or_app. right. left. reflexivity. }
    assert (C : chain (cfg_fn f) s (mid ++ [k])).
    { rewrite Etr in P.
      replace (pre ++ s :: mid ++ k :: post) with (pre ++ (s :: mid ++ [k]) ++ post) in P
        by (simpl; rewrite <- app_assoc; reflexivity).
      apply pathl_segment in P. exact P. }
    apply (fixpoint_sound_bwd_e A (cfg_fn f) R gen kille sin sout S mid s k x C Rk Gk NK).
  Qed.

  Theorem reachdef_sound_exec_e n f d tr o d' :
    exec_fn n f d = (tr, o, d') -> o <> OFuel -> top_ok f = true -> guard_block (f_body f) = true ->
    fwd_solution_e A (cfg_fn f) R gene kille sin -> R (f_args f) ->
    forall pre w mid r post x,
      tr = pre ++ w :: mid ++ r :: post ->
      gene w (hd r mid) x -> (forall m nx, In (m, nx) (steps mid r) -> ~ kille m nx x) ->
      sin r x.
  Proof.
    intros H Ho T G S Ra pre w mid r post x Etr Gw NK.
    destruct (exec_trace_path _ _ _ _ _ _ H Ho T G) as [P [Hd _]].
    assert (Rw : R w).
    { destruct tr as [|a0 r0]; [destruct pre; discriminate|]. simpl in Hd. subst a0.
      destruct pre as [|p0 pre]; simpl in Etr; injection Etr as E1 E2.
      - subst w. exact Ra.
      - subst p0. simpl in P. apply (fwd_e_chain_R A (cfg_fn f) R gene kille sin S r0 (f_args f) Ra P).
        rewrite E2. apply in_or_app. right. left. reflexivity. }
    assert (C : chain (cfg_fn f) w (mid ++ [r])).
    { rewrite Etr in P.
      replace (pre ++ w :: mid ++ r :: post) with (pre ++ (w :: mid ++ [r]) ++ post) in P
        by (simpl; rewrite <- app_assoc; reflexivity).
      apply pathl_segment in P. exact P. }
    apply (fixpoint_sound_fwd_e A (cfg_fn f) R gene kille sin S mid w r x Rw C Gw NK).
  Qed.
End ExecEdge.
