(* Soundness of the syntactic disciplines of SetExpr.v: what a transfer expression that passes a
   discipline contains, for every environment. *)
From Coq Require Import List Arith Bool.
Import ListNotations.
Require Import MV.Flow.SetExpr.

Lemma field_eqb_eq a b : field_eqb a b = true -> a = b.
Proof. destruct a, b; simpl; intros H; try reflexivity; discriminate. Qed.

Lemma memf_In g K : memf g K = true -> In g K.
Proof.
  unfold memf. intros H. apply existsb_exists in H. destruct H as [h [Hh E]].
  apply field_eqb_eq in E. subst. exact Hh.
Qed.

Section Sound.
  Variable A : Type.
  Variable key : A -> name.
  Notation ev := (ev A key).
  Notation env := (env A).

  Lemma only_fields_sound t K (e : env) a :
    only_fields t K = true -> ev t e a = true ->
    exists g, In g K /\ memn (key a) (fld g (e_scope A e)) = true.
  Proof.
    induction t; simpl; intros H V; try discriminate.
    - exists f. split; [apply memf_In; exact H | exact V].
    - apply andb_true_iff in H. destruct H as [H1 H2]. apply orb_true_iff in V. destruct V; auto.
    - apply andb_true_iff in V. destruct V as [V _]. auto.
    - apply andb_true_iff in V. destruct V as [V1 V2]. apply orb_true_iff in H. destruct H; auto.
  Qed.

  Definition off (K : list field) (e : env) (a : A) : Prop :=
    forall g, In g K -> memn (key a) (fld g (e_scope A e)) = false.

  Lemma only_fields_off t K e a : only_fields t K = true -> off K e a -> ev t e a = false.
  Proof.
    intros H O. destruct (ev t e a) eqn:V; [|reflexivity].
    destruct (only_fields_sound _ _ _ _ H V) as [g [Hg M]]. rewrite (O g Hg) in M. discriminate.
  Qed.

  Lemma cov_sound ia t f K (e : env) a :
    cov ia t f K = true -> e_ann A e = ia ->
    memn (key a) (fld f (e_scope A e)) = true -> off K e a -> ev t e a = true.
  Proof.
    intros H Ea M O. induction t; simpl in *; try discriminate.
    - apply field_eqb_eq in H. subst. exact M.
    - apply orb_true_iff in H. apply orb_true_iff. destruct H; auto.
    - apply andb_true_iff in H. destruct H as [H1 H2]. rewrite (IHt1 H1). simpl.
      rewrite (only_fields_off _ _ _ _ H2 O). reflexivity.
    - rewrite Ea. destruct ia; auto.
  Qed.

  Lemma passes_sound ia t K (e : env) a :
    passes ia t K = true -> e_ann A e = ia -> e_state A e a = true -> off K e a -> ev t e a = true.
  Proof.
    intros H Ea M O. induction t; simpl in *; try discriminate.
    - exact M.
    - apply orb_true_iff in H. apply orb_true_iff. destruct H; auto.
    - apply andb_true_iff in H. destruct H as [H1 H2]. rewrite (IHt1 H1). simpl.
      rewrite (only_fields_off _ _ _ _ H2 O). reflexivity.
    - rewrite Ea. destruct ia; auto.
  Qed.

  Lemma off_nil e a : off [] e a.
  Proof. intros g []. Qed.

  Lemma passes_exit_sound ia t (e : env) a :
    passes_exit ia t = true -> e_ann A e = ia -> e_state_exit A e a = true ->
    memn (key a) (e_targets A e) = true -> ev t e a = true.
  Proof.
    intros H Ea M Tg. induction t; simpl in *; try discriminate.
    - apply orb_true_iff in H. apply orb_true_iff. destruct H; auto.
    - apply andb_true_iff in H. destruct H as [H1 H2]. rewrite (IHt1 H1). simpl.
      rewrite (only_fields_off _ _ _ _ H2 (off_nil e a)). reflexivity.
    - destruct t1; try discriminate; destruct t2; try discriminate; simpl; rewrite M, Tg; reflexivity.
    - rewrite Ea. destruct ia; auto.
  Qed.

  Lemma covg_sound ia t (e : env) a :
    covg ia t = true -> e_ann A e = ia -> e_genmap A e a = true -> ev t e a = true.
  Proof.
    intros H Ea M. induction t; simpl in *; try discriminate.
    - exact M.
    - apply orb_true_iff in H. apply orb_true_iff. destruct H; auto.
    - apply andb_true_iff in H. destruct H as [H1 H2]. rewrite (IHt1 H1). simpl.
      rewrite (only_fields_off _ _ _ _ H2 (off_nil e a)). reflexivity.
    - rewrite Ea. destruct ia; auto.
  Qed.

  (* -- inside a closure body: fields of the function's scope -- *)
  Lemma only_fn_sound t K (e : env) a :
    only_fn t K = true -> ev t e a = true ->
    exists g, In g K /\ memn (key a) (fld g (e_fn A e)) = true.
  Proof.
    induction t; simpl; intros H V; try discriminate.
    - exists f. split; [apply memf_In; exact H | exact V].
    - apply andb_true_iff in H. destruct H as [H1 H2]. apply orb_true_iff in V. destruct V; auto.
    - apply andb_true_iff in V. destruct V as [V _]. auto.
    - apply andb_true_iff in V. destruct V as [V1 V2]. apply orb_true_iff in H. destruct H; auto.
  Qed.

  Lemma avoids_sound t g (e : env) a :
    avoids t g = true -> memn (key a) (fld g (e_fn A e)) = true -> ev t e a = false.
  Proof.
    intros H M. induction t; simpl in *; try discriminate; try reflexivity.
    - apply andb_true_iff in H. destruct H as [H1 H2]. rewrite IHt1, IHt2; auto.
    - apply orb_true_iff in H. destruct H as [H|H].
      + rewrite (IHt1 H). reflexivity.
      + destruct t2; try discriminate. apply field_eqb_eq in H. subst f. simpl. rewrite M.
        apply andb_false_r.
    - apply orb_true_iff in H. destruct H as [H|H].
      + rewrite (IHt1 H). reflexivity.
      + rewrite (IHt2 H). apply andb_false_r.
  Qed.

  Lemma fcov_unbound_sound t (e : env) a :
    fcov_unbound t = true -> memn (key a) (s_read (e_fn A e)) = true ->
    memn (key a) (s_bound (e_fn A e)) = false -> ev t e a = true.
  Proof.
    intros H M B. induction t; simpl in *; try discriminate.
    - destruct f; try discriminate. exact M.
    - apply orb_true_iff in H. apply orb_true_iff. destruct H; auto.
    - apply andb_true_iff in H. destruct H as [H1 H2]. rewrite (IHt1 H1). simpl.
      destruct (ev t2 e a) eqn:V; [|reflexivity].
      destruct (only_fn_sound _ _ _ _ H2 V) as [g [[<-|[]] Hm]]. simpl in Hm. rewrite B in Hm. discriminate.
  Qed.

  Lemma fcov_nonlocal_sound t (e : env) a :
    fcov_nonlocal t = true -> memn (key a) (s_read (e_fn A e)) = true ->
    memn (key a) (s_nonlocals (e_fn A e)) = true -> ev t e a = true.
  Proof.
    intros H M B. induction t; simpl in *; try discriminate.
    - destruct f; try discriminate; assumption.
    - apply orb_true_iff in H. apply orb_true_iff. destruct H; auto.
    - apply andb_true_iff in H. destruct H as [H1 H2]. rewrite (IHt1 H1). simpl.
      rewrite (avoids_sound _ _ _ _ H2 B). reflexivity.
  Qed.

  Lemma has_closure_sound ia (sel : sx -> bool) t (e : env) a s :
    has_closure ia sel t = true -> e_ann A e = ia ->
    (forall body, sel body = true -> ev body (with_fn A e s) a = true) ->
    In (false, s) (e_fns A e) -> ev t e a = true.
  Proof.
    intros H Ea Hs Hin. induction t; simpl in *; try discriminate.
    - apply orb_true_iff in H. apply orb_true_iff. destruct H; auto.
    - apply andb_true_iff in H. destruct H as [H1 H2]. rewrite (IHt1 H1). simpl.
      rewrite (only_fields_off _ _ _ _ H2 (off_nil e a)). reflexivity.
    - apply existsb_exists. exists (false, s). split; [exact Hin|]. simpl.
      rewrite andb_false_r. simpl. apply Hs. exact H.
    - rewrite Ea. destruct ia; auto.
  Qed.
End Sound.
