(* C06 / C07: the concrete (list-based) dataflow model evaluated by vm_compute on exported programs.

   A `node` row carries, for one CFG node (named by its Skel label):
     * what the implementation computed: activity scope, reaching function definitions, gen_map keys,
       the reported in / out sets                                                     (implementation)
     * what the node does to variables according to Python: names it may read, names every instance
       binds, deletes, for-targets (bound only when an iteration starts), entry of the loop body   (S)
   Three families of boolean checks:
     fix_*    the reported sets are exactly what the generated transfer equations (SetExpr) give from
              the neighbours' sets, at every node the worklist reaches; untouched nodes keep init_state
     sound_*  the reported sets satisfy the inclusions of MayAnalysis.{bwd,fwd}_solution for the
              Python-side gen / kill -- reflected into Prop in DataflowProofs.v
     anno_*   the annotations on AST nodes are what the node-level solution implies
   Model only -- proofs are in DataflowProofs.v. *)
From Coq Require Import List Arith Bool.
Import ListNotations.
Require Import MV.Cfg.Skel MV.Cfg.SkelCheck MV.Flow.SetExpr.

Section Nodes.
  Variable A : Type.
  Variable aeqb : A -> A -> bool.

  Record node : Type := mknode {
    n_lab : label;
    n_scoped : bool;                       (* has anno.Static.SCOPE *)
    n_scope : scope;
    n_fns : list (bool * scope);           (* DEFINED_FNS_IN: (is_lambda, ARGS_AND_BODY_SCOPE) *)
    n_cread : list name;                   (* S: free variables the reaching local functions read (not declared nonlocal) *)
    n_cread_nl : list name;                (* S: ... that they declare nonlocal and read *)
    n_cread_lam : list name;               (* S: free variables read by lambda expressions evaluated on a path to this node *)
    n_genk : list name;                    (* C06: keys of gen_map[node] *)
    n_ltargets : list name;                (* node_scope.iterate_targets as recorded by activity (empty before the edge-sensitive repair) *)
    n_in : list A;
    n_out : list A;
    n_reads : list name;                   (* S *)
    n_writes : list name;                  (* S: bound by every instance *)
    n_dels : list name;                    (* S *)
    n_ftarget : list name;                 (* S: for header: bound iff an iteration starts *)
    n_body : label;                        (* S: for header: entry node of the loop body (0 otherwise) *)
    n_bodyi : label }.                     (* for header: its CFG successor inside the loop (= n_body unless that statement contains a lambda, whose node comes first) *)

  Definition empty_node (l : label) : node :=
    mknode l false empty_scope [] [] [] [] [] [] [] [] [] [] [] [] 0 0.

  Fixpoint find_node (ns : list node) (l : label) : node :=
    match ns with
    | [] => empty_node l
    | n :: r => if Nat.eqb (n_lab n) l then n else find_node r l
    end.

  Definition mema (a : A) (l : list A) : bool := existsb (aeqb a) l.
  Definition incla (a b : list A) : bool := forallb (fun x => mema x b) a.
  Definition seteq (a b : list A) : bool := incla a b && incla b a.
End Nodes.

Arguments n_lab {A}. Arguments n_scoped {A}. Arguments n_scope {A}. Arguments n_fns {A}.
Arguments n_cread {A}. Arguments n_cread_nl {A}. Arguments n_cread_lam {A}. Arguments n_bodyi {A}. Arguments n_genk {A}. Arguments n_ltargets {A}. Arguments n_in {A}. Arguments n_out {A}.
Arguments n_reads {A}. Arguments n_writes {A}. Arguments n_dels {A}. Arguments n_ftarget {A}. Arguments n_body {A}.
Arguments find_node {A}. Arguments mema {A}. Arguments incla {A}. Arguments seteq {A}. Arguments mknode {A}.

Definition succs (E : list edge) (n : label) : list label := map snd (filter (fun e => Nat.eqb (fst e) n) E).
Definition preds (E : list edge) (m : label) : list label := map fst (filter (fun e => Nat.eqb (snd e) m) E).

(* nodes reachable in walk direction from the start set (what GraphVisitor._visit_internal visits) *)
Fixpoint closure (step : label -> list label) (fuel : nat) (seen : list label) : list label :=
  match fuel with
  | 0 => seen
  | S f =>
      let new := fold_left (fun acc m => if memn m seen || memn m acc then acc else m :: acc) (flat_map step seen) [] in
      match new with [] => seen | _ => closure step f (seen ++ new) end
  end.
Definition exits (E : list edge) : list label := preds E EXIT.
Definition reach_bwd (E : list edge) : list label := closure (preds E) (length E) (exits E).
Definition reach_fwd (E : list edge) (entry : label) : list label :=
  closure (fun n => filter (fun m => negb (Nat.eqb m EXIT)) (succs E n)) (length E) [entry].
Definition closed_bwd (E : list edge) (R : list label) : bool :=
  forallb (fun e => negb (memn (snd e) R) || memn (fst e) R) E.
Definition closed_fwd (E : list edge) (R : list label) : bool :=
  forallb (fun e => Nat.eqb (snd e) EXIT || negb (memn (fst e) R) || memn (snd e) R) E.

(* lambda expressions have CFG nodes of their own (in front of the statement that contains them) which no
   execution trace mentions: contract them out of the edge list.  L = labels of the lambda nodes. *)
Fixpoint resolve (E : list edge) (L : list label) (fuel : nat) (m : label) : list label :=
  match fuel with
  | 0 => [m]
  | S f => if memn m L then flat_map (resolve E L f) (succs E m) else [m]
  end.
Definition contract (E : list edge) (L : list label) : list edge :=
  flat_map (fun e => if memn (fst e) L then [] else map (pair (fst e)) (resolve E L (length L + 1) (snd e))) E.

Definition scope_names (s : scope) : list name :=
  s_read s ++ s_modified s ++ s_bound s ++ s_deleted s ++ s_globals s ++ s_nonlocals s ++ s_annotations s ++ s_params s.

(* the generated table, as data, so that the model does not depend on what was generated *)
Record table : Set := mktable {
  t_scoped_in : sx; t_scoped_out : sx; t_ignored_in : sx; t_ignored_out : sx;
  t_gen_names : sx;             (* C06 *)
  t_ann : bool;                 (* include_annotations *)
  t_join_succ : bool;           (* the join ranges over node.next (liveness) / node.prev (reaching definitions) *)
  t_join_in : bool;             (* ... of self.in_ / self.out *)
  t_edge : bool }.              (* C06: the join uses _edge_out (for headers: exit edges carry in_ for the loop targets) *)

(* ------------------------------------------------------------------------------------------ *)
(* C07 liveness: items are names *)

Definition dyn_kill {A : Type} (n : node A) (m : label) (x : name) : bool :=
  memn x (n_writes n) || memn x (n_dels n) || (memn x (n_ftarget n) && Nat.eqb (n_body n) m).

Definition lnode := node name.
Definition kill_s (n : lnode) (x : name) : bool :=
  memn x (n_writes n) || memn x (n_dels n) || memn x (n_ftarget n).

Section Liveness.
  Variable T : table.
  Variable E : list edge.
  Variable ns : list lnode.
  Let nd := find_node ns.

  Definition lv_join_list (n : lnode) : list name :=
    flat_map (fun m => if t_join_in T then n_in (nd m) else n_out (nd m))
             (if t_join_succ T then succs E (n_lab n) else preds E (n_lab n)).

  (* the neighbours reached on loop-exit edges of a for header: all but the entry of the loop body *)
  Definition lv_exit_list (n : lnode) : list name :=
    flat_map (fun m => if t_join_in T then n_in (nd m) else n_out (nd m))
             (filter (fun m => negb (Nat.eqb m (n_bodyi n)))
                     (if t_join_succ T then succs E (n_lab n) else preds E (n_lab n))).

  Definition lv_env (n : lnode) : env name :=
    mkenv name (n_scope n) empty_scope (fun a => memn a (lv_join_list n)) (fun a => memn a (lv_exit_list n))
          (n_ltargets n) (fun _ => false) (n_fns n) (t_ann T).

  Definition lv_universe (n : lnode) : list name :=
    lv_join_list n ++ n_in n ++ n_out n ++ scope_names (n_scope n) ++ flat_map (fun p => scope_names (snd p)) (n_fns n).

  Definition lv_fix_node (n : lnode) : bool :=
    let e := lv_env n in
    let tin := if n_scoped n then t_scoped_in T else t_ignored_in T in
    let tout := if n_scoped n then t_scoped_out T else t_ignored_out T in
    forallb (fun a => Bool.eqb (memn a (n_in n)) (ev name (fun x => x) tin e a)
                      && Bool.eqb (memn a (n_out n)) (ev name (fun x => x) tout e a)) (lv_universe n).

  Definition lv_untouched (n : lnode) : bool :=
    match n_in n, n_out n with [], [] => true | _, _ => false end.

  Definition lv_fix (R : list label) : bool :=
    forallb (fun n => if memn (n_lab n) R then lv_fix_node n else lv_untouched n) ns.

  (* inclusions soundness needs, for the Python-side gen / kill *)
  Definition lv_gen_node (closure_nl closure_lam : bool) (n : lnode) : bool :=
    forallb (fun x => memn x (n_in n)) (n_reads n)
    && forallb (fun x => memn x (n_in n)) (n_cread n)
    && (negb closure_nl || forallb (fun x => memn x (n_in n)) (n_cread_nl n))
    && (negb closure_lam || forallb (fun x => memn x (n_in n)) (n_cread_lam n)).

  Definition lv_sound_node (closure_nl closure_lam : bool) (n : lnode) : bool :=
    lv_gen_node closure_nl closure_lam n
    && forallb (fun x => kill_s n x || memn x (n_in n)) (n_out n).

  Definition lv_sound_edges (R : list label) : bool :=
    forallb (fun e => negb (memn (snd e) R)
                      || forallb (fun x => memn x (n_out (nd (fst e)))) (n_in (nd (snd e)))) E.

  Definition lv_sound (closure_nl closure_lam : bool) (R : list label) : bool :=
    closed_bwd E R && negb (memn EXIT R) && forallb (fun l => memn l R) (exits E) && lv_sound_edges R
    && forallb (fun l => lv_sound_node closure_nl closure_lam (nd l)) R.

  (* edge-sensitive (unguarded) version: on the edge (n, m) node n kills what its instance followed by m
     really rebinds: a for header binds its targets only towards the loop body *)
  Definition lv_sound_e_edges (R : list label) : bool :=
    forallb (fun e => negb (memn (snd e) R)
                      || forallb (fun x => memn x (n_out (nd (fst e)))
                                           && (dyn_kill (nd (fst e)) (snd e) x || memn x (n_in (nd (fst e)))))
                                 (n_in (nd (snd e)))) E.

  Definition lv_sound_e (closure_nl closure_lam : bool) (R : list label) : bool :=
    closed_bwd E R && negb (memn EXIT R) && forallb (fun l => memn l R) (exits E) && lv_sound_e_edges R
    && forallb (fun l => lv_gen_node closure_nl closure_lam (nd l)) R.
End Liveness.

(* annotations on statements *)
Record sanno : Set := mksanno {
  a_kind : nat;                    (* 0: statement that is a CFG node; 1: Expr statement; 2: compound statement *)
  a_entry : label;                 (* its (entry) node *)
  a_inside : list label;           (* nodes lexically inside (compound) *)
  a_in : option (list name);       (* LIVE_VARS_IN *)
  a_out : option (list name) }.    (* LIVE_VARS_OUT *)

Definition seteqn := seteq Nat.eqb.

Definition stmt_succs (E : list edge) (inside : list label) : list label :=
  map snd (filter (fun e => memn (fst e) inside && negb (memn (snd e) inside) && negb (Nat.eqb (snd e) EXIT)) E).
Definition stmt_preds (E : list edge) (inside : list label) : list label :=
  map fst (filter (fun e => memn (snd e) inside && negb (memn (fst e) inside)) E).

Definition lv_anno_ok (E : list edge) (ns : list lnode) (a : sanno) : bool :=
  (match a_in a with
   | None => true
   | Some l => seteqn l (n_in (find_node ns (a_entry a)))
   end)
  && (match a_out a with
      | None => true
      | Some l =>
          match a_kind a with
          | 1 => seteqn l (n_out (find_node ns (a_entry a)))
          | _ => seteqn l (flat_map (fun m => n_in (find_node ns m)) (stmt_succs E (a_inside a)))
          end
      end).

(* ------------------------------------------------------------------------------------------ *)
(* C06 reaching definitions: items are (name, defining node) *)

Definition ditem : Set := (name * label)%type.
Definition ditem_eqb (a b : ditem) : bool := Nat.eqb (fst a) (fst b) && Nat.eqb (snd a) (snd b).
Definition memd := mema ditem_eqb.
Definition rnode := node ditem.

Definition gen_s (n : rnode) : list name := n_writes n ++ n_ftarget n.
Definition rkill_s (n : rnode) (x : name) : bool :=
  memn x (n_writes n) || memn x (n_dels n) || memn x (n_ftarget n).

Section ReachDef.
  Variable T : table.
  Variable E : list edge.
  Variable ns : list rnode.
  Let nd := find_node ns.

  (* _edge_out(p, n): out[p], except on an exit edge of a for header p (n is not the entry of its body), where
     the loop targets carry the definitions of in_[p] instead of the header's own *)
  Definition rd_edge_out (p : rnode) (n : label) : list ditem :=
    if t_edge T && negb (match n_ltargets p with [] => true | _ => false end) && negb (Nat.eqb (n_bodyi p) n)
    then filter (fun a => negb (memn (fst a) (n_ltargets p))) (n_out p)
         ++ filter (fun a => memn (fst a) (n_ltargets p)) (n_in p)
    else n_out p.

  Definition rd_join_list (n : rnode) : list ditem :=
    flat_map (fun m => if t_join_in T then n_in (nd m) else rd_edge_out (nd m) (n_lab n))
             (if t_join_succ T then succs E (n_lab n) else preds E (n_lab n)).

  Definition rd_names_env (n : rnode) : env name :=
    mkenv name (n_scope n) empty_scope (fun _ => false) (fun _ => false) [] (fun _ => false) [] (t_ann T).
  Definition rd_gen_name (n : rnode) (x : name) : bool := ev name (fun x => x) (t_gen_names T) (rd_names_env n) x.

  Definition rd_env (n : rnode) : env ditem :=
    mkenv ditem (n_scope n) empty_scope (fun a => memd a (rd_join_list n)) (fun _ => false) (n_ltargets n)
          (fun a => Nat.eqb (snd a) (n_lab n) && memn (fst a) (n_genk n)) [] (t_ann T).

  Definition rd_universe (n : rnode) : list ditem :=
    rd_join_list n ++ n_in n ++ n_out n ++ map (fun x => (x, n_lab n)) (scope_names (n_scope n) ++ n_genk n).

  Definition rd_fix_node (n : rnode) : bool :=
    let e := rd_env n in
    let tin := if n_scoped n then t_scoped_in T else t_ignored_in T in
    let tout := if n_scoped n then t_scoped_out T else t_ignored_out T in
    forallb (fun a => Bool.eqb (memd a (n_in n)) (ev ditem fst tin e a)
                      && Bool.eqb (memd a (n_out n)) (ev ditem fst tout e a)) (rd_universe n)
    && (if n_scoped n
        then forallb (fun x => Bool.eqb (memn x (n_genk n)) (rd_gen_name n x)) (scope_names (n_scope n) ++ n_genk n)
        else match n_genk n with [] => true | _ => false end).

  Definition rd_untouched (n : rnode) : bool :=
    match n_in n, n_out n with [], [] => true | _, _ => false end.

  Definition rd_fix (R : list label) : bool :=
    forallb (fun n => if memn (n_lab n) R then rd_fix_node n else rd_untouched n) ns.

  Definition rd_sound_node (n : rnode) : bool :=
    forallb (fun x => memd (x, n_lab n) (n_out n)) (gen_s n)
    && forallb (fun a => rkill_s n (fst a) || memd a (n_out n)) (n_in n).

  Definition rd_sound_edges (R : list label) : bool :=
    forallb (fun e => Nat.eqb (snd e) EXIT || negb (memn (fst e) R)
                      || forallb (fun a => memd a (n_in (nd (snd e)))) (n_out (nd (fst e)))) E.

  Definition rd_sound (entry : label) (R : list label) : bool :=
    closed_fwd E R && memn entry R && forallb (fun e => negb (Nat.eqb (fst e) EXIT)) E
    && rd_sound_edges R && forallb (fun l => rd_sound_node (nd l)) R.

  (* edge-sensitive (unguarded) version, on the in sets: along the edge (n, m) node n contributes the
     definitions its instance followed by m really makes and lets through what that instance does not rebind *)
  Definition rd_sound_e_edges (R : list label) : bool :=
    forallb (fun e => Nat.eqb (snd e) EXIT || negb (memn (fst e) R)
                      || (forallb (fun x => memd (x, fst e) (n_in (nd (snd e))))
                                  (n_writes (nd (fst e)) ++ (if Nat.eqb (n_body (nd (fst e))) (snd e) then n_ftarget (nd (fst e)) else []))
                          && forallb (fun a => dyn_kill (nd (fst e)) (snd e) (fst a) || memd a (n_in (nd (snd e))))
                                     (n_in (nd (fst e))))) E.

  Definition rd_sound_e (entry : label) (R : list label) : bool :=
    closed_fwd E R && memn entry R && forallb (fun e => negb (Nat.eqb (fst e) EXIT)) E && rd_sound_e_edges R.
End ReachDef.

(* annotations: DEFINITIONS on a Name of node `l`, DEFINED_VARS_IN of a compound statement *)
Record nanno : Set := mknanno { na_node : label; na_name : name; na_load : bool; na_defs : list label }.
Record danno : Set := mkdanno { da_inside : list label; da_defined : list name }.

Definition defs_of (x : name) (st : list ditem) : list label :=
  map snd (filter (fun a => Nat.eqb (fst a) x) st).

Definition rd_nanno_ok (load_reads_in : bool) (ns : list rnode) (a : nanno) : bool :=
  let n := find_node ns (na_node a) in
  seteqn (na_defs a) (defs_of (na_name a) (if Bool.eqb (na_load a) load_reads_in then n_in n else n_out n)).

Definition rd_danno_ok (E : list edge) (ns : list rnode) (a : danno) : bool :=
  seteqn (da_defined a) (flat_map (fun p => map fst (n_out (find_node ns p))) (stmt_preds E (da_inside a))).

(* ------------------------------------------------------------------------------------------ *)
(* reaching function definitions (DEFINED_FNS_IN), by label of the defining node; kill = nothing *)
Definition fnrow : Set := (label * bool * list label)%type.     (* node, is a def node, DEFINED_FNS_IN *)
Definition fn_in (rows : list fnrow) (l : label) : list label :=
  match find (fun r => Nat.eqb (fst (fst r)) l) rows with Some r => snd r | None => [] end.
Definition fn_isdef (rows : list fnrow) (l : label) : bool :=
  match find (fun r => Nat.eqb (fst (fst r)) l) rows with Some r => snd (fst r) | None => false end.
Definition fn_out (rows : list fnrow) (l : label) : list label :=
  if fn_isdef rows l then l :: fn_in rows l else fn_in rows l.
Definition fn_sound (E : list edge) (R : list label) (rows : list fnrow) : bool :=
  forallb (fun e => Nat.eqb (snd e) EXIT || negb (memn (fst e) R)
                    || forallb (fun d => memn d (fn_in rows (snd e))) (fn_out rows (fst e))) E.

