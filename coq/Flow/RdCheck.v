(* C06: the case checker evaluated in Coq on exported programs (the generated transfer of
   reaching_definitions.Analyzer.visit_node is read from Generated/C06_gen.v). *)
From Coq Require Import List Arith Bool.
Import ListNotations.
Require Import MV.Cfg.Skel MV.Cfg.SkelCheck MV.Flow.SetExpr MV.Flow.Dataflow MV.Generated.C06_gen.

Definition rd_table : table :=
  mktable rd_scoped_in rd_scoped_out rd_ignored_in rd_ignored_out rd_gen_names
          true (negb rd_join_over_prev) (negb rd_join_reads_out) rd_edge_sensitive.

Record rd_case : Type := mkrdcase {
  rc_idx : nat; rc_fn : fn; rc_edges : list edge; rc_nodes : list rnode;
  rc_names : list nanno; rc_defined : list danno; rc_lambdas : list label }.

(* 0 ok | 1 graph | 2 not the fixed point of the generated equations
   | 3 soundness inclusions: neither the node-level ones (hypothesis of the guarded theorem; they cannot hold for an
     edge-sensitive implementation) nor the edge-sensitive ones (hypothesis of the unguarded theorem) hold
   | 4 DEFINITIONS on names | 5 DEFINED_VARS_IN
   | 7 only: the edge-sensitive (unguarded) inclusions fail: a for header kills its target on the exit edge (known finding) *)
Definition rd_code (c : rd_case) : nat :=
  let E := rc_edges c in
  let Ec := contract E (rc_lambdas c) in
  let ns := rc_nodes c in
  let entry := f_args (rc_fn c) in
  let R := reach_fwd E entry in
  let Rc := reach_fwd Ec entry in
  if negb (incl_edges (cfg_fn (rc_fn c)) Ec) then 1
  else if negb (rd_fix rd_table E ns R) then 2
  else if negb (rd_sound Ec ns entry Rc || rd_sound_e Ec ns entry Rc) then 3
  else if negb (forallb (rd_nanno_ok rd_name_load_reads_in ns) (rc_names c)) then 4
  else if negb (forallb (rd_danno_ok Ec ns) (rc_defined c)) then 5
  else if negb (rd_sound_e Ec ns entry Rc) then 7
  else 0.

Definition rd_failing (cs : list rd_case) : list nat :=
  flat_map (fun c => match rd_code c with 0 => [] | k => [rc_idx c * 16 + k] end) cs.
