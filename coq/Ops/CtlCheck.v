(* C01 / default control-flow operators: the term semantics (CtlOps.exec) against the real operators of
   malt/operators/control_flow.py.  The harness calls if_stmt / while_stmt / for_stmt with logging callbacks driven by
   a decision list; the same run is evaluated here on the operator terms generated from the source. *)
From Coq Require Import List Arith Bool.
Import ListNotations.
Require Import MV.Ops.CtlOps.

Definition cst := (list nat * list (nat * nat))%type.      (* decisions left, log *)
Definition pop (s : cst) : nat * cst := match fst s with [] => (0, s) | d :: r => (d, (r, snd s)) end.
Definition logev (s : cst) (e : nat * nat) : cst := (fst s, snd s ++ [e]).

Definition std_test (s : cst) : out cst bool :=
  let '(d, s1) := pop (logev s (1, 0)) in
  if Nat.eqb d 2 then Raise s1 else Val (negb (Nat.eqb d 0)) s1.
Definition std_body (cur : option nat) (s : cst) : out cst unit :=
  let '(d, s1) := pop (logev s (2, match cur with Some v => v | None => 0 end)) in
  if Nat.eqb d 3 then Raise s1 else Val tt s1.
Definition std_orelse (s : cst) : out cst unit :=
  let '(d, s1) := pop (logev s (3, 0)) in
  if Nat.eqb d 3 then Raise s1 else Val tt s1.
Definition std_fetch (s : cst) : out cst (option nat) :=
  let '(d, s1) := pop (logev s (4, 0)) in
  if Nat.eqb d 2 then Raise s1 else if Nat.eqb d 0 then Val None s1 else Val (Some d) s1.

Definition std_cb (cond has_extra : bool) : callbacks cst nat :=
  mkcb cst nat cond has_extra std_test std_body std_orelse std_fetch.

(* id, operator (0 if, 1 while, 2 for), cond, has_extra, decisions, expected: raised?, log, decisions left *)
Definition ccase := (nat * nat * bool * bool * list nat * bool * list (nat * nat) * list nat)%type.

Fixpoint pairs_beq (a b : list (nat * nat)) : bool :=
  match a, b with
  | [], [] => true
  | (x, y) :: r, (u, v) :: q => Nat.eqb x u && Nat.eqb y v && pairs_beq r q
  | _, _ => false
  end.
Fixpoint nats_beq (a b : list nat) : bool :=
  match a, b with
  | [], [] => true
  | x :: r, u :: q => Nat.eqb x u && nats_beq r q
  | _, _ => false
  end.

Definition check_ccase (ops : ctl_ops) (c : ccase) : bool :=
  let '(_, k, cond, ext, ds, raised, lg, rest) := c in
  let body := match k with 0 => op_if ops | 1 => op_while ops | _ => op_for ops end in
  match execs cst nat (std_cb cond ext) (length ds + 3) body None (ds, []) with
  | Val Next s => negb raised && pairs_beq (snd s) lg && nats_beq (fst s) rest
  | Raise s => raised && pairs_beq (snd s) lg && nats_beq (fst s) rest
  | _ => false
  end.
Definition failing_ccases (ops : ctl_ops) (cs : list ccase) : list nat :=
  map (fun c => let '(n, _, _, _, _, _, _, _) := c in n) (filter (fun c => negb (check_ccase ops c)) cs).
