(* C01 / default control-flow operators (malt/operators/control_flow.py: if_stmt, while_stmt, for_stmt and their
   pure-Python implementations).  The bodies of the operators are terms of a small statement language, translated
   from the source on every run (Generated/C01_ctl_gen.v); their semantics over arbitrary callbacks is compared with
   the protocol of the native statement they stand for (CtlOpsProofs.v). *)
From Coq Require Import List Arith Bool.
Import ListNotations.

(* conditions *)
Inductive cx :=
  | XTest                 (* bool(test()) / bool(extra_test()), through the local guarded_* function *)
  | XCond                 (* the parameter cond *)
  | XNot (e : cx)
  | XHasExtra.            (* extra_test is not None *)

(* statements *)
Inductive cs :=
  | SBody                 (* body() / body(target) *)
  | SOrelse               (* orelse() *)
  | SIf (e : cx) (a b : cblock)
  | SWhile (e : cx) (b : cblock)
  | SFor (b : cblock)     (* for target in iter_: b *)
  | SBreak
with cblock := BNil | BCons (c : cs) (r : cblock).

Record ctl_ops := mkops { op_if : cblock; op_while : cblock; op_for : cblock }.

Definition one (c : cs) := BCons c BNil.

(* what is in malt/operators/control_flow.py *)
Definition std_ctl_ops : ctl_ops :=
  {| op_if := one (SIf XCond (one SBody) (one SOrelse));
     op_while := one (SWhile XTest (one SBody));
     op_for := one (SIf XHasExtra
                  (one (SIf XTest (one (SFor (BCons SBody (one (SIf (XNot XTest) (one SBreak) BNil))))) BNil))
                  (one (SFor (one SBody)))) |}.

Section Sem.
  Variable St : Type.
  Variable val : Type.

  Inductive out (A : Type) := Val (a : A) (s : St) | Raise (s : St) | Fuel (s : St).
  Arguments Val {A} a s. Arguments Raise {A} s. Arguments Fuel {A} s.

  (* the callbacks the converted code passes; each may change the state and may raise *)
  Record callbacks := mkcb {
    cb_cond : bool;
    cb_has_extra : bool;
    cb_test : St -> out bool;
    cb_body : option val -> St -> out unit;
    cb_orelse : St -> out unit;
    cb_fetch : St -> out (option val) }.     (* next(iterator): None when exhausted *)

  Variable cb : callbacks.

  Fixpoint evx (e : cx) (s : St) : out bool :=
    match e with
    | XTest => cb_test cb s
    | XCond => Val (cb_cond cb) s
    | XNot e1 => match evx e1 s with Val b s1 => Val (negb b) s1 | r => r end
    | XHasExtra => Val (cb_has_extra cb) s
    end.

  Inductive flow := Next | Brk.

  (* while / for loops as fuelled iteration of a step *)
  Fixpoint wloop (tst : St -> out bool) (body : St -> out flow) (n : nat) (s : St) : out flow :=
    match n with
    | 0 => Fuel s
    | S n' =>
        match tst s with
        | Val true s1 => match body s1 with Val Next s2 => wloop tst body n' s2 | Val Brk s2 => Val Next s2 | r => r end
        | Val false s1 => Val Next s1
        | Raise s1 => Raise s1
        | Fuel s1 => Fuel s1
        end
    end.
  Fixpoint floop (body : option val -> St -> out flow) (n : nat) (s : St) : out flow :=
    match n with
    | 0 => Fuel s
    | S n' =>
        match cb_fetch cb s with
        | Val None s1 => Val Next s1
        | Val (Some v) s1 => match body (Some v) s1 with Val Next s2 => floop body n' s2 | Val Brk s2 => Val Next s2 | r => r end
        | Raise s1 => Raise s1
        | Fuel s1 => Fuel s1
        end
    end.

  Fixpoint exec (fuel : nat) (c : cs) (cur : option val) (s : St) : out flow :=
    match c with
    | SBody => match cb_body cb cur s with Val _ s1 => Val Next s1 | Raise s1 => Raise s1 | Fuel s1 => Fuel s1 end
    | SOrelse => match cb_orelse cb s with Val _ s1 => Val Next s1 | Raise s1 => Raise s1 | Fuel s1 => Fuel s1 end
    | SIf e a b =>
        match evx e s with
        | Val true s1 => execs fuel a cur s1
        | Val false s1 => execs fuel b cur s1
        | Raise s1 => Raise s1
        | Fuel s1 => Fuel s1
        end
    | SWhile e b => wloop (evx e) (execs fuel b cur) fuel s
    | SFor b => floop (fun cur' => execs fuel b cur') fuel s
    | SBreak => Val Brk s
    end
  with execs (fuel : nat) (l : cblock) (cur : option val) (s : St) : out flow :=
    match l with
    | BNil => Val Next s
    | BCons c1 r => match exec fuel c1 cur s with Val Next s2 => execs fuel r cur s2 | x => x end
    end.

  (* ---- the protocol of the native statements ---- *)
  Definition unit_flow (r : out unit) : out flow :=
    match r with Val _ s1 => Val Next s1 | Raise s1 => Raise s1 | Fuel s1 => Fuel s1 end.

  Definition ref_if (s : St) : out flow :=
    if cb_cond cb then unit_flow (cb_body cb None s) else unit_flow (cb_orelse cb s).

  Fixpoint ref_while (n : nat) (s : St) : out flow :=
    match n with
    | 0 => Fuel s
    | S n' =>
        match cb_test cb s with
        | Val true s1 => match cb_body cb None s1 with Val _ s2 => ref_while n' s2 | Raise s2 => Raise s2 | Fuel s2 => Fuel s2 end
        | Val false s1 => Val Next s1
        | Raise s1 => Raise s1
        | Fuel s1 => Fuel s1
        end
    end.

  (* for with an extra test (what a lowered break leaves): the test is evaluated before each item is fetched *)
  Fixpoint ref_for_extra (n : nat) (s : St) : out flow :=
    match n with
    | 0 => Fuel s
    | S n' =>
        match cb_test cb s with
        | Val true s1 =>
            match cb_fetch cb s1 with
            | Val None s2 => Val Next s2
            | Val (Some v) s2 => match cb_body cb (Some v) s2 with Val _ s3 => ref_for_extra n' s3 | Raise s3 => Raise s3 | Fuel s3 => Fuel s3 end
            | Raise s2 => Raise s2
            | Fuel s2 => Fuel s2
            end
        | Val false s1 => Val Next s1
        | Raise s1 => Raise s1
        | Fuel s1 => Fuel s1
        end
    end.
  Fixpoint ref_for_plain (n : nat) (s : St) : out flow :=
    match n with
    | 0 => Fuel s
    | S n' =>
        match cb_fetch cb s with
        | Val None s1 => Val Next s1
        | Val (Some v) s1 => match cb_body cb (Some v) s1 with Val _ s2 => ref_for_plain n' s2 | Raise s2 => Raise s2 | Fuel s2 => Fuel s2 end
        | Raise s1 => Raise s1
        | Fuel s1 => Fuel s1
        end
    end.
  Definition ref_for (n : nat) (s : St) : out flow :=
    if cb_has_extra cb then ref_for_extra n s else ref_for_plain n s.
End Sem.
Arguments Val {St A} a s.
Arguments Raise {St A} s.
Arguments Fuel {St A} s.
