(* C01 / default control-flow operators: the operator bodies (std_ctl_ops; the generated table is compared with it in
   the obligation file) follow the protocol of the native statements for every callback record, every state and any
   fuel.  if / while / for without extra test: exactly (same result for the same fuel).  for with an extra test
   (lowered break): the operator evaluates the test once before the loop and once after each body, the native
   protocol before each fetch -- the same sequence of callback invocations, so every result other than running out of
   fuel is the same (one unit of fuel apart). *)
From Coq Require Import List Arith Bool.
Import ListNotations.
Require Import MV.Ops.CtlOps.

Section P.
  Variable St : Type.
  Variable val : Type.
  Variable cb : callbacks St val.

  Notation out := (out St).
  Notation exec := (exec St val cb).
  Notation execs := (execs St val cb).

  Lemma execs_nil fuel cur s : execs fuel BNil cur s = Val Next s.
  Proof. reflexivity. Qed.
  Lemma execs_cons fuel c r cur s : execs fuel (BCons c r) cur s =
    match exec fuel c cur s with Val Next s2 => execs fuel r cur s2 | x => x end.
  Proof. reflexivity. Qed.
  Lemma exec_body fuel cur s : exec fuel SBody cur s = unit_flow St (cb_body St val cb cur s).
  Proof. reflexivity. Qed.
  Lemma exec_orelse fuel cur s : exec fuel SOrelse cur s = unit_flow St (cb_orelse St val cb s).
  Proof. reflexivity. Qed.
  Lemma exec_if fuel e a b cur s : exec fuel (SIf e a b) cur s =
    match evx St val cb e s with
    | Val true s1 => execs fuel a cur s1
    | Val false s1 => execs fuel b cur s1
    | Raise s1 => Raise s1
    | Fuel s1 => Fuel s1
    end.
  Proof. reflexivity. Qed.
  Lemma exec_while fuel e b cur s : exec fuel (SWhile e b) cur s = wloop St (evx St val cb e) (execs fuel b cur) fuel s.
  Proof. reflexivity. Qed.
  Lemma exec_for fuel b cur s : exec fuel (SFor b) cur s = floop St val cb (fun cur' => execs fuel b cur') fuel s.
  Proof. reflexivity. Qed.
  Lemma exec_break fuel cur s : exec fuel SBreak cur s = Val Brk s.
  Proof. reflexivity. Qed.

  Lemma one_body fuel cur s : execs fuel (one SBody) cur s = unit_flow St (cb_body St val cb cur s).
  Proof.
    unfold one. rewrite execs_cons, exec_body. destruct (cb_body St val cb cur s) as [[] s1|s1|s1]; reflexivity.
  Qed.
  Lemma one_orelse fuel cur s : execs fuel (one SOrelse) cur s = unit_flow St (cb_orelse St val cb s).
  Proof.
    unfold one. rewrite execs_cons, exec_orelse. destruct (cb_orelse St val cb s) as [[] s1|s1|s1]; reflexivity.
  Qed.
  Lemma one_same fuel c cur s : execs fuel (one c) cur s = match exec fuel c cur s with Val Next s2 => Val Next s2 | x => x end.
  Proof. unfold one. rewrite execs_cons. destruct (exec fuel c cur s) as [[|] s1|s1|s1]; reflexivity. Qed.

  (* ---- if ---- *)
  Theorem if_operator_lemma fuel s :
    execs fuel (op_if std_ctl_ops) None s = ref_if St val cb s.
  Proof.
    simpl op_if. rewrite one_same, exec_if. simpl evx. unfold ref_if.
    destruct (cb_cond St val cb).
    - rewrite one_body. destruct (cb_body St val cb None s) as [[] s1|s1|s1]; reflexivity.
    - rewrite one_orelse. destruct (cb_orelse St val cb s) as [[] s1|s1|s1]; reflexivity.
  Qed.

  (* ---- while ---- *)
  Lemma wloop_ref fuel n s :
    wloop St (evx St val cb XTest) (execs fuel (one SBody) None) n s = ref_while St val cb n s.
  Proof.
    revert s. induction n as [|n IH]; intros s; simpl; [reflexivity|].
    destruct (cb_test St val cb s) as [[|] s1|s1|s1]; try reflexivity.
    rewrite one_body. destruct (cb_body St val cb None s1) as [[] s2|s2|s2]; simpl; [apply IH | reflexivity | reflexivity].
  Qed.

  Theorem while_operator_lemma fuel s :
    execs fuel (op_while std_ctl_ops) None s = ref_while St val cb fuel s.
  Proof.
    simpl op_while. rewrite one_same, exec_while, wloop_ref.
    destruct (ref_while St val cb fuel s) as [[|] s1|s1|s1] eqn:E; reflexivity.
  Qed.

  (* ---- for, no extra test ---- *)
  Lemma floop_plain fuel n s :
    floop St val cb (fun cur' => execs fuel (one SBody) cur') n s = ref_for_plain St val cb n s.
  Proof.
    revert s. induction n as [|n IH]; intros s; simpl; [reflexivity|].
    destruct (cb_fetch St val cb s) as [[v|] s1|s1|s1]; try reflexivity.
    rewrite one_body. destruct (cb_body St val cb (Some v) s1) as [[] s2|s2|s2]; simpl; [apply IH | reflexivity | reflexivity].
  Qed.

  Lemma ref_for_plain_next n s r : ref_for_plain St val cb n s = r -> match r with Val Brk _ => False | _ => True end.
  Proof.
    revert s. induction n as [|n IH]; intros s E; simpl in E; [subst; exact I|].
    destruct (cb_fetch St val cb s) as [[v|] s1|s1|s1]; try (subst; exact I).
    destruct (cb_body St val cb (Some v) s1) as [[] s2|s2|s2]; try (subst; exact I). eapply IH; eauto.
  Qed.

  (* ---- for with an extra test ---- *)
  Definition xbody : cblock := BCons SBody (one (SIf (XNot XTest) (one SBreak) BNil)).

  (* the operator's loop, entered after the first test *)
  Definition F (fuel n : nat) (s : St) : out flow := floop St val cb (fun cur' => execs fuel xbody cur') n s.
  (* the native protocol after a successful test: fetch, body, next round *)
  Definition G (n : nat) (s1 : St) : out flow :=
    match cb_fetch St val cb s1 with
    | Val None s2 => Val Next s2
    | Val (Some v) s2 => match cb_body St val cb (Some v) s2 with
                           | Val _ s3 => ref_for_extra St val cb n s3
                           | Raise s3 => Raise s3
                           | Fuel s3 => Fuel s3
                           end
    | Raise s2 => Raise s2
    | Fuel s2 => Fuel s2
    end.

  Definition nofuel (r : out flow) : Prop := match r with Fuel _ => False | _ => True end.

  Lemma ref_for_extra_S n s : ref_for_extra St val cb (S n) s =
    match cb_test St val cb s with
    | Val true s1 => G n s1
    | Val false s1 => Val Next s1
    | Raise s1 => Raise s1
    | Fuel s1 => Fuel s1
    end.
  Proof. reflexivity. Qed.

  Lemma xbody_step fuel v s :
    execs fuel xbody (Some v) s =
    match cb_body St val cb (Some v) s with
    | Val _ s3 => match cb_test St val cb s3 with
                    | Val true s4 => Val Next s4
                    | Val false s4 => Val Brk s4
                    | Raise s4 => Raise s4
                    | Fuel s4 => Fuel s4
                    end
    | Raise s3 => Raise s3
    | Fuel s3 => Fuel s3
    end.
  Proof.
    unfold xbody. rewrite execs_cons, exec_body.
    destruct (cb_body St val cb (Some v) s) as [[] s3|s3|s3]; simpl; try reflexivity.
    rewrite one_same, exec_if. simpl evx.
    destruct (cb_test St val cb s3) as [[|] s4|s4|s4]; simpl; reflexivity.
  Qed.

  Lemma F_S fuel n s : F fuel (S n) s =
    match cb_fetch St val cb s with
    | Val None s1 => Val Next s1
    | Val (Some v) s1 =>
        match cb_body St val cb (Some v) s1 with
        | Val _ s3 => match cb_test St val cb s3 with
                        | Val true s4 => F fuel n s4
                        | Val false s4 => Val Next s4
                        | Raise s4 => Raise s4
                        | Fuel s4 => Fuel s4
                        end
        | Raise s3 => Raise s3
        | Fuel s3 => Fuel s3
        end
    | Raise s1 => Raise s1
    | Fuel s1 => Fuel s1
    end.
  Proof.
    unfold F. simpl floop. destruct (cb_fetch St val cb s) as [[v|] s1|s1|s1]; try reflexivity.
    rewrite xbody_step. destruct (cb_body St val cb (Some v) s1) as [[] s3|s3|s3]; try reflexivity.
    destruct (cb_test St val cb s3) as [[|] s4|s4|s4]; reflexivity.
  Qed.

  (* operator -> protocol *)
  Lemma F_to_G fuel n : forall s r, F fuel n s = r -> nofuel r -> G n s = r.
  Proof.
    induction n as [|n IH]; intros s r E NF.
    - unfold F in E. simpl in E. subst r. contradiction.
    - rewrite F_S in E. unfold G.
      destruct (cb_fetch St val cb s) as [[v|] s1|s1|s1]; try exact E.
      destruct (cb_body St val cb (Some v) s1) as [[] s3|s3|s3]; try exact E.
      rewrite ref_for_extra_S.
      destruct (cb_test St val cb s3) as [[|] s4|s4|s4]; try exact E.
      apply IH; assumption.
  Qed.

  (* protocol -> operator *)
  Lemma G_to_F fuel n : forall s r, G n s = r -> nofuel r -> F fuel (S n) s = r.
  Proof.
    induction n as [|n IH]; intros s r E NF; rewrite F_S; unfold G in E.
    - destruct (cb_fetch St val cb s) as [[v|] s1|s1|s1]; try exact E.
      destruct (cb_body St val cb (Some v) s1) as [[] s3|s3|s3]; try exact E.
      simpl in E. subst r. contradiction.
    - destruct (cb_fetch St val cb s) as [[v|] s1|s1|s1]; try exact E.
      destruct (cb_body St val cb (Some v) s1) as [[] s3|s3|s3]; try exact E.
      rewrite ref_for_extra_S in E.
      destruct (cb_test St val cb s3) as [[|] s4|s4|s4]; try exact E.
      apply IH; assumption.
  Qed.

  Lemma F_not_brk fuel n : forall s s', F fuel n s <> Val Brk s'.
  Proof.
    induction n as [|n IH]; intros s s'.
    - unfold F. simpl. discriminate.
    - rewrite F_S.
      destruct (cb_fetch St val cb s) as [[v|] s1|s1|s1]; try discriminate.
      destruct (cb_body St val cb (Some v) s1) as [[] s3|s3|s3]; try discriminate.
      destruct (cb_test St val cb s3) as [[|] s4|s4|s4]; try discriminate. apply IH.
  Qed.

  (* the whole operator body *)
  Lemma for_op_unfold fuel s :
    execs fuel (op_for std_ctl_ops) None s =
    if cb_has_extra St val cb then
      match cb_test St val cb s with
      | Val true s1 => F fuel fuel s1
      | Val false s1 => Val Next s1
      | Raise s1 => Raise s1
      | Fuel s1 => Fuel s1
      end
    else ref_for_plain St val cb fuel s.
  Proof.
    simpl op_for. rewrite one_same, exec_if. simpl evx.
    destruct (cb_has_extra St val cb).
    - rewrite one_same, exec_if. simpl evx.
      destruct (cb_test St val cb s) as [[|] s1|s1|s1]; try reflexivity.
      rewrite one_same, exec_for. fold xbody. fold (F fuel fuel s1).
      destruct (F fuel fuel s1) as [[|] s2|s2|s2] eqn:E; reflexivity.
    - rewrite one_same, exec_for, floop_plain.
      destruct (ref_for_plain St val cb fuel s) as [[|] s1|s1|s1] eqn:E; reflexivity.
  Qed.

  Theorem for_operator_plain_lemma fuel s :
    cb_has_extra St val cb = false ->
    execs fuel (op_for std_ctl_ops) None s = ref_for St val cb fuel s.
  Proof. intros H. rewrite for_op_unfold. unfold ref_for. rewrite H. reflexivity. Qed.

  Theorem for_operator_extra_lemma fuel s r :
    cb_has_extra St val cb = true -> nofuel r ->
    (execs fuel (op_for std_ctl_ops) None s = r -> ref_for St val cb (S fuel) s = r) /\
    (ref_for St val cb (S fuel) s = r -> execs (S fuel) (op_for std_ctl_ops) None s = r).
  Proof.
    intros H NF. unfold ref_for. rewrite H, ref_for_extra_S. split; intros E.
    - rewrite for_op_unfold, H in E.
      destruct (cb_test St val cb s) as [[|] s1|s1|s1]; try exact E. eapply F_to_G; eauto.
    - rewrite for_op_unfold, H.
      destruct (cb_test St val cb s) as [[|] s1|s1|s1]; try exact E. apply G_to_F; assumption.
  Qed.
End P.
