(* C11: executable model of malt.pyct.naming.Namer.new_symbol and of the reserved set
   (activity.Scope.referenced) that every converter passes to it.  Model only. *)
From Coq Require Import String List Arith Ascii Bool Decimal DecimalNat DecimalString.
Import ListNotations.
Local Open Scope string_scope.

Definition dec (n : nat) : string := NilEmpty.string_of_uint (Nat.to_uint n).

(* '%s_%d' % (root, n) *)
Definition numbered (root : string) (n : nat) : string := root ++ "_" ++ dec n.
(* the i-th candidate tried by the while loop: first the bare root, then root_(n0+1), root_(n0+2), ... *)
Definition cand (root : string) (n0 i : nat) : string :=
  match i with 0 => root | S _ => numbered root (n0 + i) end.

Definition is_digit (c : ascii) : bool :=
  let n := nat_of_ascii c in Nat.leb 48 n && Nat.leb n 57.
Fixpoint all_digits (s : string) : bool :=
  match s with EmptyString => true | String c r => is_digit c && all_digits r end.

(* name_root.split('_'): last piece and the pieces before it joined by '_' again *)
Fixpoint split_last (s : string) : (option string * string) :=
  (* (Some prefix, last) when s contains '_' : s = prefix ++ "_" ++ last with no '_' in last;
     (None, s) when there is no '_' *)
  match s with
  | EmptyString => (None, EmptyString)
  | String c r =>
      match split_last r with
      | (Some p, l) => (Some (String c p), l)
      | (None, l) => if Ascii.eqb c "_" then (Some EmptyString, l) else (None, String c l)
      end
  end.

Definition parse_nat (s : string) : nat :=
  match NilEmpty.uint_of_string s with Some u => Nat.of_uint u | None => 0 end.

Definition split_root (req : string) : string * nat :=
  match split_last req with
  | (p, l) =>
      if all_digits l && negb (String.eqb l "") then
        (match p with Some pre => pre | None => "" end, parse_nat l)
      else (req, 0)
  end.

Definition mem (x : string) (l : list string) : bool := existsb (String.eqb x) l.

Fixpoint search (fuel : nat) (root : string) (n0 i : nat) (used : list string) : option string :=
  match fuel with
  | 0 => None
  | S f => let c := cand root n0 i in if mem c used then search f root n0 (S i) used else Some c
  end.

(* reserved names arrive as qualified names; `all_reserved_locals.update(s.qn)` adds the components of
   the QN's tuple, of which only the plain strings can ever equal a candidate name: a simple QN
   contributes its name, an attribute QN (base, attr) only its attribute name (the base is a QN
   object), a subscript QN and a literal nothing *)
Inductive qn : Set := QSimple (s : string) | QAttr (b : qn) (a : string) | QSub (b i : qn) | QLit.
Definition qn_strings (q : qn) : list string :=
  match q with QSimple s => [s] | QAttr _ a => [a] | QSub _ _ | QLit => [] end.
Definition flatten (reserved : list qn) : list string := concat (map qn_strings reserved).

(* namer state = generated_names; returns the new name and the new state; None = the loop did not
   terminate within |used|+1 candidates (shown impossible) *)
Definition new_symbol (ns : list string) (gen : list string) (req : string) (reserved : list qn)
  : option (string * list string) :=
  let '(root, n0) := split_root req in
  let used := (ns ++ flatten reserved ++ gen)%list in
  match search (S (length used)) root n0 0 used with
  | Some c => Some (c, c :: gen)
  | None => None
  end.

(* a sequence of requests against one Namer *)
Fixpoint new_symbols (ns gen : list string) (reqs : list (string * list qn)) : option (list string * list string) :=
  match reqs with
  | [] => Some ([], gen)
  | (req, res) :: r =>
      match new_symbol ns gen req res with
      | None => None
      | Some (c, gen') =>
          match new_symbols ns gen' r with
          | None => None
          | Some (cs, g) => Some (c :: cs, g)
          end
      end
  end.

(* ---- the reserved set: Scope.referenced ---------------------------------- *)
Inductive sfield : Set := FRead | FModified | FBound | FHidden.
(* s_hidden: names bound by except clauses (`except E as name`) of the block or of nested blocks *)
Record scope : Set := mkscope { s_read : list string; s_modified : list string; s_bound : list string; s_hidden : list string }.
Definition sget (s : scope) (f : sfield) : list string :=
  match f with FRead => s_read s | FModified => s_modified s | FBound => s_bound s | FHidden => s_hidden s end.
(* scope chain: innermost first; referenced = union of the selected sets over the whole chain *)
Definition referenced (fields : list sfield) (chain : list scope) : list string :=
  concat (map (fun s => concat (map (sget s) fields)) chain).
Definition sfield_beq (a b : sfield) : bool :=
  match a, b with FRead, FRead | FModified, FModified | FBound, FBound | FHidden, FHidden => true | _, _ => false end.
Definition covers_writes (fields : list sfield) : bool :=
  existsb (sfield_beq FRead) fields && existsb (sfield_beq FModified) fields && existsb (sfield_beq FHidden) fields.

(* ---- the wrappers the transpiler generates AROUND the converted entity -------
     def <outer>():              bound in the globals of the generated module only: user code, which runs with the
       <closure var> = None      user's globals, never sees it; the dummies are the user's own closure variables
       def <inner>(ag__):        <inner> is a LOCAL of <outer>: a scope that lexically encloses the user code
         def <entity>(...):      <entity> is a local of <inner>
           <converted user code>
         return <entity>
       return <inner>
   The names <entity>, <inner>, <outer> are requested from the namer of the conversion context with the EMPTY
   reserved set (the entity's name before the requests of the body, the wrappers' after them), so only the
   namespace of that namer keeps them away from user names.  A name that the user code resolves OUTSIDE the
   function (a global it reads, in the function itself or in a function / lambda / comprehension nested in it)
   is captured when a scope that encloses the entity binds that name. *)
Definition wrapper_requests (roots : list string) : list (string * list qn) := map (fun r => (r, @nil qn)) roots.
Definition captured (enclosing_bound outside : list string) : list string :=
  filter (fun x => mem x enclosing_bound) outside.
