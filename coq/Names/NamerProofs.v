(* C11: freshness, distinctness and termination of Namer.new_symbol; coverage of the reserved set. *)
From Coq Require Import String List Arith Ascii Bool Lia Decimal DecimalNat DecimalString.
Import ListNotations.
Require Import MV.Names.Namer.
Local Open Scope string_scope.

Lemma mem_In x l : mem x l = true <-> In x l.
Proof.
  unfold mem; rewrite existsb_exists; split.
  - intros [y [Hy He]]; apply String.eqb_eq in He; subst; exact Hy.
  - intros H; exists x; split; [exact H | apply String.eqb_refl].
Qed.

Lemma search_spec fuel root n0 i used c :
  search fuel root n0 i used = Some c -> ~ In c used /\ exists j, c = cand root n0 j.
Proof.
  revert i; induction fuel as [|f IH]; intros i; simpl; [discriminate|].
  destruct (mem (cand root n0 i) used) eqn:E.
  - apply IH.
  - intros H; injection H as <-. split; [|eexists; reflexivity].
    intros Hin; apply mem_In in Hin; congruence.
Qed.

Lemma search_none fuel root n0 i used :
  search fuel root n0 i used = None -> forall j, i <= j < i + fuel -> In (cand root n0 j) used.
Proof.
  revert i; induction fuel as [|f IH]; intros i; simpl; [intros _ j Hj; lia|].
  destruct (mem (cand root n0 i) used) eqn:E; [|discriminate].
  intros H j Hj. destruct (Nat.eq_dec j i) as [->|Hne]; [apply mem_In, E|].
  apply (IH (S i) H); lia.
Qed.

(* ---- the candidates are pairwise distinct -------------------------------- *)
Lemma length_app (a b : string) : String.length (a ++ b) = String.length a + String.length b.
Proof. induction a as [|c a IH]; simpl; [reflexivity | rewrite IH; reflexivity]. Qed.

Lemma app_inj_l (a b c : string) : a ++ b = a ++ c -> b = c.
Proof. induction a as [|x a IH]; simpl; intros H; [exact H | injection H as H; apply IH, H]. Qed.

Lemma dec_inj a b : dec a = dec b -> a = b.
Proof.
  unfold dec; intros H.
  assert (E : Nat.to_uint a = Nat.to_uint b).
  { assert (S : Some (Nat.to_uint a) = Some (Nat.to_uint b)).
    { rewrite <- (NilEmpty.usu (Nat.to_uint a)), <- (NilEmpty.usu (Nat.to_uint b)), H; reflexivity. }
    injection S as S; exact S. }
  rewrite <- (Unsigned.of_to a), <- (Unsigned.of_to b), E; reflexivity.
Qed.

Lemma cand_inj root n0 i j : cand root n0 i = cand root n0 j -> i = j.
Proof.
  destruct i as [|i], j as [|j]; simpl; unfold numbered; intros H; try reflexivity.
  - exfalso. apply (f_equal String.length) in H. rewrite length_app in H. simpl in H. lia.
  - exfalso. apply (f_equal String.length) in H. rewrite length_app in H. simpl in H. lia.
  - apply app_inj_l in H. simpl in H. injection H as H. apply dec_inj in H. lia.
Qed.

Lemma NoDup_map_inj {A B} (f : A -> B) l : (forall x y, f x = f y -> x = y) -> NoDup l -> NoDup (map f l).
Proof.
  intros Hf; induction 1 as [|x l Hx _ IH]; simpl; constructor; [|exact IH].
  intros Hin; apply in_map_iff in Hin; destruct Hin as [y [Hy Hin]]. apply Hf in Hy; subst; contradiction.
Qed.

Lemma search_total root n0 used : search (S (length used)) root n0 0 used <> None.
Proof.
  intros H. pose proof (search_none _ _ _ _ _ H) as A.
  set (cs := map (cand root n0) (seq 0 (S (length used)))).
  assert (ND : NoDup cs) by (apply NoDup_map_inj; [apply cand_inj | apply seq_NoDup]).
  assert (IN : incl cs used).
  { intros c Hc; apply in_map_iff in Hc; destruct Hc as [j [<- Hj]]. apply in_seq in Hj. apply A; lia. }
  pose proof (NoDup_incl_length ND IN) as L. unfold cs in L. rewrite map_length, seq_length in L. lia.
Qed.

(* ---- one request ----------------------------------------------------------- *)
Lemma new_symbol_fresh ns gen req reserved c gen' :
  new_symbol ns gen req reserved = Some (c, gen') ->
  ~ In c ns /\ ~ In c (flatten reserved) /\ ~ In c gen /\ gen' = c :: gen.
Proof.
  unfold new_symbol. destruct (split_root req) as [root n0].
  destruct (search _ root n0 0 _) as [c'|] eqn:E; [|discriminate].
  intros H; injection H as <- <-. apply search_spec in E. destruct E as [N _].
  repeat split; try reflexivity; intros Hin; apply N; rewrite !in_app_iff; auto.
Qed.

Lemma new_symbol_total ns gen req reserved : new_symbol ns gen req reserved <> None.
Proof.
  unfold new_symbol. destruct (split_root req) as [root n0].
  destruct (search _ root n0 0 _) eqn:E; [discriminate|]. exfalso; eapply search_total; exact E.
Qed.

(* ---- any number of requests against one Namer ------------------------------ *)
Lemma new_symbols_total ns gen reqs : new_symbols ns gen reqs <> None.
Proof.
  revert gen; induction reqs as [|[req res] r IH]; intros gen; simpl; [discriminate|].
  destruct (new_symbol ns gen req res) as [[c g']|] eqn:E; [|exfalso; eapply new_symbol_total; exact E].
  specialize (IH g'). destruct (new_symbols ns g' r) as [[cs g]|]; [discriminate | congruence].
Qed.

Lemma new_symbols_fresh ns gen reqs cs g :
  new_symbols ns gen reqs = Some (cs, g) ->
  NoDup cs /\ (forall c, In c cs -> ~ In c ns /\ ~ In c gen) /\ incl gen g /\ incl cs g.
Proof.
  revert gen cs g; induction reqs as [|[req res] r IH]; intros gen cs g; simpl.
  - intros H; injection H as <- <-. repeat split; try constructor; try contradiction; try apply incl_refl.
    intros x [].
  - destruct (new_symbol ns gen req res) as [[c g']|] eqn:E; [|discriminate].
    destruct (new_symbols ns g' r) as [[cs' g'']|] eqn:E2; [|discriminate].
    intros H; injection H as <- <-.
    apply new_symbol_fresh in E. destruct E as [N1 [_ [N3 ->]]].
    destruct (IH _ _ _ E2) as [ND [F [I1 I2]]].
    split; [|split; [|split]].
    + constructor; [|exact ND]. intros Hin. destruct (F _ Hin) as [_ F2]. apply F2; left; reflexivity.
    + intros x [<-|Hx]; [split; assumption|]. destruct (F _ Hx) as [F1 F2]. split; [exact F1|].
      intros Hg; apply F2; right; exact Hg.
    + intros x Hx; apply I1; right; exact Hx.
    + intros x [<-|Hx]; [apply I1; left; reflexivity | apply I2, Hx].
Qed.

(* every request's result avoids the reserved set that request passed *)
Lemma new_symbols_reserved ns gen reqs cs g :
  new_symbols ns gen reqs = Some (cs, g) ->
  Forall2 (fun c rq => ~ In c (flatten (snd rq))) cs reqs.
Proof.
  revert gen cs g; induction reqs as [|[req res] r IH]; intros gen cs g; simpl.
  - intros H; injection H as <- <-; constructor.
  - destruct (new_symbol ns gen req res) as [[c g']|] eqn:E; [|discriminate].
    destruct (new_symbols ns g' r) as [[cs' g'']|] eqn:E2; [|discriminate].
    intros H; injection H as <- <-. constructor; [|eapply IH; exact E2].
    apply new_symbol_fresh in E; simpl; tauto.
Qed.

(* ---- the reserved set covers every name the user's code reads or writes ---- *)
Lemma existsb_sfield f fields : existsb (sfield_beq f) fields = true -> In f fields.
Proof.
  rewrite existsb_exists; intros [g [Hg He]]. destruct f, g; simpl in He; try discriminate; exact Hg.
Qed.

Lemma referenced_covers fields chain s x :
  covers_writes fields = true -> In s chain -> In x (s_read s) \/ In x (s_modified s) \/ In x (s_hidden s) ->
  In x (referenced fields chain).
Proof.
  unfold covers_writes; intros C Hs Hx. apply andb_true_iff in C; destruct C as [C C3]. apply andb_true_iff in C; destruct C as [C1 C2].
  apply existsb_sfield in C1, C2, C3.
  unfold referenced. apply in_concat. exists (concat (map (sget s) fields)). split.
  - apply in_map_iff. exists s; auto.
  - apply in_concat. destruct Hx as [Hx|[Hx|Hx]].
    + exists (s_read s); split; [apply in_map_iff; exists FRead; auto | exact Hx].
    + exists (s_modified s); split; [apply in_map_iff; exists FModified; auto | exact Hx].
    + exists (s_hidden s); split; [apply in_map_iff; exists FHidden; auto | exact Hx].
Qed.

Lemma flatten_simple l : flatten (map QSimple l) = l.
Proof. unfold flatten. induction l as [|x l IH]; simpl; [reflexivity | rewrite IH; reflexivity]. Qed.

(* ---- requests of the body followed by the requests for the wrapper names ---- *)
Lemma new_symbols_app ns gen r1 r2 cs g :
  new_symbols ns gen (r1 ++ r2) = Some (cs, g) ->
  exists cs1 g1 cs2, new_symbols ns gen r1 = Some (cs1, g1) /\ new_symbols ns g1 r2 = Some (cs2, g) /\ cs = (cs1 ++ cs2)%list.
Proof.
  revert gen cs g; induction r1 as [|[req res] r IH]; intros gen cs g; simpl.
  - intros H. exists [], gen, cs. repeat split; [exact H].
  - destruct (new_symbol ns gen req res) as [[c g']|] eqn:E; [|discriminate].
    destruct (new_symbols ns g' (r ++ r2)) as [[cs' g'']|] eqn:E2; [|discriminate].
    intros H; injection H as <- <-.
    destruct (IH _ _ _ E2) as [cs1 [g1 [cs2 [A [B ->]]]]].
    exists (c :: cs1), g1, cs2. rewrite A. repeat split; [exact B].
Qed.

Lemma new_symbols_length ns gen reqs cs g : new_symbols ns gen reqs = Some (cs, g) -> length cs = length reqs.
Proof.
  intros H. apply new_symbols_reserved in H. induction H as [|c rq cs' rqs _ _ IH]; simpl; [reflexivity | rewrite IH; reflexivity].
Qed.

Lemma captured_nil bound outside : (forall x, In x outside -> ~ In x bound) -> captured bound outside = [].
Proof.
  intros H. unfold captured. induction outside as [|x l IH]; simpl; [reflexivity|].
  destruct (mem x bound) eqn:E.
  - exfalso. apply (H x); [left; reflexivity | apply mem_In, E].
  - apply IH. intros y Hy; apply H; right; exact Hy.
Qed.

Lemma wrappers_never_capture ns gen body wrappers outside :
  incl outside ns ->
  exists cs_body cs_wr g,
    new_symbols ns gen (body ++ wrapper_requests wrappers) = Some ((cs_body ++ cs_wr)%list, g) /\
    length cs_body = length body /\ length cs_wr = length wrappers /\
    NoDup (cs_body ++ cs_wr) /\
    (forall c, In c cs_wr -> ~ In c ns /\ ~ In c gen) /\
    captured cs_wr outside = [].
Proof.
  intros Hout.
  destruct (new_symbols ns gen (body ++ wrapper_requests wrappers)) as [[cs g]|] eqn:E;
    [|exfalso; eapply new_symbols_total; exact E].
  destruct (new_symbols_app _ _ _ _ _ _ E) as [cs1 [g1 [cs2 [A [B ->]]]]].
  exists cs1, cs2, g. split; [reflexivity|].
  split; [eapply new_symbols_length; exact A|].
  split; [erewrite new_symbols_length by exact B; unfold wrapper_requests; apply map_length|].
  destruct (new_symbols_fresh _ _ _ _ _ E) as [ND [F _]].
  split; [exact ND|].
  assert (F2 : forall c, In c cs2 -> ~ In c ns /\ ~ In c gen) by (intros c Hc; apply F, in_or_app; right; exact Hc).
  split; [exact F2|].
  apply captured_nil. intros x Hx Hb. destruct (F2 _ Hb) as [N _]. apply N, Hout, Hx.
Qed.
