(* C12: lemmas about the stack-trace model, the daisy chain, the exception rule and the source map *)
From Coq Require Import List String Bool Arith Lia.
Import ListNotations.
Require Import MV.Errors.StackTrace MV.Errors.SourceMap MV.Errors.ExcSyntax MV.Errors.ExcRule.

(* ---------- scanning ---------- *)

Lemma scan_app_unmapped : forall a b sm conv acc,
  unmapped_in sm a = true ->
  scan (a ++ b) sm conv acc = scan b sm conv (scan a [] conv acc).
Proof.
  induction a as [|f a IH]; intros b sm conv acc H; [reflexivity|].
  unfold unmapped_in in H. simpl in H. apply andb_true_iff in H. destruct H as [Hf Ha].
  change ((f :: a) ++ b) with (f :: (a ++ b)).
  cbn [scan]. destruct (mapped sm f); [discriminate|].
  assert (Hn : mapped [] f = None) by reflexivity. rewrite Hn.
  destruct (String.eqb (f_file f) conv); apply IH; exact Ha.
Qed.

Lemma scan_unmapped : forall a sm conv acc,
  unmapped_in sm a = true -> scan a sm conv acc = scan a [] conv acc.
Proof.
  intros. rewrite <- (app_nil_r a) at 1. rewrite scan_app_unmapped by assumption. reflexivity.
Qed.

Lemma unmapped_in_app : forall sm a b, unmapped_in sm (a ++ b) = unmapped_in sm a && unmapped_in sm b.
Proof. intros. unfold unmapped_in. apply forallb_app. Qed.

Lemma unmapped_in_rev : forall sm a, unmapped_in sm (rev a) = unmapped_in sm a.
Proof.
  intros sm a. induction a as [|x a IH]; simpl; [reflexivity|].
  rewrite unmapped_in_app, IH. simpl. rewrite andb_true_r. apply andb_comm.
Qed.

Lemma innermost_mapped_frame_lemma : forall pre fm post sm conv o,
  mapped sm fm = Some o -> unmapped_in sm post = true ->
  stack_trace_inside (pre ++ fm :: post) sm conv = summarise (rev post) conv ++ [fi_mapped o].
Proof.
  intros pre fm post sm conv o Hm Hu. unfold stack_trace_inside, summarise.
  rewrite rev_app_distr. simpl. rewrite <- app_assoc. simpl.
  rewrite scan_app_unmapped by (rewrite unmapped_in_rev; exact Hu).
  simpl. rewrite Hm. simpl. reflexivity.
Qed.

Lemma no_mapped_frame_lemma : forall tb sm conv,
  unmapped_in sm tb = true -> stack_trace_inside tb sm conv = summarise (rev tb) conv.
Proof.
  intros. unfold stack_trace_inside, summarise. rewrite scan_unmapped; [reflexivity|].
  rewrite unmapped_in_rev. assumption.
Qed.

(* the summary lists exactly the frames outside the converter file, in scanning order *)
Lemma unflag_allow : forall p, unflag (fi_allow p) = unflag p.
Proof. destruct p; reflexivity. Qed.
Lemma unflag_plain : forall f, unflag (fi_plain f) = fi_plain f.
Proof. destruct f; reflexivity. Qed.

Lemma scan_nomap_frames : forall fr conv acc,
  map unflag (rev (scan fr [] conv acc)) =
  map unflag (rev acc) ++ map fi_plain (filter (fun f => negb (in_converter conv f)) fr).
Proof.
  induction fr as [|f fr IH]; intros conv acc; simpl.
  - rewrite app_nil_r. reflexivity.
  - unfold in_converter at 1. destruct (String.eqb (f_file f) conv) eqn:E; simpl.
    + rewrite IH. destruct acc as [|p q]; [reflexivity|].
      simpl. rewrite !map_app. simpl. rewrite unflag_allow. reflexivity.
    + rewrite IH. simpl. rewrite map_app. simpl. rewrite unflag_plain. rewrite <- app_assoc. reflexivity.
Qed.

Lemma summarise_frames : forall fr conv,
  map unflag (summarise fr conv) = map fi_plain (filter (fun f => negb (in_converter conv f)) fr).
Proof. intros. unfold summarise. rewrite scan_nomap_frames. reflexivity. Qed.

Lemma scan_nomap_not_converted : forall fr conv acc,
  forallb (fun p => negb (fi_converted p)) acc = true ->
  forallb (fun p => negb (fi_converted p)) (scan fr [] conv acc) = true.
Proof.
  induction fr as [|f fr IH]; intros conv acc H; simpl; [assumption|].
  destruct (String.eqb (f_file f) conv); apply IH.
  - destruct acc; simpl in *; [reflexivity|]. apply andb_true_iff in H. destruct H. assumption.
  - simpl. assumption.
Qed.

(* ---------- innermost ---------- *)

Lemma split_innermost_spec : forall sm rseg p0 post o,
  split_innermost sm rseg p0 = Some (post, o) ->
  exists a fm b, rseg = a ++ fm :: b /\ unmapped_in sm a = true /\ mapped sm fm = Some o /\ post = rev a ++ p0.
Proof.
  induction rseg as [|f r IH]; intros p0 post o H; simpl in H; [discriminate|].
  destruct (mapped sm f) eqn:E.
  - inversion H; subst. exists [], f, r. simpl. auto.
  - apply IH in H. destruct H as (a & fm & b & H1 & H2 & H3 & H4).
    exists (f :: a), fm, b. subst. simpl. rewrite E, H2. repeat split; auto.
    rewrite <- app_assoc. reflexivity.
Qed.

Lemma innermost_spec : forall sm seg post o,
  innermost sm seg = Some (post, o) ->
  exists pre fm, seg = pre ++ fm :: post /\ mapped sm fm = Some o /\ unmapped_in sm post = true.
Proof.
  intros sm seg post o H. unfold innermost in H. apply split_innermost_spec in H.
  destruct H as (a & fm & b & H1 & H2 & H3 & H4). rewrite app_nil_r in H4. subst post.
  exists (rev b), fm. split.
  - rewrite <- (rev_involutive seg), H1, rev_app_distr. simpl. rewrite <- app_assoc. reflexivity.
  - split; [assumption|]. rewrite unmapped_in_rev. assumption.
Qed.

Lemma last_opt_app : forall A (l : list A) x, last_opt (l ++ [x]) = Some x.
Proof. intros. unfold last_opt. rewrite rev_app_distr. reflexivity. Qed.

(* a level whose own segment has a mapped frame and that knows nothing below contributes
   exactly that frame *)
Lemma last_of_level : forall sm seg below conv post o,
  innermost sm seg = Some (post, o) -> unmapped_in sm below = true ->
  last_opt (stack_trace_inside (seg ++ below) sm conv) = Some (fi_mapped o).
Proof.
  intros sm seg below conv post o H Hb. apply innermost_spec in H.
  destruct H as (pre & fm & H1 & H2 & H3). subst seg.
  rewrite <- app_assoc. simpl.
  rewrite (innermost_mapped_frame_lemma pre fm (post ++ below) sm conv o H2).
  - apply last_opt_app.
  - rewrite unmapped_in_app, H3, Hb. reflexivity.
Qed.

(* ---------- daisy chain ---------- *)

Lemma flat_app : forall a b, flat (a ++ b) = flat a ++ flat b.
Proof. intros. unfold flat. apply flat_map_app. Qed.

Lemma daisy_chain_lemma : forall outer inner tail msg conv,
  forallb has_mapped (outer ++ [inner]) = true ->
  separated (outer ++ [inner]) tail = true ->
  run 1 (outer ++ [inner]) tail msg conv =
  Meta (stack_trace_inside (lv_seg inner ++ tail) (lv_sm inner) conv ++ flat_map own_frame (rev outer)) msg.
Proof.
  induction outer as [|l outer IH]; intros inner tail msg conv Hm Hs.
  - simpl. rewrite app_nil_r. reflexivity.
  - change ((l :: outer) ++ [inner]) with (l :: (outer ++ [inner])) in Hm, Hs.
    cbn [forallb] in Hm. cbn [separated] in Hs.
    apply andb_true_iff in Hm. destruct Hm as [Hl Hm].
    apply andb_true_iff in Hs. destruct Hs as [Hu Hs].
    change (run 1 ((l :: outer) ++ [inner]) tail msg conv)
      with (attach (lv_seg l ++ flat (outer ++ [inner]) ++ tail) (run 1 (outer ++ [inner]) tail msg conv) msg (lv_sm l) conv).
    rewrite (IH inner tail msg conv Hm Hs).
    unfold has_mapped in Hl. destruct (innermost (lv_sm l) (lv_seg l)) as [[post o]|] eqn:E; [|discriminate].
    assert (Hown : own_frame l = [fi_mapped o]) by (unfold own_frame; rewrite E; reflexivity).
    cbn [attach]. rewrite (last_of_level _ _ _ conv post o E Hu).
    cbn [rev]. rewrite flat_map_app. cbn [flat_map]. rewrite Hown, app_nil_r, app_assoc. reflexivity.
Qed.

Lemma daisy_chain_full_lemma : forall outer inner tail msg conv post o,
  forallb has_mapped outer = true ->
  innermost (lv_sm inner) (lv_seg inner) = Some (post, o) ->
  separated (outer ++ [inner]) tail = true ->
  run 1 (outer ++ [inner]) tail msg conv =
  Meta (summarise (rev (post ++ tail)) conv ++ flat_map own_frame (rev (outer ++ [inner]))) msg.
Proof.
  intros outer inner tail msg conv post o Hm Hi Hs.
  rewrite daisy_chain_lemma; try assumption.
  - assert (Hown : own_frame inner = [fi_mapped o]) by (unfold own_frame; rewrite Hi; reflexivity).
    f_equal. rewrite (rev_app_distr outer [inner]). cbn [rev app]. cbn [flat_map]. rewrite Hown. cbn [app].
    pose proof Hi as Hi'. apply innermost_spec in Hi'. destruct Hi' as (pre & fm & H1 & H2 & H3).
    rewrite H1. rewrite <- app_assoc. simpl.
    rewrite (innermost_mapped_frame_lemma pre fm (post ++ tail) _ conv o H2).
    + rewrite <- app_assoc. reflexivity.
    + rewrite unmapped_in_app, H3. simpl.
      clear - Hs. induction outer as [|l outer IH]; simpl in Hs.
      * rewrite andb_true_r in Hs. exact Hs.
      * apply andb_true_iff in Hs. destruct Hs. auto.
  - rewrite forallb_app, Hm. simpl. unfold has_mapped. rewrite Hi. reflexivity.
Qed.

(* ---------- exception re-creation rule ---------- *)

Lemma all_valuations_complete : forall v, In v all_valuations.
Proof. intros [[] [] [] []]; simpl; tauto. Qed.

Lemma created_beq_eq : forall a b, created_beq a b = true -> a = b.
Proof. intros [] []; simpl; intro H; try reflexivity; discriminate. Qed.

Lemma rules_ok_holds : forall rules, rules_ok rules = true -> forall v, rule_holds v (api_create rules v) = true.
Proof.
  intros rules H v. unfold rules_ok in H. rewrite forallb_forall in H. apply H. apply all_valuations_complete.
Qed.

Lemma rules_ok_sound : forall rules, rules_ok rules = true ->
  forall v, is_key v = false -> api_create rules v = spec_create v.
Proof.
  intros rules H v Hk. pose proof (rules_ok_holds rules H v) as G. unfold rule_holds in G. rewrite Hk in G.
  apply created_beq_eq. exact G.
Qed.

Lemma rules_ok_key : forall rules, rules_ok rules = true ->
  forall v, is_key v = true ->
  api_create rules v <> Staging /\ (in_pass v || fact v || in_known v = false -> api_create rules v = MultilineKeyError).
Proof.
  intros rules H v Hk. pose proof (rules_ok_holds rules H v) as G. unfold rule_holds in G. rewrite Hk in G.
  destruct (in_pass v || fact v || in_known v).
  - split; [|discriminate]. destruct (api_create rules v); try discriminate.
  - pose proof (created_beq_eq _ _ G) as E. rewrite E. split; [discriminate | reflexivity].
Qed.

Lemma mem_In : forall s l, mem s l = true <-> In s l.
Proof.
  intros s l. unfold mem. rewrite existsb_exists. split.
  - intros (x & Hx & E). apply String.eqb_eq in E. subst. assumption.
  - intro H. exists s. split; [assumption | apply String.eqb_refl].
Qed.

(* ---------- source map ---------- *)

Lemma key_eqb_eq : forall a b, key_eqb a b = true <-> a = b.
Proof.
  intros [a1 a2] [b1 b2]. unfold key_eqb. simpl. rewrite andb_true_iff, String.eqb_eq, Nat.eqb_eq.
  split; [intros [-> ->]; reflexivity | intro H; inversion H; auto].
Qed.

Lemma key_eqb_refl : forall a, key_eqb a a = true.
Proof. intro a. apply key_eqb_eq. reflexivity. Qed.

Lemma key_eqb_sym : forall a b, key_eqb a b = key_eqb b a.
Proof.
  intros a b. destruct (key_eqb a b) eqn:E.
  - apply key_eqb_eq in E. subst. symmetry. apply key_eqb_refl.
  - destruct (key_eqb b a) eqn:E'; [|reflexivity]. apply key_eqb_eq in E'. subst.
    rewrite key_eqb_refl in E. discriminate.
Qed.

Lemma lookup_update : forall sm k o k',
  lookup (update sm k o) k' = if key_eqb k k' then Some o else lookup sm k'.
Proof.
  induction sm as [|[k0 o0] r IH]; intros k o k'; simpl.
  - destruct (key_eqb k k'); reflexivity.
  - destruct (key_eqb k0 k) eqn:E; simpl.
    + apply key_eqb_eq in E. subst k0. destruct (key_eqb k k'); reflexivity.
    + rewrite IH. destruct (key_eqb k0 k') eqn:E'; [|reflexivity].
      apply key_eqb_eq in E'. subst k0. rewrite key_eqb_sym, E. reflexivity.
Qed.

Lemma sm_step_cases : forall sm k o,
  sm_step sm (k, o) = sm \/ sm_step sm (k, o) = update sm k o.
Proof.
  intros sm k o. unfold sm_step. destruct (lookup sm k) as [ex|]; [|right; reflexivity].
  destruct (same_line_loc ex o && (o_line o <=? o_line ex)); [left; reflexivity|].
  destruct (o_col ex <=? o_col o); [left|right]; reflexivity.
Qed.

Lemma fold_entries_in : forall es all sm,
  (forall k o, lookup sm k = Some o -> In (k, o) all) ->
  incl es all ->
  forall k o, lookup (fold_left sm_step es sm) k = Some o -> In (k, o) all.
Proof.
  induction es as [|[k0 o0] es IH]; intros all sm Hsm Hin k o H; simpl in H.
  - apply Hsm. assumption.
  - apply (IH all (sm_step sm (k0, o0))); try assumption.
    + intros k1 o1 H1. destruct (sm_step_cases sm k0 o0) as [E|E]; rewrite E in H1.
      * apply Hsm. assumption.
      * rewrite lookup_update in H1. destruct (key_eqb k0 k1) eqn:Ek.
        -- apply key_eqb_eq in Ek. subst. inversion H1; subst. apply Hin. left. reflexivity.
        -- apply Hsm. assumption.
    + intros x Hx. apply Hin. right. assumption.
Qed.

Lemma source_map_entry_lemma : forall es k o,
  lookup (create_source_map es) k = Some o -> In (k, o) es.
Proof.
  intros es k o H. apply (fold_entries_in es es []); try assumption.
  - intros k1 o1 H1. discriminate.
  - apply incl_refl.
Qed.

Lemma step_keeps_key : forall sm e k, lookup sm k <> None -> lookup (sm_step sm e) k <> None.
Proof.
  intros sm [k0 o0] k H. destruct (sm_step_cases sm k0 o0) as [E|E]; rewrite E; [assumption|].
  rewrite lookup_update. destruct (key_eqb k0 k); [discriminate | assumption].
Qed.

Lemma step_adds_key : forall sm k o, lookup (sm_step sm (k, o)) k <> None.
Proof.
  intros sm k o. unfold sm_step. destruct (lookup sm k) as [ex|] eqn:E.
  - destruct (same_line_loc ex o && (o_line o <=? o_line ex)); [rewrite E; discriminate|].
    destruct (o_col ex <=? o_col o); [rewrite E; discriminate|].
    rewrite lookup_update, key_eqb_refl. discriminate.
  - rewrite lookup_update, key_eqb_refl. discriminate.
Qed.

Lemma fold_keeps_key : forall es sm k, lookup sm k <> None -> lookup (fold_left sm_step es sm) k <> None.
Proof.
  induction es as [|e es IH]; intros sm k H; simpl; [assumption|].
  apply IH. apply step_keeps_key. assumption.
Qed.

Lemma source_map_total_lemma : forall es k o,
  In (k, o) es -> exists o', lookup (create_source_map es) k = Some o'.
Proof.
  intros es k o H. unfold create_source_map.
  assert (G : forall es sm, In (k, o) es -> lookup (fold_left sm_step es sm) k <> None).
  { clear. induction es as [|e es IH]; intros sm H; [destruct H|].
    simpl. destruct H as [->|H].
    - apply fold_keeps_key. apply step_adds_key.
    - apply IH. assumption. }
  specialize (G es [] H). destruct (lookup (fold_left sm_step es []) k) as [o'|]; [eauto | congruence].
Qed.

Lemma same_line_loc_spec : forall a b, same_line_loc a b = true -> o_file a = o_file b /\ o_line a = o_line b.
Proof.
  intros a b H. unfold same_line_loc in H. apply andb_true_iff in H. destruct H as [H1 H2].
  apply String.eqb_eq in H1. apply Nat.eqb_eq in H2. auto.
Qed.

Lemma source_map_line_lemma : forall es k o,
  one_origin_per_line es = true -> In (k, o) es ->
  exists o', lookup (create_source_map es) k = Some o' /\ o_file o' = o_file o /\ o_line o' = o_line o.
Proof.
  intros es k o Hone Hin. destruct (source_map_total_lemma es k o Hin) as [o' Ho'].
  exists o'. split; [assumption|].
  apply source_map_entry_lemma in Ho'.
  unfold one_origin_per_line in Hone. rewrite forallb_forall in Hone.
  specialize (Hone _ Ho'). rewrite forallb_forall in Hone. specialize (Hone _ Hin).
  unfold agree in Hone. simpl in Hone. rewrite key_eqb_refl in Hone. simpl in Hone.
  apply same_line_loc_spec. assumption.
Qed.

(* keys of the built map are unique: the association list is a dictionary *)
Lemma update_keys_nodup : forall sm k o, NoDup (keys sm) -> NoDup (keys (update sm k o)).
Proof.
  induction sm as [|[k0 o0] r IH]; intros k o H; simpl.
  - constructor; [intros []|constructor].
  - destruct (key_eqb k0 k) eqn:E; simpl.
    + apply key_eqb_eq in E. subst. exact H.
    + inversion H; subst. constructor; [|apply IH; assumption].
      intro Hin. apply H2. clear - Hin E. unfold keys in *.
      induction r as [|[k1 o1] r IH]; simpl in *.
      * destruct Hin as [Hin|[]]. subst. rewrite key_eqb_refl in E. discriminate.
      * destruct (key_eqb k1 k) eqn:E1; simpl in *.
        -- apply key_eqb_eq in E1. subst. destruct Hin as [Hin|Hin]; [subst; rewrite key_eqb_refl in E; discriminate | right; assumption].
        -- destruct Hin as [Hin|Hin]; [left; assumption | right; apply IH; assumption].
Qed.

Lemma source_map_keys_nodup_lemma : forall es, NoDup (keys (create_source_map es)).
Proof.
  intro es. unfold create_source_map.
  assert (G : forall es sm, NoDup (keys sm) -> NoDup (keys (fold_left sm_step es sm))).
  { clear. induction es as [|[k o] es IH]; intros sm H; cbn [fold_left]; [assumption|].
    apply IH. destruct (sm_step_cases sm k o) as [E|E]; rewrite E; [assumption | apply update_keys_nodup; assumption]. }
  apply G. constructor.
Qed.

(* ---------- generated tables ---------- *)

Lemma negb_mem_false : forall b, negb b = true -> b = false.
Proof. intros []; simpl; intro H; [discriminate | reflexivity]. Qed.

Lemma tables_ok_spec : forall pass known keys, tables_ok pass known keys = true ->
  (forall n, In n required_known -> mem n known = true /\ mem n keys = false) /\
  (forall k, mem k keys = true -> mem k known = false /\ mem k pass = false) /\
  mem "builtins.KeyError" keys = true /\
  mem staging_name keys = false /\ mem staging_name pass = true.
Proof.
  intros pass known keys H. unfold tables_ok in H.
  apply andb_true_iff in H. destruct H as [H H6].
  apply andb_true_iff in H. destruct H as [H H5].
  apply andb_true_iff in H. destruct H as [H H4].
  apply andb_true_iff in H. destruct H as [H H3].
  apply andb_true_iff in H. destruct H as [H1 H2].
  rewrite forallb_forall in H1, H2, H4.
  split; [|split; [|split; [|split]]].
  - intros n Hn. split; [apply H1; exact Hn | apply negb_mem_false, H4; exact Hn].
  - intros k Hk. apply mem_In in Hk. specialize (H2 k Hk). apply andb_true_iff in H2. destruct H2.
    split; apply negb_mem_false; assumption.
  - exact H3.
  - apply negb_mem_false. exact H5.
  - exact H6.
Qed.

Lemma not_key : forall pass known keys t, mem (et_name t) keys = false -> is_key (valuation_of pass known keys t) = false.
Proof. intros. unfold valuation_of. simpl. assumption. Qed.

Lemma known_keep_type_lemma : forall pass known keys rules,
  rules_ok rules = true -> tables_ok pass known keys = true ->
  forall t, In (et_name t) required_known -> create_for pass known keys rules t = Same.
Proof.
  intros pass known keys rules Hr Ht t Hin. unfold create_for.
  destruct (tables_ok_spec pass known keys Ht) as (Hk & _). destruct (Hk _ Hin) as [Hk1 Hk2].
  rewrite (rules_ok_sound rules Hr) by (apply not_key; exact Hk2).
  unfold spec_create, valuation_of. simpl. rewrite Hk1. rewrite !orb_true_r. reflexivity.
Qed.

Lemma key_error_lemma : forall pass known keys rules,
  rules_ok rules = true -> tables_ok pass known keys = true ->
  forall t, mem (et_name t) keys = true -> et_fact t = false ->
  create_for pass known keys rules t = MultilineKeyError.
Proof.
  intros pass known keys rules Hr Ht t Hn Hf. unfold create_for.
  destruct (tables_ok_spec pass known keys Ht) as (_ & Hk & _). destruct (Hk _ Hn) as [Hk1 Hk2].
  apply (rules_ok_key rules Hr); unfold valuation_of; simpl; [exact Hn|].
  rewrite Hk1, Hk2, Hf. reflexivity.
Qed.

Lemma key_never_staged_lemma : forall pass known keys rules,
  rules_ok rules = true ->
  forall t, mem (et_name t) keys = true -> create_for pass known keys rules t <> Staging.
Proof.
  intros pass known keys rules Hr t Hn. unfold create_for.
  apply (rules_ok_key rules Hr). unfold valuation_of. simpl. exact Hn.
Qed.

Lemma staging_passes_lemma : forall pass known keys rules,
  rules_ok rules = true -> tables_ok pass known keys = true ->
  forall t, et_name t = staging_name -> create_for pass known keys rules t = Same.
Proof.
  intros pass known keys rules Hr Ht t Hn. unfold create_for.
  destruct (tables_ok_spec pass known keys Ht) as (_ & _ & _ & Hs1 & Hs2).
  rewrite (rules_ok_sound rules Hr) by (apply not_key; rewrite Hn; exact Hs1).
  unfold spec_create, valuation_of. simpl. rewrite Hn, Hs2. reflexivity.
Qed.

Lemma staged_lemma : forall pass known keys rules,
  rules_ok rules = true ->
  forall t, mem (et_name t) pass = false -> et_fact t = false -> mem (et_name t) known = false ->
  mem (et_name t) keys = false ->
  create_for pass known keys rules t = Staging.
Proof.
  intros pass known keys rules Hr t Hp Hf Hk Hn. unfold create_for.
  rewrite (rules_ok_sound rules Hr) by (apply not_key; exact Hn).
  unfold spec_create, valuation_of. simpl. rewrite Hp, Hf, Hk, Hn. reflexivity.
Qed.

(* ---------- crossing several conversion boundaries ---------- *)

(* The type that arrives after one wrapper is not changed by any further wrapper, provided the
   message-printing KeyError subclass is itself treated as a KeyError (it is one of the key types).
   facts: the code's own plain-constructor test on the arriving type at each further wrapper;
   the test is a function of the type, hence `same_fact`. *)
Lemma rewrap_step : forall pass known keys rules,
  rules_ok rules = true -> tables_ok pass known keys = true -> mem multiline_name keys = true ->
  forall t f2,
    let n1 := name_after t (create_for pass known keys rules t) in
    (n1 = et_name t -> f2 = et_fact t) ->
    (n1 = multiline_name -> f2 = false) ->
    name_after (mkexc n1 f2 false) (create_for pass known keys rules (mkexc n1 f2 false)) = n1.
Proof.
  intros pass known keys rules Hr Ht Hm t f2 n1 Hsame Hmulti.
  destruct (create_for pass known keys rules t) eqn:E; subst n1; cbn [name_after] in *.
  - (* Same: the same type arrives again *)
    assert (Hc : create_for pass known keys rules (mkexc (et_name t) f2 false) = Same).
    { rewrite (Hsame eq_refl). unfold create_for in *. unfold valuation_of in *. simpl. exact E. }
    rewrite Hc. reflexivity.
  - (* the KeyError subclass arrives: it is a key type and fails the plain test *)
    rewrite (key_error_lemma pass known keys rules Hr Ht (mkexc multiline_name f2 false) Hm (Hmulti eq_refl)).
    reflexivity.
  - (* StagingError arrives: passed through *)
    rewrite (staging_passes_lemma pass known keys rules Hr Ht (mkexc staging_name f2 false) eq_refl).
    reflexivity.
Qed.
