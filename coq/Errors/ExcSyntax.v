(* C12: syntax of the generated tables (coq/Generated/C12_gen.v is written by
   tools/translate/c12_errors.py from malt/pyct/error_utils.py and malt/impl/api.py). *)
From Coq Require Import List String.
Import ListNotations.

(* conditions on preferred_type = type(source_error) that create_exception tests *)
Inductive cond :=
| CFact            (* the "plain constructor" test of the code: `preferred_type.__init__ is Exception.__init__`
                      (or a call of a module-level predicate on preferred_type); a runtime fact of the type *)
| CKnown           (* preferred_type in KNOWN_STRING_CONSTRUCTOR_ERRORS *)
| CIsKeyError.     (* preferred_type is KeyError  /  preferred_type in (<the generated key_error_types>) *)

Inductive action :=
| ASame                  (* to_ret = preferred_type(self.get_message()) *)
| AMultilineKeyError.    (* to_ret = MultilineMessageKeyError(self.get_message(), self.cause_message) *)

(* one `if c1: a1 elif c2: a2 ...` statement *)
Definition ifchain := list (cond * action).
