(* C12 model (H): malt/pyct/error_utils.py
     _stack_trace_inside_mapped_code, ErrorMetadataBase.__init__ (daisy chain),
     and the way malt/impl/api.py converted_call/_attach_error_metadata calls them
     along a chain of nested converted calls.
   Executable, total; no proofs here (ErrorsProofs.v). *)
From Coq Require Import List String Bool Arith.
Import ListNotations.
Local Open Scope string_scope.

(* one entry of traceback.extract_tb: (filename, lineno, name, line) *)
Record frame := mkframe { f_file : string; f_line : nat; f_func : string; f_code : string }.

(* OriginInfo: loc = (filename, lineno, col_offset), function_name, source_code_line *)
Record origin := mkorigin { o_file : string; o_line : nat; o_col : nat; o_func : string; o_code : string }.

(* LineLocation (filename, lineno): key of a source map *)
Definition key := (string * nat)%type.
Definition key_eqb (a b : key) : bool := String.eqb (fst a) (fst b) && Nat.eqb (snd a) (snd b).

(* Dict[LineLocation, OriginInfo] as an association list with unique keys; first hit *)
Definition source_map := list (key * origin).
Fixpoint lookup (sm : source_map) (k : key) : option origin :=
  match sm with
  | [] => None
  | (k', o) :: r => if key_eqb k' k then Some o else lookup r k
  end.
Definition mapped (sm : source_map) (f : frame) : option origin := lookup sm (f_file f, f_line f).

(* error_utils.FrameInfo *)
Record frame_info := mkfi { fi_file : string; fi_line : nat; fi_func : string; fi_code : string;
                            fi_converted : bool; fi_allowlisted : bool }.

Definition fi_mapped (o : origin) : frame_info := mkfi (o_file o) (o_line o) (o_func o) (o_code o) true false.
Definition fi_plain (f : frame) : frame_info := mkfi (f_file f) (f_line f) (f_func f) (f_code f) false false.
Definition fi_allow (p : frame_info) : frame_info :=
  mkfi (fi_file p) (fi_line p) (fi_func p) (fi_code p) false true.

(* the loop `for ... in reversed(tb)`; acc = result_frames, most recently appended first *)
Fixpoint scan (fr : list frame) (sm : source_map) (conv : string) (acc : list frame_info) : list frame_info :=
  match fr with
  | [] => acc
  | f :: rest =>
    match mapped sm f with
    | Some o => fi_mapped o :: acc                         (* append; break *)
    | None =>
      if String.eqb (f_file f) conv
      then scan rest sm conv (match acc with [] => [] | p :: q => fi_allow p :: q end)   (* result_frames[-1] = ...; continue *)
      else scan rest sm conv (fi_plain f :: acc)
    end
  end.

(* _stack_trace_inside_mapped_code(tb, source_map, converter_filename): tb outermost first,
   result innermost first *)
Definition stack_trace_inside (tb : list frame) (sm : source_map) (conv : string) : list frame_info :=
  rev (scan (rev tb) sm conv []).

(* what the exception carries after an `except` clause of converted_call ran *)
Inductive outcome :=
| NoMeta                                                   (* no ag_error_metadata attribute *)
| Crash                                                    (* translated_stack[-1] on an empty tuple: IndexError *)
| Meta (stack : list frame_info) (msg : string).           (* translated_stack, cause_message *)

Definition last_opt {A} (l : list A) : option A :=
  match rev l with [] => None | x :: _ => Some x end.

(* _attach_error_metadata(e, f) = ErrorMetadataBase.__init__(cause_tb, e.ag_error_metadata, message,
   f.ag_source_map, api.__file__) ; msg is '<type name>: <str(e)>' *)
Definition attach (tb : list frame) (cause : outcome) (msg : string) (sm : source_map) (conv : string) : outcome :=
  match cause with
  | Crash => Crash
  | NoMeta => Meta (stack_trace_inside tb sm conv) msg
  | Meta cs cm =>
    match last_opt (stack_trace_inside tb sm conv) with
    | None => Crash
    | Some l => Meta (cs ++ [l]) cm
    end
  end.

(* One separately converted function on the call path: its source map and the traceback entries
   between its own frame (inclusive) and the frame of the next converted function (exclusive):
   generated-file frames (the function, its nested if_body/loop_body/... functions), operator
   frames, the api.py frames of the converted_call that leads further down. *)
Record level := mklevel { lv_sm : source_map;
                          lv_cc : frame;            (* converted_call's own frame (api.py), first entry of extract_tb *)
                          lv_seg : list frame }.

Definition frames_of (l : level) : list frame := lv_cc l :: lv_seg l.
Definition flat (ls : list level) : list frame := flat_map frames_of ls.

(* The exception travels outwards through the `except` clause of the converted_call of every level,
   innermost first.  The traceback seen at a level is extract_tb(...)[drop:] of converted_call's
   own frame, the level's segment and everything below it. *)
Fixpoint run (drop : nat) (levels : list level) (tail : list frame) (msg : string) (conv : string) : outcome :=
  match levels with
  | [] => NoMeta
  | l :: rest => attach (skipn drop (frames_of l ++ flat rest ++ tail)) (run drop rest tail msg conv) msg (lv_sm l) conv
  end.

(* --- specification side ------------------------------------------------------------------ *)

(* the summary of frames that are not mapped: scanning order (innermost first); frames of the
   converter file are dropped and mark the frame scanned just before them *)
Definition summarise (fr : list frame) (conv : string) : list frame_info := rev (scan fr [] conv []).

(* innermost frame of a segment that the map knows, as (frames after it, its origin) *)
Fixpoint split_innermost (sm : source_map) (rseg : list frame) (post : list frame) : option (list frame * origin) :=
  match rseg with
  | [] => None
  | f :: r => match mapped sm f with
              | Some o => Some (post, o)
              | None => split_innermost sm r (f :: post)
              end
  end.
(* rseg = reversed segment; post accumulates the more-inner frames in traceback order *)
Definition innermost (sm : source_map) (seg : list frame) : option (list frame * origin) :=
  split_innermost sm (rev seg) [].

Definition has_mapped (l : level) : bool :=
  match innermost (lv_sm l) (lv_seg l) with Some _ => true | None => false end.

Definition own_frame (l : level) : list frame_info :=
  match innermost (lv_sm l) (lv_seg l) with Some (_, o) => [fi_mapped o] | None => [] end.

Definition unmapped_in (sm : source_map) (fr : list frame) : bool :=
  forallb (fun f => match mapped sm f with None => true | Some _ => false end) fr.

(* every level's map knows none of the frames below the level (each conversion has its own file) *)
Fixpoint separated (levels : list level) (tail : list frame) : bool :=
  match levels with
  | [] => true
  | l :: rest => unmapped_in (lv_sm l) (flat rest ++ tail) && separated rest tail
  end.

Definition unflag (p : frame_info) : frame_info :=
  mkfi (fi_file p) (fi_line p) (fi_func p) (fi_code p) false false.
Definition in_converter (conv : string) (f : frame) : bool := String.eqb (f_file f) conv.
