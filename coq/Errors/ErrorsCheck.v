(* C12: the correspondence checker evaluated by vm_compute on the cases written by
   tools/props/c12.py (expected values = what the implementation returned). *)
From Coq Require Import List String Bool Arith.
Import ListNotations.
Require Import MV.Errors.StackTrace MV.Errors.SourceMap MV.Errors.ExcSyntax MV.Errors.ExcRule MV.Generated.C12_gen.

Fixpoint list_beq {A} (eq : A -> A -> bool) (a b : list A) : bool :=
  match a, b with
  | [], [] => true
  | x :: a', y :: b' => eq x y && list_beq eq a' b'
  | _, _ => false
  end.

Definition fi_beq (a b : frame_info) : bool :=
  String.eqb (fi_file a) (fi_file b) && Nat.eqb (fi_line a) (fi_line b) && String.eqb (fi_func a) (fi_func b)
  && String.eqb (fi_code a) (fi_code b) && Bool.eqb (fi_converted a) (fi_converted b)
  && Bool.eqb (fi_allowlisted a) (fi_allowlisted b).

Definition origin_beq (a b : origin) : bool :=
  String.eqb (o_file a) (o_file b) && Nat.eqb (o_line a) (o_line b) && Nat.eqb (o_col a) (o_col b)
  && String.eqb (o_func a) (o_func b) && String.eqb (o_code a) (o_code b).

Definition outcome_beq (a b : outcome) : bool :=
  match a, b with
  | NoMeta, NoMeta => true
  | Crash, Crash => true
  | Meta s m, Meta s' m' => list_beq fi_beq s s' && String.eqb m m'
  | _, _ => false
  end.

Inductive case :=
| CScan (id : nat) (tb : list frame) (sm : source_map) (conv : string) (expected : list frame_info)
| CAttach (id : nat) (tb : list frame) (cause : outcome) (msg : string) (sm : source_map) (conv : string) (expected : outcome)
| CRun (id : nat) (levels : list level) (tail : list frame) (msg conv : string) (expected : outcome)
| CExc (id : nat) (t : exc_type) (expected : created)
| CSmap (id : nat) (entries : list (key * origin)) (expected : source_map)
| CThrough (id : nat) (name : string) (facts : list bool) (expected : string).

Definition case_id (c : case) : nat :=
  match c with CScan i _ _ _ _ | CAttach i _ _ _ _ _ _ | CRun i _ _ _ _ _ | CExc i _ _ | CSmap i _ _ | CThrough i _ _ _ => i end.

Definition smap_beq (model expected : source_map) : bool :=
  Nat.eqb (List.length model) (List.length expected)
  && forallb (fun e => match lookup model (fst e) with Some o => origin_beq o (snd e) | None => false end) expected.

Definition check_case (c : case) : bool :=
  match c with
  | CScan _ tb sm conv e => list_beq fi_beq (stack_trace_inside tb sm conv) e
  | CAttach _ tb cause msg sm conv e => outcome_beq (attach tb cause msg sm conv) e
  | CRun _ levels tail msg conv e => outcome_beq (run attach_drop levels tail msg conv) e
  | CExc _ t e => created_beq (create_for pass_through_types known_string_constructor_errors key_error_types base_rules t) e
  | CSmap _ es e => smap_beq (create_source_map es) e
  | CThrough _ n fs e =>
      String.eqb (through pass_through_types known_string_constructor_errors key_error_types base_rules n fs) e
  end.

Definition failing (cs : list case) : list nat := map case_id (filter (fun c => negb (check_case c)) cs).

(* real runs on which the hypotheses of daisy_chain do not hold *)
Definition hyps_hold (c : case) : bool :=
  match c with
  | CRun _ levels tail _ _ _ => forallb has_mapped levels && separated levels tail
  | _ => true
  end.
Definition outside_hyps (cs : list case) : list nat := map case_id (filter (fun c => negb (hyps_hold c)) cs).

(* source maps built from entry lists that violate "one statement per line" *)
Definition one_per_line (c : case) : bool :=
  match c with CSmap _ es _ => one_origin_per_line es | _ => true end.
Definition several_per_line (cs : list case) : list nat := map case_id (filter (fun c => negb (one_per_line c)) cs).
