(* C12 model (H): malt/pyct/origin_info.py create_source_map, as a fold over the pairs
   (location of the re-parsed node in the generated file, ORIGIN of the transformed node)
   in the order ast_util.parallel_walk yields them (pairs with a missing annotation are
   skipped by the implementation and are not in the list). *)
From Coq Require Import List String Bool Arith.
Import ListNotations.
Require Import MV.Errors.StackTrace.

Fixpoint update (sm : source_map) (k : key) (o : origin) : source_map :=
  match sm with
  | [] => [(k, o)]
  | (k', o') :: r => if key_eqb k' k then (k, o) :: r else (k', o') :: update r k o
  end.

(* existing_origin.loc.line_loc == origin_info.loc.line_loc *)
Definition same_line_loc (a b : origin) : bool :=
  String.eqb (o_file a) (o_file b) && Nat.eqb (o_line a) (o_line b).

Definition sm_step (sm : source_map) (e : key * origin) : source_map :=
  let (k, o) := e in
  match lookup sm k with
  | None => update sm k o
  | Some ex =>
    if same_line_loc ex o && Nat.leb (o_line o) (o_line ex) then sm        (* line overlap: continue *)
    else if Nat.leb (o_col ex) (o_col o) then sm                            (* keep the leftmost: continue *)
    else update sm k o
  end.

Definition create_source_map (entries : list (key * origin)) : source_map := fold_left sm_step entries [].

Definition keys (sm : source_map) : list key := map fst sm.

(* "one statement per line": all nodes printed on one generated line come from one original line *)
Definition agree (a b : key * origin) : bool :=
  negb (key_eqb (fst a) (fst b)) || same_line_loc (snd a) (snd b).
Definition one_origin_per_line (entries : list (key * origin)) : bool :=
  forallb (fun a => forallb (agree a) entries) entries.
