(* C12 model: the exception re-creation decision.
   ErrorMetadataBase.create_exception is interpreted from its generated if-chains
   (base_rules), api._ErrorMetadata.create_exception from the generated pass-through tuple. *)
From Coq Require Import List String Bool.
Import ListNotations.
Require Import MV.Errors.ExcSyntax.

(* what the decision depends on, for a type T:
   in_pass  : T in (errors.PyCTError, AutoGraphError, ConversionError, StagingError)
   fact     : the code's own plain-constructor test holds for T   (runtime fact)
   in_known : T in KNOWN_STRING_CONSTRUCTOR_ERRORS
   is_key   : T is KeyError (T is one of the generated key_error_types) *)
Record valuation := mkval { in_pass : bool; fact : bool; in_known : bool; is_key : bool }.

Inductive created := Same | MultilineKeyError | Staging.

Definition eval_cond (v : valuation) (c : cond) : bool :=
  match c with CFact => fact v | CKnown => in_known v | CIsKeyError => is_key v end.
Definition act (a : action) : created := match a with ASame => Same | AMultilineKeyError => MultilineKeyError end.

Fixpoint run_chain (v : valuation) (ch : ifchain) : option created :=
  match ch with
  | [] => None
  | (c, a) :: r => if eval_cond v c then Some (act a) else run_chain v r
  end.

(* to_ret = None; the if statements in order; `if to_ret is not None: return to_ret...` else None *)
Fixpoint base_create (v : valuation) (rules : list ifchain) (to_ret : option created) : option created :=
  match rules with
  | [] => to_ret
  | ch :: r => base_create v r (match run_chain v ch with Some x => Some x | None => to_ret end)
  end.

(* _ErrorMetadata.create_exception *)
Definition api_create (rules : list ifchain) (v : valuation) : created :=
  if in_pass v then Same
  else match base_create v rules None with Some c => c | None => Staging end.

(* the rule the property states *)
Definition spec_create (v : valuation) : created :=
  if in_pass v || fact v || in_known v then Same
  else if is_key v then MultilineKeyError else Staging.

Definition all_valuations : list valuation :=
  flat_map (fun a => flat_map (fun b => flat_map (fun c => map (fun d => mkval a b c d) [true; false])
    [true; false]) [true; false]) [true; false].

Definition created_beq (a b : created) : bool :=
  match a, b with Same, Same | MultilineKeyError, MultilineKeyError | Staging, Staging => true | _, _ => false end.

(* a KeyError stays a KeyError: either re-created as such or as the message-printing subclass;
   which of the two only matters for truth assignments that no real type has (KeyError passing the
   plain-constructor test or listed in a table), so the order of the tests is left free there *)
Definition rule_holds (v : valuation) (c : created) : bool :=
  if is_key v then
    if in_pass v || fact v || in_known v
    then match c with Staging => false | _ => true end
    else created_beq c MultilineKeyError
  else created_beq c (spec_create v).

Definition rules_ok (rules : list ifchain) : bool :=
  forallb (fun v => rule_holds v (api_create rules v)) all_valuations.

(* a concrete exception type as the harness describes it *)
Record exc_type := mkexc { et_name : string;     (* module.qualname *)
                           et_fact : bool;       (* the code's own test evaluated on the real type *)
                           et_plain : bool }.    (* takes a plain message and defines no initialiser of its own *)

Definition mem (s : string) (l : list string) : bool := existsb (String.eqb s) l.

Definition valuation_of (pass known keys : list string) (t : exc_type) : valuation :=
  mkval (mem (et_name t) pass) (et_fact t) (mem (et_name t) known) (mem (et_name t) keys).

Definition create_for (pass known keys : list string) (rules : list ifchain) (t : exc_type) : created :=
  api_create rules (valuation_of pass known keys t).

(* the type of the exception that reaches the caller of one malt.convert wrapper *)
Definition multiline_name : string := "malt.pyct.error_utils.MultilineMessageKeyError".
Definition staging_name : string := "malt.impl.api.StagingError".
Definition name_after (t : exc_type) (c : created) : string :=
  match c with Same => et_name t | MultilineKeyError => multiline_name | Staging => staging_name end.
(* the exception crosses n wrappers; facts n = the code's own test on the type that arrives at wrapper n *)
Fixpoint through (pass known keys : list string) (rules : list ifchain) (name : string) (facts : list bool) : string :=
  match facts with
  | [] => name
  | f :: r => let t := mkexc name f false in
              through pass known keys rules (name_after t (create_for pass known keys rules t)) r
  end.

(* the key test of the unchanged tree: `preferred_type is KeyError` *)
Definition identity_keys : list string := ["builtins.KeyError"]%string.

(* the rule as it stands in the unchanged tree (hand copy, used only by the _refuted obligation) *)
Definition identity_rules : list ifchain :=
  [[(CFact, ASame)]; [(CKnown, ASame); (CIsKeyError, AMultilineKeyError)]].

(* builtin types that the known list has to cover because the identity test never holds for them *)
Definition required_known : list string :=
  ["builtins.AssertionError"; "builtins.AttributeError"; "builtins.NameError"; "builtins.NotImplementedError";
   "builtins.RuntimeError"; "builtins.StopIteration"; "builtins.TypeError"; "builtins.UnboundLocalError";
   "builtins.ValueError"]%string.

Definition tables_ok (pass known keys : list string) : bool :=
  forallb (fun n => mem n known) required_known
  && forallb (fun k => negb (mem k known) && negb (mem k pass)) keys
  && mem "builtins.KeyError" keys
  && forallb (fun n => negb (mem n keys)) required_known
  && negb (mem "malt.impl.api.StagingError" keys)
  && mem "malt.impl.api.StagingError" pass.
