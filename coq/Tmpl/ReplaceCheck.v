(* C17: correspondence checker, evaluated by vm_compute on the cases written by
   tools/props/c17.py (expected values come from the real malt.pyct.templates /
   CPython). *)
From Coq Require Import List String Bool Arith.
Import ListNotations.
Require Import MV.Tmpl.Tree MV.Tmpl.Replace MV.Generated.C17_gen.

Fixpoint tree_eqb (a b : tree) {struct a} : bool :=
  match a, b with
  | Node i k cx s ch, Node i' k' cx' s' ch' =>
    Nat.eqb i i' && kind_beq k k' && opt_ctx_beq cx cx' && String.eqb s s'
    && (fix go (l : list (field * tree)) (l' : list (field * tree)) : bool :=
          match l, l' with
          | [], [] => true
          | (f, t) :: r, (f', t') :: r' => field_beq f f' && tree_eqb t t' && go r r'
          | _, _ => false
          end) ch ch'
  end.

Fixpoint list_eqb (l l' : list tree) : bool :=
  match l, l' with
  | [], [] => true
  | t :: r, t' :: r' => tree_eqb t t' && list_eqb r r'
  | _, _ => false
  end.

(* identities created during the call (>= n0) are not comparable by number *)
Fixpoint erase (n0 : nat) (t : tree) : tree :=
  match t with
  | Node i k cx s ch =>
    Node (if Nat.leb n0 i then n0 else i) k cx s (map (fun ft => (fst ft, erase n0 (snd ft))) ch)
  end.

(* templates.replace: index, first fresh id, replacements, parsed template (Module),
   expected result (erased), expected "all identities distinct", expected "contexts consistent" *)
Definition icase : Set := (nat * nat * repls * tree * list tree * bool * bool)%type.

Definition module_body (l : list tree) : list tree :=
  match l with
  | [Node _ _ _ _ ch] => map snd ch
  | _ => l
  end.

Definition check_icase (c : icase) : bool :=
  match c with
  | (_, n0, R, t, expected, enodup, ectx) =>
    let l := module_body (fst (inst adj_table R n0 t)) in
    list_eqb (map (erase n0) l) (map (erase n0) expected)
    && Bool.eqb (nodupb (ids_of_list l)) enodup
    && Bool.eqb (forallb (ctx_ok Load) l) ectx
    (* the theorems' guards: whenever they hold the model result must be fine *)
    && implb (template_ok n0 t && repl_ok adj_table R Load t) (forallb (ctx_ok Load) l)
  end.
Definition icase_index (c : icase) : nat := match c with (i, _, _, _, _, _, _) => i end.
Definition failing_i (cs : list icase) : list nat := map icase_index (filter (fun c => negb (check_icase c)) cs).
(* cases outside the guard of instantiate_ctx_consistent *)
Definition unguarded_i (cs : list icase) : list nat :=
  map icase_index (filter (fun c => match c with (_, n0, R, t, _, _, _) => negb (template_ok n0 t && repl_ok adj_table R Load t) end) cs).
(* cases outside the guard of instantiate_no_sharing *)
Definition sharing_i (cs : list icase) : list nat :=
  map icase_index (filter (fun c => match c with (_, n0, R, t, _, _, _) =>
     negb (nodupb (own R t) && forallb (fun i => Nat.ltb i n0) (own R t)) end) cs).

(* ContextAdjuster(o).visit(t): index, override, tree, expected tree *)
Definition acase : Set := (nat * option ctx * tree * tree)%type.
Definition check_acase (c : acase) : bool :=
  match c with (_, o, t, e) => tree_eqb (adjust adj_table o t) e end.
Definition failing_a (cs : list acase) : list nat :=
  map (fun c => match c with (i, _, _, _) => i end) (filter (fun c => negb (check_acase c)) cs).

(* ctx_ok Load t against CPython's AST validator: index, tree (a Module), verdict *)
Definition ccase : Set := (nat * tree * bool)%type.
Definition check_ccase (c : ccase) : bool := match c with (_, t, e) => Bool.eqb (ctx_ok Load t) e end.
Definition failing_c (cs : list ccase) : list nat :=
  map (fun c => match c with (i, _, _) => i end) (filter (fun c => negb (check_ccase c)) cs).

(* copy_clean: index, first fresh id, tree, expected copy *)
Definition pcase : Set := (nat * nat * tree * tree)%type.
Definition check_pcase (c : pcase) : bool :=
  match c with (_, n0, t, e) =>
    tree_eqb (erase n0 (copy n0 t)) (erase n0 e) && nodupb (ids (copy n0 t))
    && forallb (fun i => Nat.leb n0 i) (ids (copy n0 t)) end.
Definition failing_p (cs : list pcase) : list nat :=
  map (fun c => match c with (i, _, _, _) => i end) (filter (fun c => negb (check_pcase c)) cs).
