(* C17: executable model of malt/pyct/templates.py and ast_util.copy_clean.

   * `table` / `adjust`   ContextAdjuster.  The per-class visit_* methods are
                          data (a table generated from the source by
                          tools/translate/c17_templates.py); `adjust` interprets
                          the table.  A class without a method has
                          `default_handler` (ast.NodeTransformer.generic_visit:
                          ctx untouched, all children visited with the override
                          unchanged).
   * `copy`               ast_util.copy_clean: fresh identities, attributes
                          outside `_fields` (a `ctx` stuck on a Call) dropped.
   * `inst`               ReplaceTransformer.visit applied to a parsed template.
   No proofs here (ReplaceProofs.v). *)
From Coq Require Import List String Bool Arith.
Import ListNotations.
Require Import MV.Tmpl.Tree.

(* ---------------- ContextAdjuster ---------------- *)
(* what a visit_* method does to self._ctx_override before visiting children *)
Inductive ovr := OKeep | ONone | OSet (c : ctx).
(* one visiting step: `node.f = self.visit(node.f)` or `self.generic_visit(node)` *)
Inductive sel := SField (f : field) | SAll.
Record handler := mkHandler { h_apply : bool; h_steps : list (sel * ovr) }.
Definition table := list (kind * handler).

Definition default_handler : handler := mkHandler false [(SAll, OKeep)].

Fixpoint lookup (T : table) (k : kind) : handler :=
  match T with
  | [] => default_handler
  | (k', h) :: r => if kind_beq k k' then h else lookup r k
  end.

Definition apply_ovr (a : ovr) (o : option ctx) : option ctx :=
  match a with OKeep => o | ONone => None | OSet c => Some c end.

Inductive act := ANot | AVis (a : ovr).

Definition sel_covers (s : sel) (f : field) : bool :=
  match s with SAll => true | SField f' => field_beq f f' end.

(* the override in force at the LAST step that visits field f (a field visited
   twice with the same override -- visit_Subscript -- is adjusted twice to the
   same effect; the translator refuses handlers that visit a field under two
   different overrides) *)
Fixpoint field_act_from (steps : list (sel * ovr)) (f : field) (acc : act) : act :=
  match steps with
  | [] => acc
  | (s, a) :: r => field_act_from r f (if sel_covers s f then AVis a else acc)
  end.
Definition field_act (h : handler) (f : field) : act := field_act_from (h_steps h) f ANot.

Fixpoint adjust (T : table) (o : option ctx) (t : tree) : tree :=
  match t with
  | Node i k cx s ch =>
    let h := lookup T k in
    let cx' := if h_apply h then match o with Some c => Some c | None => cx end else cx in
    Node i k cx' s
      (map (fun ft => match ft with
                      | (f, t') => (f, match field_act h f with
                                       | ANot => t'
                                       | AVis a => adjust T (apply_ovr a o) t'
                                       end)
                      end) ch)
  end.

(* ---------------- copy_clean ---------------- *)
Section CopyChildren.
  Variable cp : nat -> tree -> tree.
  Fixpoint copy_children (m : nat) (l : list (field * tree)) : list (field * tree) :=
    match l with
    | [] => []
    | (f, t') :: r => (f, cp m t') :: copy_children (m + size t') r
    end.
End CopyChildren.

Fixpoint copy (n : nat) (t : tree) : tree :=
  match t with
  | Node _ k cx s ch => Node n k (if has_ctx k then cx else None) s (copy_children copy (S n) ch)
  end.

Fixpoint copy_all (n : nat) (l : list tree) : list tree * nat :=
  match l with
  | [] => ([], n)
  | r :: l' => let (cs, n') := copy_all (n + size r) l' in (copy n r :: cs, n')
  end.

(* ---------------- ReplaceTransformer ---------------- *)
Definition repls := list (string * list tree).

Fixpoint find (R : repls) (s : string) : option (list tree) :=
  match R with
  | [] => None
  | (s', v) :: r => if String.eqb s s' then Some v else find r s
  end.

Definition is_name (t : tree) : bool := match t with Node _ KName _ _ _ => true | _ => false end.

(* ReplaceTransformer.visit_Name: `if hasattr(n, 'ctx'): adjuster.visit(n)` *)
Definition adjust_root (T : table) (c : ctx) (r : tree) : tree :=
  if has_ctx (kind_of r) then adjust T (Some c) r else r.

(* visit_arg: a Name becomes a NEW ast.arg; anything else is inserted AS IS
   (not copied: the very object the caller passed) *)
Fixpoint arg_repl (n : nat) (l : list tree) : list tree * nat :=
  match l with
  | [] => ([], n)
  | r :: l' =>
    if is_name r
    then let (rs, n') := arg_repl (S n) l' in (Node n KArg None (label_of r) [] :: rs, n')
    else let (rs, n') := arg_repl n l' in (r :: rs, n')
  end.

(* visit_FunctionDef / visit_Attribute: the name is taken from a Name replacement *)
Definition rename (R : repls) (s : string) : string :=
  match find R s with
  | Some [r] => if is_name r then label_of r else s
  | _ => s
  end.

Section Children.
  Variable visit : nat -> tree -> list tree * nat.
  (* ast.NodeTransformer.generic_visit: every child is replaced by the (0, 1 or
     several) nodes its visit returns *)
  Fixpoint visit_children (n : nat) (l : list (field * tree)) : list (field * tree) * nat :=
    match l with
    | [] => ([], n)
    | (f, t) :: r =>
      let (ts, n1) := visit n t in
      let (rs, n2) := visit_children n1 r in
      (map (pair f) ts ++ rs, n2)
    end.
End Children.

Definition ctx_or_load (cx : option ctx) : ctx := match cx with Some c => c | None => Load end.

Fixpoint inst (T : table) (R : repls) (n : nat) (t : tree) {struct t} : list tree * nat :=
  match t with
  | Node i k cx s ch =>
    let generic := let (ch', n') := visit_children (inst T R) n ch in ([Node i k cx s ch'], n') in
    match k with
    | KName =>
      match find R s with
      | Some rs => let (cs, n') := copy_all n rs in (map (adjust_root T (ctx_or_load cx)) cs, n')
      | None => ([t], n)
      end
    | KKeyword =>
      match find R s with
      | Some rs => copy_all n rs
      | None => generic
      end
    | KArg =>
      match find R s with
      | Some rs => arg_repl n rs
      | None => ([t], n)
      end
    | KExpr =>
      (* visit_Expr: a placeholder standing as a statement is replaced by the
         replacement itself, not wrapped in Expr *)
      match ch with
      | [(_, (Node _ KName _ s' _) as v)] =>
        match find R s' with
        | Some _ => inst T R n v
        | None => generic
        end
      | _ => generic
      end
    | KFunctionDef | KAttribute =>
      let (ch', n') := visit_children (inst T R) n ch in ([Node i k cx (rename R s) ch'], n')
    | _ => generic
    end
  end.

(* ---------------- guards (decidable) ---------------- *)

(* local discipline of one handler at one incoming override *)
Definition step_ok (k : kind) (o : option ctx) (f : field) (a : act) : bool :=
  match pos_rule k f, a with
  | PConst _, ANot => true
  | PConst pc, AVis v => match apply_ovr v o with None => true | Some c' => ctx_beq c' pc end
  | PInherit, ANot => match o with None => true | Some _ => false end
  | PInherit, AVis v => opt_ctx_beq (apply_ovr v o) o
  end.

Definition kind_ok (T : table) (k : kind) (o : option ctx) : bool :=
  let h := lookup T k in
  (match o with Some _ => implb (has_ctx k) (h_apply h) | None => true end)
  && forallb (fun f => step_ok k o f (field_act h f)) (kind_fields k).

(* the overrides under which a node of kind k can legitimately be visited *)
(* statements (and with-items) never occur below an expression, so the
   adjuster -- which is only started on expressions -- reaches them, if at all,
   without an override *)
Definition is_stmt (k : kind) : bool :=
  match k with
  | KExpr | KFunctionDef | KAssign | KAugAssign | KAnnAssign | KFor | KAsyncFor | KDelete | KWithitem => true
  | _ => false
  end.
Definition ovr_states (k : kind) : list (option ctx) :=
  if has_ctx k then all_ovr_states else if is_stmt k then [None] else [None; Some Load].

(* "the adjuster is right on every class except those listed" *)
Definition table_clean (T : table) (ex : list kind) : bool :=
  forallb (fun k => mem_kind k ex || forallb (kind_ok T k) (ovr_states k)) all_kinds.

(* adjust T o t, with t standing at a position of context c, yields a
   consistent tree: the handlers met are locally right, a ctx-less node is at
   a Load position, and the parts the adjuster leaves alone are consistent *)
Fixpoint adjustable (T : table) (o : option ctx) (c : ctx) (t : tree) : bool :=
  match t with
  | Node _ k cx _ ch =>
    let h := lookup T k in
    kind_ok T k o
    && (if has_ctx k
        then match o with None => opt_ctx_beq cx (Some c) | Some _ => true end
        else ctx_beq c Load)
    && forallb (fun ft => match ft with
                          | (f, t') =>
                            mem_field f (kind_fields k) &&
                            match field_act h f with
                            | ANot => ctx_ok (child_pos k f c) t'
                            | AVis a => adjustable T (apply_ovr a o) (child_pos k f c) t'
                            end
                          end) ch
  end.

(* one replacement node substituted for a Name placeholder at a position c *)
Definition subst_ok (T : table) (c : ctx) (r : tree) : bool :=
  if has_ctx (kind_of r) then adjustable T (Some c) c r else ctx_ok c r.

(* all substitutions a template instantiation performs are fine *)
Fixpoint repl_ok (T : table) (R : repls) (c : ctx) (t : tree) : bool :=
  match t with
  | Node _ k cx s ch =>
    let children := forallb (fun ft => match ft with (f, t') => repl_ok T R (child_pos k f c) t' end) ch in
    match k with
    | KName => match find R s with Some rs => forallb (subst_ok T c) rs | None => true end
    | KKeyword => match find R s with Some rs => forallb (ctx_ok c) rs | None => children end
    | KArg => match find R s with Some rs => forallb (fun r => is_name r || ctx_ok c r) rs | None => true end
    | _ => children
    end
  end.

(* identities that end up in the result without being copied: the node's own
   ids plus, at an `arg` placeholder, the ready-made nodes the caller passed *)
Definition shared (rs : list tree) : list nat := flat_map ids (filter (fun r => negb (is_name r)) rs).

Fixpoint own (R : repls) (t : tree) : list nat :=
  match t with
  | Node i k _ s ch =>
    match k with
    | KName => i :: flat_map (fun ft => ids (snd ft)) ch
    | KKeyword =>
      match find R s with
      | Some _ => i :: flat_map (fun ft => ids (snd ft)) ch
      | None => i :: flat_map (fun ft => own R (snd ft)) ch
      end
    | KArg =>
      match find R s with
      | Some rs => i :: shared rs ++ flat_map (fun ft => ids (snd ft)) ch
      | None => i :: flat_map (fun ft => ids (snd ft)) ch
      end
    | _ => i :: flat_map (fun ft => own R (snd ft)) ch
    end
  end.

(* every `arg` placeholder receives names only (so visit_arg builds new nodes) *)
Fixpoint arg_discipline (R : repls) (t : tree) : bool :=
  match t with
  | Node _ k _ s ch =>
    (match k with
     | KArg => match find R s with Some rs => forallb is_name rs | None => true end
     | _ => true
     end) && forallb (fun ft => arg_discipline R (snd ft)) ch
  end.

(* a parsed template: distinct identities below n, consistent contexts *)
Definition template_ok (n : nat) (t : tree) : bool :=
  nodupb (ids t) && forallb (fun i => Nat.ltb i n) (ids t) && ctx_ok Load t && fields_wf t.
