(* C17: lemmas about the model in Replace.v *)
From Coq Require Import List String Bool Arith Lia.
Import ListNotations.
Require Import MV.Tmpl.Tree MV.Tmpl.Replace.

(* ---------- basics ---------- *)
Lemma tree_ind' (P : tree -> Prop) :
  (forall i k cx s ch, Forall (fun ft => P (snd ft)) ch -> P (Node i k cx s ch)) -> forall t, P t.
Proof.
  intros H. fix IH 1. intros [i k cx s ch]. apply H.
  induction ch as [|[f t] r IHr]; constructor; [apply IH | apply IHr].
Qed.

Lemma ctx_beq_eq a b : ctx_beq a b = true <-> a = b.
Proof. destruct a, b; simpl; split; congruence. Qed.
Lemma ctx_beq_refl a : ctx_beq a a = true.
Proof. destruct a; reflexivity. Qed.
Lemma opt_ctx_beq_eq a b : opt_ctx_beq a b = true <-> a = b.
Proof.
  destruct a, b; simpl; try (split; congruence).
  rewrite ctx_beq_eq. split; congruence.
Qed.
Lemma field_beq_eq a b : field_beq a b = true <-> a = b.
Proof. destruct a, b; simpl; split; congruence. Qed.
Lemma kind_beq_eq a b : kind_beq a b = true <-> a = b.
Proof. split; [apply internal_kind_dec_bl | apply internal_kind_dec_lb]. Qed.

Lemma mem_field_in f l : mem_field f l = true <-> In f l.
Proof.
  unfold mem_field. rewrite existsb_exists. split.
  - intros [x [Hin Hx]]. apply field_beq_eq in Hx. subst. exact Hin.
  - intros Hin. exists f. split; [exact Hin | apply field_beq_eq; reflexivity].
Qed.
Lemma mem_kind_in k l : mem_kind k l = true <-> In k l.
Proof.
  unfold mem_kind. rewrite existsb_exists. split.
  - intros [x [Hin Hx]]. apply kind_beq_eq in Hx. subst. exact Hin.
  - intros Hin. exists k. split; [exact Hin | apply kind_beq_eq; reflexivity].
Qed.
Lemma all_kinds_complete k : In k all_kinds.
Proof. destruct k; simpl; tauto. Qed.

Lemma NoDup_app_iff {A} (a b : list A) :
  NoDup (a ++ b) <-> NoDup a /\ NoDup b /\ (forall x, In x a -> In x b -> False).
Proof.
  induction a as [|x a IH]; simpl.
  - split; [intros H; repeat split; [constructor | exact H | tauto] | tauto].
  - split.
    + intros H. inversion H as [|? ? Hn Hd]; subst. apply IH in Hd as [Ha [Hb Hab]].
      repeat split.
      * constructor; [intros Hi; apply Hn; apply in_or_app; tauto | exact Ha].
      * exact Hb.
      * intros y [-> | Hy] Hyb; [apply Hn; apply in_or_app; tauto | eauto].
    + intros [Ha [Hb Hab]]. inversion Ha as [|? ? Hn Hd]; subst. constructor.
      * intros Hi. apply in_app_or in Hi as [Hi | Hi]; [tauto | eapply Hab; eauto].
      * apply IH. repeat split; [exact Hd | exact Hb | intros; eapply Hab; eauto].
Qed.

Lemma nodupb_NoDup l : nodupb l = true <-> NoDup l.
Proof.
  induction l as [|x l IH]; simpl.
  - split; [constructor | reflexivity].
  - rewrite andb_true_iff, negb_true_iff, IH. split.
    + intros [Hn Hd]. constructor; [|exact Hd]. intros Hin.
      assert (existsb (Nat.eqb x) l = true) as E
        by (apply existsb_exists; exists x; split; [exact Hin | apply Nat.eqb_refl]).
      congruence.
    + intros H. inversion H as [|? ? Hn Hd]; subst. split; [|exact Hd].
      destruct (existsb (Nat.eqb x) l) eqn:E; [|reflexivity].
      apply existsb_exists in E as [y [Hy Hxy]]. apply Nat.eqb_eq in Hxy. subst. tauto.
Qed.

(* ---------- ContextAdjuster ---------- *)
Theorem adjust_ctx_ok : forall T t o c,
  adjustable T o c t = true -> (o = None \/ o = Some c) -> ctx_ok c (adjust T o t) = true.
Proof.
  intros T t. induction t as [i k cx s ch IH] using tree_ind'. intros o c Ha Ho.
  simpl in Ha. simpl.
  apply andb_true_iff in Ha as [Ha Hch]. apply andb_true_iff in Ha as [Hk Hcx].
  unfold kind_ok in Hk. apply andb_true_iff in Hk as [Hap Hsteps].
  apply andb_true_iff. split.
  - destruct (has_ctx k) eqn:Hc.
    + destruct Ho as [-> | ->].
      * destruct (h_apply (lookup T k)); exact Hcx.
      * simpl in Hap. rewrite Hap. simpl. apply ctx_beq_refl.
    + exact Hcx.
  - apply forallb_forall. intros [f t'] Hin.
    apply in_map_iff in Hin as [[f0 t0] [Heq Hin0]]. inversion Heq; subst; clear Heq.
    rewrite forallb_forall in Hch. specialize (Hch _ Hin0). simpl in Hch.
    apply andb_true_iff in Hch as [Hmem Hact].
    rewrite Forall_forall in IH. specialize (IH _ Hin0). simpl in IH.
    rewrite forallb_forall in Hsteps. apply mem_field_in in Hmem. specialize (Hsteps _ Hmem).
    destruct (field_act (lookup T k) f) eqn:Hfa.
    + exact Hact.
    + apply IH; [exact Hact|].
      unfold step_ok in Hsteps. unfold child_pos. destruct (pos_rule k f).
      * destruct (apply_ovr a o); [right; f_equal; apply ctx_beq_eq; exact Hsteps | left; reflexivity].
      * apply opt_ctx_beq_eq in Hsteps. rewrite Hsteps. exact Ho.
Qed.

Lemma table_clean_kind_ok T ex :
  table_clean T ex = true ->
  forall k o, mem_kind k ex = false -> In o (ovr_states k) -> kind_ok T k o = true.
Proof.
  unfold table_clean. intros H k o Hk Ho.
  rewrite forallb_forall in H. specialize (H k (all_kinds_complete k)).
  rewrite Hk in H. simpl in H. rewrite forallb_forall in H. apply H. exact Ho.
Qed.

(* ---------- identities ---------- *)
Lemma flat_map_snd_map {A} (g : tree -> list A) (h : field * tree -> field * tree) l :
  (forall ft, In ft l -> g (snd (h ft)) = g (snd ft)) ->
  flat_map (fun ft => g (snd ft)) (map h l) = flat_map (fun ft => g (snd ft)) l.
Proof.
  induction l as [|x l IH]; simpl; intros H; [reflexivity|].
  rewrite H by (left; reflexivity). rewrite IH; [reflexivity|]. intros; apply H; right; assumption.
Qed.

Lemma ids_adjust T : forall t o, ids (adjust T o t) = ids t.
Proof.
  induction t as [i k cx s ch IH] using tree_ind'. intros o. simpl. f_equal.
  apply flat_map_snd_map. intros [f t'] Hin. rewrite Forall_forall in IH. specialize (IH _ Hin).
  simpl in *. destruct (field_act (lookup T k) f); [reflexivity | apply IH].
Qed.

Lemma size_pos t : 1 <= size t.
Proof. destruct t; simpl; lia. Qed.

Lemma ids_copy_children cp l :
  Forall (fun ft => forall n, ids (cp n (snd ft)) = seq n (size (snd ft))) l ->
  forall m, flat_map (fun ft => ids (snd ft)) (copy_children cp m l)
            = seq m (list_sum (map (fun ft => size (snd ft)) l)).
Proof.
  induction l as [|[f t] r IH]; intros H m; simpl; [reflexivity|].
  inversion H as [|? ? Hh Ht]; subst. simpl in Hh. rewrite Hh, IH by exact Ht.
  rewrite seq_app. reflexivity.
Qed.

Theorem ids_copy : forall t n, ids (copy n t) = seq n (size t).
Proof.
  induction t as [i k cx s ch IH] using tree_ind'. intros n. simpl. f_equal.
  apply ids_copy_children. exact IH.
Qed.

Lemma copy_all_ids : forall rs n,
  ids_of_list (fst (copy_all n rs)) = seq n (snd (copy_all n rs) - n) /\ n <= snd (copy_all n rs).
Proof.
  induction rs as [|r rs IH]; intros n; simpl.
  - rewrite Nat.sub_diag. split; [reflexivity | lia].
  - specialize (IH (n + size r)). destruct (copy_all (n + size r) rs) as [cs n'] eqn:E. simpl in *.
    destruct IH as [IH1 IH2]. unfold ids_of_list in *. simpl. rewrite ids_copy, IH1.
    pose proof (size_pos r). split; [|lia].
    replace (n' - n) with (size r + (n' - (n + size r))) by lia. rewrite seq_app. reflexivity.
Qed.

Lemma ids_map_adjust_root T c l : ids_of_list (map (adjust_root T c) l) = ids_of_list l.
Proof.
  unfold ids_of_list. induction l as [|x l IH]; simpl; [reflexivity|]. rewrite IH. f_equal.
  unfold adjust_root. destruct (has_ctx (kind_of x)); [apply ids_adjust | reflexivity].
Qed.

(* the post-condition of one visit *)
Definition post (src : list nat) (n : nat) (res : list tree * nat) : Prop :=
  NoDup (ids_of_list (fst res)) /\ n <= snd res /\
  forall i, In i (ids_of_list (fst res)) -> In i src \/ (n <= i < snd res).

Lemma post_weaken src src' n res : incl src src' -> post src n res -> post src' n res.
Proof.
  intros Hi [H1 [H2 H3]]. split; [exact H1|]. split; [exact H2|].
  intros i Hin. destruct (H3 i Hin) as [Hs | Hs]; [left; apply Hi; exact Hs | right; exact Hs].
Qed.

Lemma post_fresh n rs (l : list tree) :
  ids_of_list l = ids_of_list (fst (copy_all n rs)) ->
  forall src, post src n (l, snd (copy_all n rs)).
Proof.
  intros E src. destruct (copy_all_ids rs n) as [H1 H2]. unfold post. simpl. rewrite E, H1.
  split; [apply seq_NoDup|]. split; [exact H2|].
  intros i Hin. apply in_seq in Hin. right. lia.
Qed.

Lemma arg_repl_post : forall rs n,
  NoDup (shared rs) -> (forall i, In i (shared rs) -> i < n) -> post (shared rs) n (arg_repl n rs).
Proof.
  induction rs as [|r rs IH]; intros n Hnd Hlt.
  - unfold post; simpl. split; [constructor|]. split; [lia|]. intros i [].
  - simpl. unfold shared in *. simpl in *. destruct (is_name r) eqn:En; simpl in *.
    + specialize (IH (S n) Hnd (fun i Hi => Nat.lt_lt_succ_r _ _ (Hlt i Hi))).
      destruct (arg_repl (S n) rs) as [l n'] eqn:E. unfold post in *. simpl in *.
      destruct IH as [I1 [I2 I3]]. unfold ids_of_list in *. simpl.
      split; [|split].
      * constructor; [|exact I1].
        intros Hin. destruct (I3 n Hin) as [Hs | Hs]; [specialize (Hlt n Hs); lia | lia].
      * lia.
      * intros i [<- | H]; [right; lia|].
        destruct (I3 i H); [left; assumption | right; lia].
    + apply NoDup_app_iff in Hnd as [Hr [Hs Hd]].
      assert (Hlt' : forall i, In i (flat_map ids (filter (fun r0 => negb (is_name r0)) rs)) -> i < n)
        by (intros i Hi; apply Hlt; apply in_or_app; right; exact Hi).
      specialize (IH n Hs Hlt').
      destruct (arg_repl n rs) as [l n'] eqn:E. unfold post in *. simpl in *.
      destruct IH as [I1 [I2 I3]]. unfold ids_of_list in *. simpl.
      split; [|split].
      * apply NoDup_app_iff. split; [exact Hr|]. split; [exact I1|].
        intros x Hx Hy. destruct (I3 x Hy) as [Hz | Hz]; [eapply Hd; eauto|].
        assert (x < n) by (apply Hlt; apply in_or_app; left; exact Hx). lia.
      * exact I2.
      * intros i H. apply in_app_or in H as [H | H]; [left; apply in_or_app; left; exact H|].
        destruct (I3 i H); [left; apply in_or_app; right; assumption | right; assumption].
Qed.

Lemma ids_map_pair f ts : flat_map (fun ft : field * tree => ids (snd ft)) (map (pair f) ts) = ids_of_list ts.
Proof. unfold ids_of_list. induction ts; simpl; [reflexivity | rewrite IHts; reflexivity]. Qed.

Definition visit_spec (R : repls) (visit : nat -> tree -> list tree * nat) (t : tree) : Prop :=
  forall n, NoDup (own R t) -> (forall i, In i (own R t) -> i < n) -> post (own R t) n (visit n t).

Lemma children_post R visit : forall l,
  Forall (fun ft => visit_spec R visit (snd ft)) l ->
  forall n, NoDup (flat_map (fun ft => own R (snd ft)) l) ->
  (forall i, In i (flat_map (fun ft => own R (snd ft)) l) -> i < n) ->
  let res := visit_children visit n l in
  NoDup (flat_map (fun ft => ids (snd ft)) (fst res)) /\ n <= snd res /\
  forall i, In i (flat_map (fun ft => ids (snd ft)) (fst res)) ->
            In i (flat_map (fun ft => own R (snd ft)) l) \/ (n <= i < snd res).
Proof.
  induction l as [|[f t] r IH]; intros HF n Hnd Hlt; simpl.
  - split; [constructor|]. split; [lia|]. intros i [].
  - inversion HF as [|? ? Hh Ht]; subst. simpl in Hh, Hnd, Hlt.
    apply NoDup_app_iff in Hnd as [Hn1 [Hn2 Hdis]].
    assert (P1 := Hh n Hn1 (fun i Hi => Hlt i (in_or_app _ _ _ (or_introl Hi)))).
    destruct (visit n t) as [ts n1] eqn:E1. destruct P1 as [A1 [A2 A3]]. simpl in A1, A2, A3.
    assert (Hlt2 : forall i, In i (flat_map (fun ft => own R (snd ft)) r) -> i < n1).
    { intros i Hi. assert (i < n) by (apply Hlt; apply in_or_app; right; exact Hi). lia. }
    specialize (IH Ht n1 Hn2 Hlt2). simpl in IH.
    destruct (visit_children visit n1 r) as [rs n2] eqn:E2. simpl in *.
    destruct IH as [B1 [B2 B3]].
    rewrite flat_map_app, ids_map_pair.
    split; [|split].
    + apply NoDup_app_iff. split; [exact A1|]. split; [exact B1|].
      intros x Hx Hy. destruct (A3 x Hx) as [Hx1 | Hx1]; destruct (B3 x Hy) as [Hy1 | Hy1].
      * eapply Hdis; eauto.
      * assert (x < n) by (apply Hlt; apply in_or_app; left; exact Hx1). lia.
      * assert (x < n) by (apply Hlt; apply in_or_app; right; exact Hy1). lia.
      * lia.
    + lia.
    + intros i Hi. apply in_app_or in Hi as [Hi | Hi].
      * destruct (A3 i Hi); [left; apply in_or_app; left; assumption | right; lia].
      * destruct (B3 i Hi); [left; apply in_or_app; right; assumption | right; lia].
Qed.

(* a node rebuilt around its visited children *)
Lemma generic_post T R i k cx s s2 ch :
  own R (Node i k cx s ch) = i :: flat_map (fun ft => own R (snd ft)) ch ->
  Forall (fun ft => visit_spec R (inst T R) (snd ft)) ch ->
  forall n, NoDup (own R (Node i k cx s ch)) -> (forall j, In j (own R (Node i k cx s ch)) -> j < n) ->
  post (own R (Node i k cx s ch)) n
       (let (ch', n') := visit_children (inst T R) n ch in ([Node i k cx s2 ch'], n')).
Proof.
  intros Eo HF n Hnd Hlt. rewrite Eo in *. inversion Hnd as [|? ? Hni Hnd']; subst.
  pose proof (children_post R (inst T R) ch HF n Hnd' (fun j Hj => Hlt j (or_intror Hj))) as P.
  simpl in P. destruct (visit_children (inst T R) n ch) as [ch' n'] eqn:E. simpl in P.
  destruct P as [P1 [P2 P3]]. unfold post, ids_of_list. simpl. rewrite app_nil_r.
  split; [|split].
  - constructor; [|exact P1]. intros Hin. destruct (P3 i Hin) as [H | H]; [tauto|].
    assert (i < n) by (apply Hlt; left; reflexivity). lia.
  - exact P2.
  - intros j [<- | Hj]; [left; left; reflexivity|].
    destruct (P3 j Hj); [left; right; assumption | right; assumption].
Qed.

Lemma unvisited_post R t n :
  own R t = ids t -> NoDup (own R t) -> post (own R t) n ([t], n).
Proof.
  intros E Hnd. rewrite E in *. unfold post, ids_of_list. simpl. rewrite app_nil_r.
  split; [exact Hnd|]. split; [lia|]. intros i Hi. left. exact Hi.
Qed.

Theorem inst_post T R : forall t, visit_spec R (inst T R) t.
Proof.
  induction t as [i k cx s ch IH] using tree_ind'. unfold visit_spec. intros n Hnd Hlt.
  destruct k;
    try (apply (generic_post T R); [reflexivity | exact IH | exact Hnd | exact Hlt]).
  - (* Name *)
    simpl. destruct (find R s) as [rs|] eqn:Ef.
    + pose proof (post_fresh n rs (map (adjust_root T (ctx_or_load cx)) (fst (copy_all n rs)))
                             (ids_map_adjust_root _ _ _) (own R (Node i KName cx s ch))) as P.
      destruct (copy_all n rs) as [cs n']. exact P.
    + apply (unvisited_post R (Node i KName cx s ch) n); [reflexivity | exact Hnd].
  - (* Expr *)
    simpl inst.
    assert (G : post (own R (Node i KExpr cx s ch)) n
                  (let (ch', n') := visit_children (inst T R) n ch in ([Node i KExpr cx s ch'], n')))
      by (apply (generic_post T R); [reflexivity | exact IH | exact Hnd | exact Hlt]).
    destruct ch as [|[f v] rest]; [exact G|].
    destruct v as [i' k' cx' s' ch'']. destruct k'; destruct rest; try exact G.
    destruct (find R s') eqn:Ef; [|exact G].
    inversion IH as [|? ? Hv _]; subst. simpl in Hv.
    simpl in Hnd, Hlt. rewrite app_nil_r in Hnd, Hlt.
    assert (Hnd2 : NoDup (own R (Node i' KName cx' s' ch''))) by (inversion Hnd; assumption).
    assert (Hlt2 : forall j, In j (own R (Node i' KName cx' s' ch'')) -> j < n)
      by (intros j Hj; apply Hlt; right; exact Hj).
    apply (post_weaken (own R (Node i' KName cx' s' ch''))); [|exact (Hv n Hnd2 Hlt2)].
    intros x Hx. simpl. rewrite app_nil_r. right. exact Hx.
  - (* keyword *)
    simpl. destruct (find R s) as [rs|] eqn:Ef.
    + pose proof (post_fresh n rs (fst (copy_all n rs)) eq_refl (own R (Node i KKeyword cx s ch))) as P.
      simpl in P. rewrite Ef in P. destruct (copy_all n rs) as [cs n']. exact P.
    + pose proof (generic_post T R i KKeyword cx s s ch) as G. simpl in G. rewrite Ef in G.
      apply G; [reflexivity | exact IH | | ]; simpl in Hnd, Hlt; rewrite Ef in Hnd, Hlt; assumption.
  - (* arg *)
    simpl. simpl in Hnd, Hlt. destruct (find R s) as [rs|] eqn:Ef.
    + inversion Hnd as [|? ? Hni Hnd']; subst. apply NoDup_app_iff in Hnd' as [Hs _].
      eapply post_weaken; [|apply arg_repl_post; [exact Hs|]].
      * intros x Hx. right. apply in_or_app. left. exact Hx.
      * intros j Hj. apply Hlt. right. apply in_or_app. left. exact Hj.
    + unfold post, ids_of_list. simpl. rewrite app_nil_r.
      split; [exact Hnd|]. split; [lia|]. intros j Hj. left. exact Hj.
Qed.

Lemma shared_names rs : forallb is_name rs = true -> shared rs = [].
Proof.
  unfold shared. induction rs as [|r rs IH]; simpl; [reflexivity|].
  intros H. apply andb_true_iff in H as [H1 H2]. rewrite H1. simpl. apply IH. exact H2.
Qed.

Lemma flat_map_ext_in' {A B} (g h : A -> list B) l :
  (forall x, In x l -> g x = h x) -> flat_map g l = flat_map h l.
Proof.
  induction l as [|x l IH]; simpl; intros H; [reflexivity|].
  rewrite H by (left; reflexivity). rewrite IH; [reflexivity | intros; apply H; right; assumption].
Qed.

Lemma own_discipline R : forall t, arg_discipline R t = true -> own R t = ids t.
Proof.
  induction t as [i k cx s ch IH] using tree_ind'. intros H. simpl in H.
  apply andb_true_iff in H as [Hk Hch].
  assert (E : flat_map (fun ft => own R (snd ft)) ch = flat_map (fun ft => ids (snd ft)) ch).
  { apply flat_map_ext_in'. intros ft Hin. rewrite Forall_forall in IH. apply IH; [exact Hin|].
    rewrite forallb_forall in Hch. apply Hch. exact Hin. }
  destruct k; simpl; try rewrite E; try reflexivity.
  - destruct (find R s); [reflexivity | try rewrite E; reflexivity].
  - destruct (find R s); [|reflexivity]. rewrite shared_names by exact Hk. reflexivity.
Qed.

Theorem inst_no_sharing T R t n :
  NoDup (own R t) -> (forall i, In i (own R t) -> i < n) ->
  NoDup (ids_of_list (fst (inst T R n t))) /\ n <= snd (inst T R n t) /\
  forall i, In i (ids_of_list (fst (inst T R n t))) -> In i (own R t) \/ n <= i < snd (inst T R n t).
Proof. intros H1 H2. exact (inst_post T R t n H1 H2). Qed.

Corollary inst_no_sharing_names T R t n :
  arg_discipline R t = true -> NoDup (ids t) -> (forall i, In i (ids t) -> i < n) ->
  NoDup (ids_of_list (fst (inst T R n t))) /\
  forall i, In i (ids_of_list (fst (inst T R n t))) -> In i (ids t) \/ n <= i.
Proof.
  intros Hd H1 H2. rewrite <- (own_discipline R t Hd) in *.
  destruct (inst_no_sharing T R t n H1 H2) as [A [B C]]. split; [exact A|].
  intros i Hi. destruct (C i Hi); [left; assumption | right; lia].
Qed.

(* ---------- contexts through instantiation ---------- *)
Lemma kind_of_copy n t : kind_of (copy n t) = kind_of t.
Proof. destruct t; reflexivity. Qed.

Lemma forallb_copy_children (P Q : field -> tree -> bool) cp l :
  Forall (fun ft => forall m, P (fst ft) (cp m (snd ft)) = Q (fst ft) (snd ft)) l ->
  forall m, forallb (fun ft => match ft with (f, t') => P f t' end) (copy_children cp m l)
            = forallb (fun ft => match ft with (f, t') => Q f t' end) l.
Proof.
  induction l as [|[f t] r IH]; intros H m; simpl; [reflexivity|].
  inversion H as [|? ? Hh Ht]; subst. simpl in Hh. rewrite Hh, IH by exact Ht. reflexivity.
Qed.

Lemma ctx_ok_copy : forall t c n, ctx_ok c (copy n t) = ctx_ok c t.
Proof.
  induction t as [i k cx s ch IH] using tree_ind'. intros c n. simpl.
  f_equal; [destruct (has_ctx k); reflexivity|].
  apply (forallb_copy_children (fun f t' => ctx_ok (child_pos k f c) t') (fun f t' => ctx_ok (child_pos k f c) t')).
  eapply Forall_impl; [|exact IH]. intros ft H m. apply H.
Qed.

Lemma adjustable_copy T : forall t o c n, adjustable T o c (copy n t) = adjustable T o c t.
Proof.
  induction t as [i k cx s ch IH] using tree_ind'. intros o c n. simpl.
  f_equal; [destruct (has_ctx k); reflexivity|].
  apply (forallb_copy_children
           (fun f t' => mem_field f (kind_fields k) &&
                        match field_act (lookup T k) f with
                        | ANot => ctx_ok (child_pos k f c) t'
                        | AVis a => adjustable T (apply_ovr a o) (child_pos k f c) t' end)
           (fun f t' => mem_field f (kind_fields k) &&
                        match field_act (lookup T k) f with
                        | ANot => ctx_ok (child_pos k f c) t'
                        | AVis a => adjustable T (apply_ovr a o) (child_pos k f c) t' end)).
  eapply Forall_impl; [|exact IH]. intros ft H m. simpl. f_equal.
  destruct (field_act (lookup T k) (fst ft)); [apply ctx_ok_copy | apply H].
Qed.

Lemma copy_all_in : forall rs n x, In x (fst (copy_all n rs)) -> exists m r, In r rs /\ x = copy m r.
Proof.
  induction rs as [|r rs IH]; intros n x H; simpl in H; [destruct H|].
  destruct (copy_all (n + size r) rs) as [cs n'] eqn:E. simpl in H. destruct H as [<- | H].
  - exists n, r. split; [left; reflexivity | reflexivity].
  - specialize (IH (n + size r) x). rewrite E in IH. destruct (IH H) as [m [r' [Hin Hx]]].
    exists m, r'. split; [right; exact Hin | exact Hx].
Qed.

Lemma arg_repl_in : forall rs n x, In x (fst (arg_repl n rs)) ->
  (exists m s, x = Node m KArg None s []) \/ (In x rs /\ is_name x = false).
Proof.
  induction rs as [|r rs IH]; intros n x H; simpl in H; [destruct H|].
  destruct (is_name r) eqn:En.
  - destruct (arg_repl (S n) rs) as [l n'] eqn:E. simpl in H. destruct H as [<- | H].
    + left. eauto.
    + specialize (IH (S n) x). rewrite E in IH. destruct (IH H) as [A | [A B]]; [left; exact A | right; split; [right; exact A | exact B]].
  - destruct (arg_repl n rs) as [l n'] eqn:E. simpl in H. destruct H as [<- | H].
    + right. split; [left; reflexivity | exact En].
    + specialize (IH n x). rewrite E in IH. destruct (IH H) as [A | [A B]]; [left; exact A | right; split; [right; exact A | exact B]].
Qed.

Definition ctx_spec (T : table) (R : repls) (visit : nat -> tree -> list tree * nat) (t : tree) : Prop :=
  forall c n, ctx_ok c t = true -> repl_ok T R c t = true -> forallb (ctx_ok c) (fst (visit n t)) = true.

Lemma children_ctx T R visit k c : forall l,
  Forall (fun ft => ctx_spec T R visit (snd ft)) l ->
  forall n,
  forallb (fun ft => match ft with (f, t') => ctx_ok (child_pos k f c) t' end) l = true ->
  forallb (fun ft => match ft with (f, t') => repl_ok T R (child_pos k f c) t' end) l = true ->
  forallb (fun ft => match ft with (f, t') => ctx_ok (child_pos k f c) t' end)
          (fst (visit_children visit n l)) = true.
Proof.
  induction l as [|[f t] r IH]; intros HF n H1 H2; simpl; [reflexivity|].
  inversion HF as [|? ? Hh Ht]; subst. simpl in Hh, H1, H2.
  apply andb_true_iff in H1 as [H1a H1b]. apply andb_true_iff in H2 as [H2a H2b].
  specialize (Hh (child_pos k f c) n H1a H2a).
  destruct (visit n t) as [ts n1] eqn:E1. simpl in Hh.
  specialize (IH Ht n1 H1b H2b). destruct (visit_children visit n1 r) as [rs n2] eqn:E2. simpl in *.
  rewrite forallb_app. apply andb_true_iff. split; [|exact IH].
  rewrite forallb_forall in *. intros [f' t'] Hin. apply in_map_iff in Hin as [x [Hx Hin]].
  inversion Hx; subst. apply Hh. exact Hin.
Qed.

Lemma generic_ctx T R i k cx s s2 ch :
  Forall (fun ft => ctx_spec T R (inst T R) (snd ft)) ch ->
  forall c n, ctx_ok c (Node i k cx s ch) = true ->
  forallb (fun ft => match ft with (f, t') => repl_ok T R (child_pos k f c) t' end) ch = true ->
  forallb (ctx_ok c)
    (fst (let (ch', n') := visit_children (inst T R) n ch in ([Node i k cx s2 ch'], n'))) = true.
Proof.
  intros HF c n Hc Hr. simpl in Hc. apply andb_true_iff in Hc as [Hc1 Hc2].
  pose proof (children_ctx T R (inst T R) k c ch HF n Hc2 Hr) as P.
  destruct (visit_children (inst T R) n ch) as [ch' n']. simpl in *.
  rewrite Hc1, P. reflexivity.
Qed.

Theorem inst_ctx_ok T R : forall t, ctx_spec T R (inst T R) t.
Proof.
  induction t as [i k cx s ch IH] using tree_ind'. unfold ctx_spec. intros c n Hc Hr.
  destruct k;
    try (first [exact (generic_ctx T R i _ cx s s ch IH c n Hc Hr)
               | exact (generic_ctx T R i _ cx s (rename R s) ch IH c n Hc Hr)]).
  - (* Name *)
    simpl in *. destruct (find R s) as [rs|] eqn:Ef.
    + apply andb_true_iff in Hc as [Hcx _]. apply opt_ctx_beq_eq in Hcx. subst cx. simpl.
      pose proof (copy_all_in rs n) as Hin. destruct (copy_all n rs) as [cs n']. simpl in *.
      apply forallb_forall. intros x Hx. apply in_map_iff in Hx as [y [<- Hy]].
      destruct (Hin y Hy) as [m [r [Hr1 ->]]].
      rewrite forallb_forall in Hr. specialize (Hr r Hr1). unfold subst_ok in Hr. unfold adjust_root.
      rewrite kind_of_copy. destruct (has_ctx (kind_of r)).
      * apply adjust_ctx_ok; [rewrite adjustable_copy; exact Hr | right; reflexivity].
      * rewrite ctx_ok_copy. exact Hr.
    + simpl. rewrite Hc. reflexivity.
  - (* Expr *)
    assert (G : forallb (ctx_ok c)
              (fst (let (ch', n') := visit_children (inst T R) n ch in ([Node i KExpr cx s ch'], n'))) = true)
      by (exact (generic_ctx T R i _ cx s s ch IH c n Hc Hr)).
    simpl inst. destruct ch as [|[f v] rest]; [exact G|].
    destruct v as [i' k' cx' s' ch'']. destruct k'; destruct rest; try exact G.
    destruct (find R s') eqn:Ef; [|exact G].
    inversion IH as [|? ? Hv _]; subst. simpl in Hv.
    simpl in Hc. apply andb_true_iff in Hc as [Hc1 Hc2]. apply ctx_beq_eq in Hc1. subst c.
    apply Hv.
    + simpl. simpl in Hc2. rewrite andb_true_r in Hc2. exact Hc2.
    + simpl in Hr. rewrite andb_true_r in Hr. exact Hr.
  - (* keyword *)
    simpl in *. destruct (find R s) as [rs|] eqn:Ef.
    + pose proof (copy_all_in rs n) as Hin. destruct (copy_all n rs) as [cs n']. simpl in *.
      apply forallb_forall. intros x Hx. destruct (Hin x Hx) as [m [r [Hr1 ->]]].
      rewrite ctx_ok_copy. rewrite forallb_forall in Hr. apply Hr. exact Hr1.
    + apply (generic_ctx T R i KKeyword cx s s ch IH c n); [simpl; exact Hc | exact Hr].
  - (* arg *)
    simpl in *. destruct (find R s) as [rs|] eqn:Ef.
    + apply andb_true_iff in Hc as [Hc1 _].
      pose proof (arg_repl_in rs n) as Hin. destruct (arg_repl n rs) as [l n']. simpl in *.
      apply forallb_forall. intros x Hx. destruct (Hin x Hx) as [[m [s0 ->]] | [Hx1 Hx2]].
      * simpl. rewrite Hc1. reflexivity.
      * rewrite forallb_forall in Hr. specialize (Hr x Hx1). rewrite Hx2 in Hr. exact Hr.
    + simpl. rewrite Hc. reflexivity.
Qed.

(* ---------- a template satisfying the discipline, instantiated ---------- *)
Theorem template_instantiate T R n t m :
  template_ok n t = true -> n <= m ->
  arg_discipline R t = true -> repl_ok T R Load t = true ->
  NoDup (ids_of_list (fst (inst T R m t))) /\
  (forall i, In i (ids_of_list (fst (inst T R m t))) -> In i (ids t) \/ m <= i) /\
  forallb (ctx_ok Load) (fst (inst T R m t)) = true.
Proof.
  unfold template_ok. intros H Hnm Hd Hr.
  apply andb_true_iff in H as [H Hf]. apply andb_true_iff in H as [H Hc]. apply andb_true_iff in H as [Hn Hb].
  apply nodupb_NoDup in Hn. rewrite forallb_forall in Hb.
  assert (Hlt : forall i, In i (ids t) -> i < m).
  { intros i Hi. specialize (Hb i Hi). apply Nat.ltb_lt in Hb. lia. }
  destruct (inst_no_sharing_names T R t m Hd Hn Hlt) as [A B].
  split; [exact A|]. split; [exact B|]. apply inst_ctx_ok; assumption.
Qed.
