(* C17: syntax trees with node identities (model side of Python `ast` trees).

   A node is  Node id kind ctx label children :
     id       the identity of the Python object (two occurrences of the same
              object carry the same id); operator / context singletons
              (ast.Load(), ast.Add() ...) are not nodes
     kind     the AST class
     ctx      the value of the `ctx` attribute (None: unset / absent)
     label    Name.id, Attribute.attr, keyword.arg, arg.arg, FunctionDef.name
     children the child nodes in `_fields` order, list-valued fields flattened,
              each tagged with the field it sits in

   pos_rule / child_pos is the SPEC side (S): which expression context Python
   requires at each position (validated against CPython's own AST validator,
   `compile(tree)`, by the correspondence harness). *)
From Coq Require Import List String Bool Arith.
Import ListNotations.

Inductive ctx := Load | Store | Del.

Inductive kind :=
  (* kinds that carry a ctx *)
  | KName | KAttribute | KSubscript | KTuple | KList | KStarred
  (* other expressions *)
  | KCall | KDict | KLambda | KNamedExpr | KBoolOp | KBinOp | KUnaryOp | KIfExp | KSet
  | KListComp | KSetComp | KDictComp | KGeneratorExp | KAwait | KYield | KYieldFrom
  | KCompare | KFormattedValue | KJoinedStr | KConstant | KSlice
  (* non-expressions that matter to templates / positions *)
  | KComprehension | KExpr | KKeyword | KArg | KFunctionDef
  | KAssign | KAugAssign | KAnnAssign | KFor | KAsyncFor | KDelete | KWithitem
  | KOther.

Inductive field := FValue | FSlice | FElts | FTarget | FTargets | FOptVars | FOther.

Inductive tree := Node (id : nat) (k : kind) (cx : option ctx) (s : string) (ch : list (field * tree)).

Scheme Equality for ctx.
Scheme Equality for kind.
Scheme Equality for field.

Definition all_ctx : list ctx := [Load; Store; Del].
Definition all_ovr_states : list (option ctx) := [None; Some Load; Some Store; Some Del].
Definition all_kinds : list kind :=
  [KName; KAttribute; KSubscript; KTuple; KList; KStarred;
   KCall; KDict; KLambda; KNamedExpr; KBoolOp; KBinOp; KUnaryOp; KIfExp; KSet;
   KListComp; KSetComp; KDictComp; KGeneratorExp; KAwait; KYield; KYieldFrom;
   KCompare; KFormattedValue; KJoinedStr; KConstant; KSlice;
   KComprehension; KExpr; KKeyword; KArg; KFunctionDef;
   KAssign; KAugAssign; KAnnAssign; KFor; KAsyncFor; KDelete; KWithitem; KOther].
Definition all_fields : list field := [FValue; FSlice; FElts; FTarget; FTargets; FOptVars; FOther].

Definition has_ctx (k : kind) : bool :=
  match k with
  | KName | KAttribute | KSubscript | KTuple | KList | KStarred => true
  | _ => false
  end.

(* fields a node of a ctx-carrying kind can have (the others: any) *)
Definition kind_fields (k : kind) : list field :=
  match k with
  | KName => []
  | KAttribute => [FValue]
  | KSubscript => [FValue; FSlice]
  | KTuple | KList => [FElts]
  | KStarred => [FValue]
  | _ => all_fields
  end.

Definition mem_field (f : field) (l : list field) : bool := existsb (field_beq f) l.
Definition mem_kind (k : kind) (l : list kind) : bool := existsb (kind_beq k) l.

Definition opt_ctx_beq (a b : option ctx) : bool :=
  match a, b with
  | None, None => true
  | Some x, Some y => ctx_beq x y
  | _, _ => false
  end.

(* ---- S: the context Python requires at a position ---- *)
Inductive pos := PConst (c : ctx) | PInherit.

Definition pos_rule (k : kind) (f : field) : pos :=
  match k, f with
  | KTuple, FElts | KList, FElts => PInherit
  | KStarred, FValue => PInherit
  | KNamedExpr, FTarget => PConst Store
  | KComprehension, FTarget => PConst Store
  | KAssign, FTargets => PConst Store
  | KDelete, FTargets => PConst Del
  | KFor, FTarget | KAsyncFor, FTarget | KAugAssign, FTarget | KAnnAssign, FTarget => PConst Store
  | KWithitem, FOptVars => PConst Store
  | _, _ => PConst Load
  end.

Definition child_pos (k : kind) (f : field) (c : ctx) : ctx :=
  match pos_rule k f with PConst c' => c' | PInherit => c end.

(* every ctx-carrying node has the ctx of its position; a node that cannot
   carry a ctx only stands in a Load position (CPython: "expression which
   can't be assigned to in Store context").  Non-expression nodes sit, by
   convention, at Load positions. *)
Fixpoint ctx_ok (c : ctx) (t : tree) : bool :=
  match t with
  | Node _ k cx _ ch =>
    (if has_ctx k then opt_ctx_beq cx (Some c) else ctx_beq c Load)
    && forallb (fun ft => match ft with (f, t') => ctx_ok (child_pos k f c) t' end) ch
  end.

Definition kind_of (t : tree) : kind := match t with Node _ k _ _ _ => k end.
Definition label_of (t : tree) : string := match t with Node _ _ _ s _ => s end.
Definition id_of (t : tree) : nat := match t with Node i _ _ _ _ => i end.
Definition cx_of (t : tree) : option ctx := match t with Node _ _ cx _ _ => cx end.
Definition children_of (t : tree) : list (field * tree) := match t with Node _ _ _ _ ch => ch end.

Fixpoint ids (t : tree) : list nat :=
  match t with Node i _ _ _ ch => i :: flat_map (fun ft => ids (snd ft)) ch end.

Fixpoint size (t : tree) : nat :=
  match t with Node _ _ _ _ ch => S (list_sum (map (fun ft => size (snd ft)) ch)) end.

Definition ids_of_list (l : list tree) : list nat := flat_map ids l.

Fixpoint fields_wf (t : tree) : bool :=
  match t with
  | Node _ k _ _ ch =>
    forallb (fun ft => match ft with (f, t') => mem_field f (kind_fields k) && fields_wf t' end) ch
  end.

Fixpoint nodupb (l : list nat) : bool :=
  match l with
  | [] => true
  | x :: r => negb (existsb (Nat.eqb x) r) && nodupb r
  end.
