(* C15: the lambda selection never returns a lambda other than the one that created the function. *)
From Coq Require Import List Arith Bool Lia.
Import ListNotations.
Require Import MV.Lexer.LambdaSyntax MV.Lexer.LambdaSel.

Lemma length1 : forall (A : Type) (l : list A), length l = 1 -> exists x, l = [x].
Proof. intros A [|x [|y r]] H; simpl in H; try discriminate. eauto. Qed.

Lemma perform_found : forall c a cands matches x,
  rule_ok (c, a) = true -> holds c cands matches = true -> perform a cands matches = Found x ->
  cands = [x] \/ matches = [x].
Proof.
  intros c a cands matches x OK H P.
  destruct a as [l|l|l|]; simpl in P; try discriminate.
  - destruct (pick l cands matches) as [|y [|z r]] eqn:E; try discriminate. inversion P. subst.
    destruct l; simpl in E; auto.
  - destruct c as [l' n|l' n|l'|l'|]; simpl in OK; try discriminate.
    destruct n as [|[|n]]; try discriminate.
    assert (l' = l) by (destruct l', l; try discriminate; reflexivity). subst l'.
    simpl in H. apply Nat.eqb_eq in H. destruct (length1 _ _ H) as [y Hy]. rewrite Hy in P. inversion P. subst.
    destruct l; simpl in Hy; auto.
  - destruct c as [l' n|l' n|l'|l'|]; simpl in OK; try discriminate.
    destruct n as [|[|n]]; try discriminate.
    assert (l' = l) by (destruct l', l; try discriminate; reflexivity). subst l'.
    simpl in H. apply Nat.eqb_eq in H. destruct (length1 _ _ H) as [y Hy]. rewrite Hy in P. simpl in P. inversion P. subst.
    destruct l; simpl in Hy; auto.
Qed.

Lemma apply_rules_found : forall rules cands matches x,
  rules_ok rules = true -> apply_rules rules cands matches = Found x -> cands = [x] \/ matches = [x].
Proof.
  induction rules as [|[c a] r IH]; intros cands matches x OK H; simpl in *; try discriminate.
  apply andb_true_iff in OK. destruct OK as [O1 O2].
  destruct (holds c cands matches) eqn:E; eauto using perform_found.
Qed.

Lemma shortlist_complete : forall nodes d n, sorted nodes = true -> In n nodes -> fst n <= d -> In n (shortlist nodes d).
Proof.
  induction nodes as [|a r IH]; intros d n S I L; simpl in *; [tauto|].
  assert (Sr: sorted r = true) by (destruct r; auto; apply andb_true_iff in S; tauto).
  destruct I as [->|I].
  - apply Nat.leb_le in L. rewrite L. left. reflexivity.
  - assert (fst a <= fst n).
    { clear IH L. revert a S Sr. induction r as [|b r IHr]; intros a S Sr; [destruct I|].
      apply andb_true_iff in S. destruct S as [S1 S2]. apply Nat.leb_le in S1. destruct I as [->|I]; auto.
      assert (sorted r = true) by (simpl in Sr; destruct r; auto; apply andb_true_iff in Sr; tauto).
      specialize (IHr I b Sr H). lia. }
    assert (E: fst a <=? d = true) by (apply Nat.leb_le; lia). rewrite E. right. auto.
Qed.

Lemma sig_match_own : forall comps s, comps_complete comps = true \/ s_posonly s = [] ->
  sig_match comps (spec_of s) s = true.
Proof.
  intros comps s H. unfold sig_match. apply forallb_forall. intros c I.
  assert (E: forall a, names_eqb a a = true) by (intros; unfold names_eqb; destruct (list_eq_dec Nat.eq_dec a a); congruence).
  destruct c; simpl; auto.
  destruct H as [H|H].
  - unfold comps_complete in H. rewrite forallb_forall in H. specialize (H _ I). discriminate.
  - rewrite H. simpl. apply E.
Qed.

(* what is returned is a candidate *)
Theorem select_found_is_candidate : forall R ops comps nodes d spec c,
  rules_ok R = true -> select R ops comps nodes d spec = Found c ->
  In c (lambda_nodes nodes d) /\ spans ops d c = true.
Proof.
  intros R ops comps nodes d spec c OK H. unfold select in H.
  apply apply_rules_found in H; auto.
  assert (In c (filter (spans ops d) (lambda_nodes nodes d))).
  { destruct H as [H|H].
    - rewrite H. left. reflexivity.
    - assert (I: In c [c]) by (left; reflexivity). rewrite <- H in I. apply filter_In in I. tauto. }
  apply filter_In in H0. exact H0.
Qed.

Theorem never_substituted : forall R ops comps nodes d ln ls t c,
  rules_ok R = true -> span_ok ops = true -> sorted nodes = true ->
  In (ln, ls) nodes -> In t ls -> ln <= d -> l_min t <= d <= l_max t ->
  comps_complete comps = true \/ s_posonly (l_sig t) = [] ->
  select R ops comps nodes d (spec_of (l_sig t)) = Found c -> c = t.
Proof.
  intros R ops comps nodes d ln ls t c OK SO SN IN IT LN SP CC H. unfold select in H.
  apply apply_rules_found in H; auto.
  assert (T1: In t (filter (spans ops d) (lambda_nodes nodes d))).
  { apply filter_In. split.
    - unfold lambda_nodes. apply in_flat_map. exists (ln, ls). split; auto.
      apply shortlist_complete; auto.
    - destruct ops as [[|] [|]]; try discriminate. unfold spans. simpl.
      apply andb_true_iff. split; apply Nat.leb_le; lia. }
  destruct H as [H|H].
  - rewrite H in T1. destruct T1 as [T1|[]]. auto.
  - assert (T2: In t (filter (fun l => sig_match comps (spec_of (l_sig t)) (l_sig l)) (filter (spans ops d) (lambda_nodes nodes d)))).
    { apply filter_In. split; auto. apply sig_match_own; auto. }
    rewrite H in T2. destruct T2 as [T2|[]]. auto.
Qed.

(* ---- the selection on a file: line-faithful parsing ---- *)
Lemma shift_lam_0 : forall l, shift_lam 0 l = l.
Proof. intros [i a b s]. unfold shift_lam. simpl. rewrite !Nat.sub_0_r. reflexivity. Qed.

Lemma shift_nodes_0 : forall nodes, map (shift_node 0) nodes = nodes.
Proof.
  induction nodes as [|[ln ls] r IH]; simpl; auto. rewrite IH. unfold shift_node. simpl. rewrite Nat.sub_0_r.
  f_equal. f_equal. clear. induction ls as [|l ls IH]; simpl; auto. rewrite shift_lam_0, IH. reflexivity.
Qed.

Lemma line_shift_ok : forall n lead, norm_ok n = true -> line_shift n lead = 0.
Proof. intros [| | |] lead H; simpl in *; try discriminate; reflexivity. Qed.

Lemma select_in_file_faithful : forall R ops comps norm lead nodes d spec,
  norm_ok norm = true -> select_in_file R ops comps norm lead nodes d spec = select R ops comps nodes d spec.
Proof. intros. unfold select_in_file. rewrite line_shift_ok by assumption. rewrite shift_nodes_0. reflexivity. Qed.

Theorem never_substituted_in_file : forall R ops comps norm lead nodes d ln ls t c,
  rules_ok R = true -> span_ok ops = true -> norm_ok norm = true -> sorted nodes = true ->
  In (ln, ls) nodes -> In t ls -> ln <= d -> l_min t <= d <= l_max t ->
  comps_complete comps = true \/ s_posonly (l_sig t) = [] ->
  select_in_file R ops comps norm lead nodes d (spec_of (l_sig t)) = Found c -> c = t.
Proof.
  intros R ops comps norm lead nodes d ln ls t c OK SO NO SN IN IT LN SP CC H.
  rewrite select_in_file_faithful in H by assumption. eapply never_substituted; eauto.
Qed.
