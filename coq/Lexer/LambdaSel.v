(* C15, hand model (H) of the selection logic of parser._parse_lambda, interpreting the generated
   tables (Generated/C15_gen.v): the top-level statements up to the definition line are searched,
   every lambda in them whose line span contains the definition line is a candidate, then the decision
   rules (one candidate / none / narrowing by signature) are applied in order.
   A lambda is (identity, first line, last line, signature); a signature is five lists of names
   (positional-only, positional, *vararg, **kwarg, keyword-only), names are numbers.  No proofs in this file. *)
From Coq Require Import List Arith Bool.
Import ListNotations.
Require Import MV.Lexer.LambdaSyntax.

Record sigt : Set := mksig { s_posonly : list nat; s_args : list nat; s_vararg : list nat; s_kwarg : list nat; s_kwonly : list nat }.
(* what inspect.getfullargspec reports for a function with that signature: positional-only names are part of args *)
Definition spec_of (s : sigt) : sigt := mksig [] (s_posonly s ++ s_args s) (s_vararg s) (s_kwarg s) (s_kwonly s).
Record lam : Set := mklam { l_id : nat; l_min : nat; l_max : nat; l_sig : sigt }.
Definition node : Set := (nat * list lam)%type.      (* lineno of a top-level statement, its lambdas in walk order *)

Definition names_eqb (a b : list nat) : bool := if list_eq_dec Nat.eq_dec a b then true else false.
Definition comp_eqb (c : component) (a b : sigt) : bool :=
  match c with
  | CompArgs => names_eqb (s_args a) (s_args b)
  | CompArgsPos => names_eqb (s_posonly a ++ s_args a) (s_args b)
  | CompVararg => names_eqb (s_vararg a) (s_vararg b)
  | CompKwarg => names_eqb (s_kwarg a) (s_kwarg b)
  | CompKwonly => names_eqb (s_kwonly a) (s_kwonly b)
  end.
Definition sig_match (comps : list component) (spec : sigt) (s : sigt) : bool :=
  forallb (fun c => comp_eqb c s spec) comps.

Definition cmp (o : cmpop) (a b : nat) : bool := match o with OpLe => a <=? b | OpLt => a <? b end.
Definition spans (ops : cmpop * cmpop) (d : nat) (l : lam) : bool :=
  cmp (fst ops) (l_min l) d && cmp (snd ops) d (l_max l).

(* for node in all_nodes: if node.lineno <= def_line: search_nodes.append(node) else: break *)
Fixpoint shortlist (nodes : list node) (d : nat) : list node :=
  match nodes with
  | n :: r => if fst n <=? d then n :: shortlist r d else []
  | [] => []
  end.
Definition lambda_nodes (nodes : list node) (d : nat) : list lam := flat_map snd (shortlist nodes d).

Inductive result : Set := Found (l : lam) | Raised | Crashed.

Definition pick (l : lst) (cands matches : list lam) : list lam := match l with Cands => cands | Matches => matches end.
Definition holds (c : cond) (cands matches : list lam) : bool :=
  match c with
  | CLenEq l n => length (pick l cands matches) =? n
  | CLenGe l n => n <=? length (pick l cands matches)
  | CEmpty l => match pick l cands matches with [] => true | _ => false end
  | CNonEmpty l => match pick l cands matches with [] => false | _ => true end
  | CTrue => true
  end.
Definition perform (a : action) (cands matches : list lam) : result :=
  match a with
  | ARetOnly l => match pick l cands matches with [x] => Found x | _ => Crashed end
  | ARetFirst l => match pick l cands matches with x :: _ => Found x | [] => Crashed end
  | ARetLast l => match rev (pick l cands matches) with x :: _ => Found x | [] => Crashed end
  | ARaise => Raised
  end.
Fixpoint apply_rules (rules : list rule) (cands matches : list lam) : result :=
  match rules with
  | (c, a) :: r => if holds c cands matches then perform a cands matches else apply_rules r cands matches
  | [] => Crashed
  end.

Definition select (rules : list rule) (ops : cmpop * cmpop) (comps : list component)
                  (nodes : list node) (d : nat) (spec : sigt) : result :=
  let cands := filter (spans ops d) (lambda_nodes nodes d) in
  let matches := filter (fun l => sig_match comps spec (l_sig l)) cands in
  apply_rules rules cands matches.

(* ---- the selection as it runs on a FILE: the candidate table is given in the coordinates of the file (line
   numbers as the interpreter counts them, the same coordinates as the definition line d = co_firstlineno);
   the implementation computes it from the tree of the normalised text, in which every line number is smaller
   by the number of leading whitespace-only lines the normalisation dropped (`lead` = number of newline
   characters in the leading whitespace run of the file text). *)
Definition line_shift (n : text_norm) (lead : nat) : nat :=
  match n with NormLStrip | NormStrip => lead | NormNone | NormRStrip => 0 end.
Definition shift_lam (k : nat) (l : lam) : lam := mklam (l_id l) (l_min l - k) (l_max l - k) (l_sig l).
Definition shift_node (k : nat) (n : node) : node := (fst n - k, map (shift_lam k) (snd n)).
Definition select_in_file (rules : list rule) (ops : cmpop * cmpop) (comps : list component) (norm : text_norm)
                          (lead : nat) (nodes : list node) (d : nat) (spec : sigt) : result :=
  select rules ops comps (map (shift_node (line_shift norm lead)) nodes) d spec.
(* the parsed text has the lines of the file *)
Definition norm_ok (n : text_norm) : bool := match n with NormNone | NormRStrip => true | _ => false end.

(* ---- decidable disciplines of the generated tables ---- *)
Definition rule_ok (r : rule) : bool :=
  match r with
  | (_, ARaise) => true
  | (_, ARetOnly _) => true
  | (CLenEq l 1, ARetFirst l') | (CLenEq l 1, ARetLast l') =>
      match l, l' with Cands, Cands | Matches, Matches => true | _, _ => false end
  | _ => false
  end.
Definition rules_ok (rules : list rule) : bool := forallb rule_ok rules.
(* every compared component is one on which a lambda agrees with its own argspec *)
Definition comps_complete (comps : list component) : bool :=
  forallb (fun c => match c with CompArgs => false | _ => true end) comps.
Definition span_ok (ops : cmpop * cmpop) : bool :=
  match ops with (OpLe, OpLe) => true | _ => false end.

Fixpoint sorted (nodes : list node) : bool :=
  match nodes with
  | a :: r => match r with b :: _ => (fst a <=? fst b) && sorted r | [] => true end
  | [] => true
  end.
