(* C15, hand model (H) of the text functions of malt/pyct/parser.py:

     unfold_cont        = _unfold_continuations : code_string.replace('\\\n', '')  (one left-to-right pass)
     dedent_block  = dedent_block          : unfold_cont, find the block indentation (the INDENT token that
                     precedes the first token that is not NL/NEWLINE/STRING/COMMENT), strip it from every
                     INDENT token, untokenize, and then -- per line -- cut as many leading blanks from the
                     *original* line as the untokenized line has fewer (`re.match('\s*')` on both).

   The part played by CPython's tokenize/untokenize (which line starts inside a string literal, which
   starts a logical line / a comment / a bracketed continuation, the INDENT/DEDENT stack, the
   indentation `untokenize` (compat mode) gives to each line) is modelled with the state machine of
   PyLex.v; the whole function is compared with the real dedent_block on generated sources on every
   run (tools/props/c15.py).  Blanks are space and tab; widths are compared by number of characters
   (equivalent to the tokenizer's column rule on sources it accepts without TabError).
   Not modelled: a source whose first logical line is unindented and starts with a string literal
   (the real loop would take a *later* INDENT as block indentation; such a source is not a block).
   No proofs in this file. *)
From Coq Require Import List Ascii Bool Arith.
Import ListNotations.
Require Import MV.Lexer.PyLex.

(* ---- _unfold_continuations ------------------------------------------------------------------ *)
Fixpoint unfold_cont (s : list ascii) : list ascii :=
  match s with
  | [] => []
  | c :: r =>
      match r with
      | c2 :: r2 => if is_bs c && is_nl c2 then unfold_cont r2 else c :: unfold_cont r
      | [] => [c]
      end
  end.

(* ---- the decidable guard: every removed backslash-newline is a continuation in code that does not
        glue two significant characters together ------------------------------------------------ *)
Definition next_harmless (r : list ascii) : bool :=
  match r with [] => true | c :: _ => is_ws c || is_nl c || is_hash c end.

Definition cont_ok (st : state) (r : list ascii) : bool :=
  match st with
  | Code _ adj => negb adj || next_harmless r
  | Err => true
  | _ => false        (* inside a string literal, inside a comment, at a line start, after a backslash *)
  end.

Fixpoint safe_from (st : state) (s : list ascii) : bool :=
  match s with
  | [] => true
  | c :: r =>
      match r with
      | c2 :: r2 =>
          if is_bs c && is_nl c2
          then cont_ok st r2 && safe_from (fst (step (fst (step st c)) c2)) r2
          else safe_from (fst (step st c)) r
      | [] => true
      end
  end.
Definition unfold_safe (s : list ascii) : bool := safe_from init s.

(* ---- lines ---------------------------------------------------------------------------------- *)
Fixpoint split_nl (s : list ascii) : list (list ascii) :=      (* str.split('\n') *)
  match s with
  | [] => [[]]
  | c :: r =>
      if is_nl c then [] :: split_nl r
      else match split_nl r with
           | l :: ls => (c :: l) :: ls
           | [] => [[c]]
           end
  end.

Fixpoint join_nl (ls : list (list ascii)) : list ascii :=      (* '\n'.join *)
  match ls with
  | [] => []
  | l :: rest => match rest with [] => l | _ :: _ => l ++ c_nl :: join_nl rest end
  end.

Fixpoint span_ws (l : list ascii) : list ascii * list ascii :=  (* re.match('\s*', line) *)
  match l with
  | c :: r => if is_ws c then let (w, t) := span_ws r in (c :: w, t) else ([], l)
  | [] => ([], [])
  end.

(* state at the start of the next line *)
Definition after_line (st : state) (l : list ascii) (rest : list (list ascii)) : state :=
  match rest with [] => run st l | _ :: _ => run st (l ++ [c_nl]) end.

(* ---- the block indentation ------------------------------------------------------------------ *)
Fixpoint first_indent (st : state) (ls : list (list ascii)) : list ascii :=
  match ls with
  | [] => []
  | l :: rest =>
      let st' := after_line st l rest in
      match st with
      | LS _ O =>
          let (w, r) := span_ws l in
          match r with
          | c :: _ => if is_hash c then first_indent st' rest else w
          | [] => first_indent st' rest
          end
      | _ => first_indent st' rest
      end
  end.

(* ---- per line ------------------------------------------------------------------------------- *)
Definition newlen (b n : nat) : nat := if b <=? n then n - b else n.   (* INDENT string minus block *)
Definition top (stk : list nat) : nat := match stk with t :: _ => t | [] => 0 end.
Fixpoint pop_above (n : nat) (stk : list nat) : list nat :=           (* DEDENT tokens *)
  match stk with
  | t :: r => if n <? t then pop_above n r else stk
  | [] => []
  end.
Definition mixed (tabs : bool) (w : list ascii) : bool :=
  (existsb (aeq c_sp) w && tabs) || (existsb (aeq c_tab) w && negb tabs).
(* the original line has n leading blanks, the untokenized one `keep` *)
Definition strip (n keep : nat) (l : list ascii) : list ascii :=
  if keep <? n then skipn (n - keep) l else l.

Definition dedent_line (b : nat) (tabs : bool) (d : nat) (stk : list nat) (l : list ascii)
  : option (list ascii * list nat) :=
  let (w, rest) := span_ws l in
  let n := length w in
  match rest with
  | [] => Some (strip n 0 l, stk)                                      (* blank line: NL *)
  | c :: _ =>
      if is_hash c || negb (d =? 0)
      then Some (strip n (newlen b (top stk)) l, stk)                  (* comment / inside brackets *)
      else
        let stk1 := pop_above n stk in
        if top stk1 <? n
        then if mixed tabs w then None                                 (* INDENT token *)
             else Some (strip n (newlen b n) l, n :: stk1)
        else Some (strip n (newlen b n) l, stk1)
  end.

Fixpoint go (b : nat) (tabs : bool) (st : state) (stk : list nat) (ls : list (list ascii))
  : option (list (list ascii)) :=
  match ls with
  | [] => Some []
  | l :: rest =>
      let st' := after_line st l rest in
      match st with
      | LS _ d =>
          match dedent_line b tabs d stk l with
          | None => None
          | Some (l', stk') => option_map (cons l') (go b tabs st' stk' rest)
          end
      | _ => option_map (cons l) (go b tabs st' stk rest)              (* starts inside a string *)
      end
  end.

Inductive outcome : Set := Ok (t : list ascii) | MixedTabs.

Definition block_indent (s : list ascii) : list ascii := first_indent init (split_nl (unfold_cont s)).

Definition dedent_block (s : list ascii) : outcome :=
  let u := unfold_cont s in
  let blk := block_indent s in
  match length blk with
  | O => Ok u
  | S _ =>
      match go (length blk) (existsb (aeq c_tab) blk) init [0] (split_nl u) with
      | Some ls' => Ok (join_nl ls')
      | None => MixedTabs
      end
  end.

(* ---- what the theorem says about the result -------------------------------------------------- *)
Definition sub_indent (b : nat) (it : item) : item :=
  match it with IIndent w => IIndent (skipn b w) | x => x end.
Definition indent_ge (b : nat) (it : item) : bool :=
  match it with IIndent w => b <=? length w | _ => true end.
Definition indents_ok (b : nat) (its : list item) : bool := forallb (indent_ge b) its.
Definition is_string_item (it : item) : bool :=
  match it with IOpen _ _ _ | IStr _ | IClose => true | _ => false end.
Definition string_items (its : list item) : list item := filter is_string_item its.
Definition is_code_item (it : item) : bool := match it with ICode _ _ => true | _ => false end.
Definition code_items (its : list item) : list item := filter is_code_item its.
Fixpoint first_iindent (its : list item) : list ascii :=
  match its with
  | IIndent w :: _ => w
  | _ :: r => first_iindent r
  | [] => []
  end.
