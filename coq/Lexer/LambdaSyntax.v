(* C15: syntax of the tables generated from parser._parse_lambda / _node_matches_argspec
   (tools/translate/c15_lambda.py).  Definitions only. *)
From Coq Require Import List.
Import ListNotations.

Inductive lst : Set := Cands | Matches.
Inductive cmpop : Set := OpLe | OpLt.
Inductive cond : Set :=
| CLenEq (l : lst) (n : nat)      (* len(l) == n *)
| CLenGe (l : lst) (n : nat)      (* len(l) >= n *)
| CEmpty (l : lst)                (* not l *)
| CNonEmpty (l : lst)             (* l *)
| CTrue.                          (* fall through *)
Inductive action : Set :=
| ARetOnly (l : lst)              (* (x,), = l ; return x      -- raises unless l has exactly one element *)
| ARetFirst (l : lst)             (* return l[0] *)
| ARetLast (l : lst)              (* return l[-1] *)
| ARaise.                         (* raise UnsupportedLanguageElementError *)
Definition rule : Set := (cond * action)%type.

(* the components of the signature compared by _node_matches_argspec *)
Inductive component : Set :=
| CompArgs        (* node.args.args                         vs argspec.args *)
| CompArgsPos     (* node.args.posonlyargs + node.args.args vs argspec.args *)
| CompVararg | CompKwarg | CompKwonly.

(* what parser.parse does to the text before handing it to ast.parse (translated from the argument of the
   ast.parse call).  _parse_lambda parses the WHOLE FILE through parse() and compares the line numbers of the
   tree with co_firstlineno, which counts the lines of the file. *)
Inductive text_norm : Set :=
| NormNone        (* ast.parse(src) *)
| NormRStrip      (* ast.parse(src.rstrip()) -- no line of the file moves *)
| NormLStrip      (* ast.parse(src.lstrip()) -- leading whitespace-only lines are dropped *)
| NormStrip.      (* ast.parse(src.strip()) *)
