(* C15: the correspondence checker evaluated by vm_compute on the cases the harness writes
   (tools/props/c15.py).  Expected values come from the implementation in /repo (unfold, dedent,
   lambda selection) and from CPython's tokenize (lex). *)
From Coq Require Import List Ascii String Bool Arith.
Import ListNotations.
Require Import MV.Lexer.PyLex MV.Lexer.Dedent MV.Lexer.LambdaSyntax MV.Lexer.LambdaSel MV.Generated.C15_gen.

Definition la (s : string) : list ascii := list_ascii_of_string s.
Fixpoint la_eqb (a b : list ascii) : bool :=
  match a, b with
  | [], [] => true
  | x :: a', y :: b' => Ascii.eqb x y && la_eqb a' b'
  | _, _ => false
  end.

(* the textual rendering of an item stream; the harness computes the same from tokenize *)
Definition dollar : ascii := ascii_of_nat 36.
Definition sp_if (adj : bool) : list ascii := if adj then [] else [c_sp].
Definition render1 (it : item) : list ascii :=
  match it with
  | ICode c adj => sp_if adj ++ [c]
  | IOpen q long adj => sp_if adj ++ [dollar; if long then "l"%char else "s"%char; q]
  | IStr c => [c]
  | IClose => [dollar; "c"%char]
  | ICom c => [c]
  | INl => [c_nl]
  | IIndent w => [dollar; "i"%char] ++ w ++ [dollar; "e"%char]
  | IErr => [dollar; "!"%char]
  end.
Definition render (its : list item) : list ascii := flat_map render1 its.

Inductive case : Set :=
| CLex (i : nat) (src expected : string)                 (* render (lex src) vs tokenize *)
| CUnfold (i : nat) (src expected : string)              (* _unfold_continuations *)
| CDedent (i : nat) (src : string) (expected : option string)   (* dedent_block; None = raises Unsupported *)
| CSafe (i : nat) (src : string) (expected : bool)       (* guard vs the harness' classifier *)
| CLam (i : nat) (lead : nat) (nodes : list node) (d : nat) (spec : sigt) (expected : option nat).
    (* nodes: the file's own table (file line numbers); lead: leading whitespace-only lines of the file; id found / raises *)

Definition check_case (c : case) : bool :=
  match c with
  | CLex _ s e => la_eqb (render (lex (la s))) (la e)
  | CUnfold _ s e => la_eqb (unfold_cont (la s)) (la e)
  | CDedent _ s e =>
      match dedent_block (la s), e with
      | Ok t, Some x => la_eqb t (la x)
      | MixedTabs, None => true
      | _, _ => false
      end
  | CSafe _ s e => Bool.eqb (unfold_safe (la s)) e
  | CLam _ lead nodes d spec e =>
      match select_in_file select_rules span_ops match_components parse_norm lead nodes d spec, e with
      | Found l, Some n => l_id l =? n
      | Raised, None => true
      | _, _ => false
      end
  end.
Definition case_index (c : case) : nat :=
  match c with CLex i _ _ | CUnfold i _ _ | CDedent i _ _ | CSafe i _ _ | CLam i _ _ _ _ _ => i end.
Definition failing (cs : list case) : list nat :=
  map case_index (filter (fun c => negb (check_case c)) cs).
