(* C15, specification side (S): the lexical structure of Python source text, character level.

   A small state machine over characters: code (with bracket depth), comment, short and long
   (triple-quoted) string literals -- string prefixes (r, b, f, u ...) are ordinary code
   characters adjacent to the opening quote --, backslash continuation, line starts with their
   indentation.  The output is the stream of *significant* items of the text:

     ICode c adj     a significant character in code; adj = it directly follows the previous
                     significant character (no blank / continuation in between), so that the
                     token boundaries of Python (maximal munch over adjacent characters) are a
                     function of the stream
     IOpen q long adj / IStr c / IClose
                     a string literal: opening quote (long = triple quoted), every character of
                     its body verbatim (backslashes and newlines included; for a long string the
                     body carries the first two of the three closing quotes), the closing quote
     ICom c          a character of a comment
     INl             a newline in code or ending a comment (NEWLINE or NL)
     IIndent w       the indentation (verbatim) of a line that starts a logical line
     IErr            lexical error (newline in a short string, stray backslash)

   Validated against CPython's tokenize on every run (tools/props/c15.py, `lex` cases).
   f-strings are lexed as ordinary strings (the pre-3.12 view; generated sources do not reuse the
   enclosing quote inside a replacement field).  No proofs in this file. *)
From Coq Require Import List Ascii Bool Arith.
Import ListNotations.

Definition chr (n : nat) : ascii := ascii_of_nat n.
Definition c_nl : ascii := chr 10.
Definition c_tab : ascii := chr 9.
Definition c_sp : ascii := chr 32.
Definition c_bs : ascii := chr 92.
Definition c_hash : ascii := chr 35.
Definition c_sq : ascii := chr 39.
Definition c_dq : ascii := chr 34.

Definition aeq (a b : ascii) : bool := Ascii.eqb a b.
Definition is_ws (c : ascii) : bool := aeq c c_sp || aeq c c_tab.
Definition is_nl (c : ascii) : bool := aeq c c_nl.
Definition is_bs (c : ascii) : bool := aeq c c_bs.
Definition is_hash (c : ascii) : bool := aeq c c_hash.
Definition is_quote (c : ascii) : bool := aeq c c_sq || aeq c c_dq.
Definition is_open (c : ascii) : bool := aeq c (chr 40) || aeq c (chr 91) || aeq c (chr 123).
Definition is_close (c : ascii) : bool := aeq c (chr 41) || aeq c (chr 93) || aeq c (chr 125).

Inductive item : Set :=
| ICode (c : ascii) (adj : bool)
| IOpen (q : ascii) (long : bool) (adj : bool)
| IStr (c : ascii)
| IClose
| ICom (c : ascii)
| INl
| IIndent (w : list ascii)
| IErr.

Inductive state : Set :=
| LS (w : list ascii) (d : nat)          (* at the start of a line in code, blanks w read so far *)
| Code (d : nat) (adj : bool)
| CodeBs (d : nat) (adj : bool)          (* after a backslash in code *)
| Com (d : nat)
| Q1 (q : ascii) (d : nat) (adj : bool)  (* one quote read *)
| Q2 (q : ascii) (d : nat) (adj : bool)  (* two quotes read *)
| SStr (q : ascii) (d : nat)
| SBs (q : ascii) (d : nat)
| LStr (q : ascii) (d : nat) (n : nat)   (* n = closing quotes read in a row *)
| LBs (q : ascii) (d : nat)
| Err.

Definition step_code (d : nat) (adj : bool) (c : ascii) : state * list item :=
  if is_ws c then (Code d false, [])
  else if is_nl c then (LS [] d, [INl])
  else if is_hash c then (Com d, [ICom c])
  else if is_bs c then (CodeBs d adj, [])
  else if is_quote c then (Q1 c d adj, [])
  else if is_open c then (Code (S d) true, [ICode c adj])
  else if is_close c then (Code (pred d) true, [ICode c adj])
  else (Code d true, [ICode c adj]).

Definition step_sstr (q : ascii) (d : nat) (c : ascii) : state * list item :=
  if aeq c q then (Code d true, [IClose])
  else if is_bs c then (SBs q d, [IStr c])
  else if is_nl c then (Err, [IErr])
  else (SStr q d, [IStr c]).

Definition step (st : state) (c : ascii) : state * list item :=
  match st with
  | Code d adj => step_code d adj c
  | CodeBs d adj => if is_nl c then (Code d false, []) else (Err, [IErr])
  | LS w d =>
      if is_ws c then (LS (w ++ [c]) d, [])
      else if is_nl c then (LS [] d, [INl])
      else if is_hash c then (Com d, [ICom c])
      else let (st', its) := step_code d false c in
           (st', (match d with O => [IIndent w] | S _ => [] end) ++ its)
  | Com d => if is_nl c then (LS [] d, [INl]) else (Com d, [ICom c])
  | Q1 q d adj =>
      if aeq c q then (Q2 q d adj, [])
      else let (st', its) := step_sstr q d c in (st', IOpen q false adj :: its)
  | Q2 q d adj =>
      if aeq c q then (LStr q d 0, [IOpen q true adj])
      else let (st', its) := step_code d true c in (st', IOpen q false adj :: IClose :: its)
  | SStr q d => step_sstr q d c
  | SBs q d => (SStr q d, [IStr c])
  | LStr q d n =>
      if aeq c q then
        match n with
        | S (S _) => (Code d true, [IClose])
        | _ => (LStr q d (S n), [IStr c])
        end
      else if is_bs c then (LBs q d, [IStr c])
      else (LStr q d 0, [IStr c])
  | LBs q d => (LStr q d 0, [IStr c])
  | Err => (Err, [])
  end.

Definition finish (st : state) : list item :=
  match st with
  | Q2 q _ adj => [IOpen q false adj; IClose]
  | Q1 q _ adj => [IOpen q false adj; IErr]
  | _ => []
  end.

Fixpoint lex_from (st : state) (s : list ascii) : list item :=
  match s with
  | [] => finish st
  | c :: r => let (st', its) := step st c in its ++ lex_from st' r
  end.

(* the state reached, and the items emitted, without the end-of-text flush *)
Fixpoint run (st : state) (s : list ascii) : state :=
  match s with
  | [] => st
  | c :: r => run (fst (step st c)) r
  end.
Fixpoint emit (st : state) (s : list ascii) : list item :=
  match s with
  | [] => []
  | c :: r => snd (step st c) ++ emit (fst (step st c)) r
  end.

Definition init : state := LS [] 0.
Definition lex (s : list ascii) : list item := lex_from init s.
