(* C15: lemmas about the lexical model (PyLex.v) and the text functions (Dedent.v).
   Main results:
     unfold_lex        textual removal of backslash-newline keeps the item stream when the guard holds
     go_lex / dedent_lex   the per-line dedent keeps every item and shortens each logical-line indentation
                        by exactly the block indentation
     block_indent_spec the block indentation found by the model is the indentation of the first logical line *)
From Coq Require Import List Ascii Bool Arith Lia.
Import ListNotations.
Require Import MV.Lexer.PyLex MV.Lexer.Dedent.


Definition nstate st c := fst (step st c).
Definition nitems st c := snd (step st c).

Lemma lex_from_cons : forall st c r, lex_from st (c :: r) = nitems st c ++ lex_from (nstate st c) r.
Proof. intros. unfold nitems, nstate. simpl. destruct (step st c). reflexivity. Qed.

Lemma unfold_cons2 : forall c c2 r2,
  unfold_cont (c :: c2 :: r2) = if is_bs c && is_nl c2 then unfold_cont r2 else c :: unfold_cont (c2 :: r2).
Proof. reflexivity. Qed.
Lemma safe_cons2 : forall st c c2 r2,
  safe_from st (c :: c2 :: r2) =
  if is_bs c && is_nl c2 then cont_ok st r2 && safe_from (nstate (nstate st c) c2) r2
  else safe_from (nstate st c) (c2 :: r2).
Proof. reflexivity. Qed.

Lemma aeq_eq : forall a b, aeq a b = true -> a = b.
Proof. intros a b H. apply Ascii.eqb_eq. exact H. Qed.

Lemma lex_err : forall s, lex_from Err s = [].
Proof. induction s; simpl; auto. Qed.

Lemma unfold_head : forall c r, is_bs c = false -> exists t, unfold_cont (c :: r) = c :: t.
Proof.
  intros c r H. destruct r as [|c2 r2]. exists []. reflexivity.
  rewrite unfold_cons2. rewrite H. simpl. eexists. reflexivity.
Qed.

Lemma harmless_not_bs : forall c, is_ws c || is_nl c || is_hash c = true -> is_bs c = false.
Proof.
  intros c H. unfold is_ws, is_nl, is_hash, is_bs in *.
  destruct (aeq c c_bs) eqn:E; auto. apply aeq_eq in E. subst c. vm_compute in H. discriminate.
Qed.

Lemma step_code_harmless : forall d adj c, is_ws c || is_nl c || is_hash c = true ->
  step_code d adj c = step_code d false c.
Proof.
  intros d adj c H. unfold step_code.
  destruct (is_ws c); auto. destruct (is_nl c); auto. destruct (is_hash c); auto. discriminate.
Qed.

Lemma unfold_lex_n : forall n s st, length s <= n -> safe_from st s = true ->
  lex_from st (unfold_cont s) = lex_from st s.
Proof.
  induction n; intros s st L S.
  - destruct s; simpl in L; [reflexivity|lia].
  - destruct s as [|c r]; [reflexivity|]. destruct r as [|c2 r2]; [reflexivity|].
    rewrite unfold_cons2. rewrite safe_cons2 in S.
    destruct (is_bs c && is_nl c2) eqn:E.
    + apply andb_true_iff in E. destruct E as [Ec Ec2].
      apply aeq_eq in Ec. apply aeq_eq in Ec2. subst c c2.
      apply andb_true_iff in S. destruct S as [Sc Sr].
      rewrite !lex_from_cons.
      assert (IH: lex_from (nstate (nstate st c_bs) c_nl) (unfold_cont r2) = lex_from (nstate (nstate st c_bs) c_nl) r2).
      { apply IHn; auto. simpl in L. lia. }
      destruct st; simpl in Sc; try discriminate.
      * (* Code d adj *)
        change (nstate (Code d adj) c_bs) with (CodeBs d adj) in *.
        change (nitems (Code d adj) c_bs) with (@nil item).
        change (nstate (CodeBs d adj) c_nl) with (Code d false) in *.
        change (nitems (CodeBs d adj) c_nl) with (@nil item). simpl.
        rewrite <- IH.
        destruct adj; [|reflexivity]. simpl in Sc.
        destruct r2 as [|c3 r3]; [reflexivity|]. simpl in Sc.
        destruct (unfold_head c3 r3 (harmless_not_bs _ Sc)) as [t Ht]. rewrite Ht.
        rewrite !lex_from_cons. unfold nitems, nstate. simpl step.
        rewrite (step_code_harmless d true c3 Sc). reflexivity.
      * (* Err *)
        rewrite !lex_err. reflexivity.
    + rewrite (lex_from_cons st c (unfold_cont (c2 :: r2))), (lex_from_cons st c (c2 :: r2)).
      f_equal. apply IHn; auto. simpl in L. simpl. lia.
Qed.

Theorem unfold_lex : forall s, unfold_safe s = true -> lex (unfold_cont s) = lex s.
Proof. intros. apply (unfold_lex_n (length s)); auto. Qed.


(* ---------- emit / run / lex_from ---------- *)
Lemma lex_from_app : forall a st b, lex_from st (a ++ b) = emit st a ++ lex_from (run st a) b.
Proof.
  induction a; intros; simpl; auto.
  destruct (step st a) as [st' its] eqn:E. simpl. rewrite IHa. rewrite app_assoc. reflexivity.
Qed.
Lemma lex_from_emit : forall a st, lex_from st a = emit st a ++ finish (run st a).
Proof. intros. rewrite <- (app_nil_r a) at 1. rewrite lex_from_app. reflexivity. Qed.
Lemma emit_app : forall a st b, emit st (a ++ b) = emit st a ++ emit (run st a) b.
Proof. induction a; intros; simpl; auto. rewrite IHa, app_assoc. reflexivity. Qed.
Lemma run_app : forall a st b, run st (a ++ b) = run (run st a) b.
Proof. induction a; intros; simpl; auto. Qed.

(* ---------- items without indentation ---------- *)
Definition no_indent (it : item) : bool := match it with IIndent _ => false | _ => true end.
Definition not_LS (st : state) : bool := match st with LS _ _ => false | _ => true end.

Lemma sub_id : forall b its, forallb no_indent its = true -> map (sub_indent b) its = its.
Proof.
  induction its; simpl; auto. intros H. apply andb_true_iff in H. destruct H as [H1 H2].
  rewrite IHits; auto. destruct a; simpl in *; try reflexivity; discriminate.
Qed.

Ltac brk := repeat match goal with
  | |- context[if ?b then _ else _] => destruct b eqn:?
  | |- context[match ?n with O => _ | S _ => _ end] => destruct n
  end.

Lemma step_noLS_items : forall st c, not_LS st = true -> forallb no_indent (snd (step st c)) = true.
Proof.
  intros st c H. destruct st; simpl in H; try discriminate; simpl; unfold step_code, step_sstr; brk; reflexivity.
Qed.
Lemma step_noLS_state : forall st c, not_LS st = true -> is_nl c = false -> not_LS (fst (step st c)) = true.
Proof.
  intros st c H N. destruct st; simpl in H; try discriminate; simpl; unfold step_code, step_sstr; rewrite ?N; brk; reflexivity.
Qed.

Definition no_nl (l : list ascii) : bool := forallb (fun c => negb (is_nl c)) l.

Lemma emit_noLS : forall l st, not_LS st = true -> no_nl l = true ->
  forallb no_indent (emit st l) = true /\ not_LS (run st l) = true.
Proof.
  induction l; intros st H N; simpl; auto.
  simpl in N. apply andb_true_iff in N. destruct N as [N1 N2]. apply negb_true_iff in N1.
  destruct (IHl (fst (step st a))) as [A B]; auto using step_noLS_state.
  split; auto. rewrite forallb_app, A, step_noLS_items; auto.
Qed.

Lemma finish_no_indent : forall st, forallb no_indent (finish st) = true.
Proof. destruct st; reflexivity. Qed.

(* a whole line, with or without its newline, read from a state that is not a line start *)
Lemma line_noLS : forall l tail st, not_LS st = true -> no_nl l = true -> (tail = [] \/ tail = [c_nl]) ->
  forallb no_indent (emit st (l ++ tail)) = true.
Proof.
  intros l tail st H N T. rewrite emit_app, forallb_app.
  destruct (emit_noLS l st H N) as [A B]. rewrite A. simpl.
  destruct T as [->| ->]; simpl; auto. rewrite app_nil_r. apply step_noLS_items; auto.
Qed.

(* ---------- blanks at a line start ---------- *)
Lemma run_ws : forall w a d t, forallb is_ws w = true -> run (LS a d) (w ++ t) = run (LS (a ++ w) d) t.
Proof.
  induction w; intros a0 d t H; simpl. rewrite app_nil_r. reflexivity.
  simpl in H. apply andb_true_iff in H. destruct H as [H1 H2]. rewrite H1. simpl.
  rewrite IHw; auto. rewrite <- app_assoc. reflexivity.
Qed.
Lemma emit_ws : forall w a d t, forallb is_ws w = true -> emit (LS a d) (w ++ t) = emit (LS (a ++ w) d) t.
Proof.
  induction w; intros a0 d t H; simpl. rewrite app_nil_r. reflexivity.
  simpl in H. apply andb_true_iff in H. destruct H as [H1 H2]. rewrite H1. simpl.
  rewrite IHw; auto. rewrite <- app_assoc. reflexivity.
Qed.

Lemma span_ws_spec : forall l w t, span_ws l = (w, t) ->
  l = w ++ t /\ forallb is_ws w = true /\ match t with c :: _ => is_ws c = false | [] => True end.
Proof.
  induction l; intros w t H; simpl in H.
  - inversion H. auto.
  - destruct (is_ws a) eqn:E.
    + destruct (span_ws l) as [w1 t1]. inversion H. subst. destruct (IHl w1 t eq_refl) as [A [B C]].
      subst l. simpl. rewrite E. auto.
    + inversion H. subst. simpl. auto.
Qed.

Lemma forallb_skipn : forall A (p : A -> bool) k l, forallb p l = true -> forallb p (skipn k l) = true.
Proof.
  induction k; intros l H; simpl; auto. destruct l; auto. simpl in H. apply andb_true_iff in H. apply IHk. tauto.
Qed.

Lemma strip_spec : forall w t keep, strip (length w) keep (w ++ t) = skipn (length w - keep) w ++ t.
Proof.
  intros. unfold strip. destruct (keep <? length w) eqn:E.
  - rewrite skipn_app. replace (length w - keep - length w) with 0 by lia. reflexivity.
  - apply Nat.ltb_ge in E. replace (length w - keep) with 0 by lia. reflexivity.
Qed.

(* the step out of a line start on a character that is not a blank *)
Definition ind (d : nat) (w : list ascii) : list item := match d with O => [IIndent w] | S _ => [] end.
Lemma step_LS : forall w d c, is_ws c = false ->
  step (LS w d) c =
  if is_nl c then (LS [] d, [INl]) else if is_hash c then (Com d, [ICom c])
  else (fst (step_code d false c), ind d w ++ snd (step_code d false c)).
Proof. intros. simpl. rewrite H. destruct (is_nl c), (is_hash c); auto. destruct (step_code d false c). reflexivity. Qed.

Lemma step_code_notLS : forall d c, is_ws c = false -> is_nl c = false ->
  not_LS (fst (step_code d false c)) = true /\ forallb no_indent (snd (step_code d false c)) = true.
Proof. intros. unfold step_code. rewrite H, H0. brk; auto. Qed.

(* ---------- one line ---------- *)
(* st : state at the start of the line;  l' : what the model makes of l *)
Definition line_rel (b : nat) (tabs : bool) (st : state) (stk : list nat) (l l' : list ascii) : Prop :=
  match st with
  | LS a d => a = [] /\ exists stk', dedent_line b tabs d stk l = Some (l', stk')
  | _ => l' = l
  end.

Lemma line_common : forall b tabs st stk l l' tail,
  line_rel b tabs st stk l l' -> no_nl l = true -> (tail = [] \/ tail = [c_nl]) ->
  forallb (indent_ge b) (emit st (l ++ tail)) = true ->
  emit st (l' ++ tail) = map (sub_indent b) (emit st (l ++ tail)) /\
  (tail = [c_nl] -> run st (l' ++ tail) = run st (l ++ tail)) /\
  finish (run st (l' ++ tail)) = finish (run st (l ++ tail)).
Proof.
  intros b tabs st stk l l' tail R N T G.
  assert (NOLS: not_LS st = true -> l' = l ->
     emit st (l' ++ tail) = map (sub_indent b) (emit st (l ++ tail)) /\
     (tail = [c_nl] -> run st (l' ++ tail) = run st (l ++ tail)) /\
     finish (run st (l' ++ tail)) = finish (run st (l ++ tail))).
  { intros H ->. rewrite sub_id; auto using line_noLS. }
  destruct st; try (apply NOLS; [reflexivity|exact R]).
  clear NOLS. destruct R as [-> [stk' D]]. unfold dedent_line in D.
  destruct (span_ws l) as [ws rest] eqn:SP. destruct (span_ws_spec _ _ _ SP) as [-> [W C]].
  (* in every case l' = skipn k ws ++ rest *)
  assert (exists k, l' = skipn k ws ++ rest /\
            (match rest with c :: _ => is_hash c = false /\ d = 0 -> k = length ws - newlen b (length ws) | [] => True end)) as [k [-> K]].
  { destruct rest as [|c r].
    - inversion D. rewrite strip_spec. eexists. split; eauto.
    - destruct (is_hash c || negb (d =? 0)) eqn:E.
      + inversion D. rewrite strip_spec. eexists. split; eauto. intros [A B]. subst d. rewrite A in E. discriminate.
      + destruct (top (pop_above (length ws) stk) <? length ws).
        * destruct (mixed tabs ws); inversion D. rewrite strip_spec. eexists. split; eauto.
        * inversion D. rewrite strip_spec. eexists. split; eauto. }
  assert (W': forallb is_ws (skipn k ws) = true) by (apply forallb_skipn; auto).
  rewrite <- !app_assoc. rewrite (emit_ws (skipn k ws)), (emit_ws ws), (run_ws (skipn k ws)), (run_ws ws) by auto. simpl app.
  rewrite <- app_assoc, (emit_ws ws) in G by auto. simpl app in G.
  unfold no_nl in N. rewrite forallb_app in N. apply andb_true_iff in N. destruct N as [_ N]. change (no_nl rest = true) in N.
  destruct rest as [|c r].
  - (* blank line *)
    simpl app. destruct T as [->| ->]; simpl; auto. repeat split; auto; discriminate.
  - simpl in N. apply andb_true_iff in N. destruct N as [Nc Nr]. apply negb_true_iff in Nc.
    cbn [app emit run]. cbn [app emit] in G. rewrite !(step_LS _ _ _ C). rewrite (step_LS _ _ _ C) in G. rewrite Nc in *.
    destruct (is_hash c) eqn:Hh.
    + (* comment *)
      simpl fst. simpl snd. simpl fst in G. simpl snd in G.
      assert (X: forallb no_indent (emit (Com d) (r ++ tail)) = true) by (apply line_noLS; auto).
      simpl. rewrite sub_id; auto.
    + simpl fst. simpl snd. simpl fst in G. simpl snd in G.
      destruct (step_code_notLS d c C Nc) as [S1 S2].
      assert (X: forallb no_indent (emit (fst (step_code d false c)) (r ++ tail)) = true) by (apply line_noLS; auto).
      rewrite !map_app, (sub_id b (snd _)), (sub_id b (emit _ _)); auto.
      repeat split; auto. f_equal.
      destruct d; simpl; auto.
      rewrite K; auto. simpl in G. apply andb_true_iff in G. destruct G as [G _].
      apply Nat.leb_le in G. unfold newlen. apply Nat.leb_le in G. rewrite G. apply Nat.leb_le in G.
      replace (length ws - (length ws - b)) with b by lia. reflexivity.
Qed.


Definition fresh (st : state) : Prop := match st with LS a _ => a = [] | _ => True end.

Lemma step_nl_fresh : forall st, fresh (fst (step st c_nl)).
Proof.
  assert (G: forall c, is_nl c = true -> is_ws c = false -> is_hash c = false -> is_bs c = false ->
             forall st, fresh (fst (step st c))).
  { intros c N W H B st. destruct st; simpl; unfold step_code, step_sstr; rewrite ?N, ?W, ?H, ?B; brk; simpl; auto. }
  apply G; reflexivity.
Qed.

Lemma run_nl_fresh : forall l st, fresh (run st (l ++ [c_nl])).
Proof. intros. rewrite run_app. simpl. apply step_nl_fresh. Qed.

Lemma split_nl_cons : forall s, exists l ls, split_nl s = l :: ls.
Proof. induction s; simpl; eauto. destruct (is_nl a); eauto. destruct IHs as [l [ls ->]]. eauto. Qed.

Lemma join_split : forall s, join_nl (split_nl s) = s.
Proof.
  induction s; simpl; auto. destruct (is_nl a) eqn:E.
  - destruct (split_nl_cons s) as [l [ls H]]. rewrite H in *. simpl.
    apply aeq_eq in E. subst a. f_equal. exact IHs.
  - destruct (split_nl_cons s) as [l [ls H]]. rewrite H in *.
    simpl in *. destruct ls; simpl in *; rewrite IHs; reflexivity.
Qed.

Lemma split_no_nl : forall s, forallb no_nl (split_nl s) = true.
Proof.
  induction s; simpl; auto. destruct (is_nl a) eqn:E; simpl; auto.
  destruct (split_nl_cons s) as [l [ls H]]. rewrite H in *. simpl in *. rewrite E. simpl. exact IHs.
Qed.

Lemma go_shape : forall b tabs st stk ls ls', go b tabs st stk ls = Some ls' -> (ls = [] <-> ls' = []).
Proof.
  intros. destruct ls; simpl in H.
  - inversion H. tauto.
  - split; [discriminate|]. intros ->.
    destruct st; try (destruct (go b tabs _ stk ls); discriminate).
    destruct (dedent_line b tabs d stk l) as [[l' stk']|]; try discriminate.
    destruct (go b tabs _ stk' ls); discriminate.
Qed.



Lemma go_lex : forall b tabs ls st stk ls',
  fresh st -> forallb no_nl ls = true ->
  go b tabs st stk ls = Some ls' ->
  forallb (indent_ge b) (lex_from st (join_nl ls)) = true ->
  lex_from st (join_nl ls') = map (sub_indent b) (lex_from st (join_nl ls)).
Proof.
  induction ls as [|l rest IH]; intros st stk ls' F N G I.
  - simpl in G. inversion G. simpl. rewrite sub_id; auto using finish_no_indent.
  - simpl in N. apply andb_true_iff in N. destruct N as [Nl Nr].
    (* what go did with this line *)
    assert (exists l' stk' rest', ls' = l' :: rest' /\ line_rel b tabs st stk l l' /\
              go b tabs (after_line st l rest) stk' rest = Some rest') as [l' [stk' [rest' [-> [R Gr]]]]].
    { simpl in G. destruct st;
        try (destruct (go b tabs _ stk rest) as [x|] eqn:E; [|discriminate]; inversion G;
             exists l, stk, x; simpl; auto).
      destruct (dedent_line b tabs d stk l) as [[l' stk']|] eqn:D; [|discriminate].
      destruct (go b tabs _ stk' rest) as [x|] eqn:E; [|discriminate]. inversion G.
      exists l', stk', x. simpl in F. subst w. simpl. eauto. }
    pose proof (go_shape _ _ _ _ _ _ Gr) as SH.
    destruct rest as [|r1 rs].
    + (* last line *)
      assert (rest' = []) by (apply SH; reflexivity). subst rest'. simpl join_nl in *.
      rewrite (lex_from_emit l') , (lex_from_emit l) in *.
      rewrite forallb_app in I. apply andb_true_iff in I. destruct I as [I1 I2].
      destruct (line_common b tabs st stk l l' [] R Nl (or_introl eq_refl)) as [A [_ C]].
      { rewrite app_nil_r. exact I1. }
      rewrite !app_nil_r in *. rewrite map_app, A, C. f_equal.
      rewrite sub_id; auto using finish_no_indent.
    + destruct rest' as [|r1' rs']; [destruct SH as [_ SH]; discriminate (SH eq_refl)|].
      change (join_nl (l' :: r1' :: rs')) with (l' ++ c_nl :: join_nl (r1' :: rs')).
      change (join_nl (l :: r1 :: rs)) with (l ++ c_nl :: join_nl (r1 :: rs)) in *.
      replace (l' ++ c_nl :: join_nl (r1' :: rs')) with ((l' ++ [c_nl]) ++ join_nl (r1' :: rs'))
        by (rewrite <- app_assoc; reflexivity).
      replace (l ++ c_nl :: join_nl (r1 :: rs)) with ((l ++ [c_nl]) ++ join_nl (r1 :: rs)) in *
        by (rewrite <- app_assoc; reflexivity).
      rewrite (lex_from_app (l' ++ [c_nl])), (lex_from_app (l ++ [c_nl])). rewrite (lex_from_app (l ++ [c_nl])) in I. rewrite forallb_app in I. apply andb_true_iff in I. destruct I as [I1 I2].
      destruct (line_common b tabs st stk l l' [c_nl] R Nl (or_intror eq_refl) I1) as [A [B _]].
      rewrite A, (B eq_refl), map_app. f_equal.
      apply (IH _ stk'); auto. apply run_nl_fresh.
Qed.

(* ---------- the block indentation is the indentation of the first logical line ---------- *)
Lemma first_iindent_app_no : forall a b, forallb no_indent a = true -> first_iindent (a ++ b) = first_iindent b.
Proof. induction a; simpl; auto. intros b H. apply andb_true_iff in H. destruct H. destruct a; simpl in *; auto; discriminate. Qed.

Lemma first_indent_lex : forall ls st, (ls <> [] -> fresh st) -> forallb no_nl ls = true ->
  first_indent st ls = first_iindent (lex_from st (join_nl ls)).
Proof.
  induction ls as [|l rest IH]; intros st F N.
  - simpl. destruct st; reflexivity.
  - simpl in N. apply andb_true_iff in N. destruct N as [Nl Nr].
    (* text of this line with its terminator, and what follows *)
    assert (TX: exists tail, (tail = [] \/ tail = [c_nl]) /\
              lex_from st (join_nl (l :: rest)) =
              emit st (l ++ tail) ++ lex_from (after_line st l rest) (join_nl rest) /\
              (tail = [] -> rest = [])).
    { destruct rest as [|r1 rs].
      - exists []. split; auto. split; auto. cbn [join_nl after_line lex_from]. rewrite app_nil_r. apply lex_from_emit.
      - exists [c_nl]. split; auto. split; [|discriminate].
        change (join_nl (l :: r1 :: rs)) with (l ++ c_nl :: join_nl (r1 :: rs)).
        replace (l ++ c_nl :: join_nl (r1 :: rs)) with ((l ++ [c_nl]) ++ join_nl (r1 :: rs))
          by (rewrite <- app_assoc; reflexivity).
        rewrite lex_from_app. reflexivity. }
    destruct TX as [tail [T [TX TL]]]. rewrite TX.
    assert (FR: rest <> [] -> fresh (after_line st l rest)).
    { destruct rest; simpl. congruence. intros _. apply run_nl_fresh. }
    assert (F0: fresh st) by (apply F; discriminate).
    assert (SKIP: forallb no_indent (emit st (l ++ tail)) = true ->
              first_indent (after_line st l rest) rest =
              first_iindent (emit st (l ++ tail) ++ lex_from (after_line st l rest) (join_nl rest))).
    { intros H. rewrite first_iindent_app_no; auto. }
    cbn [first_indent].
    destruct st; try (apply SKIP; apply line_noLS; auto).
    simpl in F0. subst w.
    destruct (span_ws l) as [ws r] eqn:SP. destruct (span_ws_spec _ _ _ SP) as [-> [W C]].
    unfold no_nl in Nl. rewrite forallb_app in Nl. apply andb_true_iff in Nl. destruct Nl as [Nw Nr0].
    change (no_nl r = true) in Nr0.
    assert (EM: emit (LS [] d) ((ws ++ r) ++ tail) = emit (LS ws d) (r ++ tail)).
    { rewrite <- app_assoc. rewrite (emit_ws ws) by auto. reflexivity. }
    destruct r as [|c r].
    + (* blank *)
      assert (H: forallb no_indent (emit (LS [] d) ((ws ++ []) ++ tail)) = true).
      { rewrite EM. destruct T as [->| ->]; simpl; auto. }
      destruct d; apply SKIP; exact H.
    + simpl in Nr0. apply andb_true_iff in Nr0. destruct Nr0 as [Nc Nr0]. apply negb_true_iff in Nc.
      assert (EM2: emit (LS ws d) ((c :: r) ++ tail) =
                snd (step (LS ws d) c) ++ emit (fst (step (LS ws d) c)) (r ++ tail)) by reflexivity.
      rewrite (step_LS _ _ _ C), Nc in EM2.
      destruct (is_hash c) eqn:Hh.
      * assert (H: forallb no_indent (emit (LS [] d) ((ws ++ c :: r) ++ tail)) = true).
        { rewrite EM, EM2. simpl. apply line_noLS; auto. }
        destruct d; apply SKIP; exact H.
      * destruct (step_code_notLS d c C Nc) as [S1 S2].
        destruct d.
        -- rewrite EM, EM2. reflexivity.
        -- apply SKIP. rewrite EM, EM2. simpl fst. simpl snd. simpl ind. simpl app.
           rewrite forallb_app, S2. simpl. apply line_noLS; auto.
Qed.

Theorem block_indent_spec : forall s, block_indent s = first_iindent (lex (unfold_cont s)).
Proof.
  intros. unfold block_indent, lex. rewrite first_indent_lex; [|intros _; reflexivity|apply split_no_nl].
  rewrite join_split. reflexivity.
Qed.

Lemma map_sub_0 : forall its, map (sub_indent 0) its = its.
Proof. induction its; simpl; auto. rewrite IHits. destruct a; reflexivity. Qed.

Theorem dedent_lex : forall s v,
  unfold_safe s = true ->
  dedent_block s = Ok v ->
  indents_ok (length (block_indent s)) (lex s) = true ->
  lex v = map (sub_indent (length (block_indent s))) (lex s).
Proof.
  intros s v S D I. rewrite <- (unfold_lex s S) in *. unfold dedent_block in D.
  destruct (length (block_indent s)) eqn:B.
  - inversion D. rewrite map_sub_0. reflexivity.
  - rewrite <- B in *. clear B.
    destruct (go _ _ init [0] (split_nl (unfold_cont s))) as [ls'|] eqn:G; [|discriminate].
    inversion D. unfold lex in *.
    rewrite <- (join_split (unfold_cont s)) at 1. rewrite <- (join_split (unfold_cont s)) in I.
    eapply go_lex; eauto. reflexivity. apply split_no_nl.
Qed.

(* ---------- corollary: string literals and code characters are untouched ---------- *)
Lemma filter_sub : forall p b its, (forall w, p (IIndent w) = false) ->
  filter p (map (sub_indent b) its) = filter p its.
Proof.
  intros p b its H. induction its as [|a r IH]; simpl; auto.
  destruct a; simpl; rewrite ?H, ?IH; auto.
Qed.

Theorem dedent_strings : forall s v,
  unfold_safe s = true -> dedent_block s = Ok v ->
  indents_ok (length (block_indent s)) (lex s) = true ->
  string_items (lex v) = string_items (lex s) /\ code_items (lex v) = code_items (lex s).
Proof.
  intros s v S D I. rewrite (dedent_lex s v S D I). unfold string_items, code_items.
  split; apply filter_sub; reflexivity.
Qed.
