(* C01, factor 3: structural comparison of the model of the expression passes with their real output, and
   validation of the expression semantics (with the operator table generated on this run) against CPython. *)
From Coq Require Import List Arith Bool.
Import ListNotations.
Require Import MV.Expr.ExprLang.

Fixpoint expr_beq (a b : expr) {struct a} : bool :=
  let fix lbeq (x y : list expr) : bool :=
    match x, y with [], [] => true | p :: r, q :: s => expr_beq p q && lbeq r s | _, _ => false end in
  let fix cbeq (x y : list (cop * expr)) : bool :=
    match x, y with
    | [], [] => true
    | (o1, p) :: r, (o2, q) :: s => Nat.eqb o1 o2 && expr_beq p q && cbeq r s
    | _, _ => false
    end in
  match a, b with
  | EOp l es, EOp m fs => Nat.eqb l m && lbeq es fs
  | ELazy l x, ELazy m y => Nat.eqb l m && expr_beq x y
  | EBool i a1 a2, EBool j b1 b2 => Bool.eqb i j && expr_beq a1 b1 && expr_beq a2 b2
  | ENot x, ENot y => expr_beq x y
  | EIfExp c1 a1 b1, EIfExp c2 a2 b2 => expr_beq c1 c2 && expr_beq a1 a2 && expr_beq b1 b2
  | ECmp x r, ECmp y s => expr_beq x y && cbeq r s
  | TBool i a1 a2, TBool j b1 b2 => Bool.eqb i j && expr_beq a1 b1 && expr_beq a2 b2
  | TNot x, TNot y => expr_beq x y
  | TIfExp c1 a1 b1, TIfExp c2 a2 b2 => expr_beq c1 c2 && expr_beq a1 a2 && expr_beq b1 b2
  | TEq n a1 a2, TEq m b1 b2 => Bool.eqb n m && expr_beq a1 b1 && expr_beq a2 b2
  | _, _ => false
  end.

(* id, EQUALITY_OPERATORS requested, expression before conditional_expressions, after logical_expressions *)
Definition ecase : Set := (nat * bool * expr * expr)%type.
Definition failing_ecases (cs : list ecase) : list nat :=
  map (fun c => match c with (i, _, _, _) => i end)
      (filter (fun c => match c with (_, q, a, b) => negb (expr_beq (tr q a) b) end) cs).

(* comparison of numbers as Python compares ints; the result is 1 / 0 *)
Definition b2v (b : bool) : val := if b then 1 else 0.
Definition cmp_std (o : cop) (a b : val) : val :=
  match o with
  | 0 => b2v (Nat.eqb a b) | 1 => b2v (negb (Nat.eqb a b))
  | 2 => b2v (Nat.ltb a b) | 3 => b2v (Nat.leb a b) | 4 => b2v (Nat.ltb b a) | _ => b2v (Nat.leb b a)
  end.

(* id, expression, decisions (values of the opaque operations), expected trace, expected value *)
Definition vcase : Set := (nat * expr * decisions * list label * val)%type.
Fixpoint lbl_beq (a b : list label) : bool :=
  match a, b with [], [] => true | x :: r, y :: s => Nat.eqb x y && lbl_beq r s | _, _ => false end.
(* both the source expression and its rewritten form (evaluated with the generated operator table) must give
   what CPython gave for the source expression *)
Definition agrees (ops : optable) (e : expr) (d : decisions) (t : list label) (v : val) : bool :=
  match eval cmp_std ops 400 e d with
  | Some (t', v', _) => lbl_beq t t' && Nat.eqb v v'
  | None => false
  end.
Definition failing_vcases (ops : optable) (cs : list vcase) : list nat :=
  map (fun c => match c with (i, _, _, _, _) => i end)
      (filter (fun c => match c with (_, e, d, t, v) => negb (agrees ops e d t v && agrees ops (tr false e) d t v) end) cs).
