(* C01, factor 3 (expression passes): conditional_expressions.py and logical_expressions.py rewrite `a and b`,
   `a or b`, `not a`, `x if c else y` and (with Feature.EQUALITY_OPERATORS) `==` / `!=` into calls of overloadable
   operators whose lazily evaluated operands are passed as lambdas.  Expressions: opaque operations over
   sub-expressions evaluated left to right (calls, arithmetic, subscripts, ... exported in evaluation order),
   lazy sub-expressions (lambda / comprehension bodies: transformed but not evaluated here), and the constructs
   the two passes rewrite, in native form and as operator calls.  Values are numbers, 0 is falsy; every opaque
   operation appends its label to the trace and takes its value from the next decision. *)
From Coq Require Import List Arith Bool.
Import ListNotations.

Definition label := nat.
Definition val := nat.
Definition cop := nat.                       (* comparison operator; 0 is ==, 1 is != *)
Definition truthy (v : val) : bool := negb (Nat.eqb v 0).
Definition notv (v : val) : val := if truthy v then 0 else 1.

Inductive expr : Set :=
| EOp (l : label) (es : list expr)            (* opaque operation on the values of es *)
| ELazy (l : label) (e : expr)                (* lambda / comprehension: e is not evaluated where it stands *)
| EBool (isand : bool) (e1 e2 : expr)         (* e1 and e2 / e1 or e2  (n-ary chains are right-nested by the exporter,
                                                 which is how Python evaluates them) *)
| ENot (e : expr)
| EIfExp (c a b : expr)
| ECmp (e0 : expr) (rest : list (cop * expr)) (* e0 op1 e1 op2 e2 ... *)
(* generated forms *)
| TBool (isand : bool) (e1 e2 : expr)         (* ag__.and_(lambda: e1, lambda: e2) / ag__.or_ *)
| TNot (e : expr)                             (* ag__.not_(e) *)
| TIfExp (c a b : expr)                       (* ag__.if_exp(c, lambda: a, lambda: b, repr) *)
| TEq (neg : bool) (a b : expr).              (* ag__.eq(a, b) / ag__.not_eq(a, b) *)

(* ---- implementations of the operators, as generated from malt/operators (Generated/C01_ops_gen.v) ---- *)
Inductive oterm : Set :=
| OArg (i : nat)                 (* a parameter that was passed by value *)
| OForce (i : nat)               (* a parameter that is a thunk: call it *)
| OAndP (a b : oterm) | OOrP (a b : oterm) | ONotP (a : oterm)
| OEqP (a b : oterm)             (* a == b *)
| OIfP (c a b : oterm)           (* a if c else b *)
| OVar (k : nat)                 (* a local of the implementation (de Bruijn index) *)
| OLet (a b : oterm).            (* x = a; ...b...   (a is evaluated first, once) *)
Record optable : Set := { op_and : oterm; op_or : oterm; op_not : oterm; op_ifexp : oterm; op_eq : oterm; op_not_eq : oterm }.

Definition decisions := list nat.
Definition dnat (d : decisions) : nat := match d with [] => 0 | c :: _ => c end.
Definition dtail (d : decisions) : decisions := match d with [] => [] | _ :: r => r end.
Definition res : Set := option (list label * val * decisions).

Inductive arg : Set := AVal (v : val) | AThunk (e : expr).

Section Sem.
Variable cmp : cop -> val -> val -> val.      (* the value of `a op b` *)
Variable ops : optable.

(* fuelled interpreter (every function consumes fuel: no nested recursion) -- used for the examples and the tie *)
Fixpoint eval (n : nat) (e : expr) (d : decisions) {struct n} : res :=
  match n with
  | 0 => None
  | S n' =>
    match e with
    | EOp l es =>
        match evals n' es d with
        | None => None
        | Some (t, _, d1) => Some (t ++ [l], dnat d1, dtail d1)
        end
    | ELazy l _ => Some ([l], dnat d, dtail d)
    | EBool isand e1 e2 =>
        match eval n' e1 d with
        | None => None
        | Some (t1, v, d1) =>
            if Bool.eqb (truthy v) isand then
              match eval n' e2 d1 with None => None | Some (t2, w, d2) => Some (t1 ++ t2, w, d2) end
            else Some (t1, v, d1)
        end
    | ENot x => match eval n' x d with None => None | Some (t1, v, d1) => Some (t1, notv v, d1) end
    | EIfExp c a b =>
        match eval n' c d with
        | None => None
        | Some (t1, v, d1) =>
            match eval n' (if truthy v then a else b) d1 with
            | None => None
            | Some (t2, w, d2) => Some (t1 ++ t2, w, d2)
            end
        end
    | ECmp e0 rest =>
        match eval n' e0 d with
        | None => None
        | Some (t0, v0, d0) =>
            match chain n' v0 rest d0 1 with None => None | Some (t1, w, d1) => Some (t0 ++ t1, w, d1) end
        end
    | TBool isand e1 e2 => osem n' (if isand then op_and ops else op_or ops) [AThunk e1; AThunk e2] [] d
    | TNot x =>
        match eval n' x d with
        | None => None
        | Some (t1, v, d1) => match osem n' (op_not ops) [AVal v] [] d1 with None => None | Some (t2, w, d2) => Some (t1 ++ t2, w, d2) end
        end
    | TIfExp c a b =>
        match eval n' c d with
        | None => None
        | Some (t1, v, d1) =>
            match osem n' (op_ifexp ops) [AVal v; AThunk a; AThunk b] [] d1 with
            | None => None
            | Some (t2, w, d2) => Some (t1 ++ t2, w, d2)
            end
        end
    | TEq neg a b =>
        match eval n' a d with
        | None => None
        | Some (t1, v, d1) =>
            match eval n' b d1 with
            | None => None
            | Some (t2, w, d2) =>
                match osem n' (if neg then op_not_eq ops else op_eq ops) [AVal v; AVal w] [] d2 with
                | None => None
                | Some (t3, u, d3) => Some (t1 ++ t2 ++ t3, u, d3)
                end
            end
        end
    end
  end
with evals (n : nat) (es : list expr) (d : decisions) {struct n} : option (list label * list val * decisions) :=
  match n with
  | 0 => None
  | S n' =>
    match es with
    | [] => Some ([], [], d)
    | x :: r =>
        match eval n' x d with
        | None => None
        | Some (t1, v, d1) =>
            match evals n' r d1 with
            | None => None
            | Some (t2, vs, d2) => Some (t1 ++ t2, v :: vs, d2)
            end
        end
    end
  end
with chain (n : nat) (vl : val) (rest : list (cop * expr)) (d : decisions) (last : val) {struct n} : res :=
  (* vl: value of the operand on the left; last: value of the previous comparison *)
  match n with
  | 0 => None
  | S n' =>
    match rest with
    | [] => Some ([], last, d)
    | (o, x) :: r =>
        match eval n' x d with
        | None => None
        | Some (t1, vr, d1) =>
            let c := cmp o vl vr in
            if truthy c then
              match chain n' vr r d1 c with None => None | Some (t2, w, d2) => Some (t1 ++ t2, w, d2) end
            else Some (t1, c, d1)
        end
    end
  end
with osem (n : nat) (o : oterm) (args : list arg) (env : list val) (d : decisions) {struct n} : res :=
  match n with
  | 0 => None
  | S n' =>
    match o with
    | OArg i => match nth_error args i with Some (AVal v) => Some ([], v, d) | _ => None end
    | OForce i => match nth_error args i with Some (AThunk x) => eval n' x d | _ => None end
    | OAndP a b =>
        match osem n' a args env d with
        | None => None
        | Some (t1, v, d1) =>
            if truthy v then match osem n' b args env d1 with None => None | Some (t2, w, d2) => Some (t1 ++ t2, w, d2) end
            else Some (t1, v, d1)
        end
    | OOrP a b =>
        match osem n' a args env d with
        | None => None
        | Some (t1, v, d1) =>
            if truthy v then Some (t1, v, d1)
            else match osem n' b args env d1 with None => None | Some (t2, w, d2) => Some (t1 ++ t2, w, d2) end
        end
    | ONotP a => match osem n' a args env d with None => None | Some (t1, v, d1) => Some (t1, notv v, d1) end
    | OEqP a b =>
        match osem n' a args env d with
        | None => None
        | Some (t1, v, d1) =>
            match osem n' b args env d1 with None => None | Some (t2, w, d2) => Some (t1 ++ t2, cmp 0 v w, d2) end
        end
    | OIfP c a b =>
        match osem n' c args env d with
        | None => None
        | Some (t1, v, d1) =>
            match osem n' (if truthy v then a else b) args env d1 with
            | None => None
            | Some (t2, w, d2) => Some (t1 ++ t2, w, d2)
            end
        end
    | OVar k => match nth_error env k with Some v => Some ([], v, d) | None => None end
    | OLet a b =>
        match osem n' a args env d with
        | None => None
        | Some (t1, v, d1) =>
            match osem n' b args (v :: env) d1 with None => None | Some (t2, w, d2) => Some (t1 ++ t2, w, d2) end
        end
    end
  end.

(* the same semantics as relations: what the theorems are stated on *)
Inductive ev : expr -> decisions -> list label -> val -> decisions -> Prop :=
| VOp l es d t vs d1 : evs es d t vs d1 -> ev (EOp l es) d (t ++ [l]) (dnat d1) (dtail d1)
| VLazy l e d : ev (ELazy l e) d [l] (dnat d) (dtail d)
| VBoolGo (isand : bool) e1 e2 d t1 v d1 t2 w d2 :
    ev e1 d t1 v d1 -> Bool.eqb (truthy v) isand = true -> ev e2 d1 t2 w d2 -> ev (EBool isand e1 e2) d (t1 ++ t2) w d2
| VBoolStop (isand : bool) e1 e2 d t1 v d1 :
    ev e1 d t1 v d1 -> Bool.eqb (truthy v) isand = false -> ev (EBool isand e1 e2) d t1 v d1
| VNot x d t1 v d1 : ev x d t1 v d1 -> ev (ENot x) d t1 (notv v) d1
| VIfExp c a b d t1 v d1 t2 w d2 :
    ev c d t1 v d1 -> ev (if truthy v then a else b) d1 t2 w d2 -> ev (EIfExp c a b) d (t1 ++ t2) w d2
| VCmp e0 rest d t0 v0 d0 t1 w d1 :
    ev e0 d t0 v0 d0 -> evchain v0 rest d0 1 t1 w d1 -> ev (ECmp e0 rest) d (t0 ++ t1) w d1
| VTBool (isand : bool) e1 e2 d t v d1 :
    evo (if isand then op_and ops else op_or ops) [AThunk e1; AThunk e2] [] d t v d1 -> ev (TBool isand e1 e2) d t v d1
| VTNot x d t1 v d1 t2 w d2 :
    ev x d t1 v d1 -> evo (op_not ops) [AVal v] [] d1 t2 w d2 -> ev (TNot x) d (t1 ++ t2) w d2
| VTIfExp c a b d t1 v d1 t2 w d2 :
    ev c d t1 v d1 -> evo (op_ifexp ops) [AVal v; AThunk a; AThunk b] [] d1 t2 w d2 -> ev (TIfExp c a b) d (t1 ++ t2) w d2
| VTEq (neg : bool) a b d t1 v d1 t2 w d2 t3 u d3 :
    ev a d t1 v d1 -> ev b d1 t2 w d2 ->
    evo (if neg then op_not_eq ops else op_eq ops) [AVal v; AVal w] [] d2 t3 u d3 ->
    ev (TEq neg a b) d (t1 ++ t2 ++ t3) u d3
with evs : list expr -> decisions -> list label -> list val -> decisions -> Prop :=
| VSNil d : evs [] d [] [] d
| VSCons x r d t1 v d1 t2 vs d2 : ev x d t1 v d1 -> evs r d1 t2 vs d2 -> evs (x :: r) d (t1 ++ t2) (v :: vs) d2
with evchain : val -> list (cop * expr) -> decisions -> val -> list label -> val -> decisions -> Prop :=
| VCNil vl d last : evchain vl [] d last [] last d
| VCGo vl o x r d last t1 vr d1 t2 w d2 :
    ev x d t1 vr d1 -> truthy (cmp o vl vr) = true -> evchain vr r d1 (cmp o vl vr) t2 w d2 ->
    evchain vl ((o, x) :: r) d last (t1 ++ t2) w d2
| VCStop vl o x r d last t1 vr d1 :
    ev x d t1 vr d1 -> truthy (cmp o vl vr) = false -> evchain vl ((o, x) :: r) d last t1 (cmp o vl vr) d1
with evo : oterm -> list arg -> list val -> decisions -> list label -> val -> decisions -> Prop :=
| VOArg i args env v d : nth_error args i = Some (AVal v) -> evo (OArg i) args env d [] v d
| VOForce i args env x d t v d1 : nth_error args i = Some (AThunk x) -> ev x d t v d1 -> evo (OForce i) args env d t v d1
| VOAndGo a b args env d t1 v d1 t2 w d2 :
    evo a args env d t1 v d1 -> truthy v = true -> evo b args env d1 t2 w d2 -> evo (OAndP a b) args env d (t1 ++ t2) w d2
| VOAndStop a b args env d t1 v d1 : evo a args env d t1 v d1 -> truthy v = false -> evo (OAndP a b) args env d t1 v d1
| VOOrStop a b args env d t1 v d1 : evo a args env d t1 v d1 -> truthy v = true -> evo (OOrP a b) args env d t1 v d1
| VOOrGo a b args env d t1 v d1 t2 w d2 :
    evo a args env d t1 v d1 -> truthy v = false -> evo b args env d1 t2 w d2 -> evo (OOrP a b) args env d (t1 ++ t2) w d2
| VONot a args env d t1 v d1 : evo a args env d t1 v d1 -> evo (ONotP a) args env d t1 (notv v) d1
| VOEq a b args env d t1 v d1 t2 w d2 :
    evo a args env d t1 v d1 -> evo b args env d1 t2 w d2 -> evo (OEqP a b) args env d (t1 ++ t2) (cmp 0 v w) d2
| VOIf c a b args env d t1 v d1 t2 w d2 :
    evo c args env d t1 v d1 -> evo (if truthy v then a else b) args env d1 t2 w d2 -> evo (OIfP c a b) args env d (t1 ++ t2) w d2
| VOVar k args env v d : nth_error env k = Some v -> evo (OVar k) args env d [] v d
| VOLet a b args env d t1 v d1 t2 w d2 :
    evo a args env d t1 v d1 -> evo b args (v :: env) d1 t2 w d2 -> evo (OLet a b) args env d (t1 ++ t2) w d2.
End Sem.

Scheme ev_ind4 := Minimality for ev Sort Prop
  with evs_ind4 := Minimality for evs Sort Prop
  with evchain_ind4 := Minimality for evchain Sort Prop
  with evo_ind4 := Minimality for evo Sort Prop.
Combined Scheme ev_mutind from ev_ind4, evs_ind4, evchain_ind4, evo_ind4.

(* ---- the two passes (conditional_expressions.py, then logical_expressions.py), bottom-up ---------------- *)
Definition overloaded (eqov : bool) (o : cop) : bool := eqov && (Nat.eqb o 0 || Nat.eqb o 1).
Definition binary (eqov : bool) (o : cop) (l r : expr) : expr :=
  if overloaded eqov o then TEq (Nat.eqb o 1) l r else ECmp l [(o, r)].

Fixpoint tr (eqov : bool) (e : expr) {struct e} : expr :=
  match e with
  | EOp l es => EOp l (map (tr eqov) es)
  | ELazy l x => ELazy l (tr eqov x)
  | EBool isand e1 e2 => TBool isand (tr eqov e1) (tr eqov e2)
  | ENot x => TNot (tr eqov x)
  | EIfExp c a b => TIfExp (tr eqov c) (tr eqov a) (tr eqov b)
  | ECmp e0 rest =>
      let e0' := tr eqov e0 in
      let rest' := map (fun p => (fst p, tr eqov (snd p))) rest in
      if existsb (fun p => overloaded eqov (fst p)) rest then
        (* visit_Compare: a op1 b op2 c -> and_(lambda: a op1 b, lambda: b op2 c), left-nested *)
        match rest' with
        | [] => ECmp e0' rest'
        | (o, x) :: r =>
            (fix go (acc : expr) (left : expr) (r : list (cop * expr)) : expr :=
               match r with
               | [] => acc
               | (o2, y) :: r2 => go (TBool true acc (binary eqov o2 left y)) y r2
               end) (binary eqov o e0' x) x r
        end
      else ECmp e0' rest'
  | other => other
  end.
