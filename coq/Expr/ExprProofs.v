(* C01, factor 3: the expression passes preserve value, trace and decisions. *)
From Coq Require Import List Arith Bool Lia.
Import ListNotations.
Require Import MV.Expr.ExprLang.

(* the operator implementations the proof is about; Properties/C01/expression_passes_correct.v checks that the
   table generated from malt/operators on this run is this one *)
Definition std_ops : optable :=
  {| op_and := OLet (OForce 0) (OAndP (OVar 0) (OForce 1));      (* a_val = a(); return a_val and b() *)
     op_or := OLet (OForce 0) (OOrP (OVar 0) (OForce 1));
     op_not := ONotP (OArg 0);
     op_ifexp := OIfP (OArg 0) (OForce 1) (OForce 2);
     op_eq := OEqP (OArg 0) (OArg 1);
     op_not_eq := ONotP (OEqP (OArg 0) (OArg 1)) |}.

(* source expressions on which the passes are proved correct: native forms only; a comparison chain that the
   pass splits (one of its operators is overloaded) has a single comparison -- longer ones evaluate their middle
   operands twice after the rewrite (known finding) *)
Fixpoint ok (eqov : bool) (e : expr) {struct e} : bool :=
  match e with
  | EOp _ es => forallb (ok eqov) es
  | ELazy _ x => ok eqov x
  | EBool _ a b => ok eqov a && ok eqov b
  | ENot x => ok eqov x
  | EIfExp c a b => ok eqov c && ok eqov a && ok eqov b
  | ECmp e0 rest =>
      ok eqov e0 && forallb (fun p => ok eqov (snd p)) rest
      && (negb (existsb (fun p => overloaded eqov (fst p)) rest) || Nat.eqb (length rest) 1)
  | _ => false
  end.

Section Proofs.
Variable cmp : cop -> val -> val -> val.
Variable eqov : bool.
(* when == / != are overloaded, `!=` is rewritten to not_(eq(a, b)): the values compared must agree with that *)
Hypothesis ne_is_not_eq : eqov = true -> forall a b, cmp 1 a b = notv (cmp 0 a b).

Notation EV := (ev cmp std_ops).
Notation mapc := (map (fun p : cop * expr => (fst p, tr eqov (snd p)))).

Theorem tr_correct_all :
  (forall e d t v d', EV e d t v d' -> ok eqov e = true -> EV (tr eqov e) d t v d') /\
  (forall es d t vs d', evs cmp std_ops es d t vs d' -> forallb (ok eqov) es = true ->
      evs cmp std_ops (map (tr eqov) es) d t vs d') /\
  (forall vl rest d last t w d', evchain cmp std_ops vl rest d last t w d' ->
      forallb (fun p => ok eqov (snd p)) rest = true -> evchain cmp std_ops vl (mapc rest) d last t w d') /\
  (forall o args env d t v d', evo cmp std_ops o args env d t v d' -> True).
Proof.
  apply ev_mutind; try (intros; exact I).
  - (* op *) intros l es d t vs d1 _ IH K. simpl in K |- *. apply VOp with (vs := vs). apply IH, K.
  - (* lazy *) intros l e d K. simpl. apply VLazy.
  - (* and / or: second operand evaluated *)
    intros isand e1 e2 d t1 v d1 t2 w d2 _ IH1 E _ IH2 K. simpl in K |- *. apply andb_true_iff in K. destruct K as [K1 K2].
    apply VTBool. destruct isand; simpl.
    + eapply VOLet; [eapply VOForce; [reflexivity | apply IH1, K1]|]. change t2 with ([] ++ t2).
      apply VOAndGo with (v := v) (d1 := d1); [apply VOVar; reflexivity | | eapply VOForce; [reflexivity | apply IH2, K2]].
      destruct (truthy v); [reflexivity | discriminate].
    + eapply VOLet; [eapply VOForce; [reflexivity | apply IH1, K1]|]. change t2 with ([] ++ t2).
      apply VOOrGo with (v := v) (d1 := d1); [apply VOVar; reflexivity | | eapply VOForce; [reflexivity | apply IH2, K2]].
      destruct (truthy v); [discriminate | reflexivity].
  - (* and / or: short-circuit *)
    intros isand e1 e2 d t1 v d1 _ IH1 E K. simpl in K |- *. apply andb_true_iff in K. destruct K as [K1 K2].
    apply VTBool. destruct isand; simpl.
    + rewrite <- (app_nil_r t1). eapply VOLet; [eapply VOForce; [reflexivity | apply IH1, K1]|].
      apply VOAndStop; [apply VOVar; reflexivity|]. destruct (truthy v); [discriminate | reflexivity].
    + rewrite <- (app_nil_r t1). eapply VOLet; [eapply VOForce; [reflexivity | apply IH1, K1]|].
      apply VOOrStop; [apply VOVar; reflexivity|]. destruct (truthy v); [reflexivity | discriminate].
  - (* not *)
    intros x d t1 v d1 _ IH K. simpl in K |- *. rewrite <- (app_nil_r t1).
    eapply VTNot; [apply IH, K|]. simpl. apply VONot. apply VOArg. reflexivity.
  - (* conditional expression *)
    intros c a b d t1 v d1 t2 w d2 _ IHc _ IHb K. simpl in K |- *.
    apply andb_true_iff in K. destruct K as [K Kb]. apply andb_true_iff in K. destruct K as [Kc Ka].
    eapply VTIfExp; [apply IHc, Kc|]. simpl. change t2 with ([] ++ t2).
    eapply VOIf; [apply VOArg; reflexivity|].
    destruct (truthy v); (eapply VOForce; [reflexivity | apply IHb; assumption]).
  - (* comparison chain *)
    intros e0 rest d t0 v0 d0 t1 w d1 _ IH0 _ IHc K. simpl in K.
    apply andb_true_iff in K. destruct K as [K KL]. apply andb_true_iff in K. destruct K as [K0 Kr].
    specialize (IH0 K0). specialize (IHc Kr).
    simpl. destruct (existsb (fun p => overloaded eqov (fst p)) rest) eqn:EX.
    + (* the pass splits the chain: it has exactly one comparison *)
      simpl in KL. apply Nat.eqb_eq in KL.
      destruct rest as [|[o x] [|q r]]; try discriminate. simpl in EX, IHc |- *.
      rewrite orb_false_r in EX. unfold binary. rewrite EX.
      assert (Q : eqov = true /\ (o = 0 \/ o = 1)).
      { unfold overloaded in EX. apply andb_true_iff in EX. destruct EX as [A B]. split; [exact A|].
        apply orb_true_iff in B. destruct B as [B|B]; apply Nat.eqb_eq in B; auto. }
      destruct Q as [Qe Qo].
      assert (R : exists tx vr, EV (tr eqov x) d0 tx vr d1 /\ t1 = tx /\ w = cmp o v0 vr).
      { inversion IHc; subst.
        - match goal with H : evchain _ _ _ [] _ _ _ _ _ |- _ => inversion H; subst end.
          eexists; eexists; split; [eassumption|]. split; [apply app_nil_r | reflexivity].
        - eexists; eexists; split; [eassumption|]. split; reflexivity. }
      destruct R as [tx [vr [Rx [E1 E2]]]]. subst t1 w.
      replace (t0 ++ tx) with (t0 ++ tx ++ []) by (rewrite app_nil_r; reflexivity).
      destruct Qo as [-> | ->]; simpl.
      * eapply VTEq; [exact IH0 | exact Rx|]. simpl. change (@nil label) with (@nil label ++ []).
        eapply VOEq; apply VOArg; reflexivity.
      * rewrite (ne_is_not_eq Qe). eapply VTEq; [exact IH0 | exact Rx|]. simpl.
        apply VONot. change (@nil label) with (@nil label ++ []). eapply VOEq; apply VOArg; reflexivity.
    + eapply VCmp; eassumption.
  - (* generated forms do not occur in source expressions *) intros; discriminate.
  - intros; discriminate.
  - intros; discriminate.
  - intros; discriminate.
  - (* list of operands *) intros d _. simpl. constructor.
  - intros x r d t1 v d1 t2 vs d2 _ IHx _ IHr K. simpl in K |- *. apply andb_true_iff in K. destruct K as [K1 K2].
    eapply VSCons; [apply IHx, K1 | apply IHr, K2].
  - (* chain *) intros vl d last _. simpl. constructor.
  - intros vl o x r d last t1 vr d1 t2 w d2 _ IHx T _ IHr K. simpl in K |- *. apply andb_true_iff in K. destruct K as [K1 K2].
    eapply VCGo; [apply IHx, K1 | exact T | apply IHr, K2].
  - intros vl o x r d last t1 vr d1 _ IHx T K. simpl in K |- *. apply andb_true_iff in K. destruct K as [K1 K2].
    eapply VCStop; [apply IHx, K1 | exact T].
Qed.
End Proofs.

Theorem expression_passes_correct_lemma : forall cmp eqov,
  (eqov = true -> forall a b, cmp 1 a b = notv (cmp 0 a b)) ->
  forall e d t v d', ev cmp std_ops e d t v d' -> ok eqov e = true -> ev cmp std_ops (tr eqov e) d t v d'.
Proof. intros cmp eqov H. exact (proj1 (tr_correct_all cmp eqov H)). Qed.

(* ---- the fuelled interpreter is sound for the relational semantics ------------------------------------ *)
Section Sound.
Variable cmp : cop -> val -> val -> val.
Variable ops : optable.

Lemma eval_sound : forall n,
  (forall e d t v d', eval cmp ops n e d = Some (t, v, d') -> ev cmp ops e d t v d') /\
  (forall es d t vs d', evals cmp ops n es d = Some (t, vs, d') -> evs cmp ops es d t vs d') /\
  (forall vl rest d last t w d', chain cmp ops n vl rest d last = Some (t, w, d') -> evchain cmp ops vl rest d last t w d') /\
  (forall o args env d t v d', osem cmp ops n o args env d = Some (t, v, d') -> evo cmp ops o args env d t v d').
Proof.
  induction n as [|n [IHe [IHs [IHc IHo]]]]; [repeat split; intros; discriminate|].
  split; [|split; [|split]].
  - intros e d t v d' H. destruct e as [l es|l x|isand e1 e2|x|c a b|e0 rest|isand e1 e2|x|c a b|neg a b]; simpl in H.
    + destruct (evals cmp ops n es d) as [[[t0 vs] d1]|] eqn:E; [|discriminate]. injection H as <- <- <-.
      eapply VOp. apply IHs, E.
    + injection H as <- <- <-. constructor.
    + destruct (eval cmp ops n e1 d) as [[[t1 v1] d1]|] eqn:E1; [|discriminate].
      destruct (Bool.eqb (truthy v1) isand) eqn:B.
      * destruct (eval cmp ops n e2 d1) as [[[t2 w] d2]|] eqn:E2; [|discriminate]. injection H as <- <- <-.
        eapply VBoolGo; [apply IHe, E1 | exact B | apply IHe, E2].
      * injection H as <- <- <-. eapply VBoolStop; [apply IHe, E1 | exact B].
    + destruct (eval cmp ops n x d) as [[[t1 v1] d1]|] eqn:E1; [|discriminate]. injection H as <- <- <-.
      apply VNot. apply IHe, E1.
    + destruct (eval cmp ops n c d) as [[[t1 v1] d1]|] eqn:E1; [|discriminate].
      destruct (eval cmp ops n (if truthy v1 then a else b) d1) as [[[t2 w] d2]|] eqn:E2; [|discriminate]. injection H as <- <- <-.
      eapply VIfExp; [apply IHe, E1 | apply IHe, E2].
    + destruct (eval cmp ops n e0 d) as [[[t0 v0] d0]|] eqn:E0; [|discriminate].
      destruct (chain cmp ops n v0 rest d0 1) as [[[t1 w] d1]|] eqn:E1; [|discriminate]. injection H as <- <- <-.
      eapply VCmp; [apply IHe, E0 | apply IHc, E1].
    + apply VTBool. apply IHo, H.
    + destruct (eval cmp ops n x d) as [[[t1 v1] d1]|] eqn:E1; [|discriminate].
      destruct (osem cmp ops n (op_not ops) [AVal v1] [] d1) as [[[t2 w] d2]|] eqn:E2; [|discriminate]. injection H as <- <- <-.
      eapply VTNot; [apply IHe, E1 | apply IHo, E2].
    + destruct (eval cmp ops n c d) as [[[t1 v1] d1]|] eqn:E1; [|discriminate].
      destruct (osem cmp ops n (op_ifexp ops) [AVal v1; AThunk a; AThunk b] [] d1) as [[[t2 w] d2]|] eqn:E2; [|discriminate].
      injection H as <- <- <-. eapply VTIfExp; [apply IHe, E1 | apply IHo, E2].
    + destruct (eval cmp ops n a d) as [[[t1 v1] d1]|] eqn:E1; [|discriminate].
      destruct (eval cmp ops n b d1) as [[[t2 v2] d2]|] eqn:E2; [|discriminate].
      destruct (osem cmp ops n (if neg then op_not_eq ops else op_eq ops) [AVal v1; AVal v2] [] d2) as [[[t3 u] d3]|] eqn:E3; [|discriminate].
      injection H as <- <- <-. eapply VTEq; [apply IHe, E1 | apply IHe, E2 | apply IHo, E3].
  - intros es d t vs d' H. destruct es as [|x r]; simpl in H.
    + injection H as <- <- <-. constructor.
    + destruct (eval cmp ops n x d) as [[[t1 v1] d1]|] eqn:E1; [|discriminate].
      destruct (evals cmp ops n r d1) as [[[t2 vs2] d2]|] eqn:E2; [|discriminate]. injection H as <- <- <-.
      eapply VSCons; [apply IHe, E1 | apply IHs, E2].
  - intros vl rest d last t w d' H. destruct rest as [|[o x] r]; simpl in H.
    + injection H as <- <- <-. constructor.
    + destruct (eval cmp ops n x d) as [[[t1 vr] d1]|] eqn:E1; [|discriminate].
      destruct (truthy (cmp o vl vr)) eqn:T.
      * destruct (chain cmp ops n vr r d1 (cmp o vl vr)) as [[[t2 w2] d2]|] eqn:E2; [|discriminate]. injection H as <- <- <-.
        eapply VCGo; [apply IHe, E1 | exact T | apply IHc, E2].
      * injection H as <- <- <-. eapply VCStop; [apply IHe, E1 | exact T].
  - intros o args env d t v d' H. destruct o as [i|i|a b|a b|a|a b|c a b|k|a b]; simpl in H.
    + destruct (nth_error args i) as [[v0|x]|] eqn:N; try discriminate. injection H as <- <- <-. apply VOArg, N.
    + destruct (nth_error args i) as [[v0|x]|] eqn:N; try discriminate. eapply VOForce; [exact N | apply IHe, H].
    + destruct (osem cmp ops n a args env d) as [[[t1 v1] d1]|] eqn:E1; [|discriminate]. destruct (truthy v1) eqn:T.
      * destruct (osem cmp ops n b args env d1) as [[[t2 w] d2]|] eqn:E2; [|discriminate]. injection H as <- <- <-.
        eapply VOAndGo; [apply IHo, E1 | exact T | apply IHo, E2].
      * injection H as <- <- <-. eapply VOAndStop; [apply IHo, E1 | exact T].
    + destruct (osem cmp ops n a args env d) as [[[t1 v1] d1]|] eqn:E1; [|discriminate]. destruct (truthy v1) eqn:T.
      * injection H as <- <- <-. eapply VOOrStop; [apply IHo, E1 | exact T].
      * destruct (osem cmp ops n b args env d1) as [[[t2 w] d2]|] eqn:E2; [|discriminate]. injection H as <- <- <-.
        eapply VOOrGo; [apply IHo, E1 | exact T | apply IHo, E2].
    + destruct (osem cmp ops n a args env d) as [[[t1 v1] d1]|] eqn:E1; [|discriminate]. injection H as <- <- <-.
      apply VONot. apply IHo, E1.
    + destruct (osem cmp ops n a args env d) as [[[t1 v1] d1]|] eqn:E1; [|discriminate].
      destruct (osem cmp ops n b args env d1) as [[[t2 w] d2]|] eqn:E2; [|discriminate]. injection H as <- <- <-.
      eapply VOEq; [apply IHo, E1 | apply IHo, E2].
    + destruct (osem cmp ops n c args env d) as [[[t1 v1] d1]|] eqn:E1; [|discriminate].
      destruct (osem cmp ops n (if truthy v1 then a else b) args env d1) as [[[t2 w] d2]|] eqn:E2; [|discriminate]. injection H as <- <- <-.
      eapply VOIf; [apply IHo, E1 | apply IHo, E2].
    + destruct (nth_error env k) as [v0|] eqn:N; [|discriminate]. injection H as <- <- <-. apply VOVar, N.
    + destruct (osem cmp ops n a args env d) as [[[t1 v1] d1]|] eqn:E1; [|discriminate].
      destruct (osem cmp ops n b args (v1 :: env) d1) as [[[t2 w] d2]|] eqn:E2; [|discriminate]. injection H as <- <- <-.
      eapply VOLet; [apply IHo, E1 | apply IHo, E2].
Qed.
End Sound.
