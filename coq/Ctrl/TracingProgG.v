(* C02 (semantic form, whole programs, re-injection with arbitrary garbage): the semantics [gfun_*] of a
   backend that traces loop bodies as functions of the carried state alone -- before EVERY test and
   iteration the carried state (exactly the state tuple) is injected into a store whose other variables
   hold arbitrary values, constrained only by: a variable no statement of the loop body assigns still has
   its real value.  The executions of Ctrl/TracingProg.v's [fun_*] (trace once, reset, run natively) are
   the special case "garbage = what the previous run left".  Same theorem, for every choice of garbage. *)
From Coq Require Import List String Bool Arith Lia.
Import ListNotations.
Require Import MV.Ctrl.BlockSyntax MV.Generated.C02_gen MV.Ctrl.BlockVars MV.Ctrl.BlockVarsProofs
               MV.Ctrl.Tracing MV.Ctrl.TracingProofs MV.Ctrl.TracingProg MV.Ctrl.TracingProgProofs.

Section G.
Variable val : Type.
Variables nl gl : list name.
Notation store := (store val).

(* garbage g is admissible at store s for a loop whose body assigns D *)
Definition ok_g (D : list name) (s g : store) : Prop := forall x, ~ In x D -> g x = s x.

Inductive gloop (vars D : list name) (test : store -> bool) (B : store -> store -> Prop) : store -> store -> Prop :=
| GLoopF s g : ok_g D s g -> test (inject val vars s g) = false -> gloop vars D test B s (inject val vars s g)
| GLoopT s g s1 r : ok_g D s g -> test (inject val vars s g) = true -> B (inject val vars s g) s1 ->
    gloop vars D test B s1 r -> gloop vars D test B s r.
Inductive giter (vars D : list name) (B : val -> store -> store -> Prop) : list val -> store -> store -> Prop :=
| GIterNil s g : ok_g D s g -> giter vars D B [] s (inject val vars s g)
| GIterCons v vs s g s1 r : ok_g D s g -> B v (inject val vars s g) s1 -> giter vars D B vs s1 r ->
    giter vars D B (v :: vs) s r.

Inductive gfun_s : stmt val -> list name -> store -> store -> Prop :=
| GAtom u d f O s : gfun_s (SAtom val u d f) O s (f s)
| GIf tu test b1 b2 O s s1 s2 :
    let c := ctx_of val nl gl (SIf val tu test b1 b2) O in
    gfun_b b1 O s s1 ->
    gfun_b b2 O (inject val (state c) s s1) s2 ->
    gfun_s (SIf val tu test b1 b2) O s
           (inject val (firstn (nouts c) (state c)) (if test s then s1 else s2) (inject val (state c) s s2))
| GWhile Lh tu test body O s r :
    let c := ctx_of val nl gl (SWhile val Lh tu test body) O in
    gloop (state c) (defs_b val body) test (gfun_b body Lh) s r ->
    gfun_s (SWhile val Lh tu test body) O s r
| GFor Lh iu items tg body O s r :
    let c := ctx_of val nl gl (SFor val Lh iu items tg body) O in
    giter (state c) (tg :: defs_b val body) (fun v s1 r1 => gfun_b body Lh (set_var val tg v s1) r1) (items s) s r ->
    gfun_s (SFor val Lh iu items tg body) O s r
with gfun_b : block val -> list name -> store -> store -> Prop :=
| GNil O s : gfun_b (BNil val) O s s
| GCons st r O s s1 s2 : gfun_s st (live_b val r O) s s1 -> gfun_b r O s1 s2 -> gfun_b (BCons val st r) O s s2.

(* ------------------------------------------------------------------ generic facts *)
Lemma inject_ok_g_out vars D (s g : store) x : ok_g D s g -> ~ In x D -> inject val vars s g x = s x.
Proof.
  intros Hg Hx. destruct (in_dec string_dec x vars) as [Hv|Hv].
  - rewrite inject_in by exact Hv. reflexivity.
  - rewrite inject_out by exact Hv. apply Hg, Hx.
Qed.

Lemma gloop_writes vars D test (B : store -> store -> Prop) :
  (forall s r, B s r -> forall x, ~ In x D -> r x = s x) ->
  forall s r, gloop vars D test B s r -> forall x, ~ In x D -> r x = s x.
Proof.
  intros HB s r H. induction H as [s g Hg Ht | s g s1 r Hg Ht Hb Hl IH]; intros x Hx.
  - apply inject_ok_g_out with (D := D); assumption.
  - rewrite (IH x Hx). rewrite (HB _ _ Hb x Hx). apply inject_ok_g_out with (D := D); assumption.
Qed.

Lemma giter_writes vars D (B : val -> store -> store -> Prop) :
  (forall v s r, B v s r -> forall x, ~ In x D -> r x = s x) ->
  forall vs s r, giter vars D B vs s r -> forall x, ~ In x D -> r x = s x.
Proof.
  intros HB vs s r H. induction H as [s g Hg | v vs s g s1 r Hg Hb Hl IH]; intros x Hx.
  - apply inject_ok_g_out with (D := D); assumption.
  - rewrite (IH x Hx). rewrite (HB _ _ _ Hb x Hx). apply inject_ok_g_out with (D := D); assumption.
Qed.

(* the re-injected store agrees with the original on the header set *)
Lemma reinject_agree (Lh vars D : list name) (s t g : store) :
  (forall x, In x D -> In x Lh -> In x vars) ->
  agree val Lh s t -> ok_g D t g -> agree val Lh s (inject val vars t g).
Proof.
  intros Hc Ha Hg y Hy. destruct (in_dec string_dec y vars) as [Hv|Hv].
  - rewrite inject_in by exact Hv. apply Ha, Hy.
  - rewrite inject_out by exact Hv. rewrite Hg by (intro K; apply Hv; apply Hc; assumption). apply Ha, Hy.
Qed.

Lemma gloop_sim (Lh vars D : list name) test (B B' : store -> store -> Prop) :
  (forall x, In x D -> In x Lh -> In x vars) ->
  (forall s t, agree val Lh s t -> test s = test t) ->
  (forall s t s1 t1, agree val Lh s t -> B s s1 -> B' t t1 -> agree val Lh s1 t1) ->
  forall s r, loop_rel val test B s r -> forall t r', agree val Lh s t -> gloop vars D test B' t r' ->
  agree val Lh r r'.
Proof.
  intros Hc Ht HB s r H. induction H as [s Hs | s s1 r Hs Hb Hl IH]; intros t r' Ha H'.
  - inversion H' as [t0 g Hg Ht0 | t0 g t1 r0 Hg Ht0 Hb' Hl']; subst.
    + apply reinject_agree with (D := D); assumption.
    + pose proof (reinject_agree Lh vars D s t g Hc Ha Hg) as Hst. rewrite (Ht _ _ Hst) in Hs. congruence.
  - inversion H' as [t0 g Hg Ht0 | t0 g t1 r0 Hg Ht0 Hb' Hl']; subst;
      pose proof (reinject_agree Lh vars D s t g Hc Ha Hg) as Hst.
    + rewrite (Ht _ _ Hst) in Hs. congruence.
    + eapply IH; [|exact Hl']. eapply HB; eassumption.
Qed.

Lemma giter_sim (Lh vars D : list name) (B B' : val -> store -> store -> Prop) :
  (forall x, In x D -> In x Lh -> In x vars) ->
  (forall v s t s1 t1, agree val Lh s t -> B v s s1 -> B' v t t1 -> agree val Lh s1 t1) ->
  forall vs s r, iter_rel val B vs s r -> forall t r', agree val Lh s t -> giter vars D B' vs t r' ->
  agree val Lh r r'.
Proof.
  intros Hc HB vs s r H. induction H as [s | v vs s s1 r Hb Hl IH]; intros t r' Ha H'.
  - inversion H' as [t0 g Hg|]; subst. apply reinject_agree with (D := D); assumption.
  - inversion H' as [| v0 vs0 t0 g t1 r0 Hg Hb' Hl']; subst.
    pose proof (reinject_agree Lh vars D s t g Hc Ha Hg) as Hst.
    eapply IH; [|exact Hl']. eapply HB; eassumption.
Qed.

(* ------------------------------------------------------------------ who writes what *)
Lemma gfun_writes :
  (forall st : stmt val, forall O s r, ok_s val st O -> gfun_s st O s r ->
     forall x, ~ In x (defs_s val st) -> r x = s x) /\
  (forall b : block val, forall O s r, ok_b val b O -> gfun_b b O s r ->
     forall x, ~ In x (defs_b val b) -> r x = s x).
Proof.
  apply stmt_block_mut.
  - intros u d f O s r [W _] H x Hx. inversion H; subst. apply W. exact Hx.
  - intros tu test b1 IH1 b2 IH2 O s r [_ [O1 O2]] H x Hx. inversion H; subst.
    match goal with |- inject _ _ _ (inject _ ?vars _ _) _ = _ => set (V := vars) in * end.
    assert (HxV : ~ In x V).
    { intro K. apply state_in_modified in K. cbn in K. exact (Hx K). }
    assert (HxO : ~ In x (firstn (nouts (ctx_of val nl gl (SIf val tu test b1 b2) O)) V)).
    { intro K. apply HxV. eapply In_firstn_In. exact K. }
    rewrite inject_out by exact HxO. rewrite inject_out by exact HxV.
    cbn [defs_s] in Hx. rewrite in_app_iff in Hx.
    match goal with Hb2 : gfun_b b2 _ _ _ |- _ => rewrite (IH2 _ _ _ O2 Hb2 x) by tauto end.
    rewrite inject_out by exact HxV.
    match goal with Hb1 : gfun_b b1 _ _ _ |- _ => rewrite (IH1 _ _ _ O1 Hb1 x) by tauto end.
    reflexivity.
  - intros Lh tu test body IH O s r [_ [_ [_ [_ Ob]]]] H x Hx. cbn [defs_s] in Hx. inversion H; subst.
    match goal with Hl : gloop _ _ _ _ _ _ |- _ =>
      exact (gloop_writes _ _ _ _ (fun s0 r0 Hb y Hy => IH _ _ _ Ob Hb y Hy) _ _ Hl x Hx) end.
  - intros Lh iu items tg body IH O s r [_ [_ [_ Ob]]] H x Hx. cbn [defs_s] in Hx. inversion H; subst.
    assert (HB : forall v s0 r0, gfun_b body Lh (set_var val tg v s0) r0 ->
                 forall y, ~ In y (tg :: defs_b val body) -> r0 y = s0 y).
    { intros v s0 r0 Hb y Hy.
      rewrite (IH _ _ _ Ob Hb y) by (intro K; apply Hy; right; exact K).
      unfold set_var. destruct (String.eqb y tg) eqn:E; [|reflexivity].
      apply String.eqb_eq in E. exfalso; apply Hy; left; congruence. }
    match goal with Hl : giter _ _ _ _ _ _ |- _ => exact (giter_writes _ _ _ HB _ _ _ Hl x Hx) end.
  - intros O s r _ H x _. inversion H; subst. reflexivity.
  - intros st IHs r IHb O s r0 [Os Ob] H x Hx. cbn [defs_b] in Hx. rewrite in_app_iff in Hx.
    inversion H; subst. erewrite IHb; [|exact Ob|eassumption|tauto]. eapply IHs; [exact Os|eassumption|tauto].
Qed.

(* ------------------------------------------------------------------ the theorem *)
Lemma tracing_program_agrees_g :
  (forall st : stmt val, forall O s t r r', ok_s val st O -> agree val (live_s val st O) s t ->
     imp_s val st s r -> gfun_s st O t r' -> agree val O r r') /\
  (forall b : block val, forall O s t r r', ok_b val b O -> agree val (live_b val b O) s t ->
     imp_b val b s r -> gfun_b b O t r' -> agree val O r r').
Proof.
  apply stmt_block_mut.
  - intros u d f O s t r r' [W D] Ha Hi Hf. inversion Hi; subst. inversion Hf; subst.
    cbn [live_s] in Ha. intros x Hx. destruct (in_dec string_dec x d) as [Hd|Hd].
    + apply D; [|exact Hd]. intros y Hy. apply Ha. apply in_or_app. left. exact Hy.
    + rewrite (W s x Hd), (W t x Hd). apply Ha. apply in_or_app. right. apply In_minus. split; assumption.
  - intros tu test b1 IH1 b2 IH2 O s t r r' Hok Ha Hi Hf. pose proof Hok as [Rt [O1 O2]].
    inversion Hf; subst.
    assert (Hcin : forall x, In x (defs_s val (SIf val tu test b1 b2)) -> In x (live_s val (SIf val tu test b1 b2) O) -> In x (state c))
      by (intros x; apply (carried_in_of_state_complete c)).
    assert (Hcout : forall x, In x (defs_s val (SIf val tu test b1 b2)) -> In x O -> In x (firstn (nouts c) (state c)))
      by (intros x; apply (outputs_of_state_complete c)).
    cbn [live_s] in Ha.
    assert (Ha1 : agree val (live_b val b1 O) s t).
    { intros y Hy. apply Ha. apply in_or_app. right. apply in_or_app. left. exact Hy. }
    assert (Htest : test s = test t).
    { apply Rt. intros y Hy. apply Ha. apply in_or_app. left. exact Hy. }
    match goal with Hb1 : gfun_b b1 _ _ ?S1, Hb2 : gfun_b b2 _ _ ?S2 |- _ =>
      rename Hb1 into Hf1; rename Hb2 into Hf2; rename S1 into s1; rename S2 into s2 end.
    assert (Ha2 : agree val (live_b val b2 O) s (inject val (state c) t s1)).
    { intros y Hy.
      assert (HyL : In y (live_s val (SIf val tu test b1 b2) O)).
      { cbn [live_s]. apply in_or_app. right. apply in_or_app. right. exact Hy. }
      destruct (in_dec string_dec y (state c)) as [Hv|Hv].
      - rewrite inject_in by exact Hv. apply Ha. exact HyL.
      - rewrite inject_out by exact Hv.
        assert (Hyd : ~ In y (defs_b val b1)).
        { intro K. apply Hv. apply Hcin; [cbn [defs_s]; apply in_or_app; left; exact K | exact HyL]. }
        rewrite (proj2 gfun_writes b1 _ _ _ O1 Hf1 y Hyd). apply Ha. exact HyL. }
    assert (Hrest : forall x, In x O -> ~ In x (firstn (nouts c) (state c)) ->
              r x = s x /\ inject val (state c) t s2 x = t x /\ s x = t x).
    { intros x HxO Hno.
      assert (Hd : ~ In x (defs_s val (SIf val tu test b1 b2))) by (intro K; apply Hno; apply Hcout; assumption).
      assert (Hv : ~ In x (state c)) by (intro K; apply state_in_modified in K; exact (Hd K)).
      cbn [defs_s] in Hd. rewrite in_app_iff in Hd.
      split; [|split].
      - eapply (proj1 (imp_writes val) (SIf val tu test b1 b2)); [exact Hok | exact Hi |].
        cbn [defs_s]. rewrite in_app_iff. exact Hd.
      - rewrite inject_out by exact Hv.
        rewrite (proj2 gfun_writes b2 _ _ _ O2 Hf2 x) by tauto. rewrite inject_out by exact Hv.
        apply (proj2 gfun_writes b1 _ _ _ O1 Hf1 x). tauto.
      - apply Ha1. apply (proj2 (live_through val) b1); [exact O1 | exact HxO | tauto]. }
    intros x Hx. destruct (in_dec string_dec x (firstn (nouts c) (state c))) as [Ho|Ho].
    + rewrite inject_in by exact Ho. rewrite <- Htest.
      inversion Hi; subst.
      * match goal with Ht : test s = true |- _ => rewrite Ht end.
        eapply IH1; [exact O1 | exact Ha1 | eassumption | exact Hf1 | exact Hx].
      * match goal with Ht : test s = false |- _ => rewrite Ht end.
        eapply IH2; [exact O2 | exact Ha2 | eassumption | exact Hf2 | exact Hx].
    + rewrite inject_out by exact Ho. destruct (Hrest x Hx Ho) as [E1 [E2 E3]]. rewrite E1, E2. exact E3.
  - intros Lh tu test body IH O s t r r' Hok Ha Hi Hf. pose proof Hok as [Rt [Htu [HOL [Hbl Ob]]]].
    inversion Hi; subst. inversion Hf; subst.
    cbn [live_s] in Ha.
    eapply agree_incl; [exact HOL|].
    eapply (gloop_sim Lh (state c) (defs_b val body) test (imp_b val body) (gfun_b body Lh));
      [| | |eassumption|exact Ha|eassumption].
    + intros x Hd Hl. apply (carried_in_of_state_complete c); [exact Hd | exact Hl].
    + intros s0 t0 H0. apply Rt. eapply agree_incl; [exact Htu | exact H0].
    + intros s0 t0 s1 t1 H0 Hb Hb'. eapply IH; [exact Ob| |exact Hb|exact Hb'].
      eapply agree_incl; [exact Hbl | exact H0].
  - intros Lh iu items tg body IH O s t r r' Hok Ha Hi Hf. pose proof Hok as [Hit [HOL [Hbl Ob]]].
    inversion Hi; subst. inversion Hf; subst.
    cbn [live_s] in Ha.
    assert (Hitems : items s = items t).
    { apply Hit. intros y Hy. apply Ha. apply in_or_app. left. exact Hy. }
    assert (HaL : agree val Lh s t).
    { intros y Hy. apply Ha. apply in_or_app. right. exact Hy. }
    eapply agree_incl; [exact HOL|].
    rewrite <- Hitems in *.
    eapply (giter_sim Lh (state c) (tg :: defs_b val body)
                      (fun v s1 r1 => imp_b val body (set_var val tg v s1) r1)
                      (fun v s1 r1 => gfun_b body Lh (set_var val tg v s1) r1));
      [| |eassumption|exact HaL|eassumption].
    + intros x Hd Hl. apply (carried_in_of_state_complete c); [exact Hd |]. cbn. apply in_or_app. right. exact Hl.
    + intros v s0 t0 s1 t1 H0 Hb Hb'. cbn beta in Hb, Hb'. eapply IH; [exact Ob| |exact Hb|exact Hb'].
      intros y Hy. unfold set_var. destruct (String.eqb y tg) eqn:E; [reflexivity|].
      apply H0. apply Hbl. apply In_minus. split; [exact Hy|].
      intros [K|[]]. subst y. rewrite String.eqb_refl in E. discriminate.
  - intros O s t r r' _ Ha Hi Hf. inversion Hi; subst. inversion Hf; subst. exact Ha.
  - intros st IHs r IHb O s t r0 r0' [Os Ob] Ha Hi Hf. inversion Hi; subst. inversion Hf; subst.
    eapply IHb; [exact Ob| |eassumption|eassumption].
    eapply IHs; [exact Os|exact Ha|eassumption|eassumption].
Qed.

End G.
