(* C02/C03: executable model of ControlFlowTransformer._get_block_vars for simple names, interpreting
   the formulas generated from the source (Generated/C02_gen.v). *)
From Coq Require Import List String Bool Arith.
Import ListNotations.
Require Import MV.Ctrl.BlockSyntax MV.Generated.C02_gen.

Definition name := string.
Definition mem (x : name) (l : list name) : bool := existsb (String.eqb x) l.

Record ctx : Set := mkctx {
  modified : list name;      (* simple names bound in the bodies of the statement *)
  live_in : list name; live_out : list name;
  fn_nonlocals : list name; fn_globals : list name
}.

Definition fn_get (c : ctx) (f : fnset) : list name :=
  match f with FnNonlocals => fn_nonlocals c | FnGlobals => fn_globals c end.

Fixpoint beval (e : bexpr) (c : ctx) (s : name) : bool :=
  match e with
  | BOr a b => beval a c s || beval b c s
  | BAnd a b => beval a c s && beval b c s
  | BInLiveIn => mem s (live_in c)
  | BInLiveOut => mem s (live_out c)
  | BInFn sets => existsb (fun f => mem s (fn_get c f)) sets
  end.

(* _get_block_basic_vars *)
Definition basic (c : ctx) : list name := filter (beval basic_cond_gen c) (modified c).

(* membership in a set expression *)
Fixpoint smem (e : sexpr) (c : ctx) (s : name) : bool :=
  match e with
  | SInter a b => smem a c s && smem b c s
  | SUnion a b => smem a c s || smem b c s
  | SDiff a b => smem a c s && negb (smem b c s)
  | SBasic => mem s (basic c)
  | SLiveIn => mem s (live_in c)
  | SLiveOut => mem s (live_out c)
  | SFn sets => existsb (fun f => mem s (fn_get c f)) sets
  end.
Definition in_input_only (c : ctx) (s : name) : bool := smem input_only_gen c s.

(* sorted(scope_vars, key=lambda v: (v in input_only, v)): outputs first; the order inside each group
   (lexicographic) is irrelevant for what is proved here and is validated by the correspondence *)
Definition outs (c : ctx) : list name := filter (fun s => negb (in_input_only c s)) (basic c).
Definition ins (c : ctx) : list name := filter (in_input_only c) (basic c).
Definition state (c : ctx) : list name := outs c ++ ins c.
(* nouts = len(scope_vars) - len(input_only); input_only is a subset of the basic variables *)
Definition nouts (c : ctx) : nat := List.length (state c) - List.length (ins c).

Fixpoint index_of (x : name) (l : list name) : option nat :=
  match l with
  | [] => None
  | y :: r => if String.eqb x y then Some 0 else option_map S (index_of x r)
  end.
