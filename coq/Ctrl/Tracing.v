(* C02 (semantic form): executable model of the tracing protocol of a functional operator backend.
   The backend touches the enclosing function's variables only through the state callbacks:
     get_state ()      = snapshot of the variables listed in the state tuple  [vars]
     set_state (vals)  = overwrite exactly those variables                     [inject vars vals store]
   Branch and loop bodies are the generated closures: they run on the CURRENT store (whatever earlier
   tracing left there) and write through nonlocal.  A store is a total function name -> val (the value
   Undefined is a val like any other); a body is a function on stores, a condition a predicate on stores.
   Same protocol as the backend of tools/props/c02.py (TracingBackend), which the check injects into the
   real pipeline; the two are run against each other on every run (tracing_protocol correspondence). *)
From Coq Require Import List String Bool Arith.
Import ListNotations.
Require Import MV.Ctrl.BlockSyntax MV.Generated.C02_gen MV.Ctrl.BlockVars.

Section Tracing.
Variable val : Type.
Definition store := name -> val.
Definition block := store -> store.

(* set_state: the listed variables take their values from [vals], every other variable keeps the value
   it has in the current store [cur] *)
Definition inject (vars : list name) (vals cur : store) : store :=
  fun x => if mem x vars then vals x else cur x.

(* ---------------- what the original program does (and the default Python operators) *)
Definition if_imp (c : bool) (body orelse : block) (s : store) : store :=
  if c then body s else orelse s.

Fixpoint while_imp (fuel : nat) (test : store -> bool) (body : block) (s : store) : option store :=
  match fuel with
  | 0 => None
  | S f => if test s then while_imp f test body (body s) else Some s
  end.

(* extra_test is checked before every iteration (a lowered break / return) *)
Fixpoint for_imp (items : list val) (test : store -> bool) (body : val -> block) (s : store) : store :=
  match items with
  | [] => s
  | v :: r => if test s then for_imp r test body (body v s) else s
  end.

(* ---------------- what a tracing backend does *)
(* both branches are run, the second one after the state variables (only those) have been put back to
   their entry values; the declared outputs of the chosen branch are kept, the other state variables
   return to their entry values, variables outside the state tuple keep whatever tracing left *)
Definition if_fun (vars : list name) (nouts : nat) (c : bool) (body orelse : block) (s : store) : store :=
  let s1 := body s in
  let s1' := inject vars s s1 in
  let s2 := orelse s1' in
  let chosen := if c then s1 else s2 in
  inject (firstn nouts vars) chosen (inject vars s s2).

(* the loop body is traced out of band; before every iteration (and the test) the carried state is
   re-injected into a store whose other variables hold whatever tracing left there: [garbage k] at
   iteration k.  A tracing backend only ever runs the generated closures, so garbage differs from the
   entry store only on variables some body assigns -- that is the only thing assumed about it. *)
Fixpoint while_fun (fuel k : nat) (vars : list name) (garbage : nat -> store)
         (test : store -> bool) (body : block) (cur : store) : option store :=
  match fuel with
  | 0 => None
  | S f => let st := inject vars cur (garbage k) in
           if test st then while_fun f (S k) vars garbage test body (body st) else Some st
  end.

Fixpoint for_fun (items : list val) (k : nat) (vars : list name) (garbage : nat -> store)
         (test : store -> bool) (body : val -> block) (cur : store) : store :=
  match items with
  | [] => inject vars cur (garbage k)
  | v :: r => let st := inject vars cur (garbage k) in
              if test st then for_fun r (S k) vars garbage test body (body v st) else st
  end.

(* the instance the harness backend implements: the body is run once from the entry store, the state
   variables are reset, and the loop then runs natively on that store (garbage k = the current store) *)
Definition while_harness (fuel : nat) (vars : list name) (test : store -> bool) (body : block) (s : store) :=
  while_imp fuel test body (inject vars s (body s)).
Definition for_harness (items : list val) (dflt : val) (vars : list name) (test : store -> bool)
           (body : val -> block) (s : store) :=
  for_imp items test body (inject vars s (body (hd dflt items) s)).

(* ---------------- the vocabulary of the theorems *)
Definition agree (L : list name) (s t : store) : Prop := forall x, In x L -> s x = t x.
(* C08: a body assigns only names in its scope's modified set *)
Definition writes_only (M : list name) (b : block) : Prop := forall s x, ~ In x M -> b s x = s x.
(* C07 (what liveness soundness means for a body): the values of the variables live after the body
   depend only on the values of the variables live before it *)
Definition respects (Lin Lout : list name) (b : block) : Prop :=
  forall s t, agree Lin s t -> agree Lout (b s) (b t).
Definition test_respects (L : list name) (t : store -> bool) : Prop :=
  forall s u, agree L s u -> t s = t u.
End Tracing.
