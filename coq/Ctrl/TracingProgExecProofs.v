(* C02: the fuelled interpreters are sound for the big-step relations, the boolean checker for the closure
   conditions, and every compiled concrete program meets the semantic side conditions. *)
From Coq Require Import List String Bool Arith NArith Lia.
Import ListNotations.
Require Import MV.Ctrl.BlockSyntax MV.Generated.C02_gen MV.Ctrl.BlockVars MV.Ctrl.BlockVarsProofs
               MV.Ctrl.Tracing MV.Ctrl.TracingProofs MV.Ctrl.TracingProg MV.Ctrl.TracingProgProofs MV.Ctrl.TracingProgExec.

Scheme cstmt_mut := Induction for cstmt Sort Prop
  with cblock_mut := Induction for cblock Sort Prop.
Combined Scheme cstmt_cblock_mut from cstmt_mut, cblock_mut.

Section Sound.
Variable val : Type.
Variables nl gl : list name.
Variable dflt : val.
Notation store := (store val).

(* unfolding equations (mutual fixpoints do not refold under cbn) *)
Lemma irun_s_S n st s : irun_s val (S n) st s =
  match st with
  | SAtom _ _ _ f => Some (f s)
  | SIf _ _ test b1 b2 => if test s then irun_b val n b1 s else irun_b val n b2 s
  | SWhile _ _ _ test body =>
      if test s then match irun_b val n body s with Some s1 => irun_s val n st s1 | None => None end else Some s
  | SFor _ _ _ items tg body => irun_iter val n tg body (items s) s
  end.
Proof. destruct st; reflexivity. Qed.
Lemma irun_b_S n b s : irun_b val (S n) b s =
  match b with
  | BNil _ => Some s
  | BCons _ st r => match irun_s val n st s with Some s1 => irun_b val n r s1 | None => None end
  end.
Proof. destruct b; reflexivity. Qed.
Lemma irun_iter_S n tg body vs s : irun_iter val (S n) tg body vs s =
  match vs with
  | [] => Some s
  | v :: r => match irun_b val n body (set_var val tg v s) with Some s1 => irun_iter val n tg body r s1 | None => None end
  end.
Proof. destruct vs; reflexivity. Qed.
Lemma frun_s_S n st O s : frun_s val nl gl dflt (S n) st O s =
  match st with
  | SAtom _ _ _ f => Some (f s)
  | SIf _ _ test b1 b2 =>
      let c := ctx_of val nl gl st O in
      match frun_b val nl gl dflt n b1 O s with
      | None => None
      | Some s1 =>
          match frun_b val nl gl dflt n b2 O (inject val (state c) s s1) with
          | None => None
          | Some s2 => Some (inject val (firstn (nouts c) (state c)) (if test s then s1 else s2) (inject val (state c) s s2))
          end
      end
  | SWhile _ Lh _ test body =>
      let c := ctx_of val nl gl st O in
      match frun_b val nl gl dflt n body Lh s with
      | None => None
      | Some g => frun_loop val nl gl dflt n Lh test body (inject val (state c) s g)
      end
  | SFor _ Lh _ items tg body =>
      let c := ctx_of val nl gl st O in
      match frun_b val nl gl dflt n body Lh (set_var val tg (hd dflt (items s)) s) with
      | None => None
      | Some g => frun_iter val nl gl dflt n Lh tg body (items s) (inject val (state c) s g)
      end
  end.
Proof. destruct st; reflexivity. Qed.
Lemma frun_b_S n b O s : frun_b val nl gl dflt (S n) b O s =
  match b with
  | BNil _ => Some s
  | BCons _ st r => match frun_s val nl gl dflt n st (live_b val r O) s with Some s1 => frun_b val nl gl dflt n r O s1 | None => None end
  end.
Proof. destruct b; reflexivity. Qed.
Lemma frun_loop_S n Lh test body s : frun_loop val nl gl dflt (S n) Lh test body s =
  if test s then match frun_b val nl gl dflt n body Lh s with Some s1 => frun_loop val nl gl dflt n Lh test body s1 | None => None end
  else Some s.
Proof. reflexivity. Qed.
Lemma frun_iter_S n Lh tg body vs s : frun_iter val nl gl dflt (S n) Lh tg body vs s =
  match vs with
  | [] => Some s
  | v :: r => match frun_b val nl gl dflt n body Lh (set_var val tg v s) with Some s1 => frun_iter val nl gl dflt n Lh tg body r s1 | None => None end
  end.
Proof. destruct vs; reflexivity. Qed.

Lemma irun_sound : forall n,
  (forall st s r, irun_s val n st s = Some r -> imp_s val st s r) /\
  (forall b s r, irun_b val n b s = Some r -> imp_b val b s r) /\
  (forall tg body vs s r, irun_iter val n tg body vs s = Some r ->
     iter_rel val (fun v s1 r1 => imp_b val body (set_var val tg v s1) r1) vs s r).
Proof.
  induction n as [|n [IHs [IHb IHi]]]; [repeat split; intros; discriminate|].
  split; [|split].
  - intros st s r H. destruct st as [u d f | tu test b1 b2 | Lh tu test body | Lh iu items tg body]; rewrite irun_s_S in H.
    + injection H as <-. constructor.
    + destruct (test s) eqn:Et; [apply IIfT | apply IIfF]; auto.
    + constructor. destruct (test s) eqn:Et.
      * destruct (irun_b val n body s) as [s1|] eqn:Eb; [|discriminate].
        apply IHs in H. inversion H; subst. eapply LoopT; eauto.
      * injection H as <-. apply LoopF. exact Et.
    + constructor. apply IHi. exact H.
  - intros b s r H. destruct b as [|st r0]; rewrite irun_b_S in H.
    + injection H as <-. constructor.
    + destruct (irun_s val n st s) as [s1|] eqn:Es; [|discriminate]. econstructor; eauto.
  - intros tg body vs s r H. destruct vs as [|v vs]; rewrite irun_iter_S in H.
    + injection H as <-. constructor.
    + destruct (irun_b val n body (set_var val tg v s)) as [s1|] eqn:Eb; [|discriminate].
      eapply IterCons; [apply IHb; exact Eb | apply IHi; exact H].
Qed.

Lemma frun_sound : forall n,
  (forall st O s r, frun_s val nl gl dflt n st O s = Some r -> fun_s val nl gl dflt st O s r) /\
  (forall b O s r, frun_b val nl gl dflt n b O s = Some r -> fun_b val nl gl dflt b O s r) /\
  (forall Lh test body s r, frun_loop val nl gl dflt n Lh test body s = Some r ->
     loop_rel val test (fun_b val nl gl dflt body Lh) s r) /\
  (forall Lh tg body vs s r, frun_iter val nl gl dflt n Lh tg body vs s = Some r ->
     iter_rel val (fun v s1 r1 => fun_b val nl gl dflt body Lh (set_var val tg v s1) r1) vs s r).
Proof.
  induction n as [|n [IHs [IHb [IHl IHi]]]]; [repeat split; intros; discriminate|].
  split; [|split; [|split]].
  - intros st O s r H. destruct st as [u d f | tu test b1 b2 | Lh tu test body | Lh iu items tg body]; rewrite frun_s_S in H; cbv zeta in H.
    + injection H as <-. constructor.
    + destruct (frun_b val nl gl dflt n b1 O s) as [s1|] eqn:E1; [|discriminate].
      destruct (frun_b val nl gl dflt n b2 O _) as [s2|] eqn:E2; [|discriminate].
      injection H as <-. eapply FIf; [apply IHb; exact E1 | apply IHb; exact E2].
    + destruct (frun_b val nl gl dflt n body Lh s) as [g|] eqn:Eg; [|discriminate].
      eapply FWhile; [apply IHb; exact Eg | apply IHl; exact H].
    + destruct (frun_b val nl gl dflt n body Lh _) as [g|] eqn:Eg; [|discriminate].
      eapply FFor; [apply IHb; exact Eg | apply IHi; exact H].
  - intros b O s r H. destruct b as [|st r0]; rewrite frun_b_S in H.
    + injection H as <-. constructor.
    + destruct (frun_s val nl gl dflt n st _ s) as [s1|] eqn:Es; [|discriminate]. econstructor; eauto.
  - intros Lh test body s r H. rewrite frun_loop_S in H. destruct (test s) eqn:Et.
    + destruct (frun_b val nl gl dflt n body Lh s) as [s1|] eqn:Eb; [|discriminate].
      eapply LoopT; [exact Et | apply IHb; exact Eb | apply IHl; exact H].
    + injection H as <-. apply LoopF. exact Et.
  - intros Lh tg body vs s r H. destruct vs as [|v vs]; rewrite frun_iter_S in H.
    + injection H as <-. constructor.
    + destruct (frun_b val nl gl dflt n body Lh _) as [s1|] eqn:Eb; [|discriminate].
      eapply IterCons; [apply IHb; exact Eb | apply IHi; exact H].
Qed.
End Sound.

Lemma subset_incl a b : subset a b = true -> incl a b.
Proof. unfold subset. rewrite forallb_forall. intros H x Hx. apply mem_In. apply H. exact Hx. Qed.

(* ------------------------------------------------------------------ compiled concrete programs *)
Lemma st_upd_writes t v : forall (s : store N) x, ~ In x [t] -> st_upd t v s x = s x.
Proof.
  intros s x Hx. unfold st_upd. destruct (String.eqb x t) eqn:E; [|reflexivity].
  apply String.eqb_eq in E. exfalso. apply Hx. left. congruence.
Qed.

Lemma map_agree (r : list name) (s t : store N) : agree N r s t -> map s r = map t r.
Proof.
  induction r as [|y r IH]; intro H; [reflexivity|]. cbn [map]. f_equal.
  - apply H. left. reflexivity.
  - apply IH. intros x Hx. apply H. right. exact Hx.
Qed.

Lemma test_fn_respects t : test_respects N (test_uses t) (test_fn t).
Proof.
  destruct t as [k r | c b k r]; intros s u H; cbn [test_fn test_uses] in *.
  - rewrite (map_agree r s u H). reflexivity.
  - rewrite (H c) by (left; reflexivity).
    rewrite (map_agree r s u) by (intros x Hx; apply H; right; exact Hx). reflexivity.
Qed.

Lemma compile_ok :
  (forall c O, chk_s N (compile c) O = true -> ok_s N (compile c) O) /\
  (forall b O, chk_b N (compile_block b) O = true -> ok_b N (compile_block b) O).
Proof.
  apply cstmt_cblock_mut.
  - intros k r t O _. cbn [compile ok_s]. split.
    + intros s x Hx. apply st_upd_writes. exact Hx.
    + intros s u H x Hx. destruct Hx as [Hx|[]]. subst x. unfold st_upd. rewrite String.eqb_refl. rewrite (map_agree r s u H). reflexivity.
  - intros t v O _. cbn [compile ok_s]. split.
    + intros s x Hx. apply st_upd_writes. exact Hx.
    + intros s u H x Hx. destruct Hx as [Hx|[]]. subst x. unfold st_upd. rewrite String.eqb_refl. reflexivity.
  - intros t O _. cbn [compile ok_s]. split.
    + intros s x Hx. apply st_upd_writes. exact Hx.
    + intros s u H x Hx. destruct Hx as [Hx|[]]. subst x. unfold st_upd. rewrite String.eqb_refl. rewrite (H t) by (left; reflexivity). reflexivity.
  - intros t b1 IH1 b2 IH2 O H. cbn [compile chk_s ok_s] in *. apply andb_true_iff in H. destruct H as [H1 H2].
    split; [apply test_fn_respects | split; [apply IH1 | apply IH2]; assumption].
  - intros Lh t body IH O H. cbn [compile chk_s ok_s] in *.
    repeat (apply andb_true_iff in H; destruct H as [H ?]).
    split; [apply test_fn_respects|]. repeat split; try (apply subset_incl; assumption). apply IH. assumption.
  - intros Lh k tg body IH O H. cbn [compile chk_s ok_s] in *.
    repeat (apply andb_true_iff in H; destruct H as [H ?]).
    split; [intros; reflexivity|]. repeat split; try (apply subset_incl; assumption). apply IH. assumption.
  - intros O _. exact I.
  - intros c IHc b IHb O H. cbn [compile_block chk_b ok_b] in *. apply andb_true_iff in H. destruct H as [H1 H2].
    split; [apply IHc | apply IHb]; assumption.
Qed.

(* what a passing correspondence case means: the checked program meets every hypothesis of the theorem, so
   the value the tracing interpreter computes for every returned name is the value of the original program *)
Lemma concrete_tracing_agrees (fuel : nat) (a b c : N) (prog : cblock) (ret : list name) (r ri : store N) :
  chk_b N (compile_block prog) ret = true ->
  frun_b N [] [] 0%N fuel (compile_block prog) ret (init_store a b c) = Some r ->
  irun_b N fuel (compile_block prog) (init_store a b c) = Some ri ->
  agree N ret ri r.
Proof.
  intros Hc Hf Hi.
  eapply (proj2 (tracing_program_agrees N [] [] 0%N) (compile_block prog) ret (init_store a b c) (init_store a b c)).
  - apply (proj2 compile_ok). exact Hc.
  - intros x _. reflexivity.
  - eapply (proj1 (proj2 (irun_sound N fuel))). exact Hi.
  - eapply (proj1 (proj2 (frun_sound N [] [] 0%N fuel))). exact Hf.
Qed.
