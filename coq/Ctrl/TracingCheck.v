(* C02: executable instance of the tracing-protocol model for the correspondence with the backend that
   tools/props/c02.py injects into the real pipeline (TracingBackend): stores over nat, bodies = lists of
   assignments  target := x + y + k.  The harness writes the cases, Coq evaluates ok. *)
From Coq Require Import List String Bool Arith.
Import ListNotations.
Require Import MV.Ctrl.BlockSyntax MV.Generated.C02_gen MV.Ctrl.BlockVars MV.Ctrl.Tracing.
Local Open Scope string_scope.

Definition asg : Set := (name * name * name * nat)%type.
Definition run_asg (a : asg) (s : store nat) : store nat :=
  match a with (t, x, y, k) => fun z => if String.eqb z t then s x + s y + k else s z end.
Definition run_body (l : list asg) (s : store nat) : store nat := fold_left (fun s a => run_asg a s) l s.

Definition pool : list name := ["a"; "b"; "c"; "d"; "i"].
Fixpoint lookup (ns : list name) (vs : list nat) (z : name) : nat :=
  match ns, vs with
  | n :: nr, v :: vr => if String.eqb z n then v else lookup nr vr z
  | _, _ => 0
  end.
Definition mkstore (init : list nat) : store nat := lookup pool init.
Definition final (s : store nat) : list nat := map s pool.
Definition set_var (x : name) (v : nat) (s : store nat) : store nat := fun z => if String.eqb z x then v else s z.

Definition test_of (t : option (name * nat)) : store nat -> bool :=
  match t with Some (x, k) => fun s => Nat.ltb (s x) k | None => fun _ => true end.

Inductive pcase : Set :=
| PIf (vars : list name) (nouts : nat) (c : bool) (b o : list asg) (init expect : list nat)
| PWhile (vars : list name) (tv : name) (k : nat) (b : list asg) (init expect : list nat)
| PFor (vars : list name) (items : list nat) (t : option (name * nat)) (b : list asg) (init expect : list nat).

Definition list_eqb (a b : list nat) : bool := Nat.eqb (List.length a) (List.length b) && forallb (fun p => Nat.eqb (fst p) (snd p)) (combine a b).

Definition ok (p : pcase) : bool :=
  match p with
  | PIf vars nouts c b o init expect =>
      list_eqb (final (if_fun nat vars nouts c (run_body b) (run_body o) (mkstore init))) expect
  | PWhile vars tv k b init expect =>
      match while_harness nat 60 vars (test_of (Some (tv, k))) (run_body b) (mkstore init) with
      | Some r => list_eqb (final r) expect
      | None => false
      end
  | PFor vars items t b init expect =>
      list_eqb (final (for_harness nat items 0 vars (test_of t) (fun v s => run_body b (set_var "i" v s)) (mkstore init))) expect
  end.
