(* C02 (semantic form, whole programs): executable side.  Fuelled interpreters for both semantics of
   Ctrl/TracingProg.v, a boolean checker for the closure conditions of the loop annotations, and a
   first-order concrete language (values N, the pure T / P / R world of the oracle's generated programs)
   that compiles to [stmt N]: what the correspondence with the real pipeline evaluates. *)
From Coq Require Import List String Bool Arith NArith.
Import ListNotations.
Require Import MV.Ctrl.BlockSyntax MV.Generated.C02_gen MV.Ctrl.BlockVars MV.Ctrl.Tracing MV.Ctrl.TracingProg.

Section Exec.
Variable val : Type.
Variables nl gl : list name.
Variable dflt : val.
Notation store := (store val).

Fixpoint irun_s (n : nat) (st : stmt val) (s : store) {struct n} : option store :=
  match n with
  | 0 => None
  | S n' =>
    match st with
    | SAtom _ _ _ f => Some (f s)
    | SIf _ _ test b1 b2 => if test s then irun_b n' b1 s else irun_b n' b2 s
    | SWhile _ _ _ test body =>
        if test s then match irun_b n' body s with Some s1 => irun_s n' st s1 | None => None end
        else Some s
    | SFor _ _ _ items tg body => irun_iter n' tg body (items s) s
    end
  end
with irun_b (n : nat) (b : block val) (s : store) {struct n} : option store :=
  match n with
  | 0 => None
  | S n' =>
    match b with
    | BNil _ => Some s
    | BCons _ st r => match irun_s n' st s with Some s1 => irun_b n' r s1 | None => None end
    end
  end
with irun_iter (n : nat) (tg : name) (body : block val) (vs : list val) (s : store) {struct n} : option store :=
  match n with
  | 0 => None
  | S n' =>
    match vs with
    | [] => Some s
    | v :: r => match irun_b n' body (set_var val tg v s) with Some s1 => irun_iter n' tg body r s1 | None => None end
    end
  end.

Fixpoint frun_s (n : nat) (st : stmt val) (O : list name) (s : store) {struct n} : option store :=
  match n with
  | 0 => None
  | S n' =>
    match st with
    | SAtom _ _ _ f => Some (f s)
    | SIf _ _ test b1 b2 =>
        let c := ctx_of val nl gl st O in
        match frun_b n' b1 O s with
        | None => None
        | Some s1 =>
            match frun_b n' b2 O (inject val (state c) s s1) with
            | None => None
            | Some s2 => Some (inject val (firstn (nouts c) (state c)) (if test s then s1 else s2)
                                      (inject val (state c) s s2))
            end
        end
    | SWhile _ Lh _ test body =>
        let c := ctx_of val nl gl st O in
        match frun_b n' body Lh s with
        | None => None
        | Some g => frun_loop n' Lh test body (inject val (state c) s g)
        end
    | SFor _ Lh _ items tg body =>
        let c := ctx_of val nl gl st O in
        match frun_b n' body Lh (set_var val tg (hd dflt (items s)) s) with
        | None => None
        | Some g => frun_iter n' Lh tg body (items s) (inject val (state c) s g)
        end
    end
  end
with frun_b (n : nat) (b : block val) (O : list name) (s : store) {struct n} : option store :=
  match n with
  | 0 => None
  | S n' =>
    match b with
    | BNil _ => Some s
    | BCons _ st r => match frun_s n' st (live_b val r O) s with Some s1 => frun_b n' r O s1 | None => None end
    end
  end
with frun_loop (n : nat) (Lh : list name) (test : store -> bool) (body : block val) (s : store) {struct n} : option store :=
  match n with
  | 0 => None
  | S n' =>
    if test s then match frun_b n' body Lh s with Some s1 => frun_loop n' Lh test body s1 | None => None end
    else Some s
  end
with frun_iter (n : nat) (Lh : list name) (tg : name) (body : block val) (vs : list val) (s : store) {struct n} : option store :=
  match n with
  | 0 => None
  | S n' =>
    match vs with
    | [] => Some s
    | v :: r => match frun_b n' body Lh (set_var val tg v s) with Some s1 => frun_iter n' Lh tg body r s1 | None => None end
    end
  end.

(* the decidable part of ok_*: the header sets of the loops are closed *)
Definition subset (a b : list name) : bool := forallb (fun x => mem x b) a.
Fixpoint chk_s (st : stmt val) (O : list name) : bool :=
  match st with
  | SAtom _ _ _ _ => true
  | SIf _ _ _ b1 b2 => chk_b b1 O && chk_b b2 O
  | SWhile _ Lh tu _ body => subset tu Lh && subset O Lh && subset (live_b val body Lh) Lh && chk_b body Lh
  | SFor _ Lh _ _ tg body => subset O Lh && subset (minus (live_b val body Lh) [tg]) Lh && chk_b body Lh
  end
with chk_b (b : block val) (O : list name) : bool :=
  match b with BNil _ => true | BCons _ st r => chk_s st (live_b val r O) && chk_b r O end.
(* the contexts of all control statements, in the order control_flow.py visits them (children first) *)
Fixpoint contexts_s (st : stmt val) (O : list name) : list ctx :=
  match st with
  | SAtom _ _ _ _ => []
  | SIf _ _ _ b1 b2 => contexts_b b1 O ++ contexts_b b2 O ++ [ctx_of val nl gl st O]
  | SWhile _ Lh _ _ body => contexts_b body Lh ++ [ctx_of val nl gl st O]
  | SFor _ Lh _ _ _ body => contexts_b body Lh ++ [ctx_of val nl gl st O]
  end
with contexts_b (b : block val) (O : list name) : list ctx :=
  match b with BNil _ => [] | BCons _ st r => contexts_s st (live_b val r O) ++ contexts_b r O end.
End Exec.

(* ------------------------------------------------------------------ the concrete language *)
Local Open Scope N_scope.
Definition T (k : N) (reads : list N) : N :=
  fold_left (fun h r => (h * 31 + r) mod 1000003) reads (k * 7919).
Definition P (k : N) (reads : list N) : bool := negb (N.eqb (T (k + 17) reads mod 3) 0).

Inductive ctest : Set :=
| TP (k : N) (reads : list name)                       (* P(k, reads) *)
| TBound (cnt : name) (bound : N) (k : N) (reads : list name).   (* cnt < bound and P(k, reads) *)
Inductive cstmt : Set :=
| CAsg (k : N) (reads : list name) (tgt : name)        (* tgt = T(k, reads) *)
| CConst (tgt : name) (v : N)                          (* tgt = v *)
| CInc (tgt : name)                                    (* tgt += 1 *)
| CIf (t : ctest) (b1 b2 : cblock)
| CWhile (Lh : list name) (t : ctest) (body : cblock)
| CFor (Lh : list name) (k : N) (tgt : name) (body : cblock)   (* for tgt in range(k % 4) *)
with cblock : Set :=
| CNil
| CCons (s : cstmt) (r : cblock).

Definition st_upd (x : name) (v : N) (s : store N) : store N := fun z => if String.eqb z x then v else s z.
Definition test_uses (t : ctest) : list name :=
  match t with TP _ r => r | TBound c _ _ r => c :: r end.
Definition test_fn (t : ctest) : store N -> bool :=
  match t with
  | TP k r => fun s => P k (map s r)
  | TBound c b k r => fun s => N.ltb (s c) b && P k (map s r)
  end.
Definition range4 (k : N) : list N := map N.of_nat (seq 0 (N.to_nat (k mod 4))).

Fixpoint compile (c : cstmt) : stmt N :=
  match c with
  | CAsg k r t => SAtom N r [t] (fun s => st_upd t (T k (map s r)) s)
  | CConst t v => SAtom N [] [t] (fun s => st_upd t v s)
  | CInc t => SAtom N [t] [t] (fun s => st_upd t (s t + 1) s)
  | CIf t b1 b2 => SIf N (test_uses t) (test_fn t) (compile_block b1) (compile_block b2)
  | CWhile Lh t body => SWhile N Lh (test_uses t) (test_fn t) (compile_block body)
  | CFor Lh k tg body => SFor N Lh [] (fun _ => range4 k) tg (compile_block body)
  end
with compile_block (l : cblock) : block N :=
  match l with CNil => BNil N | CCons x r => BCons N (compile x) (compile_block r) end.

(* one correspondence case: parameters a b c, the program, the names returned, what the real pipeline returned
   under the tracing backend *)
Definition init_store (a b c : N) : store N :=
  fun z => if String.eqb z "a" then a else if String.eqb z "b" then b else if String.eqb z "c" then c else 0.
Definition same_set (a b : list name) : bool := subset a b && subset b a.
Fixpoint ctxs_match (cs : list ctx) (real : list (list name * list name * list name)) : bool :=
  match cs, real with
  | [], [] => true
  | c :: cr, (m, li, lo) :: rr =>
      same_set (modified c) m && same_set (live_in c) li && same_set (live_out c) lo && ctxs_match cr rr
  | _, _ => false
  end.
(* 0 = ok; 1 = the loop annotations are not closed; 2 = an interpreter ran out of fuel; 3 = the tracing interpreter returns
   other values than the real pipeline; 4 = the native interpreter does; 5 = the contexts (modified, live-in, live-out) of the
   control statements differ from the ones the real _get_block_vars was applied to *)
Definition pcase_code (fuel : nat) (a b c : N) (prog : cblock) (ret : list name) (expect : list N)
           (real : list (list name * list name * list name)) : nat :=
  let blk := compile_block prog in
  let eqs (r : store N) := forallb (fun p => N.eqb (fst p) (snd p)) (combine (map r ret) expect)
                           && Nat.eqb (List.length ret) (List.length expect) in
  if negb (chk_b N blk ret) then 1 else
  match frun_b N [] [] 0 fuel blk ret (init_store a b c), irun_b N fuel blk (init_store a b c) with
  | Some r, Some ri =>
      if negb (eqs r) then 3 else if negb (eqs ri) then 4 else
      if negb (ctxs_match (contexts_b N [] [] blk ret) real) then 5 else 0
  | _, _ => 2
  end.
Definition pcase_ok (fuel : nat) (a b c : N) (prog : cblock) (ret : list name) (expect : list N)
           (real : list (list name * list name * list name)) : bool :=
  Nat.eqb (pcase_code fuel a b c prog ret expect real) 0.
