(* C02 (semantic form): a tracing backend that carries exactly the variables in the state tuple
   computes, on every variable that is live after the statement, what the original statement computes. *)
From Coq Require Import List String Bool Arith Lia.
Import ListNotations.
Require Import MV.Ctrl.BlockSyntax MV.Generated.C02_gen MV.Ctrl.BlockVars MV.Ctrl.BlockVarsProofs MV.Ctrl.Tracing.

Section Proofs.
Variable val : Type.
Notation store := (store val).
Notation block := (block val).

Lemma mem_false_In x l : mem x l = false <-> ~ In x l.
Proof.
  rewrite <- mem_In. destruct (mem x l); split; intro H.
  - discriminate.
  - exfalso; apply H; reflexivity.
  - intro H'; discriminate.
  - reflexivity.
Qed.

Lemma inject_in vars (vals cur : store) x : In x vars -> inject val vars vals cur x = vals x.
Proof. intro H. unfold inject. apply mem_In in H. rewrite H. reflexivity. Qed.
Lemma inject_out vars (vals cur : store) x : ~ In x vars -> inject val vars vals cur x = cur x.
Proof. intro H. unfold inject. apply mem_false_In in H. rewrite H. reflexivity. Qed.

Lemma agree_incl L L' (s t : store) : incl L' L -> agree val L s t -> agree val L' s t.
Proof. intros Hi Ha x Hx. apply Ha, Hi, Hx. Qed.
Lemma agree_sym L (s t : store) : agree val L s t -> agree val L t s.
Proof. intros H x Hx. symmetry. apply H, Hx. Qed.
Lemma agree_trans L (s t u : store) : agree val L s t -> agree val L t u -> agree val L s u.
Proof. intros H1 H2 x Hx. rewrite (H1 x Hx). apply H2, Hx. Qed.

Lemma index_of_In x l i : index_of x l = Some i -> In x l.
Proof.
  revert i; induction l as [|y r IH]; cbn [index_of]; intros i H; [discriminate|].
  destruct (String.eqb x y) eqn:E.
  - apply String.eqb_eq in E. left; congruence.
  - right. destruct (index_of x r) as [j|]; [eapply IH; reflexivity | discriminate].
Qed.

Lemma index_of_firstn x l i n : index_of x l = Some i -> i < n -> In x (firstn n l).
Proof.
  revert i n; induction l as [|y r IH]; cbn [index_of]; intros i n H Hlt; [discriminate|].
  destruct n as [|n]; [lia|]. cbn [firstn].
  destruct (String.eqb x y) eqn:E.
  - apply String.eqb_eq in E. left; congruence.
  - right. destruct (index_of x r) as [j|] eqn:Ej; [|discriminate].
    cbn in H. injection H as <-. eapply IH; [reflexivity | lia].
Qed.

(* ------------------------------------------------------------------ conditional *)
Section Generic.
Variables (M Lin Lout vars outs : list name).
Hypothesis carried_in : forall x, In x M -> In x Lin -> In x vars.
Hypothesis outputs_out : forall x, In x M -> In x Lout -> In x outs.

Lemma if_fun_agrees_gen nouts (c : bool) (body orelse : block) (s : store) :
  outs = firstn nouts vars ->
  writes_only val M body -> writes_only val M orelse ->
  respects val Lin Lout orelse ->
  agree val Lout (if_imp val c body orelse s) (if_fun val vars nouts c body orelse s).
Proof.
  intros Houts Wb Wo Ro x Hx. unfold if_imp, if_fun. rewrite <- Houts.
  (* the second branch starts from a store that agrees with the entry store on everything live-in *)
  assert (Hstart : agree val Lin s (inject val vars s (body s))).
  { intros y Hy. destruct (in_dec string_dec y vars) as [Hv|Hv].
    - rewrite inject_in by exact Hv. reflexivity.
    - rewrite inject_out by exact Hv. symmetry. apply Wb. intro HM. apply Hv. apply carried_in; assumption. }
  destruct (in_dec string_dec x outs) as [Ho|Ho].
  - rewrite inject_in by exact Ho. destruct c; [reflexivity|]. apply (Ro _ _ Hstart x Hx).
  - rewrite inject_out by exact Ho.
    assert (HxM : ~ In x M) by (intro HM; apply Ho; apply outputs_out; assumption).
    assert (Himp : (if c then body s else orelse s) x = s x) by (destruct c; [apply Wb | apply Wo]; exact HxM).
    rewrite Himp.
    destruct (in_dec string_dec x vars) as [Hv|Hv].
    + rewrite inject_in by exact Hv. reflexivity.
    + rewrite inject_out by exact Hv. rewrite Wo by exact HxM. rewrite inject_out by exact Hv.
      rewrite Wb by exact HxM. reflexivity.
Qed.
End Generic.

(* ------------------------------------------------------------------ loops *)
Section Loops.
Variables (M Lhead Lout vars : list name).
Variable s0 : store.
Variable garbage : nat -> store.
Hypothesis carried_in : forall x, In x M -> In x Lhead -> In x vars.
Hypothesis out_in_head : incl Lout Lhead.
Hypothesis garbage_ok : forall k x, ~ In x M -> garbage k x = s0 x.

(* the loop invariant at the loop header: the imperative store [s] and the carried state [t] *)
Definition linv (s t : store) : Prop := agree val Lhead s t /\ (forall x, ~ In x M -> s x = s0 x).

Lemma linv_inject k (s t : store) : linv s t -> agree val Lhead s (inject val vars t (garbage k)).
Proof.
  intros [Ha Hu] y Hy. destruct (in_dec string_dec y vars) as [Hv|Hv].
  - rewrite inject_in by exact Hv. apply Ha, Hy.
  - rewrite inject_out by exact Hv.
    assert (HyM : ~ In y M) by (intro HM; apply Hv; apply carried_in; assumption).
    rewrite garbage_ok by exact HyM. apply Hu, HyM.
Qed.

Lemma linv_step k (b : block) (s t : store) :
  writes_only val M b -> respects val Lhead Lhead b ->
  linv s t -> linv (b s) (b (inject val vars t (garbage k))).
Proof.
  intros Wb Rb Hi. split.
  - apply Rb. apply linv_inject, Hi.
  - intros x HxM. rewrite Wb by exact HxM. apply (proj2 Hi), HxM.
Qed.

Lemma while_fun_agrees_gen (test : store -> bool) (body : block) :
  writes_only val M body -> respects val Lhead Lhead body -> test_respects val Lhead test ->
  forall fuel k (s t : store), linv s t ->
  match while_imp val fuel test body s, while_fun val fuel k vars garbage test body t with
  | Some r, Some r' => agree val Lout r r'
  | None, None => True
  | _, _ => False
  end.
Proof.
  intros Wb Rb Rt. induction fuel as [|f IH]; intros k s t Hi; cbn [while_imp while_fun]; [exact I|].
  pose proof (linv_inject k _ _ Hi) as Hst.
  rewrite <- (Rt _ _ Hst).
  destruct (test s).
  - apply IH. apply linv_step; assumption.
  - eapply agree_incl; [exact out_in_head | exact Hst].
Qed.

Lemma for_fun_agrees_gen (test : store -> bool) (body : val -> block) :
  (forall v, writes_only val M (body v)) -> (forall v, respects val Lhead Lhead (body v)) ->
  test_respects val Lhead test ->
  forall items k (s t : store), linv s t ->
  agree val Lout (for_imp val items test body s) (for_fun val items k vars garbage test body t).
Proof.
  intros Wb Rb Rt. induction items as [|v r IH]; intros k s t Hi; cbn [for_imp for_fun];
    pose proof (linv_inject k _ _ Hi) as Hst.
  - eapply agree_incl; [exact out_in_head | exact Hst].
  - rewrite <- (Rt _ _ Hst). destruct (test s).
    + apply IH. apply linv_step; [apply Wb | apply Rb | exact Hi].
    + eapply agree_incl; [exact out_in_head | exact Hst].
Qed.
End Loops.

(* ------------------------------------------------------------------ the harness instance *)
Section Harness.
Variables (M Lhead Lout vars : list name).
Hypothesis carried_in : forall x, In x M -> In x Lhead -> In x vars.
Hypothesis out_in_head : incl Lout Lhead.

Lemma while_imp_respects (test : store -> bool) (body : block) :
  respects val Lhead Lhead body -> test_respects val Lhead test ->
  forall fuel (s t : store), agree val Lhead s t ->
  match while_imp val fuel test body s, while_imp val fuel test body t with
  | Some r, Some r' => agree val Lout r r'
  | None, None => True
  | _, _ => False
  end.
Proof.
  intros Rb Rt. induction fuel as [|f IH]; intros s t Ha; cbn [while_imp]; [exact I|].
  rewrite <- (Rt _ _ Ha). destruct (test s).
  - apply IH, Rb, Ha.
  - eapply agree_incl; [exact out_in_head | exact Ha].
Qed.

Lemma for_imp_respects (test : store -> bool) (body : val -> block) :
  (forall v, respects val Lhead Lhead (body v)) -> test_respects val Lhead test ->
  forall items (s t : store), agree val Lhead s t ->
  agree val Lout (for_imp val items test body s) (for_imp val items test body t).
Proof.
  intros Rb Rt. induction items as [|v r IH]; intros s t Ha; cbn [for_imp].
  - eapply agree_incl; [exact out_in_head | exact Ha].
  - rewrite <- (Rt _ _ Ha). destruct (test s).
    + apply IH, Rb, Ha.
    + eapply agree_incl; [exact out_in_head | exact Ha].
Qed.

(* after the out-of-band run of a body and the reset of the state variables the store agrees with the
   entry store on everything live at the loop header *)
Lemma traced_start (b : block) (s : store) :
  writes_only val M b -> agree val Lhead s (inject val vars s (b s)).
Proof.
  intros Wb y Hy. destruct (in_dec string_dec y vars) as [Hv|Hv].
  - rewrite inject_in by exact Hv. reflexivity.
  - rewrite inject_out by exact Hv. symmetry. apply Wb. intro HM. apply Hv. apply carried_in; assumption.
Qed.
End Harness.

End Proofs.

(* the facts about the generated selection formulas that the semantic theorems use: conclusions of state_complete *)
Lemma carried_in_of_state_complete (c : ctx) x : In x (modified c) -> In x (live_in c) -> In x (state c).
Proof. intros HM HL. exact (proj1 (proj2 (state_complete_lemma c x HM)) HL). Qed.

Lemma outputs_of_state_complete (c : ctx) x :
  In x (modified c) -> In x (live_out c) -> In x (firstn (nouts c) (state c)).
Proof.
  intros HM HL. destruct (proj1 (state_complete_lemma c x HM) HL) as [i [Hi Hlt]].
  eapply index_of_firstn; eassumption.
Qed.

