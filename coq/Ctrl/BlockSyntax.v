(* C02/C03: syntax of the state-variable selection formulas generated from control_flow.py *)
From Coq Require Import List.
Inductive fnset : Set := FnNonlocals | FnGlobals.
Inductive bexpr : Set :=
| BOr (a b : bexpr) | BAnd (a b : bexpr)
| BInLiveIn | BInLiveOut
| BInFn (sets : list fnset).       (* s in (fn_scope.nonlocals | fn_scope.globals ...) *)
Inductive sexpr : Set :=
| SInter (a b : sexpr) | SUnion (a b : sexpr) | SDiff (a b : sexpr)
| SBasic | SLiveIn | SLiveOut
| SFn (sets : list fnset).        (* fn_scope.nonlocals / fn_scope.globals *)
