From Coq Require Import List String Bool Arith Lia.
Import ListNotations.
Require Import MV.Ctrl.BlockSyntax MV.Generated.C02_gen MV.Ctrl.BlockVars.

Lemma mem_In x l : mem x l = true <-> In x l.
Proof.
  unfold mem; rewrite existsb_exists; split.
  - intros [y [Hy He]]; apply String.eqb_eq in He; subst; exact Hy.
  - intros H; exists x; split; [exact H | apply String.eqb_refl].
Qed.

Lemma nouts_outs c : nouts c = List.length (outs c).
Proof. unfold nouts, state. rewrite app_length. lia. Qed.

Lemma index_of_app_l x l r : In x l -> exists i, index_of x (l ++ r) = Some i /\ i < List.length l.
Proof.
  induction l as [|y l IH]; simpl; [contradiction|].
  intros H. destruct (String.eqb x y) eqn:E.
  - exists 0; split; [reflexivity | lia].
  - destruct H as [->|H]; [rewrite String.eqb_refl in E; discriminate|].
    destruct (IH H) as [i [Hi Hl]]. exists (S i). rewrite Hi. split; [reflexivity | lia].
Qed.

(* the three ways a name modified in a body can matter afterwards *)
Lemma basic_spec c x :
  In x (modified c) ->
  (In x (live_in c) \/ In x (live_out c) \/ In x (fn_nonlocals c) \/ In x (fn_globals c)) ->
  In x (basic c).
Proof.
  intros Hm H. unfold basic. apply filter_In. split; [exact Hm|].
  cbn [basic_cond_gen beval existsb fn_get].
  destruct H as [H | [H | [H | H]]]; apply mem_In in H; rewrite H; repeat rewrite ?orb_true_r, ?orb_true_l; reflexivity.
Qed.

Lemma live_out_not_input_only c x : In x (live_out c) -> in_input_only c x = false.
Proof.
  intros H. apply mem_In in H. unfold in_input_only. cbn [input_only_gen smem].
  rewrite H. cbn [negb]. rewrite !andb_false_r. reflexivity.
Qed.

Lemma declared_not_input_only c x : In x (fn_nonlocals c) \/ In x (fn_globals c) -> in_input_only c x = false.
Proof.
  intros H. unfold in_input_only. cbn [input_only_gen smem existsb fn_get].
  destruct H as [H|H]; apply mem_In in H; rewrite H; cbn [negb orb]; rewrite ?orb_true_r; cbn [negb];
    rewrite ?andb_false_r; reflexivity.
Qed.

Lemma state_complete_lemma c x :
  In x (modified c) ->
  (In x (live_out c) -> exists i, index_of x (state c) = Some i /\ i < nouts c)
  /\ (In x (live_in c) -> In x (state c))
  /\ (In x (fn_nonlocals c) \/ In x (fn_globals c) -> exists i, index_of x (state c) = Some i /\ i < nouts c).
Proof.
  intros Hm. assert (Part : forall y, In y (basic c) -> In y (state c)).
  { intros y Hy. unfold state, outs, ins. apply in_or_app.
    destruct (in_input_only c y) eqn:E; [right | left]; apply filter_In; split; auto. rewrite E; reflexivity. }
  split; [|split].
  - intros Ho. rewrite nouts_outs. unfold state. apply index_of_app_l.
    unfold outs. apply filter_In. split; [apply basic_spec; auto|].
    rewrite (live_out_not_input_only _ _ Ho). reflexivity.
  - intros Hi. apply Part, basic_spec; auto.
  - intros Hn. rewrite nouts_outs. unfold state. apply index_of_app_l.
    unfold outs. apply filter_In. split; [apply basic_spec; [exact Hm | tauto]|].
    rewrite (declared_not_input_only _ _ Hn). reflexivity.
Qed.

(* nothing else is carried: a state variable is a modified name that is live or declared *)
Lemma state_sound c x : In x (state c) ->
  In x (modified c) /\ (In x (live_in c) \/ In x (live_out c) \/ In x (fn_nonlocals c) \/ In x (fn_globals c)).
Proof.
  unfold state, outs, ins. intros H. apply in_app_or in H.
  assert (B : In x (basic c)) by (destruct H as [H|H]; apply filter_In in H; tauto).
  unfold basic in B. apply filter_In in B. destruct B as [Hm Hc]. split; [exact Hm|].
  cbn [basic_cond_gen beval existsb fn_get] in Hc.
  repeat (apply orb_true_iff in Hc; destruct Hc as [Hc|Hc]); try (apply mem_In in Hc; tauto); discriminate.
Qed.
