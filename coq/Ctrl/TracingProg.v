(* C02 (semantic form, whole programs): structured programs of any nesting depth -- opaque user
   statements, if / while / for over blocks -- with two big-step semantics:
     imp_*  the original program (equivalently: the default Python operators);
     fun_*  every control statement executed by a tracing backend that follows the protocol of
            Ctrl/Tracing.v (the one the check's TracingBackend implements), nested statements included:
            the state tuple and nouts of every statement are [state c] / [nouts c] of Ctrl/BlockVars.v --
            the selection formulas generated from control_flow.py on this run -- applied to the context c
            that the statement really has: modified = names its bodies assign, live_in / live_out = the
            live sets of the structured liveness analysis below.
   Liveness is computed structurally (backwards), loops carry their header set Lh as an annotation whose
   closure conditions are part of [ok_*] (what C07's certificate establishes for the real analysis). *)
From Coq Require Import List String Bool Arith.
Import ListNotations.
Require Import MV.Ctrl.BlockSyntax MV.Generated.C02_gen MV.Ctrl.BlockVars MV.Ctrl.Tracing.

Section Prog.
Variable val : Type.
Variables nl gl : list name.            (* names the enclosing function declares nonlocal / global *)
Variable dflt : val.                    (* what the backend feeds the out-of-band trace of a for body when there are no items *)
Notation store := (store val).

(* iteration of a body relation: while [test], and over a list of items *)
Inductive loop_rel (test : store -> bool) (B : store -> store -> Prop) : store -> store -> Prop :=
| LoopF s : test s = false -> loop_rel test B s s
| LoopT s s1 r : test s = true -> B s s1 -> loop_rel test B s1 r -> loop_rel test B s r.
Inductive iter_rel (B : val -> store -> store -> Prop) : list val -> store -> store -> Prop :=
| IterNil s : iter_rel B [] s s
| IterCons v vs s s1 r : B v s s1 -> iter_rel B vs s1 r -> iter_rel B (v :: vs) s r.

Inductive stmt : Type :=
| SAtom (uses defs : list name) (f : store -> store)
| SIf (tuses : list name) (test : store -> bool) (b1 b2 : block)
| SWhile (Lh : list name) (tuses : list name) (test : store -> bool) (body : block)
| SFor (Lh : list name) (iuses : list name) (items : store -> list val) (target : name) (body : block)
with block : Type :=
| BNil
| BCons (s : stmt) (r : block).

Definition minus (a b : list name) : list name := filter (fun x => negb (mem x b)) a.
Definition set_var (x : name) (v : val) (s : store) : store := fun z => if String.eqb z x then v else s z.

Fixpoint defs_s (s : stmt) : list name :=
  match s with
  | SAtom _ d _ => d
  | SIf _ _ b1 b2 => defs_b b1 ++ defs_b b2
  | SWhile _ _ _ b => defs_b b
  | SFor _ _ _ tg b => tg :: defs_b b
  end
with defs_b (b : block) : list name :=
  match b with BNil => [] | BCons s r => defs_s s ++ defs_b r end.

(* live-in, given what is live after *)
Fixpoint live_s (s : stmt) (O : list name) : list name :=
  match s with
  | SAtom u d _ => u ++ minus O d
  | SIf tu _ b1 b2 => tu ++ live_b b1 O ++ live_b b2 O
  | SWhile Lh _ _ _ => Lh
  | SFor Lh iu _ _ _ => iu ++ Lh
  end
with live_b (b : block) (O : list name) : list name :=
  match b with BNil => O | BCons s r => live_s s (live_b r O) end.

(* the context _get_block_vars is applied to *)
Definition ctx_of (s : stmt) (O : list name) : ctx := mkctx (defs_s s) (live_s s O) O nl gl.

(* side conditions: user statements write only their defs, with values that depend only on their uses;
   tests / iterables depend only on their uses; loop header sets are closed *)
Fixpoint ok_s (s : stmt) (O : list name) : Prop :=
  match s with
  | SAtom u d f => writes_only val d f /\ (forall s t, agree val u s t -> agree val d (f s) (f t))
  | SIf tu test b1 b2 => test_respects val tu test /\ ok_b b1 O /\ ok_b b2 O
  | SWhile Lh tu test body =>
      test_respects val tu test /\ incl tu Lh /\ incl O Lh /\ incl (live_b body Lh) Lh /\ ok_b body Lh
  | SFor Lh iu items tg body =>
      (forall s t, agree val iu s t -> items s = items t) /\ incl O Lh
      /\ incl (minus (live_b body Lh) [tg]) Lh /\ ok_b body Lh
  end
with ok_b (b : block) (O : list name) : Prop :=
  match b with BNil => True | BCons s r => ok_s s (live_b r O) /\ ok_b r O end.

(* ------------------------------------------------------------------ the original program *)
Inductive imp_s : stmt -> store -> store -> Prop :=
| IAtom u d f s : imp_s (SAtom u d f) s (f s)
| IIfT tu test b1 b2 s r : test s = true -> imp_b b1 s r -> imp_s (SIf tu test b1 b2) s r
| IIfF tu test b1 b2 s r : test s = false -> imp_b b2 s r -> imp_s (SIf tu test b1 b2) s r
| IWhile Lh tu test body s r : loop_rel test (imp_b body) s r -> imp_s (SWhile Lh tu test body) s r
| IFor Lh iu items tg body s r :
    iter_rel (fun v s1 r1 => imp_b body (set_var tg v s1) r1) (items s) s r -> imp_s (SFor Lh iu items tg body) s r
with imp_b : block -> store -> store -> Prop :=
| INil s : imp_b BNil s s
| ICons st r s s1 s2 : imp_s st s s1 -> imp_b r s1 s2 -> imp_b (BCons st r) s s2.

(* ------------------------------------------------------------------ under the tracing backend *)
Inductive fun_s : stmt -> list name -> store -> store -> Prop :=
| FAtom u d f O s : fun_s (SAtom u d f) O s (f s)
| FIf tu test b1 b2 O s s1 s2 :
    let c := ctx_of (SIf tu test b1 b2) O in
    fun_b b1 O s s1 ->                                   (* body() *)
    fun_b b2 O (inject val (state c) s s1) s2 ->          (* set_state(s0); orelse() *)
    fun_s (SIf tu test b1 b2) O s
          (inject val (firstn (nouts c) (state c)) (if test s then s1 else s2) (inject val (state c) s s2))
| FWhile Lh tu test body O s g r :
    let c := ctx_of (SWhile Lh tu test body) O in
    fun_b body Lh s g ->                                  (* the body traced once out of band *)
    loop_rel test (fun_b body Lh) (inject val (state c) s g) r -> (* set_state(s0); then the loop *)
    fun_s (SWhile Lh tu test body) O s r
| FFor Lh iu items tg body O s g r :
    let c := ctx_of (SFor Lh iu items tg body) O in
    fun_b body Lh (set_var tg (hd dflt (items s)) s) g ->
    iter_rel (fun v s1 r1 => fun_b body Lh (set_var tg v s1) r1) (items s) (inject val (state c) s g) r ->
    fun_s (SFor Lh iu items tg body) O s r
with fun_b : block -> list name -> store -> store -> Prop :=
| FNil O s : fun_b BNil O s s
| FCons st r O s s1 s2 : fun_s st (live_b r O) s s1 -> fun_b r O s1 s2 -> fun_b (BCons st r) O s s2.

End Prog.
