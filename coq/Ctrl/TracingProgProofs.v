(* C02 (semantic form, whole programs): the tracing execution of a structured program agrees with the
   original execution on everything live at the exit. *)
From Coq Require Import List String Bool Arith Lia.
Import ListNotations.
Require Import MV.Ctrl.BlockSyntax MV.Generated.C02_gen MV.Ctrl.BlockVars MV.Ctrl.BlockVarsProofs
               MV.Ctrl.Tracing MV.Ctrl.TracingProofs MV.Ctrl.TracingProg.

Scheme stmt_mut := Induction for stmt Sort Prop
  with block_mut := Induction for block Sort Prop.
Combined Scheme stmt_block_mut from stmt_mut, block_mut.

Lemma In_minus x a b : In x (minus a b) <-> In x a /\ ~ In x b.
Proof.
  unfold minus. rewrite filter_In. split; intros [H1 H2]; split; try exact H1.
  - apply mem_false_In. destruct (mem x b); [discriminate | reflexivity].
  - apply mem_false_In in H2. rewrite H2. reflexivity.
Qed.

Lemma In_firstn_In (x : name) n l : In x (firstn n l) -> In x l.
Proof.
  revert n; induction l as [|y r IH]; intros n H; destruct n; cbn in H; try contradiction.
  destruct H as [H|H]; [left; exact H | right; eapply IH; exact H].
Qed.

Section Proofs.
Variable val : Type.
Variables nl gl : list name.
Variable dflt : val.
Notation store := (store val).

(* ------------------------------------------------------------------ generic facts about the iterators *)
Lemma loop_writes (D : list name) test (B : store -> store -> Prop) :
  (forall s r, B s r -> forall x, ~ In x D -> r x = s x) ->
  forall s r, loop_rel val test B s r -> forall x, ~ In x D -> r x = s x.
Proof.
  intros HB s r H. induction H as [s Ht | s s1 r Ht Hb Hl IH]; intros x Hx; [reflexivity|].
  rewrite (IH x Hx). apply (HB _ _ Hb x Hx).
Qed.

Lemma iter_writes (D : list name) (B : val -> store -> store -> Prop) :
  (forall v s r, B v s r -> forall x, ~ In x D -> r x = s x) ->
  forall vs s r, iter_rel val B vs s r -> forall x, ~ In x D -> r x = s x.
Proof.
  intros HB vs s r H. induction H as [s | v vs s s1 r Hb Hl IH]; intros x Hx; [reflexivity|].
  rewrite (IH x Hx). apply (HB _ _ _ Hb x Hx).
Qed.

(* two loops in lockstep: the invariant set Lh *)
Lemma loop_sim (Lh : list name) test (B B' : store -> store -> Prop) :
  (forall s t, agree val Lh s t -> test s = test t) ->
  (forall s t s1 t1, agree val Lh s t -> B s s1 -> B' t t1 -> agree val Lh s1 t1) ->
  forall s r, loop_rel val test B s r -> forall t r', agree val Lh s t -> loop_rel val test B' t r' ->
  agree val Lh r r'.
Proof.
  intros Ht HB s r H. induction H as [s Hs | s s1 r Hs Hb Hl IH]; intros t r' Ha H'.
  - inversion H' as [t0 Ht0 | t0 t1 r0 Ht0 Hb' Hl']; subst.
    + exact Ha.
    + rewrite (Ht _ _ Ha) in Hs. congruence.
  - inversion H' as [t0 Ht0 | t0 t1 r0 Ht0 Hb' Hl']; subst.
    + rewrite (Ht _ _ Ha) in Hs. congruence.
    + eapply IH; [|exact Hl']. eapply HB; eassumption.
Qed.

Lemma iter_sim (Lh : list name) (B B' : val -> store -> store -> Prop) :
  (forall v s t s1 t1, agree val Lh s t -> B v s s1 -> B' v t t1 -> agree val Lh s1 t1) ->
  forall vs s r, iter_rel val B vs s r -> forall t r', agree val Lh s t -> iter_rel val B' vs t r' ->
  agree val Lh r r'.
Proof.
  intros HB vs s r H. induction H as [s | v vs s s1 r Hb Hl IH]; intros t r' Ha H'.
  - inversion H'; subst. exact Ha.
  - inversion H' as [| v0 vs0 t0 t1 r0 Hb' Hl']; subst. eapply IH; [|exact Hl']. eapply HB; eassumption.
Qed.

(* ------------------------------------------------------------------ who writes what *)
Lemma imp_writes :
  (forall st : stmt val, forall O s r, ok_s val st O -> imp_s val st s r ->
     forall x, ~ In x (defs_s val st) -> r x = s x) /\
  (forall b : block val, forall O s r, ok_b val b O -> imp_b val b s r ->
     forall x, ~ In x (defs_b val b) -> r x = s x).
Proof.
  apply stmt_block_mut.
  - intros u d f O s r [W _] H x Hx. inversion H; subst. apply W. exact Hx.
  - intros tu test b1 IH1 b2 IH2 O s r [_ [O1 O2]] H x Hx. cbn [defs_s] in Hx. rewrite in_app_iff in Hx.
    inversion H; subst; [eapply IH1 | eapply IH2]; eauto.
  - intros Lh tu test body IH O s r [_ [_ [_ [_ Ob]]]] H x Hx. cbn [defs_s] in Hx. inversion H; subst.
    eapply (loop_writes (defs_b val body)); [|eassumption|exact Hx].
    intros s0 r0 Hb y Hy. eapply IH; eassumption.
  - intros Lh iu items tg body IH O s r [_ [_ [_ Ob]]] H x Hx. cbn [defs_s] in Hx. inversion H; subst.
    eapply (iter_writes (tg :: defs_b val body)); [|eassumption|exact Hx].
    intros v s0 r0 Hb y Hy. cbn beta in Hb.
    rewrite (IH _ _ _ Ob Hb y) by (intro K; apply Hy; right; exact K).
    unfold set_var. destruct (String.eqb y tg) eqn:E; [|reflexivity].
    apply String.eqb_eq in E. exfalso; apply Hy; left; congruence.
  - intros O s r _ H x _. inversion H; subst. reflexivity.
  - intros st IHs r IHb O s r0 [Os Ob] H x Hx. cbn [defs_b] in Hx. rewrite in_app_iff in Hx.
    inversion H; subst. erewrite IHb; [|exact Ob|eassumption|tauto]. eapply IHs; [exact Os|eassumption|tauto].
Qed.

Lemma state_in_modified (c : ctx) x : In x (state c) -> In x (modified c).
Proof. intro H. exact (proj1 (state_sound c x H)). Qed.

Lemma fun_writes :
  (forall st : stmt val, forall O s r, ok_s val st O -> fun_s val nl gl dflt st O s r ->
     forall x, ~ In x (defs_s val st) -> r x = s x) /\
  (forall b : block val, forall O s r, ok_b val b O -> fun_b val nl gl dflt b O s r ->
     forall x, ~ In x (defs_b val b) -> r x = s x).
Proof.
  apply stmt_block_mut.
  - intros u d f O s r [W _] H x Hx. inversion H; subst. apply W. exact Hx.
  - intros tu test b1 IH1 b2 IH2 O s r [_ [O1 O2]] H x Hx. inversion H; subst.
    match goal with |- inject _ _ _ (inject _ ?vars _ _) _ = _ => set (V := vars) in * end.
    assert (HxV : ~ In x V).
    { intro K. apply state_in_modified in K. cbn in K. exact (Hx K). }
    assert (HxO : ~ In x (firstn (nouts (ctx_of val nl gl (SIf val tu test b1 b2) O)) V)).
    { intro K. apply HxV. eapply In_firstn_In. exact K. }
    rewrite inject_out by exact HxO. rewrite inject_out by exact HxV.
    cbn [defs_s] in Hx. rewrite in_app_iff in Hx.
    match goal with Hb2 : fun_b _ _ _ _ b2 _ _ _ |- _ => rewrite (IH2 _ _ _ O2 Hb2 x) by tauto end.
    rewrite inject_out by exact HxV.
    match goal with Hb1 : fun_b _ _ _ _ b1 _ _ _ |- _ => rewrite (IH1 _ _ _ O1 Hb1 x) by tauto end.
    reflexivity.
  - intros Lh tu test body IH O s r [_ [_ [_ [_ Ob]]]] H x Hx. cbn [defs_s] in Hx. inversion H; subst.
    match goal with Hl : loop_rel _ _ _ (inject _ ?vars _ _) _ |- _ => set (V := vars) in * end.
    assert (HxV : ~ In x V).
    { intro K. apply state_in_modified in K. cbn in K. exact (Hx K). }
    match goal with Hl : loop_rel _ _ _ _ _ |- _ =>
      rewrite (loop_writes (defs_b val body) _ _ (fun s0 r0 Hb y Hy => IH _ _ _ Ob Hb y Hy) _ _ Hl x Hx) end.
    rewrite inject_out by exact HxV.
    match goal with Hg : fun_b _ _ _ _ body _ _ _ |- _ => exact (IH _ _ _ Ob Hg x Hx) end.
  - intros Lh iu items tg body IH O s r [_ [_ [_ Ob]]] H x Hx. cbn [defs_s] in Hx. inversion H; subst.
    match goal with Hl : iter_rel _ _ _ (inject _ ?vars _ _) _ |- _ => set (V := vars) in * end.
    assert (HxV : ~ In x V).
    { intro K. apply state_in_modified in K. cbn in K. exact (Hx K). }
    assert (HB : forall v s0 r0, fun_b val nl gl dflt body Lh (set_var val tg v s0) r0 ->
                 forall y, ~ In y (tg :: defs_b val body) -> r0 y = s0 y).
    { intros v s0 r0 Hb y Hy.
      rewrite (IH _ _ _ Ob Hb y) by (intro K; apply Hy; right; exact K).
      unfold set_var. destruct (String.eqb y tg) eqn:E; [|reflexivity].
      apply String.eqb_eq in E. exfalso; apply Hy; left; congruence. }
    match goal with Hl : iter_rel _ _ _ _ _ |- _ =>
      rewrite (iter_writes (tg :: defs_b val body) _ HB _ _ _ Hl x Hx) end.
    rewrite inject_out by exact HxV.
    match goal with Hg : fun_b _ _ _ _ body _ (set_var _ _ _ _) _ |- _ => exact (HB _ _ _ Hg x Hx) end.
  - intros O s r _ H x _. inversion H; subst. reflexivity.
  - intros st IHs r IHb O s r0 [Os Ob] H x Hx. cbn [defs_b] in Hx. rewrite in_app_iff in Hx.
    inversion H; subst. erewrite IHb; [|exact Ob|eassumption|tauto]. eapply IHs; [exact Os|eassumption|tauto].
Qed.

(* a variable that a block does not assign and that is live after it is live before it *)
Lemma live_through :
  (forall st : stmt val, forall O x, ok_s val st O -> In x O -> ~ In x (defs_s val st) -> In x (live_s val st O)) /\
  (forall b : block val, forall O x, ok_b val b O -> In x O -> ~ In x (defs_b val b) -> In x (live_b val b O)).
Proof.
  apply stmt_block_mut.
  - intros u d f O x _ HO Hd. cbn [live_s]. apply in_or_app. right. apply In_minus. split; assumption.
  - intros tu test b1 IH1 b2 IH2 O x [_ [O1 _]] HO Hd. cbn [live_s defs_s] in *. rewrite in_app_iff in Hd.
    apply in_or_app. right. apply in_or_app. left. apply IH1; tauto.
  - intros Lh tu test body _ O x [_ [_ [HOL _]]] HO _. cbn [live_s]. apply HOL, HO.
  - intros Lh iu items tg body _ O x [_ [HOL _]] HO _. cbn [live_s]. apply in_or_app. right. apply HOL, HO.
  - intros O x _ HO _. exact HO.
  - intros st IHs r IHb O x [Os Ob] HO Hd. cbn [live_b defs_b] in *. rewrite in_app_iff in Hd.
    apply IHs; [exact Os | apply IHb; tauto | tauto].
Qed.

(* ------------------------------------------------------------------ the theorem *)
Lemma tracing_program_agrees :
  (forall st : stmt val, forall O s t r r', ok_s val st O -> agree val (live_s val st O) s t ->
     imp_s val st s r -> fun_s val nl gl dflt st O t r' -> agree val O r r') /\
  (forall b : block val, forall O s t r r', ok_b val b O -> agree val (live_b val b O) s t ->
     imp_b val b s r -> fun_b val nl gl dflt b O t r' -> agree val O r r').
Proof.
  apply stmt_block_mut.
  - (* user statement *)
    intros u d f O s t r r' [W D] Ha Hi Hf. inversion Hi; subst. inversion Hf; subst.
    cbn [live_s] in Ha. intros x Hx. destruct (in_dec string_dec x d) as [Hd|Hd].
    + apply D; [|exact Hd]. intros y Hy. apply Ha. apply in_or_app. left. exact Hy.
    + rewrite (W s x Hd), (W t x Hd). apply Ha. apply in_or_app. right. apply In_minus. split; assumption.
  - (* if *)
    intros tu test b1 IH1 b2 IH2 O s t r r' Hok Ha Hi Hf. pose proof Hok as [Rt [O1 O2]].
    inversion Hf; subst.
    assert (Hcin : forall x, In x (defs_s val (SIf val tu test b1 b2)) -> In x (live_s val (SIf val tu test b1 b2) O) -> In x (state c))
      by (intros x; apply (carried_in_of_state_complete c)).
    assert (Hcout : forall x, In x (defs_s val (SIf val tu test b1 b2)) -> In x O -> In x (firstn (nouts c) (state c)))
      by (intros x; apply (outputs_of_state_complete c)).
    cbn [live_s] in Ha.
    assert (Ha1 : agree val (live_b val b1 O) s t).
    { intros y Hy. apply Ha. apply in_or_app. right. apply in_or_app. left. exact Hy. }
    assert (Htest : test s = test t).
    { apply Rt. intros y Hy. apply Ha. apply in_or_app. left. exact Hy. }
    match goal with Hb1 : fun_b _ _ _ _ b1 _ _ ?S1, Hb2 : fun_b _ _ _ _ b2 _ _ ?S2 |- _ =>
      rename Hb1 into Hf1; rename Hb2 into Hf2; rename S1 into s1; rename S2 into s2 end.
    (* the second branch starts from a store that agrees with the original on everything live into it *)
    assert (Ha2 : agree val (live_b val b2 O) s (inject val (state c) t s1)).
    { intros y Hy.
      assert (HyL : In y (live_s val (SIf val tu test b1 b2) O)).
      { cbn [live_s]. apply in_or_app. right. apply in_or_app. right. exact Hy. }
      destruct (in_dec string_dec y (state c)) as [Hv|Hv].
      - rewrite inject_in by exact Hv. apply Ha. exact HyL.
      - rewrite inject_out by exact Hv.
        assert (Hyd : ~ In y (defs_b val b1)).
        { intro K. apply Hv. apply Hcin; [cbn [defs_s]; apply in_or_app; left; exact K | exact HyL]. }
        rewrite (proj2 fun_writes b1 _ _ _ O1 Hf1 y Hyd). apply Ha. exact HyL. }
    (* a live-out variable that is not an output is assigned by neither branch *)
    assert (Hrest : forall x, In x O -> ~ In x (firstn (nouts c) (state c)) ->
              r x = s x /\ inject val (state c) t s2 x = t x /\ s x = t x).
    { intros x HxO Hno.
      assert (Hd : ~ In x (defs_s val (SIf val tu test b1 b2))) by (intro K; apply Hno; apply Hcout; assumption).
      assert (Hv : ~ In x (state c)) by (intro K; apply state_in_modified in K; exact (Hd K)).
      cbn [defs_s] in Hd. rewrite in_app_iff in Hd.
      split; [|split].
      - eapply (proj1 imp_writes (SIf val tu test b1 b2)); [exact Hok | exact Hi |].
        cbn [defs_s]. rewrite in_app_iff. exact Hd.
      - rewrite inject_out by exact Hv.
        rewrite (proj2 fun_writes b2 _ _ _ O2 Hf2 x) by tauto. rewrite inject_out by exact Hv.
        apply (proj2 fun_writes b1 _ _ _ O1 Hf1 x). tauto.
      - apply Ha1. apply (proj2 live_through b1); [exact O1 | exact HxO | tauto]. }
    intros x Hx. destruct (in_dec string_dec x (firstn (nouts c) (state c))) as [Ho|Ho].
    + rewrite inject_in by exact Ho. rewrite <- Htest.
      inversion Hi; subst.
      * match goal with Ht : test s = true |- _ => rewrite Ht end.
        eapply IH1; [exact O1 | exact Ha1 | eassumption | exact Hf1 | exact Hx].
      * match goal with Ht : test s = false |- _ => rewrite Ht end.
        eapply IH2; [exact O2 | exact Ha2 | eassumption | exact Hf2 | exact Hx].
    + rewrite inject_out by exact Ho. destruct (Hrest x Hx Ho) as [E1 [E2 E3]]. rewrite E1, E2. exact E3.
  - (* while *)
    intros Lh tu test body IH O s t r r' Hok Ha Hi Hf. pose proof Hok as [Rt [Htu [HOL [Hbl Ob]]]].
    inversion Hi; subst. inversion Hf; subst.
    cbn [live_s] in Ha.
    match goal with Hg : fun_b _ _ _ _ body _ _ ?G |- _ => rename Hg into Htr; rename G into g end.
    assert (Hstart : agree val Lh s (inject val (state c) t g)).
    { intros y Hy. destruct (in_dec string_dec y (state c)) as [Hv|Hv].
      - rewrite inject_in by exact Hv. apply Ha, Hy.
      - rewrite inject_out by exact Hv.
        assert (Hyd : ~ In y (defs_b val body)).
        { intro K. apply Hv. apply (carried_in_of_state_complete c); [exact K | exact Hy]. }
        rewrite (proj2 fun_writes body _ _ _ Ob Htr y Hyd). apply Ha, Hy. }
    eapply agree_incl; [exact HOL|].
    eapply (loop_sim Lh test (imp_b val body) (fun_b val nl gl dflt body Lh)); [| |eassumption|exact Hstart|eassumption].
    + intros s0 t0 H0. apply Rt. eapply agree_incl; [exact Htu | exact H0].
    + intros s0 t0 s1 t1 H0 Hb Hb'. eapply IH; [exact Ob| |exact Hb|exact Hb'].
      eapply agree_incl; [exact Hbl | exact H0].
  - (* for *)
    intros Lh iu items tg body IH O s t r r' Hok Ha Hi Hf. pose proof Hok as [Hit [HOL [Hbl Ob]]].
    inversion Hi; subst. inversion Hf; subst.
    cbn [live_s] in Ha.
    assert (Hitems : items s = items t).
    { apply Hit. intros y Hy. apply Ha. apply in_or_app. left. exact Hy. }
    assert (HaL : agree val Lh s t).
    { intros y Hy. apply Ha. apply in_or_app. right. exact Hy. }
    match goal with Hg : fun_b _ _ _ _ body _ _ ?G |- _ => rename Hg into Htr; rename G into g end.
    assert (Hstart : agree val Lh s (inject val (state c) t g)).
    { intros y Hy. destruct (in_dec string_dec y (state c)) as [Hv|Hv].
      - rewrite inject_in by exact Hv. apply HaL, Hy.
      - rewrite inject_out by exact Hv.
        assert (Hyd : ~ In y (tg :: defs_b val body)).
        { intro K. apply Hv. apply (carried_in_of_state_complete c); [exact K |].
          cbn. apply in_or_app. right. exact Hy. }
        rewrite (proj2 fun_writes body _ _ _ Ob Htr y) by (intro K; apply Hyd; right; exact K).
        unfold set_var. destruct (String.eqb y tg) eqn:E.
        + apply String.eqb_eq in E. exfalso; apply Hyd; left; congruence.
        + apply HaL, Hy. }
    eapply agree_incl; [exact HOL|].
    rewrite <- Hitems in *.
    eapply (iter_sim Lh (fun v s1 r1 => imp_b val body (set_var val tg v s1) r1)
                        (fun v s1 r1 => fun_b val nl gl dflt body Lh (set_var val tg v s1) r1));
      [|eassumption|exact Hstart|eassumption].
    intros v s0 t0 s1 t1 H0 Hb Hb'. cbn beta in Hb, Hb'. eapply IH; [exact Ob| |exact Hb|exact Hb'].
    intros y Hy. unfold set_var. destruct (String.eqb y tg) eqn:E; [reflexivity|].
    apply H0. apply Hbl. apply In_minus. split; [exact Hy|].
    intros [K|[]]. subst y. rewrite String.eqb_refl in E. discriminate.
  - intros O s t r r' _ Ha Hi Hf. inversion Hi; subst. inversion Hf; subst. exact Ha.
  - intros st IHs r IHb O s t r0 r0' [Os Ob] Ha Hi Hf. inversion Hi; subst. inversion Hf; subst.
    eapply IHb; [exact Ob| |eassumption|eassumption].
    eapply IHs; [exact Os|exact Ha|eassumption|eassumption].
Qed.

End Proofs.
