(* C05: control skeleton of a Python function, its trace semantics (S) and the
   control-flow edges the graph of malt.pyct.cfg must contain (H).

   A statement is reduced to what matters for control flow: the label of the
   CFG node(s) it owns and its nested blocks.  `for` and `while` have the same
   shape (the iter / test node is evaluated before every iteration).

   Model only -- proofs are in SkelProofs.v. *)
From Coq Require Import List Arith Bool.
Import ListNotations.

Definition label := nat.
Definition EXIT : label := 0.       (* virtual node: an edge (n, EXIT) says n is an exit node *)

Inductive stmt : Set :=
| SSimple (l : label)                                   (* assignment, expression, pass, del, import, def, class, ... *)
| SIf (t : label) (body orelse : block)
| SLoop (t : label) (body orelse : block)               (* while / for: t is the test / iter node *)
| SBreak (l : label)
| SContinue (l : label)
| SReturn (l : label)
| SRaise (l : label)
| STry (s0 : stmt) (body : block) (handlers : blocks) (orelse final : block)   (* try body = s0 :: body *)
| SWith (i : label) (items : list label) (body : block)
with block : Set := BNil | BCons (s : stmt) (b : block)
with blocks : Set := HNil | HCons (b : block) (h : blocks).

Record fn : Set := mkfn { f_args : label; f_body : block }.

(* ------------------------------------------------------------------------ *)
(* S: trace semantics driven by a decision list.                             *)

Inductive outcome : Set :=
| ONormal | OBrk | OCont | ORet
| ORaised        (* an explicit raise is propagating and may still be caught by an enclosing handler *)
| OEscaped       (* the exception left a try that has a finally clause (or the function): the trace ends *)
| OFuel.

Definition decisions := list nat.
Definition dhead (d : decisions) : nat := match d with [] => 0 | c :: _ => c end.
Definition dtail (d : decisions) : decisions := match d with [] => [] | _ :: r => r end.

Fixpoint nth_block (h : blocks) (n : nat) : option block :=
  match h, n with
  | HNil, _ => None
  | HCons b _, 0 => Some b
  | HCons _ r, S n' => nth_block r n'
  end.

Definition is_nil (b : block) : bool := match b with BNil => true | _ => false end.

Definition res : Set := (list label * outcome * decisions)%type.

(* the three phases of a try statement, parametric in the evaluators of sub-statements *)
Definition try_ph1 (es : stmt -> decisions -> res) (eb : block -> decisions -> res)
           (s0 : stmt) (body : block) (d : decisions) : res :=
  (* 1. the protected region s0 :: body *)
  let '(tr0, o0, d0) := es s0 d in
  match o0 with
  | ONormal => let '(trb, ob, db) := eb body d0 in (tr0 ++ trb, ob, db)
  | _ => (tr0, o0, d0)
  end.
Definition try_ph2 (eb : block -> decisions -> res) (hs : blocks) (orelse : block) (r1 : res) : res :=
  (* 2. else clause when the region completed, one handler (or none) when it raised *)
  let '(tr1, o1, d1) := r1 in
  match o1 with
  | ONormal => let '(tre, oe, de) := eb orelse d1 in (tr1 ++ tre, oe, de)
  | ORaised =>
      match dhead d1 with
      | 0 => (tr1, ORaised, dtail d1)
      | S c => match nth_block hs c with
               | Some hb => let '(trh, oh, dh) := eb hb (dtail d1) in (tr1 ++ trh, oh, dh)
               | None => (tr1, ORaised, dtail d1)
               end
      end
  | _ => (tr1, o1, d1)
  end.
Definition try_ph3 (eb : block -> decisions -> res) (final : block) (r2 : res) : res :=
  (* 3. finally: runs on normal completion and on break / continue / return; an exception that
     leaves a try with a finally clause ends the claimed trace *)
  let '(tr2, o2, d2) := r2 in
  if is_nil final then (tr2, o2, d2)
  else match o2 with
       | ONormal | OBrk | OCont | ORet =>
           let '(trf, of, df) := eb final d2 in
           (tr2 ++ trf, match of with ONormal => o2 | _ => of end, df)
       | ORaised => (tr2, OEscaped, d2)
       | _ => (tr2, o2, d2)
       end.

Fixpoint exec_stmt (n : nat) (s : stmt) (d : decisions) {struct n} : res :=
  match n with
  | 0 => ([], OFuel, d)
  | S n' =>
    match s with
    | SSimple l => ([l], ONormal, d)
    | SBreak l => ([l], OBrk, d)
    | SContinue l => ([l], OCont, d)
    | SReturn l => ([l], ORet, d)
    | SRaise l => ([l], ORaised, d)
    | SIf t b1 b2 =>
        let '(tr, o, d') := exec_block n' (if Nat.eqb (dhead d) 0 then b2 else b1) (dtail d) in
        (t :: tr, o, d')
    | SLoop t body orelse =>
        if Nat.eqb (dhead d) 0 then
          let '(tr, o, d') := exec_block n' orelse (dtail d) in (t :: tr, o, d')
        else
          let '(tr, o, d1) := exec_block n' body (dtail d) in
          match o with
          | ONormal | OCont =>
              let '(tr2, o2, d2) := exec_stmt n' (SLoop t body orelse) d1 in
              (t :: tr ++ tr2, o2, d2)
          | OBrk => (t :: tr, ONormal, d1)
          | _ => (t :: tr, o, d1)
          end
    | SWith i items body =>
        let '(tr, o, d') := exec_block n' body d in ((i :: items) ++ tr, o, d')
    | STry s0 body hs orelse final =>
        try_ph3 (exec_block n') final (try_ph2 (exec_block n') hs orelse (try_ph1 (exec_stmt n') (exec_block n') s0 body d))
    end
  end
with exec_block (n : nat) (b : block) (d : decisions) {struct n} : res :=
  match n with
  | 0 => ([], OFuel, d)
  | S n' =>
    match b with
    | BNil => ([], ONormal, d)
    | BCons s r =>
        let '(tr, o, d1) := exec_stmt n' s d in
        match o with
        | ONormal => let '(tr2, o2, d2) := exec_block n' r d1 in (tr ++ tr2, o2, d2)
        | _ => (tr, o, d1)
        end
    end
  end.

Definition exec_fn (n : nat) (f : fn) (d : decisions) : res :=
  let '(tr, o, d') := exec_block n (f_body f) d in (f_args f :: tr, o, d').

(* ------------------------------------------------------------------------ *)
(* H: the edges the control-flow graph must contain.                          *)

Definition edge : Set := (label * label)%type.

(* where control goes from a statement, by kind of completion *)
Record conts : Set := mkconts {
  knext : list label; kbrk : list label; kcont : list label; kret : list label;
  kraise : list label       (* entries of the handlers of all enclosing try statements *)
}.

Fixpoint entry_stmt (s : stmt) : label :=
  match s with
  | SSimple l | SBreak l | SContinue l | SReturn l | SRaise l => l
  | SIf t _ _ | SLoop t _ _ => t
  | STry s0 _ _ _ _ => entry_stmt s0
  | SWith i _ _ => i
  end.
Definition entry_block (b : block) (dflt : list label) : list label :=
  match b with BNil => dflt | BCons s _ => [entry_stmt s] end.
Fixpoint entry_blocks (h : blocks) (dflt : list label) : list label :=
  match h with HNil => [] | HCons b r => entry_block b dflt ++ entry_blocks r dflt end.

(* jump kinds that can leave a statement (break/continue bound by an inner loop do not) *)
Record jumps : Set := mkj { jb : bool; jc : bool; jr : bool; jx : bool }.   (* break, continue, return, raise *)
Definition jor (a b : jumps) : jumps := mkj (jb a || jb b) (jc a || jc b) (jr a || jr b) (jx a || jx b).
Definition j0 : jumps := mkj false false false false.

Fixpoint jumps_stmt (s : stmt) : jumps :=
  match s with
  | SSimple _ => j0
  | SBreak _ => mkj true false false false
  | SContinue _ => mkj false true false false
  | SReturn _ => mkj false false true false
  | SRaise _ => mkj false false false true      (* a raise leaves the function through the finally guards *)
  | SIf _ b1 b2 => jor (jumps_block b1) (jumps_block b2)
  | SLoop _ body orelse =>
      jor (mkj false false (jr (jumps_block body)) (jx (jumps_block body))) (jumps_block orelse)
  | SWith _ _ body => jumps_block body
  | STry s0 body hs orelse final =>
      jor (jor (jor (jumps_stmt s0) (jumps_block body)) (jumps_block orelse))
          (jor (jumps_blocks hs) (jumps_block final))
  end
with jumps_block (b : block) : jumps :=
  match b with BNil => j0 | BCons s r => jor (jumps_stmt s) (jumps_block r) end
with jumps_blocks (h : blocks) : jumps :=
  match h with HNil => j0 | HCons b r => jor (jumps_block b) (jumps_blocks r) end.

(* can the statement complete normally (the builder's "leaf set is not empty") *)
Fixpoint falls_stmt (s : stmt) : bool :=
  match s with
  | SSimple _ => true
  | SBreak _ | SContinue _ | SReturn _ | SRaise _ => false
  | SIf _ b1 b2 => falls_block b1 || falls_block b2
  | SLoop _ body orelse => falls_block orelse || jb (jumps_block body)
  | SWith _ _ body => falls_block body
  | STry s0 body hs orelse final =>
      ((falls_stmt s0 && falls_block body && falls_block orelse) || falls_blocks hs) && falls_block final
  end
with falls_block (b : block) : bool :=
  match b with BNil => true | BCons s r => falls_stmt s && falls_block r end
with falls_blocks (h : blocks) : bool :=
  match h with HNil => false | HCons b r => falls_block b || falls_blocks r end.

Definition from (l : label) (targets : list label) : list edge := map (pair l) targets.
Definition sel (b : bool) (l : list label) : list label := if b then l else [].

Fixpoint chain_items (i : label) (items : list label) (last_to : list label) : list edge :=
  match items with
  | [] => from i last_to
  | j :: r => (i, j) :: chain_items j r last_to
  end.

Fixpoint cfg_stmt (s : stmt) (k : conts) : list edge :=
  match s with
  | SSimple l => from l (knext k)
  | SBreak l => from l (kbrk k)
  | SContinue l => from l (kcont k)
  | SReturn l => from l (kret k)
  | SRaise l => from l (kraise k ++ kret k)
  | SIf t b1 b2 =>
      from t (entry_block b1 (knext k) ++ entry_block b2 (knext k)) ++ cfg_block b1 k ++ cfg_block b2 k
  | SLoop t body orelse =>
      let kb := mkconts [t] (knext k) [t] (kret k) (kraise k) in
      from t (entry_block body [t] ++ entry_block orelse (knext k)) ++ cfg_block body kb ++ cfg_block orelse k
  | SWith i items body =>
      chain_items i items (entry_block body (knext k)) ++ cfg_block body k
  | STry s0 body hs orelse final =>
      let nofin := is_nil final in
      let fe := entry_block final (knext k) in            (* where normal completion goes *)
      let jt (outer : list label) := if nofin then outer else fe in
      let he := entry_blocks hs fe in
      let prot := jor (jor (jor (jumps_stmt s0) (jumps_block body)) (jumps_block orelse)) (jumps_blocks hs) in
      let direct := (falls_stmt s0 && falls_block body && falls_block orelse) || falls_blocks hs in
      let kbody := mkconts (entry_block orelse fe) (jt (kbrk k)) (jt (kcont k)) (jt (kret k)) (he ++ kraise k) in
      let korelse := mkconts fe (jt (kbrk k)) (jt (kcont k)) (jt (kret k)) (kraise k) in
      let khandler := mkconts fe (jt (kbrk k)) (jt (kcont k)) (jt (kret k)) (kraise k) in
      let kfinal := mkconts (sel direct (knext k) ++ sel (jb prot) (kbrk k) ++ sel (jc prot) (kcont k) ++ sel (jr prot || jx prot) (kret k))
                            (kbrk k) (kcont k) (kret k) (kraise k) in
      cfg_stmt s0 (mkconts (entry_block body (knext kbody)) (kbrk kbody) (kcont kbody) (kret kbody) (kraise kbody))
      ++ cfg_block body kbody ++ cfg_block orelse korelse ++ cfg_blocks hs khandler ++ cfg_block final kfinal
  end
with cfg_block (b : block) (k : conts) : list edge :=
  match b with
  | BNil => []
  | BCons s r => cfg_stmt s (mkconts (entry_block r (knext k)) (kbrk k) (kcont k) (kret k) (kraise k)) ++ cfg_block r k
  end
with cfg_blocks (h : blocks) (k : conts) : list edge :=
  match h with
  | HNil => []
  | HCons b r => cfg_block b k ++ cfg_blocks r k
  end.

Definition ktop : conts := mkconts [EXIT] [] [] [EXIT] [].
Definition cfg_fn (f : fn) : list edge :=
  from (f_args f) (entry_block (f_body f) [EXIT]) ++ cfg_block (f_body f) ktop.

(* all node labels, in source order *)
Fixpoint labels_stmt (s : stmt) : list label :=
  match s with
  | SSimple l | SBreak l | SContinue l | SReturn l | SRaise l => [l]
  | SIf t b1 b2 | SLoop t b1 b2 => t :: labels_block b1 ++ labels_block b2
  | SWith i items body => i :: items ++ labels_block body
  | STry s0 body hs orelse final =>
      labels_stmt s0 ++ labels_block body ++ labels_blocks hs ++ labels_block orelse ++ labels_block final
  end
with labels_block (b : block) : list label :=
  match b with BNil => [] | BCons s r => labels_stmt s ++ labels_block r end
with labels_blocks (h : blocks) : list label :=
  match h with HNil => [] | HCons b r => labels_block b ++ labels_blocks r end.
Definition labels_fn (f : fn) : list label := f_args f :: labels_block (f_body f).

Fixpoint raises_stmt (s : stmt) : list label :=
  match s with
  | SRaise l => [l]
  | SSimple _ | SBreak _ | SContinue _ | SReturn _ => []
  | SIf _ b1 b2 | SLoop _ b1 b2 => raises_block b1 ++ raises_block b2
  | SWith _ _ body => raises_block body
  | STry s0 body hs orelse final =>
      raises_stmt s0 ++ raises_block body ++ raises_blocks hs ++ raises_block orelse ++ raises_block final
  end
with raises_block (b : block) : list label :=
  match b with BNil => [] | BCons s r => raises_stmt s ++ raises_block r end
with raises_blocks (h : blocks) : list label :=
  match h with HNil => [] | HCons b r => raises_block b ++ raises_blocks r end.

(* ------------------------------------------------------------------------ *)
(* Historical: this used to be the guard of the finding `jump-in-handler-of-try-finally` (cfg.py
   popped the lexical scope of a try before visiting its handlers, so a jump written in an except
   body was not wired through that try's finally).  The defect is repaired in /repo; the predicate
   is now true of every program (guard_true in SkelProofs.v) and is kept so that statements that
   mention it stay stable. *)
Definition no_jumps (j : jumps) : bool := negb (jb j) && negb (jc j) && negb (jr j).

Fixpoint guard_stmt (s : stmt) : bool :=
  match s with
  | SSimple _ | SBreak _ | SContinue _ | SReturn _ | SRaise _ => true
  | SIf _ b1 b2 | SLoop _ b1 b2 => guard_block b1 && guard_block b2
  | SWith _ _ body => guard_block body
  | STry s0 body hs orelse final =>
      guard_stmt s0 && guard_block body && guard_blocks hs && guard_block orelse && guard_block final
  end
with guard_block (b : block) : bool :=
  match b with BNil => true | BCons s r => guard_stmt s && guard_block r end
with guard_blocks (h : blocks) : bool :=
  match h with HNil => true | HCons b r => guard_block b && guard_blocks r end.
