(* C05: checkers evaluated by vm_compute on harness-written cases.
   graph case : the edges malt.pyct.cfg built (lambda nodes contracted, exit nodes
                as edges to EXIT), its node labels, its error nodes
   trace case : decisions logged by a real CPython run and the executed node labels *)
From Coq Require Import List Arith Bool.
Import ListNotations.
Require Import MV.Cfg.Skel.

Definition edge_beq (a b : edge) : bool := Nat.eqb (fst a) (fst b) && Nat.eqb (snd a) (snd b).
Definition mem_edge (e : edge) (l : list edge) : bool := existsb (edge_beq e) l.
Definition mem_nat (x : nat) (l : list nat) : bool := existsb (Nat.eqb x) l.
Definition incl_edges (a b : list edge) : bool := forallb (fun e => mem_edge e b) a.
Definition incl_nat (a b : list nat) : bool := forallb (fun x => mem_nat x b) a.

Definition graph_case : Set := (nat * fn * list edge * list label * list label)%type.

Definition missing_edges (c : graph_case) : list edge :=
  match c with (_, f, ie, _, _) => filter (fun e => negb (mem_edge e ie)) (cfg_fn f) end.

Definition check_graph (c : graph_case) : bool :=
  match c with
  | (_, f, ie, inodes, ierr) =>
      incl_edges (cfg_fn f) ie
      && incl_nat (labels_fn f) inodes && incl_nat inodes (labels_fn f)
      && incl_nat (raises_block (f_body f)) ierr && incl_nat ierr (raises_block (f_body f))
  end.

(* edges of the implementation that the model does not require (over-approximation, informational) *)
Definition extra_edges (c : graph_case) : nat :=
  match c with (_, f, ie, _, _) => length (filter (fun e => negb (mem_edge e (cfg_fn f))) ie) end.

Definition gindex (c : graph_case) : nat := match c with (n, _, _, _, _) => n end.
Definition failing_graphs (cs : list graph_case) : list nat :=
  map gindex (filter (fun c => negb (check_graph c)) cs).

(* index, function, decisions, executed labels, result kind (true = returned, false = raised) *)
Definition trace_case : Set := (nat * fn * decisions * list label * bool)%type.

Fixpoint list_nat_beq (a b : list nat) : bool :=
  match a, b with
  | [], [] => true
  | x :: a', y :: b' => Nat.eqb x y && list_nat_beq a' b'
  | _, _ => false
  end.
Fixpoint prefix_nat (a b : list nat) : bool :=
  match a, b with
  | [], _ => true
  | x :: a', y :: b' => Nat.eqb x y && prefix_nat a' b'
  | _, _ => false
  end.

Definition FUEL : nat := 400.

Definition check_trace (c : trace_case) : bool :=
  match c with
  | (_, f, d, tr, returned) =>
      let '(mtr, o, _) := exec_fn FUEL f d in
      match o with
      | ONormal | ORet => returned && list_nat_beq mtr tr
      | ORaised => negb returned && list_nat_beq mtr tr
      | OEscaped => prefix_nat mtr tr   (* the run goes on through finally clauses; nothing is claimed about that *)
      | _ => false
      end
  end.
Definition tindex (c : trace_case) : nat := match c with (n, _, _, _, _) => n end.
Definition failing_traces (cs : list trace_case) : list nat :=
  map tindex (filter (fun c => negb (check_trace c)) cs).

(* is the trace a path of the given edge list, from the first label, ending in an exit or error node *)
Fixpoint is_path (E : list edge) (a : label) (tr : list label) : bool :=
  match tr with [] => true | b :: r => mem_edge (a, b) E && is_path E b r end.
