(* C05: every execution trace of the skeleton semantics is a path of cfg_fn. *)
From Coq Require Import List Arith Bool Lia.
Import ListNotations.
Require Import MV.Cfg.Skel.

Fixpoint chain (E : list edge) (a : label) (tr : list label) : Prop :=
  match tr with [] => True | b :: r => In (a, b) E /\ chain E b r end.
Fixpoint lastd (a : label) (tr : list label) : label :=
  match tr with [] => a | b :: r => lastd b r end.
Definition leaves_to (E : list edge) (a : label) (ls : list label) : Prop :=
  forall l, In l ls -> In (a, l) E.

Definition target (o : outcome) (k : conts) : list label :=
  match o with
  | ONormal => knext k | OBrk => kbrk k | OCont => kcont k | ORet => kret k
  | ORaised => kraise k ++ kret k
  | OEscaped | OFuel => []
  end.

Definition good_stmt (E : list edge) (s : stmt) (k : conts) (tr : list label) (o : outcome) : Prop :=
  exists r, tr = entry_stmt s :: r /\ chain E (entry_stmt s) r /\ leaves_to E (lastd (entry_stmt s) r) (target o k).

Definition good_block (E : list edge) (b : block) (k : conts) (tr : list label) (o : outcome) : Prop :=
  match tr with
  | [] => b = BNil /\ o = ONormal
  | x :: r => (exists s b', b = BCons s b' /\ x = entry_stmt s) /\ chain E x r /\ leaves_to E (lastd x r) (target o k)
  end.

Definition jok (o : outcome) (j : jumps) : Prop :=
  match o with OBrk => jb j = true | OCont => jc j = true | ORet => jr j = true | _ => True end.

(* ---- basic facts -------------------------------------------------------- *)

Lemma chain_mono E E' a tr : incl E E' -> chain E a tr -> chain E' a tr.
Proof.
  intros H; revert a; induction tr as [|b r IH]; simpl; intros a Hc; [exact I|].
  destruct Hc as [H1 H2]; split; [apply H, H1 | apply IH, H2].
Qed.

Lemma leaves_mono E E' a ls : incl E E' -> leaves_to E a ls -> leaves_to E' a ls.
Proof. intros H L l Hl; apply H, L, Hl. Qed.

Lemma leaves_sub E a ls ls' : incl ls' ls -> leaves_to E a ls -> leaves_to E a ls'.
Proof. intros H L l Hl; apply L, H, Hl. Qed.

Lemma chain_app E a t1 t2 : chain E a t1 -> chain E (lastd a t1) t2 -> chain E a (t1 ++ t2).
Proof.
  revert a; induction t1 as [|b r IH]; simpl; intros a H1 H2; [exact H2|].
  destruct H1 as [Ha Hb]; split; [exact Ha | apply IH; assumption].
Qed.

Lemma lastd_app a t1 t2 : lastd a (t1 ++ t2) = lastd (lastd a t1) t2.
Proof. revert a; induction t1 as [|b r IH]; simpl; intros; [reflexivity | apply IH]. Qed.

Lemma in_from l t ls : In t ls -> In (l, t) (from l ls).
Proof. intros H; unfold from; apply in_map; exact H. Qed.

Lemma leaves_from l ls : leaves_to (from l ls) l ls.
Proof. intros t Ht; apply in_from, Ht. Qed.

Lemma good_stmt_mono E E' s k tr o : incl E E' -> good_stmt E s k tr o -> good_stmt E' s k tr o.
Proof.
  intros H [r [Ht [Hc Hl]]]; exists r; split; [exact Ht|]; split;
    [eapply chain_mono; eauto | eapply leaves_mono; eauto].
Qed.

Lemma good_block_mono E E' b k tr o : incl E E' -> good_block E b k tr o -> good_block E' b k tr o.
Proof.
  intros H; destruct tr as [|x r]; simpl; [tauto|].
  intros [Hx [Hc Hl]]; split; [exact Hx|]; split; [eapply chain_mono; eauto | eapply leaves_mono; eauto].
Qed.

(* entering a block from node a *)
Lemma good_block_chain E b k tr o a :
  good_block E b k tr o -> leaves_to E a (entry_block b (knext k)) ->
  chain E a tr /\ leaves_to E (lastd a tr) (target o k).
Proof.
  destruct tr as [|x r]; simpl.
  - intros [-> ->] L; split; [exact I | exact L].
  - intros [[s [b' [-> ->]]] [Hc Hl]] L; split; [split; [apply L; left; reflexivity | exact Hc] | exact Hl].
Qed.

(* the same, when only the entry of the block matters (non-empty block) *)
Lemma entry_block_nonnil b X Y : is_nil b = false -> entry_block b X = entry_block b Y.
Proof. destruct b; simpl; [discriminate | reflexivity]. Qed.

Lemma good_block_chain' E b k tr o a X :
  is_nil b = false -> good_block E b k tr o -> leaves_to E a (entry_block b X) ->
  chain E a tr /\ leaves_to E (lastd a tr) (target o k).
Proof.
  intros Hn G L; apply (good_block_chain E b k tr o a G). rewrite (entry_block_nonnil b _ X Hn); exact L.
Qed.

Lemma target_knext o k k' :
  o <> ONormal -> kbrk k = kbrk k' -> kcont k = kcont k' -> kret k = kret k' -> kraise k = kraise k' ->
  target o k = target o k'.
Proof. intros Ho H1 H2 H3 H4; destruct o; simpl; try congruence. Qed.

Lemma jok_l o a b : jok o a -> jok o (jor a b).
Proof. destruct o; simpl; try tauto; intros ->; reflexivity. Qed.
Lemma jok_r o a b : jok o b -> jok o (jor a b).
Proof. destruct o; simpl; try tauto; intros ->; apply orb_true_r. Qed.

Lemma chain_items_ok i items last_to :
  chain (chain_items i items last_to) i items /\ leaves_to (chain_items i items last_to) (lastd i items) last_to.
Proof.
  revert i; induction items as [|j r IH]; intros i; simpl.
  - split; [exact I | apply leaves_from].
  - destruct (IH j) as [Hc Hl]. split.
    + split; [left; reflexivity | eapply chain_mono; [|exact Hc]; apply incl_tl, incl_refl].
    + eapply leaves_mono; [|exact Hl]; apply incl_tl, incl_refl.
Qed.

(* handlers *)
Lemma nth_block_cfg hs c hb k : nth_block hs c = Some hb -> incl (cfg_block hb k) (cfg_blocks hs k).
Proof.
  revert c; induction hs as [|b r IH]; intros c; simpl; [discriminate|].
  destruct c as [|c].
  - intros H; injection H as ->. apply incl_appl, incl_refl.
  - intros H; apply incl_appr; eapply IH; exact H.
Qed.

Lemma nth_block_entry hs c hb X : nth_block hs c = Some hb -> incl (entry_block hb X) (entry_blocks hs X).
Proof.
  revert c; induction hs as [|b r IH]; intros c; simpl; [discriminate|].
  destruct c as [|c].
  - intros H; injection H as ->. apply incl_appl, incl_refl.
  - intros H; apply incl_appr; eapply IH; exact H.
Qed.

Lemma nth_block_jok hs c hb o : nth_block hs c = Some hb -> jok o (jumps_block hb) -> jok o (jumps_blocks hs).
Proof.
  revert c; induction hs as [|b r IH]; intros c; simpl; [discriminate|].
  destruct c as [|c].
  - intros H; injection H as ->. apply jok_l.
  - intros H J; apply jok_r; eapply IH; eauto.
Qed.

Lemma nth_block_falls hs c hb : nth_block hs c = Some hb -> falls_block hb = true -> falls_blocks hs = true.
Proof.
  revert c; induction hs as [|b r IH]; intros c; simpl; [discriminate|].
  destruct c as [|c].
  - intros H; injection H as ->. intros ->; reflexivity.
  - intros H F; rewrite (IH _ H F); apply orb_true_r.
Qed.

Lemma nth_block_guard hs c hb : nth_block hs c = Some hb -> guard_blocks hs = true -> guard_block hb = true.
Proof.
  revert c; induction hs as [|b r IH]; intros c; simpl; [discriminate|].
  intros H G; apply andb_true_iff in G; destruct G as [G1 G2]. destruct c as [|c].
  - injection H as ->; exact G1.
  - eapply IH; eauto.
Qed.

Lemma no_jumps_jok o j : no_jumps j = true -> jok o j -> o <> OBrk /\ o <> OCont /\ o <> ORet.
Proof.
  unfold no_jumps; intros H J. apply andb_true_iff in H; destruct H as [H H3].
  apply andb_true_iff in H; destruct H as [H1 H2].
  apply negb_true_iff in H1, H2, H3.
  repeat split; intros ->; simpl in J; congruence.
Qed.

(* ---- the induction on fuel ----------------------------------------------- *)

Definition stmt_ok (n : nat) : Prop :=
  forall s d tr o d', exec_stmt n s d = (tr, o, d') -> o <> OFuel -> guard_stmt s = true ->
  forall k, good_stmt (cfg_stmt s k) s k tr o /\ jok o (jumps_stmt s) /\ (o = ONormal -> falls_stmt s = true).

Definition block_ok (n : nat) : Prop :=
  forall b d tr o d', exec_block n b d = (tr, o, d') -> o <> OFuel -> guard_block b = true ->
  forall k, good_block (cfg_block b k) b k tr o /\ jok o (jumps_block b) /\ (o = ONormal -> falls_block b = true).

Lemma base_ok : stmt_ok 0 /\ block_ok 0.
Proof. split; intros x d tr o d' H Ho; simpl in H; injection H as _ <- _; congruence. Qed.

Lemma block_step n : stmt_ok n -> block_ok n -> block_ok (S n).
Proof.
  intros Hs Hb b d tr o d' H Ho G k. destruct b as [|s r]; simpl in H.
  - injection H as <- <- <-. simpl. repeat split; reflexivity.
  - simpl in G; apply andb_true_iff in G; destruct G as [Gs Gr].
    destruct (exec_stmt n s d) as [[tr1 o1] d1] eqn:E1.
    set (ks := mkconts (entry_block r (knext k)) (kbrk k) (kcont k) (kret k) (kraise k)).
    assert (D : o1 = ONormal \/ o1 <> ONormal) by (destruct o1; auto; right; discriminate).
    destruct D as [-> | N1].
    + destruct (exec_block n r d1) as [[tr2 o2] d2] eqn:E2. injection H as <- <- <-.
      destruct (Hs _ _ _ _ _ E1 ltac:(discriminate) Gs ks) as [[r1 [-> [C1 L1]]] [_ F1]].
      destruct (Hb _ _ _ _ _ E2 Ho Gr k) as [G2 [J2 F2]].
      simpl cfg_block. fold ks.
      apply (good_block_mono _ (cfg_stmt s ks ++ cfg_block r k)) in G2; [|apply incl_appr, incl_refl].
      destruct (good_block_chain _ _ _ _ _ (lastd (entry_stmt s) r1) G2) as [C2 L2].
      { eapply leaves_mono; [|exact L1]. apply incl_appl, incl_refl. }
      split; [|split].
      * simpl. split; [exists s, r; auto|]. split.
        -- apply chain_app; [eapply chain_mono; [|exact C1]; apply incl_appl, incl_refl | exact C2].
        -- rewrite lastd_app; exact L2.
      * simpl; apply jok_r, J2.
      * intros ->; simpl; rewrite (F1 eq_refl), (F2 eq_refl); reflexivity.
    + assert (H' : (tr1, o1, d1) = (tr, o, d')) by (destruct o1; try exact H; congruence).
      injection H' as <- <- <-.
      destruct (Hs _ _ _ _ _ E1 Ho Gs ks) as [[r1 [-> [C1 L1]]] [J1 F1]].
      split; [|split].
      * simpl cfg_block; fold ks. simpl. split; [exists s, r; auto|]. split.
        -- eapply chain_mono; [|exact C1]; apply incl_appl, incl_refl.
        -- rewrite (target_knext o1 k ks N1) by reflexivity.
           eapply leaves_mono; [|exact L1]; apply incl_appl, incl_refl.
      * simpl; apply jok_l, J1.
      * intros ->; congruence.
Qed.

(* ---- statements other than try ---- *)

Lemma simple_case (l : label) o (ls : conts -> list label) s :
  entry_stmt s = l -> (forall k, cfg_stmt s k = from l (ls k)) -> (forall k, target o k = ls k) ->
  forall k, good_stmt (cfg_stmt s k) s k [l] o.
Proof.
  intros He Hc Ht k. exists []. rewrite He. split; [reflexivity|]. split; [exact I|].
  simpl. rewrite Hc, Ht. apply leaves_from.
Qed.

Lemma stmt_step_nontry n : stmt_ok n -> block_ok n ->
  forall s, (forall s0 body hs orelse final, s <> STry s0 body hs orelse final) ->
  forall d tr o d', exec_stmt (S n) s d = (tr, o, d') -> o <> OFuel -> guard_stmt s = true ->
  forall k, good_stmt (cfg_stmt s k) s k tr o /\ jok o (jumps_stmt s) /\ (o = ONormal -> falls_stmt s = true).
Proof.
  intros Hs Hb s NT d tr o d' H Ho G k.
  destruct s as [l|t b1 b2|t body orelse|l|l|l|l|s0 body hs orelse final|i items body].
  - (* SSimple *) simpl in H; injection H as <- <- <-. split; [|split; [exact I | reflexivity]].
    apply (simple_case l ONormal knext); reflexivity.
  - (* SIf *)
    simpl in H. simpl in G; apply andb_true_iff in G; destruct G as [G1 G2].
    set (b := if Nat.eqb (dhead d) 0 then b2 else b1) in *.
    destruct (exec_block n b (dtail d)) as [[trb ob] db] eqn:Eb. injection H as <- <- <-.
    assert (Gb : guard_block b = true) by (unfold b; destruct (Nat.eqb (dhead d) 0); assumption).
    destruct (Hb _ _ _ _ _ Eb Ho Gb k) as [GB [JB FB]].
    assert (I1 : incl (cfg_block b k) (cfg_stmt (SIf t b1 b2) k)).
    { simpl. unfold b; destruct (Nat.eqb (dhead d) 0).
      - apply incl_appr, incl_appr, incl_refl.
      - apply incl_appr, incl_appl, incl_refl. }
    apply (good_block_mono _ _ _ _ _ _ I1) in GB.
    destruct (good_block_chain _ _ _ _ _ t GB) as [C L].
    { simpl. intros l Hl. apply in_or_app; left. apply in_from. apply in_or_app.
      unfold b in Hl; destruct (Nat.eqb (dhead d) 0); [right|left]; exact Hl. }
    split; [|split].
    + exists trb. split; [reflexivity|]. split; assumption.
    + simpl. unfold b in JB; destruct (Nat.eqb (dhead d) 0); [apply jok_r | apply jok_l]; exact JB.
    + intros ->. simpl. specialize (FB eq_refl). unfold b in FB.
      destruct (Nat.eqb (dhead d) 0); rewrite FB; [apply orb_true_r | reflexivity].
  - (* SLoop *)
    simpl in G; apply andb_true_iff in G; destruct G as [G1 G2].
    set (kb := mkconts [t] (knext k) [t] (kret k) (kraise k)).
    assert (Ib : incl (cfg_block body kb) (cfg_stmt (SLoop t body orelse) k)).
    { simpl. fold kb. apply incl_appr, incl_appl, incl_refl. }
    assert (Io : incl (cfg_block orelse k) (cfg_stmt (SLoop t body orelse) k)).
    { simpl. apply incl_appr, incl_appr, incl_refl. }
    assert (Lt : leaves_to (cfg_stmt (SLoop t body orelse) k) t (entry_block body [t] ++ entry_block orelse (knext k))).
    { simpl. intros l Hl. apply in_or_app; left. apply in_from, Hl. }
    simpl in H. destruct (Nat.eqb (dhead d) 0) eqn:Ed.
    + destruct (exec_block n orelse (dtail d)) as [[tro oo] do] eqn:Eo. injection H as <- <- <-.
      destruct (Hb _ _ _ _ _ Eo Ho G2 k) as [GO [JO FO]].
      apply (good_block_mono _ _ _ _ _ _ Io) in GO.
      destruct (good_block_chain _ _ _ _ _ t GO) as [C L].
      { eapply leaves_sub; [|exact Lt]. apply incl_appr, incl_refl. }
      split; [|split].
      * exists tro. split; [reflexivity|]. split; assumption.
      * simpl. apply jok_r, JO.
      * intros ->. simpl. rewrite (FO eq_refl). reflexivity.
    + destruct (exec_block n body (dtail d)) as [[trb ob] d1] eqn:Eb.
      assert (Nb : ob <> OFuel).
      { intros ->. injection H as _ <- _. congruence. }
      destruct (Hb _ _ _ _ _ Eb Nb G1 kb) as [GB [JB FB]].
      apply (good_block_mono _ _ _ _ _ _ Ib) in GB.
      destruct (good_block_chain _ _ _ _ _ t GB) as [C L].
      { eapply leaves_sub; [|exact Lt]. apply incl_appl, incl_refl. }
      assert (Again : ob = ONormal \/ ob = OCont ->
        forall tr2 o2 d2, exec_stmt n (SLoop t body orelse) d1 = (tr2, o2, d2) ->
        (t :: trb ++ tr2, o2, d2) = (tr, o, d') ->
        good_stmt (cfg_stmt (SLoop t body orelse) k) (SLoop t body orelse) k tr o /\
        jok o (jumps_stmt (SLoop t body orelse)) /\ (o = ONormal -> falls_stmt (SLoop t body orelse) = true)).
      { intros Hob tr2 o2 d2 E2 Heq. injection Heq as <- <- <-.
        assert (GL : guard_stmt (SLoop t body orelse) = true) by (simpl; rewrite G1, G2; reflexivity).
        destruct (Hs _ _ _ _ _ E2 Ho GL k) as [[r2 [-> [C2 L2]]] [J2 F2]].
        split; [|split; assumption].
        exists (trb ++ t :: r2). split; [reflexivity|]. simpl entry_stmt in *. split.
        - apply chain_app; [exact C|]. simpl. split; [|exact C2].
          apply L. destruct Hob as [-> | ->]; simpl; left; reflexivity.
        - rewrite lastd_app. simpl. exact L2. }
      destruct ob; try (destruct (exec_stmt n (SLoop t body orelse) d1) as [[tr2 o2] d2] eqn:E2;
                        eapply Again; eauto; fail).
      * (* OBrk *) injection H as <- <- <-. split; [|split].
        -- exists trb. split; [reflexivity|]. split; [exact C | exact L].
        -- exact I.
        -- intros _. simpl. simpl in JB. rewrite JB. apply orb_true_r.
      * (* ORet *) injection H as <- <- <-. split; [|split].
        -- exists trb. split; [reflexivity|]. split; [exact C | exact L].
        -- simpl. simpl in JB. rewrite JB. reflexivity.
        -- discriminate.
      * (* ORaised *) injection H as <- <- <-. split; [|split].
        -- exists trb. split; [reflexivity|]. split; [exact C | exact L].
        -- exact I.
        -- discriminate.
      * (* OEscaped *) injection H as <- <- <-. split; [|split].
        -- exists trb. split; [reflexivity|]. split; [exact C | exact L].
        -- exact I.
        -- discriminate.
      * congruence.
  - simpl in H; injection H as <- <- <-. split; [|split; [reflexivity | discriminate]].
    apply (simple_case l OBrk kbrk); reflexivity.
  - simpl in H; injection H as <- <- <-. split; [|split; [reflexivity | discriminate]].
    apply (simple_case l OCont kcont); reflexivity.
  - simpl in H; injection H as <- <- <-. split; [|split; [reflexivity | discriminate]].
    apply (simple_case l ORet kret); reflexivity.
  - simpl in H; injection H as <- <- <-. split; [|split; [exact I | discriminate]].
    apply (simple_case l ORaised (fun k => kraise k ++ kret k)); reflexivity.
  - exfalso; eapply NT; reflexivity.
  - (* SWith *)
    simpl in H. destruct (exec_block n body d) as [[trb ob] db] eqn:Eb. injection H as <- <- <-.
    simpl in G. destruct (Hb _ _ _ _ _ Eb Ho G k) as [GB [JB FB]].
    destruct (chain_items_ok i items (entry_block body (knext k))) as [CI LI].
    apply (good_block_mono _ (cfg_stmt (SWith i items body) k)) in GB; [|simpl; apply incl_appr, incl_refl].
    destruct (good_block_chain _ _ _ _ _ (lastd i items) GB) as [C L].
    { eapply leaves_mono; [|exact LI]. simpl; apply incl_appl, incl_refl. }
    split; [|split].
    + exists (items ++ trb). split; [reflexivity|]. simpl entry_stmt. split.
      * apply chain_app; [eapply chain_mono; [|exact CI]; simpl; apply incl_appl, incl_refl | exact C].
      * rewrite lastd_app; exact L.
    + exact JB.
    + exact FB.
Qed.

(* ---- try / except / else / finally ---- *)

Lemma is_nil_true b : is_nil b = true -> b = BNil.
Proof. destruct b; [reflexivity | discriminate]. Qed.

Lemma guard_try_inv s0 body hs orelse final :
  guard_stmt (STry s0 body hs orelse final) = true ->
  guard_stmt s0 = true /\ guard_block body = true /\ guard_blocks hs = true /\ guard_block orelse = true
  /\ guard_block final = true.
Proof.
  simpl. intros G. repeat (apply andb_true_iff in G; destruct G as [G ?]). repeat split; assumption.
Qed.

Lemma bool_cases (b : bool) : b = true \/ b = false.
Proof. destruct b; auto. Qed.

Section Try.
  Variable n : nat.
  Hypothesis Hs : stmt_ok n.
  Hypothesis Hb : block_ok n.
  Variables (s0 : stmt) (body : block) (hs : blocks) (orelse final : block) (k : conts).

  Let nofin := is_nil final.
  Let fe := entry_block final (knext k).
  Let jt (outer : list label) := if nofin then outer else fe.
  Let he := entry_blocks hs fe.
  Let prot_in := jor (jor (jumps_stmt s0) (jumps_block body)) (jumps_block orelse).
  Let prot := jor prot_in (jumps_blocks hs).
  Let direct := (falls_stmt s0 && falls_block body && falls_block orelse) || falls_blocks hs.
  Let kbody := mkconts (entry_block orelse fe) (jt (kbrk k)) (jt (kcont k)) (jt (kret k)) (he ++ kraise k).
  Let korelse := mkconts fe (jt (kbrk k)) (jt (kcont k)) (jt (kret k)) (kraise k).
  Let khandler := mkconts fe (jt (kbrk k)) (jt (kcont k)) (jt (kret k)) (kraise k).
  Let kfinal := mkconts (sel direct (knext k) ++ sel (jb prot) (kbrk k) ++ sel (jc prot) (kcont k)
                         ++ sel (jr prot || jx prot) (kret k)) (kbrk k) (kcont k) (kret k) (kraise k).
  Let ks0 := mkconts (entry_block body (knext kbody)) (kbrk kbody) (kcont kbody) (kret kbody) (kraise kbody).
  Let E := cfg_stmt (STry s0 body hs orelse final) k.
  Let e := entry_stmt s0.

  Lemma E_eq : E = cfg_stmt s0 ks0 ++ cfg_block body kbody ++ cfg_block orelse korelse
                   ++ cfg_blocks hs khandler ++ cfg_block final kfinal.
  Proof. reflexivity. Qed.

  Lemma I0 : incl (cfg_stmt s0 ks0) E.
  Proof. rewrite E_eq; apply incl_appl, incl_refl. Qed.
  Lemma Ib : incl (cfg_block body kbody) E.
  Proof. rewrite E_eq; apply incl_appr, incl_appl, incl_refl. Qed.
  Lemma Io : incl (cfg_block orelse korelse) E.
  Proof. rewrite E_eq; apply incl_appr, incl_appr, incl_appl, incl_refl. Qed.
  Lemma Ih : incl (cfg_blocks hs khandler) E.
  Proof. rewrite E_eq; apply incl_appr, incl_appr, incl_appr, incl_appl, incl_refl. Qed.
  Lemma If : incl (cfg_block final kfinal) E.
  Proof. rewrite E_eq; do 4 apply incl_appr; apply incl_refl. Qed.

  Definition R (tr : list label) (T : list label) : Prop :=
    exists r, tr = e :: r /\ chain E e r /\ leaves_to E (lastd e r) T.

  Lemma R_extend tr T b kk trb ob E' :
    R tr T -> good_block E' b kk trb ob -> incl E' E -> incl (entry_block b (knext kk)) T ->
    R (tr ++ trb) (target ob kk).
  Proof.
    intros [r [-> [C L]]] G HI HT.
    apply (good_block_mono _ _ _ _ _ _ HI) in G.
    destruct (good_block_chain _ _ _ _ _ (lastd e r) G) as [C2 L2].
    { eapply leaves_sub; eauto. }
    exists (r ++ trb). split; [reflexivity|]. split.
    - apply chain_app; assumption.
    - rewrite lastd_app; exact L2.
  Qed.

  Lemma R_sub tr T T' : incl T' T -> R tr T -> R tr T'.
  Proof. intros H [r [Ht [C L]]]; exists r; split; [exact Ht|]; split; [exact C | eapply leaves_sub; eauto]. Qed.

  Lemma ph1_ok d tr1 o1 d1 :
    try_ph1 (exec_stmt n) (exec_block n) s0 body d = (tr1, o1, d1) -> o1 <> OFuel ->
    guard_stmt s0 = true -> guard_block body = true ->
    R tr1 (target o1 kbody) /\ jok o1 (jor (jumps_stmt s0) (jumps_block body))
    /\ (o1 = ONormal -> falls_stmt s0 && falls_block body = true).
  Proof.
    unfold try_ph1. intros H Ho G0 Gb.
    destruct (exec_stmt n s0 d) as [[tr0 o0] d0] eqn:E0.
    assert (D : o0 = ONormal \/ o0 <> ONormal) by (destruct o0; auto; right; discriminate).
    destruct D as [-> | N0].
    - destruct (exec_block n body d0) as [[trb ob] db] eqn:Eb. injection H as <- <- <-.
      destruct (Hs _ _ _ _ _ E0 ltac:(discriminate) G0 ks0) as [[r0 [-> [C0 L0]]] [_ F0]].
      destruct (Hb _ _ _ _ _ Eb Ho Gb kbody) as [GB [JB FB]].
      split; [|split].
      + apply (R_extend (entry_stmt s0 :: r0) (target ONormal ks0) body kbody trb ob (cfg_block body kbody)); [|exact GB|exact Ib|apply incl_refl].
        exists r0. split; [reflexivity|]. split; [eapply chain_mono; [apply I0|exact C0] | eapply leaves_mono; [apply I0|exact L0]].
      + apply jok_r, JB.
      + intros ->. rewrite (F0 eq_refl), (FB eq_refl). reflexivity.
    - assert (H' : (tr0, o0, d0) = (tr1, o1, d1)) by (destruct o0; try exact H; congruence).
      injection H' as <- <- <-.
      destruct (Hs _ _ _ _ _ E0 Ho G0 ks0) as [[r0 [-> [C0 L0]]] [J0 F0]].
      split; [|split].
      + exists r0. split; [reflexivity|]. split; [eapply chain_mono; [apply I0|exact C0]|].
        rewrite (target_knext o0 kbody ks0 N0) by reflexivity. eapply leaves_mono; [apply I0|exact L0].
      + apply jok_l, J0.
      + intros ->; congruence.
  Qed.

  (* what phase 2 establishes, by origin of the outcome *)
  Definition post2 (tr2 : list label) (o2 : outcome) : Prop :=
    (R tr2 (target o2 korelse) /\ jok o2 prot_in
       /\ (o2 = ONormal -> falls_stmt s0 && falls_block body && falls_block orelse = true))
    \/ (R tr2 (target o2 khandler) /\ jok o2 (jumps_blocks hs) /\ (o2 = ONormal -> falls_blocks hs = true))
    \/ (o2 <> ONormal /\ R tr2 (target o2 kbody) /\ jok o2 prot_in).

  Lemma ph2_ok tr1 o1 d1 tr2 o2 d2 :
    R tr1 (target o1 kbody) -> jok o1 (jor (jumps_stmt s0) (jumps_block body)) ->
    (o1 = ONormal -> falls_stmt s0 && falls_block body = true) ->
    try_ph2 (exec_block n) hs orelse (tr1, o1, d1) = (tr2, o2, d2) -> o2 <> OFuel ->
    guard_blocks hs = true -> guard_block orelse = true ->
    post2 tr2 o2.
  Proof.
    unfold try_ph2. intros R1 J1 F1 H Ho Gh Go.
    destruct o1.
    - (* ONormal: else clause *)
      destruct (exec_block n orelse d1) as [[tre oe] de] eqn:Ee. injection H as <- <- <-.
      destruct (Hb _ _ _ _ _ Ee Ho Go korelse) as [GE [JE FE]].
      left. split; [|split].
      + eapply R_extend; [exact R1 | exact GE | exact Io | apply incl_refl].
      + apply jok_r, JE.
      + intros ->. rewrite (F1 eq_refl), (FE eq_refl). reflexivity.
    - injection H as <- <- <-. right; right. split; [discriminate|]. split; [exact R1 | apply jok_l, J1].
    - injection H as <- <- <-. right; right. split; [discriminate|]. split; [exact R1 | apply jok_l, J1].
    - injection H as <- <- <-. right; right. split; [discriminate|]. split; [exact R1 | apply jok_l, J1].
    - (* ORaised *)
      destruct (dhead d1) as [|c].
      + injection H as <- <- <-. right; right. split; [discriminate|]. split; [exact R1 | exact I].
      + destruct (nth_block hs c) as [hb|] eqn:En.
        * destruct (exec_block n hb (dtail d1)) as [[trh oh] dh] eqn:Eh. injection H as <- <- <-.
          pose proof (nth_block_guard _ _ _ En Gh) as Ghb.
          destruct (Hb _ _ _ _ _ Eh Ho Ghb khandler) as [GH [JH FH]].
          right; left. split; [|split].
          -- eapply R_extend; [exact R1 | exact GH | | ].
             ++ eapply incl_tran; [apply (nth_block_cfg _ _ _ khandler En) | apply Ih].
             ++ simpl. intros l Hl. apply in_or_app; left. apply in_or_app; left.
                apply (nth_block_entry _ _ _ fe En). exact Hl.
          -- eapply nth_block_jok; eauto.
          -- intros ->. eapply nth_block_falls; eauto.
        * injection H as <- <- <-. right; right. split; [discriminate|]. split; [exact R1 | exact I].
    - injection H as <- <- <-. right; right. split; [discriminate|]. split; [exact R1 | exact I].
    - injection H as <- <- <-. congruence.
  Qed.

  Let ST := STry s0 body hs orelse final.

  Lemma R_good tr o : R tr (target o k) -> good_stmt E ST k tr o.
  Proof. intros [r [Ht [C L]]]; exists r; auto. Qed.

  Lemma R_nil tr T : R tr T -> R tr [].
  Proof. apply R_sub; intros x []. Qed.

  Lemma jumps_ST : jumps_stmt ST = jor prot_in (jor (jumps_blocks hs) (jumps_block final)).
  Proof. reflexivity. Qed.

  Lemma falls_ST : falls_stmt ST = direct && falls_block final.
  Proof. reflexivity. Qed.

  Lemma post2_jok tr2 o2 : post2 tr2 o2 -> jok o2 (jumps_stmt ST).
  Proof.
    rewrite jumps_ST. intros [[_ [J _]] | [[_ [J _]] | [_ [_ J]]]].
    - apply jok_l, J.
    - apply jok_r, jok_l, J.
    - apply jok_l, J.
  Qed.

  Lemma post2_direct tr2 : post2 tr2 ONormal -> direct = true.
  Proof.
    unfold direct. intros [[_ [_ F]] | [[_ [_ F]] | [N _]]].
    - rewrite (F eq_refl); reflexivity.
    - rewrite (F eq_refl); apply orb_true_r.
    - congruence.
  Qed.

  (* ---- no finally clause ---- *)
  Lemma nofin_case tr2 o2 :
    is_nil final = true -> post2 tr2 o2 ->
    good_stmt E ST k tr2 o2 /\ jok o2 (jumps_stmt ST) /\ (o2 = ONormal -> falls_stmt ST = true).
  Proof.
    intros Nf P. pose proof (is_nil_true _ Nf) as Ef.
    assert (Hfe : fe = knext k) by (unfold fe; rewrite Ef; reflexivity).
    assert (Hjt : forall X, jt X = X) by (intros X; unfold jt, nofin; rewrite Nf; reflexivity).
    split; [|split].
    - apply R_good. destruct P as [[R2 _] | [[R2 _] | [N [R2 _]]]].
      + eapply R_sub; [|exact R2]. destruct o2; simpl; rewrite ?Hjt, ?Hfe; apply incl_refl.
      + eapply R_sub; [|exact R2]. destruct o2; simpl; rewrite ?Hjt, ?Hfe; apply incl_refl.
      + eapply R_sub; [|exact R2]. destruct o2; simpl; rewrite ?Hjt; try apply incl_refl; try congruence.
        apply incl_app; [apply incl_appl, incl_appr, incl_refl | apply incl_appr, incl_refl].
    - eapply post2_jok; eauto.
    - intros ->. rewrite falls_ST, (post2_direct _ P), Ef. reflexivity.
  Qed.

  (* ---- with a finally clause ---- *)
  Lemma fin_run tr2 o2 d2 tr o d' :
    is_nil final = false -> guard_block final = true ->
    post2 tr2 o2 -> (o2 = ONormal \/ o2 = OBrk \/ o2 = OCont \/ o2 = ORet) ->
    (let '(trf, of, df) := exec_block n final d2 in
       (tr2 ++ trf, match of with ONormal => o2 | _ => of end, df)) = (tr, o, d') ->
    o <> OFuel ->
    good_stmt E ST k tr o /\ jok o (jumps_stmt ST) /\ (o = ONormal -> falls_stmt ST = true).
  Proof.
    intros Nf Gf P Ho2 H Ho.
    assert (Hjt : forall X, jt X = fe) by (intros X; unfold jt, nofin; rewrite Nf; reflexivity).
    destruct (exec_block n final d2) as [[trf of] df] eqn:Ef. injection H as <- <- <-.
    assert (Nof : of <> OFuel) by (intros ->; congruence).
    destruct (Hb _ _ _ _ _ Ef Nof Gf kfinal) as [GF [JF FF]].
    (* the finally body is entered from the last node of phase 2 *)
    assert (Rfe : R tr2 fe).
    { destruct P as [[R2 _] | [[R2 [J2 _]] | [N [R2 _]]]].
      - eapply R_sub; [|exact R2]. destruct Ho2 as [-> | [-> | [-> | ->]]]; simpl; rewrite ?Hjt; apply incl_refl.
      - eapply R_sub; [|exact R2]. destruct Ho2 as [-> | [-> | [-> | ->]]]; simpl; rewrite ?Hjt; apply incl_refl.
      - eapply R_sub; [|exact R2]. destruct Ho2 as [-> | [-> | [-> | ->]]]; try congruence; simpl; rewrite Hjt; apply incl_refl. }
    assert (RF : R (tr2 ++ trf) (target of kfinal)).
    { eapply R_extend; [exact Rfe | exact GF | exact If |].
      unfold fe. rewrite (entry_block_nonnil final _ (knext k) Nf). apply incl_refl. }
    assert (D : of = ONormal \/ of <> ONormal) by (destruct of; auto; right; discriminate).
    destruct D as [-> | Nn].
    - (* the finally body completed: the pending completion o2 resumes *)
      split; [|split].
      + apply R_good. eapply R_sub; [|exact RF].
        change (target ONormal kfinal) with (sel direct (knext k) ++ sel (jb prot) (kbrk k)
               ++ sel (jc prot) (kcont k) ++ sel (jr prot || jx prot) (kret k)).
        destruct Ho2 as [-> | [-> | [-> | ->]]]; cbn [target].
        * rewrite (post2_direct _ P). cbn [sel]. apply incl_appl, incl_refl.
        * assert (J : jb prot = true).
          { unfold prot. destruct P as [[_ [J _]] | [[_ [J _]] | [_ [_ J]]]]; simpl in J |- *; rewrite J;
              rewrite ?orb_true_r; reflexivity. }
          rewrite J. cbn [sel]. apply incl_appr, incl_appl, incl_refl.
        * assert (J : jc prot = true).
          { unfold prot. destruct P as [[_ [J _]] | [[_ [J _]] | [_ [_ J]]]]; simpl in J |- *; rewrite J;
              rewrite ?orb_true_r; reflexivity. }
          rewrite J. cbn [sel]. apply incl_appr, incl_appr, incl_appl, incl_refl.
        * assert (J : jr prot = true).
          { unfold prot. destruct P as [[_ [J _]] | [[_ [J _]] | [_ [_ J]]]]; simpl in J |- *; rewrite J;
              rewrite ?orb_true_r; reflexivity. }
          rewrite J. cbn [sel orb]. apply incl_appr, incl_appr, incl_appr, incl_refl.
      + eapply post2_jok; eauto.
      + intros ->. rewrite falls_ST, (post2_direct _ P), (FF eq_refl). reflexivity.
    - (* a jump inside the finally body overrides *)
      assert (Eo : match of with ONormal => o2 | _ => of end = of) by (destruct of; congruence).
      rewrite Eo in *. split; [|split].
      + apply R_good. rewrite (target_knext of k kfinal Nn) by reflexivity. exact RF.
      + rewrite jumps_ST. apply jok_r, jok_r, JF.
      + intros ->; congruence.
  Qed.

  Lemma try_ok d tr o d' :
    exec_stmt (S n) ST d = (tr, o, d') -> o <> OFuel -> guard_stmt ST = true ->
    good_stmt E ST k tr o /\ jok o (jumps_stmt ST) /\ (o = ONormal -> falls_stmt ST = true).
  Proof.
    intros H Ho G.
    change (exec_stmt (S n) ST d) with
      (try_ph3 (exec_block n) final (try_ph2 (exec_block n) hs orelse
         (try_ph1 (exec_stmt n) (exec_block n) s0 body d))) in H.
    apply guard_try_inv in G. destruct G as [G0 [Gb [Gh [Go Gf]]]].
    destruct (try_ph1 (exec_stmt n) (exec_block n) s0 body d) as [[tr1 o1] d1] eqn:E1.
    destruct (try_ph2 (exec_block n) hs orelse (tr1, o1, d1)) as [[tr2 o2] d2] eqn:E2.
    assert (N2 : o2 <> OFuel).
    { intros ->. unfold try_ph3 in H. destruct (bool_cases (is_nil final)) as [Nf|Nf]; rewrite Nf in H; injection H as _ <- _; congruence. }
    assert (N1 : o1 <> OFuel).
    { intros ->. simpl in E2. injection E2 as _ <- _. congruence. }
    destruct (ph1_ok _ _ _ _ E1 N1 G0 Gb) as [R1 [J1 F1]].
    pose proof (ph2_ok _ _ _ _ _ _ R1 J1 F1 E2 N2 Gh Go) as P.
    unfold try_ph3 in H. destruct (bool_cases (is_nil final)) as [Nf|Nf]; rewrite Nf in H.
    - injection H as <- <- <-. apply nofin_case; assumption.
    - destruct o2.
      + eapply fin_run; eauto.
      + eapply fin_run; eauto.
      + eapply fin_run; eauto.
      + eapply fin_run; eauto 6.
      + injection H as <- <- <-. split; [|split; [exact I | discriminate]].
        apply R_good. simpl. destruct P as [[R2 _] | [[R2 _] | [_ [R2 _]]]]; eapply R_nil; eauto.
      + injection H as <- <- <-. split; [|split; [exact I | discriminate]].
        apply R_good. simpl. destruct P as [[R2 _] | [[R2 _] | [_ [R2 _]]]]; eapply R_nil; eauto.
      + congruence.
  Qed.
End Try.

Lemma stmt_step n : stmt_ok n -> block_ok n -> stmt_ok (S n).
Proof.
  intros Hs Hb s d tr o d' H Ho G k.
  destruct s as [l|t b1 b2|t body orelse|l|l|l|l|s0 body hs orelse final|i items body];
    try (eapply stmt_step_nontry; eauto; intros; discriminate).
  eapply try_ok; eauto.
Qed.

Lemma all_ok n : stmt_ok n /\ block_ok n.
Proof.
  induction n as [|n [IHs IHb]]; [apply base_ok|].
  split; [apply stmt_step | apply block_step]; assumption.
Qed.

(* a function body contains no break / continue outside a loop (Python's syntax guarantees it) *)
Definition top_ok (f : fn) : bool :=
  negb (jb (jumps_block (f_body f))) && negb (jc (jumps_block (f_body f))).

Theorem exec_fn_is_path n f d tr o d' :
  exec_fn n f d = (tr, o, d') -> o <> OFuel -> top_ok f = true -> guard_block (f_body f) = true ->
  exists r, tr = f_args f :: r /\ chain (cfg_fn f) (f_args f) r /\
    match o with
    | ONormal | ORet | ORaised => In (lastd (f_args f) r, EXIT) (cfg_fn f)
    | OEscaped => True
    | _ => False
    end.
Proof.
  unfold exec_fn. intros H Ho T G.
  destruct (exec_block n (f_body f) d) as [[trb ob] db] eqn:Eb. injection H as <- <- <-.
  destruct (all_ok n) as [_ Hb].
  destruct (Hb _ _ _ _ _ Eb Ho G ktop) as [GB [JB _]].
  apply (good_block_mono _ (cfg_fn f)) in GB; [|unfold cfg_fn; apply incl_appr, incl_refl].
  destruct (good_block_chain _ _ _ _ _ (f_args f) GB) as [C L].
  { unfold cfg_fn. eapply leaves_mono; [apply incl_appl, incl_refl | apply leaves_from]. }
  exists trb. split; [reflexivity|]. split; [exact C|].
  unfold top_ok in T. apply andb_true_iff in T. destruct T as [T1 T2]. apply negb_true_iff in T1, T2.
  destruct ob; simpl in JB; try congruence; try exact I; apply L; simpl; left; reflexivity.
Qed.

(* the former guard of the handler-jump finding is now true of every program *)
Scheme sk_stmt_ind := Induction for stmt Sort Prop
  with sk_block_ind := Induction for block Sort Prop
  with sk_blocks_ind := Induction for blocks Sort Prop.
Combined Scheme sk_mutind from sk_stmt_ind, sk_block_ind, sk_blocks_ind.

Lemma guard_true :
  (forall s, guard_stmt s = true) /\ (forall b, guard_block b = true) /\ (forall h, guard_blocks h = true).
Proof.
  apply sk_mutind; intros; simpl; repeat match goal with H : _ = true |- _ => rewrite H end; reflexivity.
Qed.

Theorem exec_fn_is_path_unguarded n f d tr o d' :
  exec_fn n f d = (tr, o, d') -> o <> OFuel -> top_ok f = true ->
  exists r, tr = f_args f :: r /\ chain (cfg_fn f) (f_args f) r /\
    match o with
    | ONormal | ORet | ORaised => In (lastd (f_args f) r, EXIT) (cfg_fn f)
    | OEscaped => True
    | _ => False
    end.
Proof. intros H Ho T. eapply exec_fn_is_path; eauto. apply (proj1 (proj2 guard_true)). Qed.
