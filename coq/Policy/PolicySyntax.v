(* C13 -- syntax shared by the generated tables (coq/Generated/C13_gen.v, written on every
   run by tools/translate/c13_policy.py from malt/impl/api.py, malt/impl/conversion.py,
   malt/core/config.py, malt/core/config_lib.py) and the hand-written interpreter
   (Policy.v).  Definitions only. *)
From Coq Require Import List String Bool.
Import ListNotations.

(* ---- predicate atoms of the decision chains (one per condition spelled in the source) *)
Inductive atom : Set :=
  (* converted_call *)
  | AOptsNone | AScopeNone | AInCache | ACtxDisabled | AArtifact | APartial
  | ABuiltin | AIsEval | AIsSuper | AIsGlobals | AIsLocals | AKwTruthy | AKwNotNone
  | AUnsupported | AUserRequested | AAllowlisted | AInternalConvert
  | AIsMethod | AIsFunction | ASelfNotNone | ASelfTruthy | AHasClass | AClassHasCall
  | ATargetHasCode | ACodeHasFilename | AFilenameString
  | AConvRaises | AStrict
  (* _call_unconverted *)
  | AUpdateCacheFlag
  (* _fall_back_unconverted *)
  | AExcInaccessible | AExcUnsupportedLang | AInspectSupported
  (* partial branch *)
  | AStoredKwNotNone
  (* is_unsupported *)
  | AWraptFunction | AWraptBound | ALruCache | AConstructor | AOfStdModule | ATfPlugin
  (* is_allowlisted *)
  | AIsPartialObj | AModuleHasName | ARuleConvert | ARuleDoNotConvert
  | AHasCode | AIsGenerator | ACheckCallOverride | AIsClass | AHasCall | ACallTypeDiffers
  | ACallAllowlisted | AIsMethodObj | AOwnerNotNone | AOwnerIsTestCase | AOwnerAllowlisted
  | AIsNamedTuple | AAllowNtSubclass | ABaseIsNamedTuple
  (* py_builtins.overload_of *)
  | AInSupportedBuiltins      (* f is one of the objects listed in SUPPORTED_BUILTINS *)
  | ANameInOverloadMap.       (* getattr(f, '__name__') is a key of BUILTIN_FUNCTIONS_MAP *)
Scheme Equality for atom.

Inductive cond : Set :=
  | CTrue
  | CAtom (a : atom)
  | CNot (c : cond)
  | CAnd (c1 c2 : cond)
  | COr (c1 c2 : cond).

(* ---- actions of converted_call, as spelled in the source *)
Inductive callform : Set :=
  | StarArgs          (* g( *a )              *)
  | StarArgsKw.       (* g( *a, **kwargs )    *)

Inductive frame_builtin : Set := FEval | FSuper | FGlobals | FLocals.

Inductive action : Set :=
  | ARaiseValueError                  (* neither options nor caller_fn_scope *)
  | ACallUnconv (update_cache : bool) (* return _call_unconverted(f, args, kwargs, options[, False]) *)
  | ARecursePartial                   (* return converted_call(f.func, new_args, new_kwargs, ...) *)
  | AFrameBuiltin (w : frame_builtin) (* py_builtins.<w>_in_original_context *)
  | AOverload (form : callform)       (* py_builtins.overload_of(f)( ... ) *)
  | AFallback                         (* return _fall_back_unconverted(f, args, kwargs, options, e) *)
  | AReraise                          (* strict mode: raise *)
  | AConvertCall.                     (* end of the chain: convert target_entity, call the result *)

(* how the entity to convert and its positional arguments are derived from f *)
Inductive target_mode : Set :=
  | TSelf         (* target_entity = f ; effective_args = args, with (f.__self__,) prepended
                     under the generated condition self_prepend_gen *)
  | TClassCall.   (* target_entity = f.__class__.__call__ ; effective_args = (f,) + args *)

(* ---- functools.partial branch: where new_args / new_kwargs come from *)
Inductive argsrc : Set := SStored | SCall.          (* f.args / args ; f.keywords / kwargs *)
Inductive kwstep : Set :=
  | KCopy (s : argsrc) (guard : cond)      (* new_kwargs = <s>.copy()      if guard *)
  | KUpdate (s : argsrc) (guard : cond).   (* new_kwargs.update(<s>)       if guard *)
Record partial_spec : Set := mk_partial_spec {
  ps_args : list argsrc;        (* new_args = concatenation, in this order *)
  ps_kw : list kwstep;          (* applied in order to new_kwargs = {} *)
  ps_target_is_func : bool      (* recursion is on f.func *)
}.

(* ---- py_builtins.overload_of: what stands in for a native callable *)
Inductive overload_result : Set :=
  | OvMapped      (* BUILTIN_FUNCTIONS_MAP[f.__name__] *)
  | OvSelf.       (* f itself *)

(* ---- CONVERSION_RULES *)
Inductive rule_action : Set := RNone | RConvert | RDoNotConvert.
Scheme Equality for rule_action.
(* how Rule.matches compares: a list of alternatives *)
Inductive match_alt : Set :=
  | MStartsWithPrefixDot     (* module_name.startswith(prefix + '.') *)
  | MEqualsPrefix.           (* module_name == prefix *)
