(* C13 -- complete enumeration of the finite situation types, lifted to universal statements
   (forall-combinators; nothing is sampled). *)
From Coq Require Import List String Ascii Bool Arith Lia.
Import ListNotations.
Require Import MV.Policy.PolicySyntax MV.Policy.Policy.

(* ---------- finite quantification without building lists *)
Definition fa_bool (p : bool -> bool) : bool := p true && p false.
Lemma fa_bool_ok p : fa_bool p = true -> forall b, p b = true.
Proof. unfold fa_bool; intros H b; apply andb_prop in H; destruct H, b; assumption. Qed.

Definition fa_builtin (p : builtin_kind -> bool) : bool :=
  p NotBuiltin && p BEval && p BSuper && p BGlobals && p BLocals && p BOther.
Lemma fa_builtin_ok p : fa_builtin p = true -> forall b, p b = true.
Proof. unfold fa_builtin; intros H b; repeat (apply andb_prop in H; destruct H as [H ?]); destruct b; assumption. Qed.

Definition fa_kwargs (p : kwargs_kind -> bool) : bool := p KwNone && p KwEmpty && p KwNonEmpty.
Lemma fa_kwargs_ok p : fa_kwargs p = true -> forall b, p b = true.
Proof. unfold fa_kwargs; intros H b; repeat (apply andb_prop in H; destruct H as [H ?]); destruct b; assumption. Qed.

Definition fa_kind (p : callable_kind -> bool) : bool :=
  p KBoundMethod && p KBoundMethodFalsy && p KFunction && p KFunctionSelfAttr && p KCallableObj && p KCallableStatic && p KNoCall.
Lemma fa_kind_ok p : fa_kind p = true -> forall b, p b = true.
Proof. unfold fa_kind; intros H b; repeat (apply andb_prop in H; destruct H as [H ?]); destruct b; assumption. Qed.

Definition fa_code (p : code_kind -> bool) : bool := p NoCode && p CodeNoFilename && p CodeString && p CodeFile.
Lemma fa_code_ok p : fa_code p = true -> forall b, p b = true.
Proof. unfold fa_code; intros H b; repeat (apply andb_prop in H; destruct H as [H ?]); destruct b; assumption. Qed.

Definition fa_fault (p : fault_kind -> bool) : bool := p NoFault && p FInaccessible && p FUnsupportedLang && p FOther.
Lemma fa_fault_ok p : fa_fault p = true -> forall b, p b = true.
Proof. unfold fa_fault; intros H b; repeat (apply andb_prop in H; destruct H as [H ?]); destruct b; assumption. Qed.

Definition fa_situation (p : situation -> bool) : bool :=
  fa_bool (fun a1 => fa_bool (fun a2 => fa_bool (fun a3 => fa_bool (fun a4 => fa_bool (fun a5 =>
  fa_bool (fun a6 => fa_builtin (fun a7 => fa_kwargs (fun a8 => fa_bool (fun a9 => fa_bool (fun a10 =>
  fa_bool (fun a11 => fa_bool (fun a12 => fa_kind (fun a13 => fa_code (fun a14 => fa_fault (fun a15 =>
  fa_bool (fun a16 => fa_bool (fun a17 =>
    p (mk_situation a1 a2 a3 a4 a5 a6 a7 a8 a9 a10 a11 a12 a13 a14 a15 a16 a17)))))))))))))))))).

Lemma fa_situation_ok p : fa_situation p = true -> forall s, p s = true.
Proof.
  unfold fa_situation; intros H [a1 a2 a3 a4 a5 a6 a7 a8 a9 a10 a11 a12 a13 a14 a15 a16 a17].
  apply fa_bool_ok with (b := a1) in H; cbv beta in H.
  apply fa_bool_ok with (b := a2) in H; cbv beta in H.
  apply fa_bool_ok with (b := a3) in H; cbv beta in H.
  apply fa_bool_ok with (b := a4) in H; cbv beta in H.
  apply fa_bool_ok with (b := a5) in H; cbv beta in H.
  apply fa_bool_ok with (b := a6) in H; cbv beta in H.
  apply fa_builtin_ok with (b := a7) in H; cbv beta in H.
  apply fa_kwargs_ok with (b := a8) in H; cbv beta in H.
  apply fa_bool_ok with (b := a9) in H; cbv beta in H.
  apply fa_bool_ok with (b := a10) in H; cbv beta in H.
  apply fa_bool_ok with (b := a11) in H; cbv beta in H.
  apply fa_bool_ok with (b := a12) in H; cbv beta in H.
  apply fa_kind_ok with (b := a13) in H; cbv beta in H.
  apply fa_code_ok with (b := a14) in H; cbv beta in H.
  apply fa_fault_ok with (b := a15) in H; cbv beta in H.
  apply fa_bool_ok with (b := a16) in H; cbv beta in H.
  apply fa_bool_ok with (b := a17) in H; cbv beta in H.
  exact H.
Qed.

Definition fa_rule (p : rule_action -> bool) : bool := p RNone && p RConvert && p RDoNotConvert.
Lemma fa_rule_ok p : fa_rule p = true -> forall b, p b = true.
Proof. unfold fa_rule; intros H b; repeat (apply andb_prop in H; destruct H as [H ?]); destruct b; assumption. Qed.

