(* C13 -- checker evaluated inside Coq by the correspondence harness: the harness writes cases
   (inputs measured on the real implementation + what the implementation was observed to do),
   `failing` returns the numbers of the cases on which the model disagrees. *)
From Coq Require Import List String Ascii Bool Arith.
Import ListNotations.
Require Import MV.Policy.PolicySyntax MV.Policy.Policy MV.Policy.Spec MV.Generated.C13_gen.

(* what the instrumented converted_call was seen to do *)
Inductive observed : Set :=
  | ObsError                       (* ValueError, target not called *)
  | ObsReraise                     (* conversion error propagated, target not called *)
  | ObsUnwrap                      (* re-entered converted_call on f.func *)
  | ObsFrame (w : frame_builtin)
  | ObsInvoke (w : who) (p : posargs) (cache_update warned attempted : bool).

Definition who_beq (a b : who) : bool :=
  match a, b with
  | WTarget, WTarget | WOverload, WOverload => true
  | WConverted TSelf, WConverted TSelf | WConverted TClassCall, WConverted TClassCall => true
  | _, _ => false
  end.
Definition pos_beq (a b : posargs) : bool :=
  match a, b with PArgs, PArgs | PSelfArgs, PSelfArgs | PFArgs, PFArgs => true | _, _ => false end.
Definition frame_beq (a b : frame_builtin) : bool :=
  match a, b with FEval, FEval | FSuper, FSuper | FGlobals, FGlobals | FLocals, FLocals => true | _, _ => false end.

Definition run_gen := run chain_gen target_gen self_prepend_gen final_call_gen cu_cache_gen cu_call_gen fb_warn_gen fb_final_gen.

(* the call form (with / without ** ) is not observable from Python; the model's form must at least
   be executable and keep the keywords *)
Definition outcome_matches (s : situation) (m : outcome) (o : observed) : bool :=
  match m, o with
  | OError, ObsError => true
  | OReraise, ObsReraise => true
  | OUnwrap, ObsUnwrap => true
  | OFrame a, ObsFrame b => frame_beq a b
  | OInvoke inv cu w att, ObsInvoke w' p' cu' wn' att' =>
      who_beq (i_who inv) w' && pos_beq (i_pos inv) p' && Bool.eqb cu cu' && Bool.eqb w wn' && Bool.eqb att att'
      && form_ok (s_kwargs s) (i_form inv)
  | _, _ => false
  end.

Fixpoint depth (c : callable) : nat := match c with Base _ => 0 | Partial f _ _ => S (depth f) end.
Definition stops_at (l : list nat) (c : callable) : bool := existsb (Nat.eqb (depth c)) l.

Fixpoint vals_beq (a b : list val) : bool :=
  match a, b with
  | [], [] => true
  | x :: a', y :: b' => Nat.eqb x y && vals_beq a' b'
  | _, _ => false
  end.
Fixpoint kw_beq (a b : kwmap) : bool :=
  match a, b with
  | [], [] => true
  | (k, x) :: a', (k', y) :: b' => String.eqb k k' && Nat.eqb x y && kw_beq a' b'
  | _, _ => false
  end.
Definition okw_beq (a b : option kwmap) : bool :=
  match a, b with Some x, Some y => kw_beq x y | None, None => true | _, _ => false end.

Definition rule_action_eqb (a b : rule_action) : bool :=
  match a, b with RNone, RNone | RConvert, RConvert | RDoNotConvert, RDoNotConvert => true | _, _ => false end.

Inductive case : Set :=
  (* one call of converted_call: measured situation, observed behaviour *)
  | CPolicy (id : nat) (s : situation) (o : observed)
  (* a nest of partials called directly (CPython): base id, positional, keywords (in dict order) *)
  | CDirect (id : nat) (c : callable) (args : list val) (kw : kwmap) (base : nat) (eargs : list val) (ekw : kwmap)
  (* the same nest through converted_call; the partial objects at the listed depths stop the unwrapping
     (cache / artifact); observed: depth of the object finally called, its arguments *)
  | CUnwrap (id : nat) (c : callable) (args : list val) (okw : option kwmap) (stops : list nat)
            (edepth : nat) (eargs : list val) (ekw : option kwmap)
  (* rule scan for a module name *)
  | CRule (id : nat) (name : string) (e : rule_action)
  | COverload (id : nat) (o : ov_sit) (mapped : bool)
  | CUnsup (id : nat) (u : unsup_sit) (e : bool)
  | CAllow (id : nat) (w : allow_sit) (e : bool).

Definition case_id (c : case) : nat :=
  match c with
  | CPolicy id _ _ | CDirect id _ _ _ _ _ _ | CUnwrap id _ _ _ _ _ _ _ | CRule id _ _
  | CUnsup id _ _ | CAllow id _ _ | COverload id _ _ => id
  end.

Definition check_case (c : case) : bool :=
  match c with
  | CPolicy _ s o => outcome_matches s (run_gen s) o
  | CDirect _ c args kw base eargs ekw =>
      match direct_call c args kw with
      | (b, a, k) => Nat.eqb b base && vals_beq a eargs && kw_beq k ekw
      end
  | CUnwrap _ c args okw stops edepth eargs ekw =>
      match unwrap partial_gen (stops_at stops) c args okw with
      | (c', a, k) => Nat.eqb (depth c') edepth && vals_beq a eargs && okw_beq k ekw
      end
  | CRule _ name e => rule_action_eqb (rule_scan matches_gen rules_gen name) e
  | COverload _ o mapped =>
      match first_match (ov_atoms o) overload_gen with
      | Some OvMapped => mapped | Some OvSelf => negb mapped | None => false end
  | CUnsup _ u e =>
      match first_match (unsup_atoms u) unsupported_gen with Some b => Bool.eqb b e | None => false end
  | CAllow _ w e =>
      match first_match (allow_atoms w) allowlisted_gen with Some b => Bool.eqb b e | None => false end
  end.

Definition failing (l : list case) : list nat :=
  map case_id (filter (fun c => negb (check_case c)) l).
