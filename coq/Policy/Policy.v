(* C13 -- executable model of the call wrapper: interpreter of the decision tables generated
   from the source (MV.Generated.C13_gen).  Definitions only; lemmas are in PolicyProofs.v,
   the independent specification (documentation side, CPython's partial semantics) in Spec.v. *)
From Coq Require Import List String Ascii Bool Arith.
Import ListNotations.
Require Import MV.Policy.PolicySyntax.

(* ------------------------------------------------------------------ conditions *)
Definition valuation := atom -> bool.

Fixpoint ceval (v : valuation) (c : cond) : bool :=
  match c with
  | CTrue => true
  | CAtom a => v a
  | CNot c => negb (ceval v c)
  | CAnd a b => ceval v a && ceval v b
  | COr a b => ceval v a || ceval v b
  end.

Fixpoint first_match {A : Type} (v : valuation) (l : list (cond * A)) : option A :=
  match l with
  | [] => None
  | (c, a) :: r => if ceval v c then Some a else first_match v r
  end.

Definition override (v : valuation) (a : atom) (b : bool) : valuation :=
  fun x => if atom_beq x a then b else v x.

(* ------------------------------------------------------------------ situations
   A situation = everything converted_call looks at, for one (non-partial-unwrapped) call. *)
Inductive builtin_kind : Set := NotBuiltin | BEval | BSuper | BGlobals | BLocals | BOther.
Inductive kwargs_kind : Set := KwNone | KwEmpty | KwNonEmpty.
(* what f is, as far as the target_entity/effective_args block can tell *)
Inductive callable_kind : Set :=
  | KBoundMethod        (* inspect.ismethod(f): instance-bound or class-bound (classmethod), truthy receiver *)
  | KBoundMethodFalsy   (* the same, but bool(f.__self__) is False (empty container-like receiver, __bool__ ...) *)
  | KFunction           (* inspect.isfunction(f), no __self__ attribute (def, lambda, staticmethod, unbound) *)
  | KFunctionSelfAttr   (* a plain function object that carries a user-set attribute __self__ *)
  | KCallableObj        (* instance whose type defines __call__ as an ordinary function *)
  | KCallableStatic     (* instance whose type defines __call__ as a staticmethod *)
  | KNoCall.            (* type(f) has no __call__ *)
Inductive code_kind : Set := NoCode | CodeNoFilename | CodeString | CodeFile.
Inductive fault_kind : Set := NoFault | FInaccessible | FUnsupportedLang | FOther.

Record situation : Set := mk_situation {
  s_opts_none : bool;        (* options argument is None *)
  s_scope_none : bool;       (* caller_fn_scope argument is None *)
  s_in_cache : bool;
  s_ctx_disabled : bool;
  s_artifact : bool;
  s_partial : bool;
  s_builtin : builtin_kind;
  s_kwargs : kwargs_kind;
  s_unsupported : bool;
  s_user_requested : bool;
  s_allowlisted : bool;
  s_internal : bool;         (* options.internal_convert_user_code (= recursive mode for callees) *)
  s_kind : callable_kind;
  s_code : code_kind;        (* of target_entity *)
  s_fault : fault_kind;      (* what the conversion pipeline raises, if anything *)
  s_strict : bool;
  s_inspect_supported : bool
}.

Definition is_builtin (b : builtin_kind) : bool := match b with NotBuiltin => false | _ => true end.

(* exception seen by _fall_back_unconverted: the NotImplementedError of the target block is "other" *)
Definition exc_kind (s : situation) : fault_kind :=
  match s_kind s with KNoCall => FOther | _ => s_fault s end.

Definition atoms_of (s : situation) : valuation := fun a =>
  match a with
  | AOptsNone => s_opts_none s
  | AScopeNone => s_scope_none s
  | AInCache => s_in_cache s
  | ACtxDisabled => s_ctx_disabled s
  | AArtifact => s_artifact s
  | APartial => s_partial s
  | ABuiltin => is_builtin (s_builtin s)
  | AIsEval => match s_builtin s with BEval => true | _ => false end
  | AIsSuper => match s_builtin s with BSuper => true | _ => false end
  | AIsGlobals => match s_builtin s with BGlobals => true | _ => false end
  | AIsLocals => match s_builtin s with BLocals => true | _ => false end
  | AKwTruthy => match s_kwargs s with KwNonEmpty => true | _ => false end
  | AKwNotNone => match s_kwargs s with KwNone => false | _ => true end
  | AUnsupported => s_unsupported s
  | AUserRequested => s_user_requested s
  | AAllowlisted => s_allowlisted s
  | AInternalConvert => s_internal s
  | AIsMethod => match s_kind s with KBoundMethod | KBoundMethodFalsy => true | _ => false end
  | AIsFunction => match s_kind s with KFunction | KFunctionSelfAttr => true | _ => false end
  | ASelfNotNone => match s_kind s with KBoundMethod | KBoundMethodFalsy | KFunctionSelfAttr => true | _ => false end
  | ASelfTruthy => match s_kind s with KBoundMethod | KFunctionSelfAttr => true | _ => false end
  | AHasClass => true
  | AClassHasCall => match s_kind s with KNoCall => false | _ => true end
  | ATargetHasCode => match s_code s with NoCode => false | _ => true end
  | ACodeHasFilename => match s_code s with CodeString | CodeFile => true | _ => false end
  | AFilenameString => match s_code s with CodeString => true | _ => false end
  | AConvRaises => match s_fault s with NoFault => false | _ => true end
  | AStrict => s_strict s
  | AExcInaccessible => match exc_kind s with FInaccessible => true | _ => false end
  | AExcUnsupportedLang => match exc_kind s with FUnsupportedLang => true | _ => false end
  | AInspectSupported => s_inspect_supported s
  | _ => false
  end.

(* ------------------------------------------------------------------ outcomes *)
Inductive who : Set :=
  | WTarget                        (* f itself, as given *)
  | WOverload                      (* py_builtins.overload_of(f) *)
  | WConverted (m : target_mode).  (* the converted form of target_entity *)
Inductive posargs : Set :=
  | PArgs          (* args *)
  | PSelfArgs      (* (f.__self__,) + args *)
  | PFArgs.        (* (f,) + args *)
Record invocation : Set := mk_inv { i_who : who; i_pos : posargs; i_form : callform }.

Inductive outcome : Set :=
  | OStuck                         (* tables incomplete -- excluded by the theorems *)
  | OError                         (* ValueError: neither options nor caller scope *)
  | OReraise                       (* strict mode: the conversion error propagates *)
  | OUnwrap                        (* functools.partial: redo everything on f.func with merged arguments *)
  | OFrame (w : frame_builtin)     (* eval/super/globals/locals evaluated in the caller's frame *)
  | OInvoke (inv : invocation) (cache_update : bool) (warned : bool) (attempted : bool).
       (* the one call that is made; is (f, options) recorded in the allowlist cache;
          was a warning printed; was a conversion attempted *)

Section Interp.
  Variable chain : list (cond * action).
  Variable target : list (cond * target_mode).
  Variable self_prepend : cond.
  Variable final_call : list (cond * callform).
  Variable cu_cache : cond.
  Variable cu_call : list (cond * callform).
  Variable fb_warn : list (cond * bool).
  Variable fb_final : action.

  Definition decide (s : situation) : option action := first_match (atoms_of s) chain.

  Definition call_unconverted (s : situation) (flag warned attempted : bool) : outcome :=
    match first_match (atoms_of s) cu_call with
    | Some form => OInvoke (mk_inv WTarget PArgs form)
                     (ceval (override (atoms_of s) AUpdateCacheFlag flag) cu_cache) warned attempted
    | None => OStuck
    end.

  Definition run (s : situation) : outcome :=
    match decide s with
    | None => OStuck
    | Some ARaiseValueError => OError
    | Some (ACallUnconv b) => call_unconverted s b false false
    | Some ARecursePartial => OUnwrap
    | Some (AFrameBuiltin w) => OFrame w
    | Some (AOverload form) => OInvoke (mk_inv WOverload PArgs form) false false false
    | Some AReraise => OReraise
    | Some AFallback =>
        match first_match (atoms_of s) fb_warn, fb_final with
        | Some w, ACallUnconv b => call_unconverted s b w true
        | _, _ => OStuck
        end
    | Some AConvertCall =>
        match first_match (atoms_of s) target, first_match (atoms_of s) final_call with
        | Some TSelf, Some form =>
            OInvoke (mk_inv (WConverted TSelf)
                            (if ceval (atoms_of s) self_prepend then PSelfArgs else PArgs) form)
                    false false true
        | Some TClassCall, Some form =>
            OInvoke (mk_inv (WConverted TClassCall) PFArgs form) false false true
        | _, _ => OStuck
        end
    end.
End Interp.

(* ------------------------------------------------------------------ functools.partial *)
Definition val := nat.
Definition kwmap := list (string * val).    (* a dict: insertion-ordered, keys unique *)

Fixpoint kw_get (k : string) (m : kwmap) : option val :=
  match m with
  | [] => None
  | (k', x) :: r => if String.eqb k k' then Some x else kw_get k r
  end.

(* d[k] = x : replaces in place, else appends *)
Fixpoint kw_set (k : string) (x : val) (m : kwmap) : kwmap :=
  match m with
  | [] => [(k, x)]
  | (k', y) :: r => if String.eqb k k' then (k', x) :: r else (k', y) :: kw_set k x r
  end.

(* d.update(u) *)
Fixpoint kw_update (m u : kwmap) : kwmap :=
  match u with
  | [] => m
  | (k, x) :: r => kw_update (kw_set k x m) r
  end.

Definition kw_default (o : option kwmap) : kwmap := match o with Some m => m | None => [] end.

Inductive callable : Set :=
  | Base (id : nat)                                                  (* anything that is not a partial *)
  | Partial (func : callable) (args : list val) (kws : option kwmap). (* .func .args .keywords *)

Definition pick {A : Type} (s : argsrc) (stored call : A) : A :=
  match s with SStored => stored | SCall => call end.

Definition partial_valuation (stored call : option kwmap) : valuation := fun a =>
  match a with
  | AStoredKwNotNone => match stored with Some _ => true | None => false end
  | AKwNotNone => match call with Some _ => true | None => false end
  | _ => false
  end.

Definition new_args (ps : partial_spec) (stored call : list val) : list val :=
  List.concat (map (fun s => pick s stored call) (ps_args ps)).

Definition kw_step (v : valuation) (stored call : kwmap) (acc : kwmap) (st : kwstep) : kwmap :=
  match st with
  | KCopy s g => if ceval v g then pick s stored call else acc
  | KUpdate s g => if ceval v g then kw_update acc (pick s stored call) else acc
  end.

Definition new_kwargs (ps : partial_spec) (stored call : option kwmap) : kwmap :=
  fold_left (kw_step (partial_valuation stored call) (kw_default stored) (kw_default call)) (ps_kw ps) [].

(* the recursion of converted_call through a nest of partials; `stops c` = an earlier entry of
   the chain applies to the partial object c itself (cache / disabled context / artifact), so it is
   called as it is *)
Fixpoint unwrap (ps : partial_spec) (stops : callable -> bool) (c : callable)
                (args : list val) (okw : option kwmap) : callable * list val * option kwmap :=
  match c with
  | Base _ => (c, args, okw)
  | Partial f a k =>
      if stops c then (c, args, okw)
      else unwrap ps stops f (new_args ps a args) (Some (new_kwargs ps k okw))
  end.

(* ------------------------------------------------------------------ CONVERSION_RULES *)
Fixpoint prefixb (p s : string) : bool :=
  match p, s with
  | EmptyString, _ => true
  | String a p', String b s' => Ascii.eqb a b && prefixb p' s'
  | String _ _, EmptyString => false
  end.

Definition alt_matches (prefix name : string) (a : match_alt) : bool :=
  match a with
  | MStartsWithPrefixDot => prefixb (String.append prefix (String "."%char EmptyString)) name
  | MEqualsPrefix => String.eqb name prefix
  end.

Definition rule_matches (alts : list match_alt) (prefix name : string) : bool :=
  existsb (alt_matches prefix name) alts.

(* the `for rule in CONVERSION_RULES` loop of is_allowlisted *)
Fixpoint rule_scan (alts : list match_alt) (rules : list (rule_action * string)) (name : string) : rule_action :=
  match rules with
  | [] => RNone
  | (a, p) :: r =>
      if rule_matches alts p name
      then match a with RNone => rule_scan alts r name | _ => a end
      else rule_scan alts r name
  end.

(* ------------------------------------------------------------------ is_unsupported / is_allowlisted:
   what the two predicates look at *)
Record unsup_sit : Set := mk_unsup {
  u_wrapt_fn : bool; u_wrapt_bound : bool; u_lru : bool; u_ctor : bool; u_stdmod : bool; u_plugin : bool }.
Definition unsup_atoms (u : unsup_sit) : valuation := fun a =>
  match a with
  | AWraptFunction => u_wrapt_fn u | AWraptBound => u_wrapt_bound u | ALruCache => u_lru u
  | AConstructor => u_ctor u | AOfStdModule => u_stdmod u | ATfPlugin => u_plugin u
  | _ => false
  end.
Record allow_sit : Set := mk_allow {
  w_module_named : bool;          (* the module of o was found and has a __name__ *)
  w_rule : rule_action;           (* result of the rule scan on that name *)
  w_has_code : bool; w_generator : bool;
  w_check_call_override : bool; w_is_class : bool; w_has_call : bool; w_call_type_differs : bool;
  w_call_allowlisted : bool;      (* is_allowlisted(o.__call__) *)
  w_is_method : bool; w_owner_found : bool; w_owner_testcase : bool;
  w_owner_allowlisted : bool;     (* is_allowlisted(defining class, False, True) *)
  w_namedtuple : bool; w_allow_nt_subclass : bool; w_base_namedtuple : bool }.
Definition allow_atoms (w : allow_sit) : valuation := fun a =>
  match a with
  | AModuleHasName => w_module_named w
  | ARuleConvert => match w_rule w with RConvert => true | _ => false end
  | ARuleDoNotConvert => match w_rule w with RDoNotConvert => true | _ => false end
  | AHasCode => w_has_code w | AIsGenerator => w_generator w
  | ACheckCallOverride => w_check_call_override w | AIsClass => w_is_class w | AHasCall => w_has_call w
  | ACallTypeDiffers => w_call_type_differs w | ACallAllowlisted => w_call_allowlisted w
  | AIsMethodObj => w_is_method w | AOwnerNotNone => w_owner_found w | AOwnerIsTestCase => w_owner_testcase w
  | AOwnerAllowlisted => w_owner_allowlisted w
  | AIsNamedTuple => w_namedtuple w | AAllowNtSubclass => w_allow_nt_subclass w | ABaseIsNamedTuple => w_base_namedtuple w
  | _ => false
  end.

(* ------------------------------------------------------------------ py_builtins.overload_of *)
Record ov_sit : Set := mk_ov { o_in_supported : bool; o_name_in_map : bool }.
Definition ov_atoms (o : ov_sit) : valuation := fun a =>
  match a with
  | AInSupportedBuiltins => o_in_supported o
  | ANameInOverloadMap => o_name_in_map o
  | _ => false
  end.
