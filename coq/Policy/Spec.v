(* C13 -- the specification side, written independently of the source:
   (1) the documented conversion policy (g3doc/reference/functions.md "Function conversion rules",
       error_handling.md "AutoGraph conversion exceptions", the property text of C13);
   (2) what "the same call" means (binding of positional/keyword arguments for each callable kind);
   (3) CPython's semantics of calling a functools.partial object;
   (4) what "module is covered by an allow-list rule" means.
   Definitions only. *)
From Coq Require Import List String Ascii Bool Arith.
Import ListNotations.
Require Import MV.Policy.PolicySyntax MV.Policy.Policy.

(* ---- (1) the documented decision ------------------------------------------------------- *)
Definition sourceless (c : code_kind) : bool :=
  match c with NoCode | CodeString => true | _ => false end.

Definition faulty (f : fault_kind) : bool := match f with NoFault => false | _ => true end.

Definition doc_action (s : situation) : action :=
  if s_opts_none s && s_scope_none s then ARaiseValueError
  else if s_in_cache s || s_ctx_disabled s then ACallUnconv false   (* run as it is, remember nothing *)
  else if s_artifact s then ACallUnconv true                        (* already converted / do_not_convert wrapper *)
  else if s_partial s then ARecursePartial
  else match s_builtin s with
  | BEval => AFrameBuiltin FEval
  | BSuper => AFrameBuiltin FSuper
  | BGlobals => AFrameBuiltin FGlobals
  | BLocals => AFrameBuiltin FLocals
  | BOther => AOverload (match s_kwargs s with KwNonEmpty => StarArgsKw | _ => StarArgs end)
  | NotBuiltin =>
      if s_unsupported s then ACallUnconv true                       (* constructors, lru_cache/wrapt wrappers, ... *)
      else if s_allowlisted s && negb (s_user_requested s) then ACallUnconv true  (* allow-listed module, generator, ... *)
      else if negb (s_internal s) then ACallUnconv true              (* non-recursive mode *)
      else match s_kind s with
      | KNoCall => if s_strict s then AReraise else AFallback
      | _ =>
          if sourceless (s_code s) then ACallUnconv true             (* native binding / exec-defined *)
          else if faulty (s_fault s) then (if s_strict s then AReraise else AFallback)
          else AConvertCall
      end
  end.

(* the reasons for which a target is never converted (property text) *)
Definition never_converted (s : situation) : bool :=
  s_in_cache s || s_ctx_disabled s || s_artifact s || is_builtin (s_builtin s) || s_unsupported s
  || (s_allowlisted s && negb (s_user_requested s)) || negb (s_internal s)
  || match s_kind s with KNoCall => false | _ => sourceless (s_code s) end.

Definition has_options (s : situation) : bool := negb (s_opts_none s && s_scope_none s).

(* ---- (2) "the same call" ---------------------------------------------------------------- *)
(* is the invocation `inv` equivalent to f( *args, **kwargs ) for a callable of the kind of s *)
Definition form_ok (k : kwargs_kind) (f : callform) : bool :=
  match f, k with
  | StarArgsKw, KwNone => false      (* g( **None ) is a TypeError *)
  | StarArgsKw, _ => true
  | StarArgs, KwNonEmpty => false    (* keywords dropped *)
  | StarArgs, _ => true
  end.

Definition target_ok (k : callable_kind) (w : who) (p : posargs) : bool :=
  match w, p with
  | WTarget, PArgs => true
  | WOverload, PArgs => true                     (* overload_of(f) stands for f (C14) *)
  | WConverted TSelf, PSelfArgs => match k with KBoundMethod | KBoundMethodFalsy => true | _ => false end
        (* m( *a ) = m.__func__(m.__self__, *a ) *)
  | WConverted TSelf, PArgs => match k with KFunction | KFunctionSelfAttr => true | _ => false end
  | WConverted TClassCall, PFArgs => match k with KCallableObj => true | _ => false end
        (* o( *a ) = type(o).__call__(o, *a ) when __call__ is an ordinary function *)
  | WConverted TClassCall, PArgs => match k with KCallableStatic => true | _ => false end
  | _, _ => false
  end.

Definition same_call (s : situation) (inv : invocation) : bool :=
  form_ok (s_kwargs s) (i_form inv) && target_ok (s_kind s) (i_who inv) (i_pos inv).

(* callable kinds on which the implementation is known to bind wrongly (known findings) *)
Definition binding_guard (s : situation) : bool :=
  match s_kind s with KFunctionSelfAttr | KCallableStatic => false | _ => true end.

(* ---- (3) CPython: partial(func, *a, **k)( *args, **kw ) = func( *a, *args, **{**k, **kw} ) ---- *)
Fixpoint direct_call (c : callable) (args : list val) (kw : kwmap) : nat * list val * kwmap :=
  match c with
  | Base id => (id, args, kw)
  | Partial f a k => direct_call f (a ++ args) (kw_update (kw_default k) kw)
  end.

(* closed form: the positional arguments stored along the chain, innermost first *)
Fixpoint stored_args (c : callable) : list val :=
  match c with Base _ => [] | Partial f a _ => stored_args f ++ a end.
Fixpoint base_id (c : callable) : nat :=
  match c with Base id => id | Partial f _ _ => base_id f end.
(* keyword lookup along the chain: the outermost partial that stores k wins *)
Fixpoint stored_kw (k : string) (c : callable) : option val :=
  match c with
  | Base _ => None
  | Partial f _ kws => match kw_get k (kw_default kws) with Some x => Some x | None => stored_kw k f end
  end.

(* ---- (4) module name covered by a rule prefix: exact or dotted ---------------------------- *)
Definition dotted_prefix (p name : string) : Prop :=
  name = p \/ exists rest, name = String.append p (String "."%char rest).

(* ---- (5) is_unsupported / is_allowlisted ------------------------------------------------ *)
(* documented: constructors, lru_cache / wrapt wrappers, members of some stdlib modules, TF plugins *)
Definition doc_unsupported (u : unsup_sit) : bool :=
  u_ctor u || u_lru u || u_wrapt_fn u || u_wrapt_bound u || u_stdmod u || u_plugin u.
(* documented: the first matching module rule decides; otherwise allowed are generator functions,
   callable objects whose __call__ is allowed, methods of TestCase subclasses or of allowed classes,
   namedtuple types (as owner: only direct namedtuples) *)
Definition doc_allowlisted (w : allow_sit) : bool :=
  match (if w_module_named w then w_rule w else RNone) with
  | RConvert => false
  | RDoNotConvert => true
  | RNone =>
      (w_has_code w && w_generator w)
      || (w_check_call_override w && negb (w_is_class w) && w_has_call w && w_call_type_differs w && w_call_allowlisted w)
      || (w_is_method w && w_owner_found w && (w_owner_testcase w || w_owner_allowlisted w))
      || (w_namedtuple w && (negb (w_allow_nt_subclass w) || negb (w_base_namedtuple w)))
  end.

(* ---- (6) builtin overloads: a native callable is replaced by an overload only when it IS one of the
        listed builtins -- never because of its name (bound C methods called abs / any / all ... keep
        their receiver) *)
Definition doc_overload (o : ov_sit) : overload_result :=
  if o_in_supported o then OvMapped else OvSelf.
