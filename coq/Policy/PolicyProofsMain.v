(* C13 -- converted_call: the generated decision chain against the documented policy, exhaustively
   over all situations (8 257 536 of them, one vm_compute), and the Prop-level corollaries. *)
From Coq Require Import List String Ascii Bool Arith Lia.
Import ListNotations.
Require Import MV.Policy.PolicySyntax MV.Policy.Policy MV.Policy.Spec MV.Generated.C13_gen.
Require Import MV.Policy.PolicyFinite.
Definition run_gen := run chain_gen target_gen self_prepend_gen final_call_gen cu_cache_gen cu_call_gen fb_warn_gen fb_final_gen.
Definition decide_gen := decide chain_gen.

Definition action_beq (a b : action) : bool :=
  match a, b with
  | ARaiseValueError, ARaiseValueError => true
  | ACallUnconv x, ACallUnconv y => Bool.eqb x y
  | ARecursePartial, ARecursePartial => true
  | AFrameBuiltin FEval, AFrameBuiltin FEval => true
  | AFrameBuiltin FSuper, AFrameBuiltin FSuper => true
  | AFrameBuiltin FGlobals, AFrameBuiltin FGlobals => true
  | AFrameBuiltin FLocals, AFrameBuiltin FLocals => true
  | AOverload StarArgs, AOverload StarArgs => true
  | AOverload StarArgsKw, AOverload StarArgsKw => true
  | AFallback, AFallback => true
  | AReraise, AReraise => true
  | AConvertCall, AConvertCall => true
  | _, _ => false
  end.
Lemma action_beq_eq a b : action_beq a b = true -> a = b.
Proof.
  destruct a, b; simpl; intros H; try discriminate; try reflexivity;
  repeat match goal with x : frame_builtin |- _ => destruct x | x : callform |- _ => destruct x end;
  try discriminate; try reflexivity.
  apply Bool.eqb_prop in H; subst; reflexivity.
Qed.


(* ================================================================ converted_call: pointwise checks *)
Definition policy_check (s : situation) : bool :=
  match decide_gen s with Some a => action_beq a (doc_action s) | None => false end.

Definition is_wconverted (w : who) : bool := match w with WConverted _ => true | _ => false end.

(* one invocation, bound like the direct call *)
Definition once_check_r (s : situation) (r : outcome) : bool :=
  implb (binding_guard s && has_options s)
    match r with
    | OInvoke inv _ _ _ => same_call s inv
    | OUnwrap => s_partial s
    | OFrame _ => is_builtin (s_builtin s)
    | OReraise => s_strict s
    | OError | OStuck => false
    end.

Definition reaches_conversion (s : situation) : bool :=
  has_options s && negb (s_partial s) && negb (never_converted s).

Definition doc_warns (s : situation) : bool :=
  match exc_kind s with FInaccessible => s_inspect_supported s | _ => true end.

Definition fallback_check_r (s : situation) (r : outcome) : bool :=
  implb (reaches_conversion s && (faulty (s_fault s) || match s_kind s with KNoCall => true | _ => false end))
    (if s_strict s then match r with OReraise => true | _ => false end
     else match r with
          | OInvoke (mk_inv WTarget PArgs form) true w true => form_ok (s_kwargs s) form && Bool.eqb w (doc_warns s)
          | _ => false
          end).

Definition not_converted_check_r (s : situation) (r : outcome) : bool :=
  implb (has_options s && negb (s_partial s) && never_converted s)
    match r with
    | OInvoke inv cu w att =>
        negb att && negb w && negb (is_wconverted (i_who inv)) && same_call s inv
        && Bool.eqb cu (negb (s_in_cache s || s_ctx_disabled s) && (s_artifact s || negb (is_builtin (s_builtin s))))
    | OFrame _ => is_builtin (s_builtin s) && negb (s_in_cache s || s_ctx_disabled s || s_artifact s)
    | _ => false
    end.

Definition converted_check_r (s : situation) (r : outcome) : bool :=
  implb (reaches_conversion s && negb (faulty (s_fault s)) && match s_kind s with KNoCall => false | _ => true end)
    match r with
    | OInvoke inv false false true => is_wconverted (i_who inv)
    | _ => false
    end.

Definition once_check s := once_check_r s (run_gen s).
Definition fallback_check s := fallback_check_r s (run_gen s).
Definition not_converted_check s := not_converted_check_r s (run_gen s).
Definition converted_check s := converted_check_r s (run_gen s).
Definition all_checks (s : situation) : bool :=
  let r := run_gen s in
  policy_check s && once_check_r s r && fallback_check_r s r && not_converted_check_r s r && converted_check_r s r.

Lemma all_checks_all : fa_situation all_checks = true.
Proof. vm_cast_no_check (eq_refl true). Qed.

Lemma all_checks_at s : all_checks s = true.
Proof. apply fa_situation_ok, all_checks_all. Qed.

Lemma policy_matches_doc s : decide_gen s = Some (doc_action s).
Proof.
  pose proof (all_checks_at s) as H; unfold all_checks in H; cbv zeta in H.
  repeat (apply andb_prop in H; destruct H as [H ?]).
  unfold policy_check in H. destruct (decide_gen s); [|discriminate].
  f_equal; apply action_beq_eq; exact H.
Qed.

Lemma once_at s : once_check s = true.
Proof. unfold once_check; pose proof (all_checks_at s) as H; unfold all_checks in H; cbv zeta in H.
  repeat (apply andb_prop in H; destruct H as [H ?]); assumption. Qed.
Lemma fallback_at s : fallback_check s = true.
Proof. unfold fallback_check; pose proof (all_checks_at s) as H; unfold all_checks in H; cbv zeta in H.
  repeat (apply andb_prop in H; destruct H as [H ?]); assumption. Qed.
Lemma not_converted_at s : not_converted_check s = true.
Proof. unfold not_converted_check; pose proof (all_checks_at s) as H; unfold all_checks in H; cbv zeta in H.
  repeat (apply andb_prop in H; destruct H as [H ?]); assumption. Qed.
Lemma converted_at s : converted_check s = true.
Proof. unfold converted_check; pose proof (all_checks_at s) as H; unfold all_checks in H; cbv zeta in H.
  repeat (apply andb_prop in H; destruct H as [H ?]); assumption. Qed.

Lemma implb_elim a b : implb a b = true -> a = true -> b = true.
Proof. destruct a, b; simpl; congruence. Qed.

(* ---- Prop-level forms *)
Lemma invoked_exactly_once s :
  binding_guard s = true -> has_options s = true ->
  match run_gen s with
  | OInvoke inv _ _ _ => same_call s inv = true
  | OUnwrap => s_partial s = true
  | OFrame _ => is_builtin (s_builtin s) = true
  | OReraise => s_strict s = true
  | OError | OStuck => False
  end.
Proof.
  intros G O. pose proof (implb_elim _ _ (once_at s)) as H; fold run_gen in H.
  rewrite G, O in H. specialize (H eq_refl).
  destruct (run_gen s); try exact H; discriminate.
Qed.

Lemma fallback_any_stage s :
  reaches_conversion s = true ->
  (faulty (s_fault s) = true \/ s_kind s = KNoCall) ->
  if s_strict s then run_gen s = OReraise
  else exists form, run_gen s = OInvoke (mk_inv WTarget PArgs form) true (doc_warns s) true
                    /\ form_ok (s_kwargs s) form = true.
Proof.
  intros R F. pose proof (implb_elim _ _ (fallback_at s)) as H; fold run_gen in H.
  assert (E : reaches_conversion s && (faulty (s_fault s) || match s_kind s with KNoCall => true | _ => false end) = true).
  { rewrite R; simpl. destruct F as [F|F]; rewrite F; [reflexivity | apply orb_true_r]. }
  specialize (H E). destruct (s_strict s).
  - destruct (run_gen s); try discriminate; reflexivity.
  - destruct (run_gen s) as [| | | | |[w p form] cu wn att]; try discriminate.
    destruct w; try discriminate. destruct p; try discriminate.
    destruct cu; try discriminate. destruct att; try discriminate.
    apply andb_prop in H; destruct H as [H1 H2]. apply Bool.eqb_prop in H2; subst.
    exists form; split; [reflexivity | exact H1].
Qed.

Lemma not_converted_policy s :
  has_options s = true -> s_partial s = false -> never_converted s = true ->
  match run_gen s with
  | OInvoke inv cu warned attempted =>
      attempted = false /\ warned = false /\ is_wconverted (i_who inv) = false /\ same_call s inv = true
      /\ cu = negb (s_in_cache s || s_ctx_disabled s) && (s_artifact s || negb (is_builtin (s_builtin s)))
  | OFrame _ => is_builtin (s_builtin s) = true /\ s_in_cache s || s_ctx_disabled s || s_artifact s = false
  | _ => False
  end.
Proof.
  intros O P N. pose proof (implb_elim _ _ (not_converted_at s)) as H; fold run_gen in H.
  rewrite O, P, N in H. specialize (H eq_refl).
  destruct (run_gen s); try discriminate.
  - apply andb_prop in H; destruct H as [H1 H2]. split; [exact H1|].
    destruct (s_in_cache s || s_ctx_disabled s || s_artifact s); [discriminate | reflexivity].
  - repeat (apply andb_prop in H; destruct H as [H ?]).
    repeat match goal with H : negb _ = true |- _ => apply negb_true_iff in H end.
    match goal with H : Bool.eqb _ _ = true |- _ => apply Bool.eqb_prop in H end.
    repeat split; assumption.
Qed.

Lemma converted_otherwise s :
  reaches_conversion s = true -> s_fault s = NoFault -> s_kind s <> KNoCall ->
  exists inv, run_gen s = OInvoke inv false false true /\ is_wconverted (i_who inv) = true.
Proof.
  intros R F K. pose proof (implb_elim _ _ (converted_at s)) as H; fold run_gen in H.
  rewrite R, F in H. simpl in H.
  assert (E : match s_kind s with KNoCall => false | _ => true end = true) by (destruct (s_kind s); congruence).
  rewrite E in H. specialize (H eq_refl).
  destruct (run_gen s) as [| | | | |inv cu wn att]; try discriminate.
  destruct cu; try discriminate. destruct wn; try discriminate. destruct att; try discriminate.
  exists inv; split; [reflexivity | exact H].
Qed.

(* known findings, on the faithful model *)
Lemma binding_refuted :
  (exists s inv cu w a, has_options s = true /\ s_kind s = KFunctionSelfAttr
       /\ run_gen s = OInvoke inv cu w a /\ same_call s inv = false)
  /\ (exists s inv cu w a, has_options s = true /\ s_kind s = KCallableStatic
       /\ run_gen s = OInvoke inv cu w a /\ same_call s inv = false).
Proof.
  split.
  - exists (mk_situation false true false false false false NotBuiltin KwNone false false false true
                         KFunctionSelfAttr CodeFile NoFault false true).
    eexists; eexists; eexists; eexists. vm_compute. repeat split.
  - exists (mk_situation false true false false false false NotBuiltin KwNone false false false true
                         KCallableStatic CodeFile NoFault false true).
    eexists; eexists; eexists; eexists. vm_compute. repeat split.
Qed.
