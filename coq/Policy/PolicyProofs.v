(* C13 -- generic lemmas (independent of the generated tables; the per-run side conditions are
   discharged in the obligation files): functools.partial unwrapping (induction on the nesting), CONVERSION_RULES prefix matching
   (induction on rules and strings), is_unsupported / is_allowlisted against their documentation. *)
From Coq Require Import List String Ascii Bool Arith Lia.
Import ListNotations.
Require Import MV.Policy.PolicySyntax MV.Policy.Policy MV.Policy.Spec.
Require Import MV.Policy.PolicyFinite.

(* ================================================================ functools.partial *)
Definition merge_correct (ps : partial_spec) : Prop :=
  (forall stored call, new_args ps stored call = stored ++ call) /\
  (forall stored call, new_kwargs ps stored call = kw_update (kw_default stored) (kw_default call)).

Lemma partial_unwrap_gen ps : merge_correct ps ->
  forall stops c args okw,
    let '(c', a', k') := unwrap ps stops c args okw in
    direct_call c' a' (kw_default k') = direct_call c args (kw_default okw).
Proof.
  intros [HA HK] stops c. induction c as [id | f IH a k]; intros args okw; simpl.
  - reflexivity.
  - destruct (stops (Partial f a k)); [reflexivity|].
    specialize (IH (new_args ps a args) (Some (new_kwargs ps k okw))).
    destruct (unwrap ps stops f (new_args ps a args) (Some (new_kwargs ps k okw))) as [[c' a'] k'].
    rewrite IH. simpl. rewrite HA, HK. reflexivity.
Qed.

(* the unwrapping always ends on a non-partial or on a partial at which an earlier rule applies *)
Lemma unwrap_stops ps stops c args okw :
  let '(c', _, _) := unwrap ps stops c args okw in
  match c' with Base _ => True | Partial _ _ _ => stops c' = true end.
Proof.
  revert args okw; induction c as [id | f IH a k]; intros; simpl; [exact I|].
  destruct (stops (Partial f a k)) eqn:E; [exact E | apply IH].
Qed.

(* ---- closed form of CPython's semantics (validates the S side: outermost stored keyword wins,
        call-site keyword wins over all, positional arguments innermost first) *)
Definition keys (m : kwmap) : list string := map fst m.

Lemma kw_get_set k k' x m :
  kw_get k (kw_set k' x m) = if String.eqb k k' then Some x else kw_get k m.
Proof.
  induction m as [|[k0 y] r IH]; simpl.
  - destruct (String.eqb k k'); reflexivity.
  - destruct (String.eqb k' k0) eqn:E; simpl.
    + apply String.eqb_eq in E; subst. destruct (String.eqb k k0); reflexivity.
    + rewrite IH. destruct (String.eqb k k0) eqn:E0; [|reflexivity].
      apply String.eqb_eq in E0; subst.
      destruct (String.eqb k0 k') eqn:E1; [|reflexivity].
      apply String.eqb_eq in E1; subst. rewrite String.eqb_refl in E; discriminate.
Qed.

Lemma kw_get_notin k m : ~ In k (keys m) -> kw_get k m = None.
Proof.
  induction m as [|[k0 y] r IH]; simpl; intros H; [reflexivity|].
  destruct (String.eqb k k0) eqn:E.
  - apply String.eqb_eq in E; subst; exfalso; apply H; left; reflexivity.
  - apply IH; intros Hin; apply H; right; exact Hin.
Qed.

Lemma kw_get_update k m u : NoDup (keys u) ->
  kw_get k (kw_update m u) = match kw_get k u with Some x => Some x | None => kw_get k m end.
Proof.
  revert m; induction u as [|[k0 y] r IH]; intros m ND; simpl; [reflexivity|].
  inversion ND as [|? ? Hn ND']; subst. rewrite IH by exact ND'.
  destruct (String.eqb k k0) eqn:E.
  - apply String.eqb_eq in E; subst. rewrite kw_get_notin by exact Hn.
    rewrite kw_get_set, String.eqb_refl; reflexivity.
  - destruct (kw_get k r); [reflexivity|]. rewrite kw_get_set, E; reflexivity.
Qed.

Lemma keys_set k x m :
  keys (kw_set k x m) = if existsb (String.eqb k) (keys m) then keys m else keys m ++ [k].
Proof.
  induction m as [|[k0 y] r IH]; simpl; [reflexivity|].
  destruct (String.eqb k k0) eqn:E; simpl; [reflexivity|].
  rewrite IH. destruct (existsb (String.eqb k) (keys r)); reflexivity.
Qed.

Lemma nodup_set k x m : NoDup (keys m) -> NoDup (keys (kw_set k x m)).
Proof.
  intros ND. rewrite keys_set. destruct (existsb (String.eqb k) (keys m)) eqn:E; [exact ND|].
  assert (~ In k (keys m)).
  { intros Hin. assert (existsb (String.eqb k) (keys m) = true); [|congruence].
    apply existsb_exists; exists k; split; [exact Hin | apply String.eqb_refl]. }
  clear E. induction (keys m) as [|a l IH]; simpl.
  - constructor; [intros []|constructor].
  - inversion ND; subst. constructor.
    + rewrite in_app_iff; intros [Hin|[Hin|[]]]; [contradiction|]. subst; apply H; left; reflexivity.
    + apply IH; [assumption|]. intros Hin; apply H; right; exact Hin.
Qed.

Lemma nodup_update m u : NoDup (keys m) -> NoDup (keys (kw_update m u)).
Proof.
  revert m; induction u as [|[k x] r IH]; intros m ND; simpl; [exact ND|].
  apply IH, nodup_set, ND.
Qed.

Fixpoint wf_callable (c : callable) : Prop :=
  match c with
  | Base _ => True
  | Partial f _ k => NoDup (keys (kw_default k)) /\ wf_callable f
  end.

Lemma partial_binding c : wf_callable c -> forall args kw, NoDup (keys kw) ->
  exists K, direct_call c args kw = (base_id c, stored_args c ++ args, K)
    /\ NoDup (keys K)
    /\ forall k, kw_get k K = match kw_get k kw with Some x => Some x | None => stored_kw k c end.
Proof.
  induction c as [id | f IH a k]; intros WF args kw ND; simpl.
  - exists kw; repeat split; [exact ND|]. intros k0; destruct (kw_get k0 kw); reflexivity.
  - destruct WF as [NDk WF].
    destruct (IH WF (a ++ args) (kw_update (kw_default k) kw) (nodup_update _ _ NDk)) as [K [E [NDK G]]].
    exists K. rewrite E, app_assoc. repeat split; [exact NDK|].
    intros k0. rewrite G, kw_get_update by exact ND.
    destruct (kw_get k0 kw); [reflexivity|]. reflexivity.
Qed.

(* ================================================================ CONVERSION_RULES *)
Lemma append_assoc (a b c : string) : String.append (String.append a b) c = String.append a (String.append b c).
Proof. induction a; simpl; [reflexivity | rewrite IHa; reflexivity]. Qed.

Lemma prefixb_spec p s : prefixb p s = true <-> exists r, s = String.append p r.
Proof.
  revert s; induction p as [|a p IH]; intros s; simpl.
  - split; [intros _; exists s; reflexivity | reflexivity].
  - destruct s as [|b s]; [split; [discriminate | intros [r H]; discriminate]|].
    split.
    + intros H; apply andb_prop in H; destruct H as [H1 H2].
      apply Ascii.eqb_eq in H1; subst. apply IH in H2; destruct H2 as [r ->]. exists r; reflexivity.
    + intros [r H]. injection H as -> ->. rewrite Ascii.eqb_refl; simpl. apply IH; exists r; reflexivity.
Qed.

Definition is_dot_alt (a : match_alt) := match a with MStartsWithPrefixDot => true | _ => false end.
Definition is_eq_alt (a : match_alt) := match a with MEqualsPrefix => true | _ => false end.
Definition matches_ok (alts : list match_alt) : bool := existsb is_dot_alt alts && existsb is_eq_alt alts.

Lemma alt_matches_sound p name a : alt_matches p name a = true -> dotted_prefix p name.
Proof.
  destruct a; simpl; intros H.
  - right. apply prefixb_spec in H; destruct H as [r ->]. exists r. rewrite append_assoc; reflexivity.
  - left. apply String.eqb_eq; exact H.
Qed.

Lemma rule_matches_spec alts p name : matches_ok alts = true ->
  (rule_matches alts p name = true <-> dotted_prefix p name).
Proof.
  intros OK; apply andb_prop in OK; destruct OK as [D E]. unfold rule_matches. split.
  - intros H; apply existsb_exists in H; destruct H as [a [_ H]]. eapply alt_matches_sound; exact H.
  - intros [H | [rest H]]; apply existsb_exists.
    + apply existsb_exists in E; destruct E as [a [Hin Ha]]. exists a; split; [exact Hin|].
      destruct a; [discriminate|]. simpl. subst; apply String.eqb_refl.
    + apply existsb_exists in D; destruct D as [a [Hin Ha]]. exists a; split; [exact Hin|].
      destruct a; [|discriminate]. simpl. apply prefixb_spec. exists rest. rewrite append_assoc; exact H.
Qed.

Definition rules_wf (rules : list (rule_action * string)) : bool :=
  forallb (fun r => match fst r with RNone => false | _ => true end) rules.

Lemma rule_first_match_gen alts : matches_ok alts = true ->
  forall rules name, rules_wf rules = true ->
  match rule_scan alts rules name with
  | RNone => forall a p, In (a, p) rules -> ~ dotted_prefix p name
  | act => exists l1 p l2, rules = l1 ++ (act, p) :: l2 /\ dotted_prefix p name
                           /\ forall a' p', In (a', p') l1 -> ~ dotted_prefix p' name
  end.
Proof.
  intros OK rules name. induction rules as [|[a p] r IH]; intros WF; simpl.
  - intros ? ? [].
  - simpl in WF; apply andb_prop in WF; destruct WF as [Wa WF]. specialize (IH WF).
    destruct (rule_matches alts p name) eqn:M.
    + apply (rule_matches_spec _ _ _ OK) in M.
      destruct a; [discriminate| |]; (exists [], p, r; repeat split; [exact M | intros ? ? []]).
    + assert (NM : ~ dotted_prefix p name).
      { intros H; apply (rule_matches_spec _ _ _ OK) in H; congruence. }
      destruct (rule_scan alts r name).
      * intros a' p' [H|H]; [injection H as <- <-; exact NM | eapply IH; exact H].
      * destruct IH as [l1 [p0 [l2 [E [D N]]]]]. exists ((a, p) :: l1), p0, l2.
        repeat split; [rewrite E; reflexivity | exact D |].
        intros a' p' [H|H]; [injection H as <- <-; exact NM | eapply N; exact H].
      * destruct IH as [l1 [p0 [l2 [E [D N]]]]]. exists ((a, p) :: l1), p0, l2.
        repeat split; [rewrite E; reflexivity | exact D |].
        intros a' p' [H|H]; [injection H as <- <-; exact NM | eapply N; exact H].
Qed.


(* ================================================================ is_unsupported *)
Definition unsup_check (tbl : list (cond * bool)) (u : unsup_sit) : bool :=
  match first_match (unsup_atoms u) tbl with
  | Some b => Bool.eqb b (doc_unsupported u) | None => false end.
Definition fa_unsup (p : unsup_sit -> bool) : bool :=
  fa_bool (fun a => fa_bool (fun b => fa_bool (fun c => fa_bool (fun d => fa_bool (fun e => fa_bool (fun f =>
    p (mk_unsup a b c d e f))))))).
Lemma fa_unsup_ok p : fa_unsup p = true -> forall u, p u = true.
Proof.
  unfold fa_unsup; intros H [a b c d e f].
  apply fa_bool_ok with (b := a) in H; cbv beta in H. apply fa_bool_ok with (b := b) in H; cbv beta in H.
  apply fa_bool_ok with (b := c) in H; cbv beta in H. apply fa_bool_ok with (b := d) in H; cbv beta in H.
  apply fa_bool_ok with (b := e) in H; cbv beta in H. apply fa_bool_ok with (b := f) in H; exact H.
Qed.
Lemma unsupported_sound tbl : fa_unsup (unsup_check tbl) = true ->
  forall u, first_match (unsup_atoms u) tbl = Some (doc_unsupported u).
Proof.
  intros A u. assert (H : unsup_check tbl u = true) by (apply fa_unsup_ok; exact A).
  unfold unsup_check in H. destruct (first_match (unsup_atoms u) tbl); [|discriminate].
  apply Bool.eqb_prop in H; subst; reflexivity.
Qed.

(* ================================================================ is_allowlisted *)
Definition allow_check (tbl : list (cond * bool)) (w : allow_sit) : bool :=
  match first_match (allow_atoms w) tbl with
  | Some b => Bool.eqb b (doc_allowlisted w) | None => false end.
Definition fa_allow (p : allow_sit -> bool) : bool :=
  fa_bool (fun a1 => fa_rule (fun a2 => fa_bool (fun a3 => fa_bool (fun a4 => fa_bool (fun a5 => fa_bool (fun a6 =>
  fa_bool (fun a7 => fa_bool (fun a8 => fa_bool (fun a9 => fa_bool (fun a10 => fa_bool (fun a11 => fa_bool (fun a12 =>
  fa_bool (fun a13 => fa_bool (fun a14 => fa_bool (fun a15 => fa_bool (fun a16 =>
    p (mk_allow a1 a2 a3 a4 a5 a6 a7 a8 a9 a10 a11 a12 a13 a14 a15 a16))))))))))))))))).
Lemma fa_allow_ok p : fa_allow p = true -> forall w, p w = true.
Proof.
  unfold fa_allow; intros H [a1 a2 a3 a4 a5 a6 a7 a8 a9 a10 a11 a12 a13 a14 a15 a16].
  apply fa_bool_ok with (b := a1) in H; cbv beta in H. apply fa_rule_ok with (b := a2) in H; cbv beta in H.
  apply fa_bool_ok with (b := a3) in H; cbv beta in H. apply fa_bool_ok with (b := a4) in H; cbv beta in H.
  apply fa_bool_ok with (b := a5) in H; cbv beta in H. apply fa_bool_ok with (b := a6) in H; cbv beta in H.
  apply fa_bool_ok with (b := a7) in H; cbv beta in H. apply fa_bool_ok with (b := a8) in H; cbv beta in H.
  apply fa_bool_ok with (b := a9) in H; cbv beta in H. apply fa_bool_ok with (b := a10) in H; cbv beta in H.
  apply fa_bool_ok with (b := a11) in H; cbv beta in H. apply fa_bool_ok with (b := a12) in H; cbv beta in H.
  apply fa_bool_ok with (b := a13) in H; cbv beta in H. apply fa_bool_ok with (b := a14) in H; cbv beta in H.
  apply fa_bool_ok with (b := a15) in H; cbv beta in H. apply fa_bool_ok with (b := a16) in H; exact H.
Qed.
Lemma allowlisted_sound tbl : fa_allow (allow_check tbl) = true ->
  forall w, first_match (allow_atoms w) tbl = Some (doc_allowlisted w).
Proof.
  intros A w. assert (H : allow_check tbl w = true) by (apply fa_allow_ok; exact A).
  unfold allow_check in H. destruct (first_match (allow_atoms w) tbl); [|discriminate].
  apply Bool.eqb_prop in H; subst; reflexivity.
Qed.
