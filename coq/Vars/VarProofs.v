(* C01 / variables pass: the two models of the pass agree through the embedding, and the pass preserves the
   behaviour of every core-language program: same outcome (normal / NameError of the same variable / exception of the
   same user operation / out of fuel), same log of user-visible events, related stores -- and the placeholder of an
   undefined variable never reaches a user operation, a test, a store into an object or an augmented assignment. *)
From Coq Require Import List Arith Bool.
Import ListNotations.
Require Import MV.Vars.VarLang.

(* ------------------------------------------------------------------ embedding commutes *)
Lemma emb_b_app a b : emb_b (bapp a b) = gapp (emb_b a) (emb_b b).
Proof. induction a as [|s r IH]; simpl; [reflexivity | now rewrite IH]. Qed.

Lemma emb_vte_all :
  (forall e, gvt (emb_e e) = gone (emb_e (vte e))) /\ (forall es, gvts (emb_es es) = emb_es (vtes es)).
Proof.
  apply expr_exprs_ind.
  - intros x [|]; reflexivity.
  - reflexivity.
  - intros l es IH. simpl. now rewrite IH.
  - intros e IH. simpl. simpl in IH. rewrite IH. reflexivity.
  - reflexivity.
  - reflexivity.
  - intros e IHe es IHes. simpl. rewrite IHe, IHes. reflexivity.
Qed.
Definition emb_vte := proj1 emb_vte_all.
Definition emb_vtes := proj2 emb_vte_all.

Lemma emb_vtt c t : c <> CLoad -> gvt (emb_t c t) = gone (emb_t c (vtt t)).
Proof. intros Hc. destruct t as [x|l es]; simpl; [destruct c; congruence || reflexivity | now rewrite emb_vtes]. Qed.

Lemma emb_vtts ts : gvts (emb_ts ts) = emb_ts (vtts ts).
Proof. induction ts as [|t r IH]; simpl; [reflexivity|]. rewrite emb_vtt by discriminate. simpl. now rewrite IH. Qed.

Lemma any_name_emb ts : any_name (emb_ts ts) = any_tgname ts.
Proof. induction ts as [|[x|l es] r IH]; simpl; auto. Qed.

Lemma any_tgname_vtts ts : any_tgname (vtts ts) = any_tgname ts.
Proof. induction ts as [|[x|l es] r IH]; simpl; auto. Qed.

Lemma gdel_each_emb ts : gdel_each (emb_ts ts) = emb_b (del_each ts).
Proof. induction ts as [|[x|l es] r IH]; simpl; [reflexivity| |]; now rewrite IH. Qed.

Lemma emb_vts_all :
  (forall s, gvt (emb_s s) = emb_b (vts s)) /\ (forall b, gvts (emb_b b) = emb_b (vtb b)).
Proof.
  apply stmt_block_ind.
  - intros tg e. simpl. rewrite emb_vtt by discriminate. rewrite emb_vte. reflexivity.
  - intros [x|lc es] l e; simpl.
    + rewrite emb_vte. reflexivity.
    + rewrite emb_vtes, emb_vte. reflexivity.
  - intros ts. simpl. rewrite any_name_emb, emb_vtts. destruct (any_tgname ts); [apply gdel_each_emb | reflexivity].
  - intros e. simpl. rewrite emb_vte. reflexivity.
  - intros e b1 IH1 b2 IH2. simpl. rewrite emb_vte. simpl. rewrite IH1, IH2. reflexivity.
  - intros e b IH. simpl. rewrite emb_vte. simpl. rewrite IH. reflexivity.
  - reflexivity.
  - intros s IHs b IHb. simpl. rewrite IHs, IHb, emb_b_app. reflexivity.
Qed.

(* ------------------------------------------------------------------ source programs *)
Section Preservation.
  Variable opres : label -> list nat -> option nat.
  Variable truthy : nat -> bool.
  Variable gen : var -> bool.      (* names the converter generated: always bound when read, never deleted *)

  Fixpoint src_e (e : expr) : bool :=
    match e with
    | EName x o => o || gen x
    | EConst _ => true
    | EOp _ es => src_es es
    | ELd _ => false
    | EUndefined _ => false
    end
  with src_es (es : exprs) : bool := match es with ENil => true | ECons e r => src_e e && src_es r end.

  Definition src_t (t : target) := match t with TgName _ => true | TgComp _ es => src_es es end.
  Fixpoint src_dts (ts : targets) : bool :=
    match ts with TNil => true | TCons (TgName x) r => negb (gen x) && src_dts r | TCons (TgComp _ es) r => src_es es && src_dts r end.

  Fixpoint src_s (s : stmt) : bool :=
    match s with
    | SAssign tg e => src_t tg && src_e e
    | SAug tg _ e => src_t tg && src_e e
    | SDel ts => src_dts ts
    | SExpr e => src_e e
    | SIf e b1 b2 => src_e e && src_b b1 && src_b b2
    | SWhile e b => src_e e && src_b b
    end
  with src_b (b : block) : bool := match b with BNil => true | BCons s r => src_s s && src_b r end.

  (* original store vs store of the converted function *)
  Definition R (o c : var -> option tval) : Prop :=
    forall x, match o x with
              | Some (TV n) => c x = Some (TV n)
              | Some (TUndef _) => False
              | None => c x = None \/ (gen x = false /\ c x = Some (TUndef x))
              end.
  Definition RS (s s' : st) := R (sto s) (sto s') /\ log s = log s'.

  Definition okres {A} (ok : A -> Prop) (r : res A) : Prop :=
    match r with Ok a => ok a | Exc XLeak => False | Exc _ => True end.
  Definition rel {A} (ok : A -> Prop) (p p' : res A * st) : Prop :=
    fst p = fst p' /\ RS (snd p) (snd p') /\ okres ok (fst p).

  Definition isval (v : tval) := exists n, v = TV n.
  Definition arevals (vs : list tval) := exists ns, clean vs = Some ns.

  Lemma RS_addlog s s' e : RS s s' -> RS (addlog s e) (addlog s' e).
  Proof. intros [H1 H2]. split; simpl; [exact H1 | now rewrite H2]. Qed.

  Lemma upd_same o x v : upd o x v x = v.
  Proof. unfold upd. now rewrite Nat.eqb_refl. Qed.

  Lemma R_upd_val o c x n : R o c -> R (upd o x (Some (TV n))) (upd c x (Some (TV n))).
  Proof. intros H y. unfold upd. destruct (Nat.eqb y x); [reflexivity | apply H]. Qed.

  Lemma R_upd_none o c x : R o c -> R (upd o x None) (upd c x None).
  Proof. intros H y. unfold upd. destruct (Nat.eqb y x); [now left | apply H]. Qed.

  Lemma R_upd_undef o c x : gen x = false -> R o c -> R (upd o x None) (upd c x (Some (TUndef x))).
  Proof.
    intros G H y. unfold upd. destruct (Nat.eqb y x) eqn:E; [|apply H].
    apply Nat.eqb_eq in E. subst y. right. split; [exact G | reflexivity].
  Qed.

  Lemma RS_setv_val s s' x n : RS s s' -> RS (setv s x (Some (TV n))) (setv s' x (Some (TV n))).
  Proof. intros [H1 H2]. split; simpl; [now apply R_upd_val | exact H2]. Qed.

  Lemma RS_setv_undef s s' x : gen x = false -> RS s s' -> RS (setv s x None) (setv s' x (Some (TUndef x))).
  Proof. intros G [H1 H2]. split; simpl; [now apply R_upd_undef | exact H2]. Qed.

  Ltac mkrel := split; [simpl; try reflexivity | split; [simpl | simpl; try exact I]].

  Lemma eval_rel_all :
    (forall e s s', src_e e = true -> RS s s' -> rel isval (eval opres e s) (eval opres (vte e) s')) /\
    (forall es s s', src_es es = true -> RS s s' -> rel arevals (evals opres es s) (evals opres (vtes es) s')).
  Proof.
    apply expr_exprs_ind.
    - (* EName *)
      intros x o s s' Hs H. pose proof (proj1 H x) as Hx.
      destruct o; simpl in *.
      + destruct (sto s x) as [[n|u]|] eqn:E.
        * rewrite Hx. mkrel; auto. eexists; reflexivity.
        * contradiction.
        * destruct Hx as [Hx|[_ Hx]]; rewrite Hx; mkrel; auto.
      + destruct (sto s x) as [[n|u]|] eqn:E.
        * rewrite Hx. mkrel; auto. eexists; reflexivity.
        * contradiction.
        * destruct Hx as [Hx|[Hg _]]; [|congruence]. rewrite Hx. mkrel; auto.
    - (* EConst *)
      intros k s s' _ H. mkrel; auto. eexists; reflexivity.
    - (* EOp *)
      intros l es IH s s' Hs H. simpl in Hs. specialize (IH s s' Hs H).
      simpl. destruct (evals opres es s) as [r s1], (evals opres (vtes es) s') as [r' s1'].
      destruct IH as [E1 [E2 E3]]. simpl in *. subst r'.
      destruct r as [vs|c].
      + destruct E3 as [ns Hns]. rewrite Hns.
        destruct (opres l ns); mkrel; auto; try (apply RS_addlog; assumption). eexists; reflexivity.
      + mkrel; auto.
    - intros e _ s s' Hs. discriminate.
    - intros x s s' Hs. discriminate.
    - intros s s' _ H. mkrel; auto. exists []; reflexivity.
    - intros e IHe es IHes s s' Hs H. simpl in Hs. apply andb_true_iff in Hs. destruct Hs as [Hs1 Hs2].
      specialize (IHe s s' Hs1 H). simpl.
      destruct (eval opres e s) as [r s1], (eval opres (vte e) s') as [r' s1'].
      destruct IHe as [E1 [E2 E3]]. simpl in *. subst r'.
      destruct r as [v|c]; [|mkrel; auto].
      specialize (IHes s1 s1' Hs2 E2).
      destruct (evals opres es s1) as [r2 s2], (evals opres (vtes es) s1') as [r2' s2'].
      destruct IHes as [F1 [F2 F3]]. simpl in *. subst r2'.
      destruct r2 as [vs|c]; mkrel; auto.
      destruct E3 as [n ->]. destruct F3 as [ns Hns]. exists (n :: ns). simpl. now rewrite Hns.
  Qed.
  Definition eval_rel := proj1 eval_rel_all.
  Definition evals_rel := proj2 eval_rel_all.

  Lemma eval_comp_rel es s s' : src_es es = true -> RS s s' ->
    rel (fun _ : list nat => True) (eval_comp opres es s) (eval_comp opres (vtes es) s').
  Proof.
    intros Hs H. pose proof (evals_rel es s s' Hs H) as IH. unfold eval_comp.
    destruct (evals opres es s) as [r s1], (evals opres (vtes es) s') as [r' s1'].
    destruct IH as [E1 [E2 E3]]. simpl in *. subst r'.
    destruct r as [vs|c]; [|mkrel; auto].
    destruct E3 as [ns Hns]. rewrite Hns. mkrel; auto.
  Qed.

  Lemma test_rel e s s' : src_e e = true -> RS s s' ->
    rel (fun _ : bool => True) (test opres truthy e s) (test opres truthy (vte e) s').
  Proof.
    intros Hs H. pose proof (eval_rel e s s' Hs H) as IH. unfold test.
    destruct (eval opres e s) as [r s1], (eval opres (vte e) s') as [r' s1'].
    destruct IH as [E1 [E2 E3]]. simpl in *. subst r'.
    destruct r as [v|c]; [|mkrel; auto].
    destruct E3 as [n ->]. mkrel; auto.
  Qed.

  Definition tt_ok (_ : unit) := True.

  Lemma assign_rel tg n s s' : src_t tg = true -> RS s s' ->
    rel tt_ok (assign opres tg (TV n) s) (assign opres (vtt tg) (TV n) s').
  Proof.
    intros Hs H. destruct tg as [x|l es]; simpl.
    - mkrel; auto. now apply RS_setv_val.
    - simpl in Hs. pose proof (eval_comp_rel es s s' Hs H) as IH.
      destruct (eval_comp opres es s) as [r s1], (eval_comp opres (vtes es) s') as [r' s1'].
      destruct IH as [E1 [E2 E3]]. simpl in *. subst r'.
      destruct r as [ns|c]; mkrel; auto. now apply RS_addlog.
  Qed.

  Lemma exec_assign_rel tg e s s' : src_t tg = true -> src_e e = true -> RS s s' ->
    rel tt_ok (exec_assign opres tg e s) (exec_assign opres (vtt tg) (vte e) s').
  Proof.
    intros Ht He H. pose proof (eval_rel e s s' He H) as IH. unfold exec_assign.
    destruct (eval opres e s) as [r s1], (eval opres (vte e) s') as [r' s1'].
    destruct IH as [E1 [E2 E3]]. simpl in *. subst r'.
    destruct r as [v|c]; [|mkrel; auto].
    destruct E3 as [n ->]. now apply assign_rel.
  Qed.

  Lemma execb_nil fuel s : execb opres truthy fuel BNil s = (Ok tt, s).
  Proof. reflexivity. Qed.
  Lemma execb_cons fuel c r s : execb opres truthy fuel (BCons c r) s =
    match exec opres truthy fuel c s with (Ok _, s1) => execb opres truthy fuel r s1 | x => x end.
  Proof. reflexivity. Qed.
  Lemma exec_assign_eq fuel tg e s : exec opres truthy fuel (SAssign tg e) s = exec_assign opres tg e s.
  Proof. reflexivity. Qed.
  Lemma exec_aug_eq fuel tg l e s : exec opres truthy fuel (SAug tg l e) s = exec_aug opres tg l e s.
  Proof. reflexivity. Qed.
  Lemma exec_del_eq fuel ts s : exec opres truthy fuel (SDel ts) s = exec_del opres ts s.
  Proof. reflexivity. Qed.
  Lemma exec_expr_eq fuel e s : exec opres truthy fuel (SExpr e) s =
    match eval opres e s with (Ok _, s1) => (Ok tt, s1) | (Exc x, s1) => (Exc x, s1) end.
  Proof. reflexivity. Qed.
  Lemma exec_if_eq fuel e b1 b2 s : exec opres truthy fuel (SIf e b1 b2) s =
    match test opres truthy e s with
    | (Ok true, s1) => execb opres truthy fuel b1 s1
    | (Ok false, s1) => execb opres truthy fuel b2 s1
    | (Exc x, s1) => (Exc x, s1)
    end.
  Proof. reflexivity. Qed.
  Lemma exec_while_eq fuel e b s : exec opres truthy fuel (SWhile e b) s =
    loopf (test opres truthy e) (execb opres truthy fuel b) fuel s.
  Proof. reflexivity. Qed.
  Ltac exs := unfold bone; repeat (rewrite execb_cons || rewrite execb_nil || rewrite exec_assign_eq || rewrite exec_aug_eq
                        || rewrite exec_del_eq || rewrite exec_expr_eq || rewrite exec_if_eq || rewrite exec_while_eq).

  Lemma execb_app fuel a b s :
    execb opres truthy fuel (bapp a b) s =
    match execb opres truthy fuel a s with (Ok _, s1) => execb opres truthy fuel b s1 | x => x end.
  Proof.
    revert s. induction a as [|c r IH]; intros s; cbn [bapp]; [reflexivity|]. rewrite !execb_cons.
    destruct (exec opres truthy fuel c s) as [[u|x] s1]; [apply IH | reflexivity].
  Qed.

  (* the augmented assignment to a name: `x = ld(x); x op= e'` *)
  Lemma exec_aug_name_rel fuel x l e s s' : src_e e = true -> RS s s' ->
    rel tt_ok (exec_aug opres (TgName x) l e s)
      (execb opres truthy fuel (BCons (SAssign (TgName x) (ELd (EName x true))) (bone (SAug (TgName x) l (vte e)))) s').
  Proof.
    intros He H. destruct H as [HR HL]. pose proof (HR x) as Hx.
    cbn [exec_aug]. exs. unfold exec_assign. cbn [eval].
    destruct (sto s x) as [[n0|u]|] eqn:E.
    - rewrite Hx. cbn [assign]. exs. cbn [exec_aug sto setv]. rewrite upd_same.
      assert (H' : RS s (setv s' x (Some (TV n0)))).
      { split; [|exact HL]. intros y. simpl. unfold upd. destruct (Nat.eqb y x) eqn:Ey; [|apply HR].
        apply Nat.eqb_eq in Ey. subst y. rewrite E. reflexivity. }
      pose proof (eval_rel e s _ He H') as IH.
      destruct (eval opres e s) as [r s1], (eval opres (vte e) (setv s' x (Some (TV n0)))) as [r' s1'].
      destruct IH as [E1 [E2 E3]]. simpl in *. subst r'.
      destruct r as [v|c]; [|mkrel; auto].
      destruct E3 as [n1 ->].
      destruct (opres l [n0; n1]); mkrel; auto.
      + apply RS_setv_val. now apply RS_addlog.
      + now apply RS_addlog.
    - contradiction.
    - destruct Hx as [Hx|[_ Hx]]; rewrite Hx; mkrel; auto; split; assumption.
  Qed.

  Lemma exec_aug_comp_rel lc es l e s s' : src_es es = true -> src_e e = true -> RS s s' ->
    rel tt_ok (exec_aug opres (TgComp lc es) l e s) (exec_aug opres (TgComp lc (vtes es)) l (vte e) s').
  Proof.
    intros Hes He H. pose proof (eval_comp_rel es s s' Hes H) as IH. cbn [exec_aug].
    destruct (eval_comp opres es s) as [r s1], (eval_comp opres (vtes es) s') as [r' s1'].
    destruct IH as [E1 [E2 E3]]. simpl in *. subst r'.
    destruct r as [ns|c]; [|mkrel; auto].
    destruct (opres lc ns) as [n0|]; [|mkrel; auto; now apply RS_addlog].
    pose proof (eval_rel e _ _ He (RS_addlog _ _ (EvOp lc ns) E2)) as IH2.
    destruct (eval opres e (addlog s1 (EvOp lc ns))) as [r2 s2], (eval opres (vte e) (addlog s1' (EvOp lc ns))) as [r2' s2'].
    destruct IH2 as [F1 [F2 F3]]. simpl in *. subst r2'.
    destruct r2 as [v|c]; [|mkrel; auto].
    destruct F3 as [n1 ->].
    destruct (opres l [n0; n1]); mkrel; auto; repeat apply RS_addlog; auto.
  Qed.

  Lemma exec_del_plain_rel ts s s' : any_tgname ts = false -> src_dts ts = true -> RS s s' ->
    rel tt_ok (exec_del opres ts s) (exec_del opres (vtts ts) s').
  Proof.
    revert s s'. induction ts as [|[x|l es] r IH]; intros s s' Hn Hs H; simpl in *.
    - mkrel; auto.
    - discriminate.
    - apply andb_true_iff in Hs. destruct Hs as [Hs1 Hs2].
      pose proof (eval_comp_rel es s s' Hs1 H) as IH1.
      destruct (eval_comp opres es s) as [r1 s1], (eval_comp opres (vtes es) s') as [r1' s1'].
      destruct IH1 as [E1 [E2 E3]]. simpl in *. subst r1'.
      destruct r1 as [ns|c]; [|mkrel; auto].
      apply IH; auto. now apply RS_addlog.
  Qed.

  Lemma exec_del_each_rel fuel ts s s' : src_dts ts = true -> RS s s' ->
    rel tt_ok (exec_del opres ts s) (execb opres truthy fuel (del_each (vtts ts)) s').
  Proof.
    revert s s'. induction ts as [|[x|l es] r IH]; intros s s' Hs H; cbn [vtts vtt del_each exec_del src_dts] in *.
    - rewrite execb_nil. mkrel; auto.
    - apply andb_true_iff in Hs. destruct Hs as [Hg Hs2]. apply negb_true_iff in Hg.
      pose proof (proj1 H x) as Hx. exs. unfold exec_assign. cbn [eval].
      destruct (sto s x) as [[n|u]|] eqn:E.
      + rewrite Hx. cbn [assign]. apply IH; [exact Hs2|]. now apply RS_setv_undef.
      + contradiction.
      + destruct Hx as [Hx|[_ Hx]]; rewrite Hx; mkrel; auto.
    - apply andb_true_iff in Hs. destruct Hs as [Hs1 Hs2]. exs. cbn [exec_del].
      pose proof (eval_comp_rel es s s' Hs1 H) as IH1.
      destruct (eval_comp opres es s) as [r1 s1], (eval_comp opres (vtes es) s') as [r1' s1'].
      destruct IH1 as [E1 [E2 E3]]. simpl in E1, E2, E3. subst r1'.
      destruct r1 as [ns|c]; [|mkrel; auto].
      specialize (IH _ _ Hs2 (RS_addlog _ _ (EvDel l ns) E2)).
      destruct (exec_del opres r (addlog s1 (EvDel l ns))) as [r2 s2].
      destruct (execb opres truthy fuel (del_each (vtts r)) (addlog s1' (EvDel l ns))) as [r2' s2'].
      destruct IH as [F1 [F2 F3]]. simpl in F1, F2, F3. subst r2'.
      destruct r2 as [[]|c]; mkrel; auto.
  Qed.

  Lemma loopf_rel tst tst' body body' :
    (forall s s', RS s s' -> rel (fun _ : bool => True) (tst s) (tst' s')) ->
    (forall s s', RS s s' -> rel tt_ok (body s) (body' s')) ->
    forall n s s', RS s s' -> rel tt_ok (loopf tst body n s) (loopf tst' body' n s').
  Proof.
    intros Ht Hb. induction n as [|n IH]; intros s s' H; simpl.
    - mkrel; auto.
    - specialize (Ht s s' H). destruct (tst s) as [r s1], (tst' s') as [r' s1'].
      destruct Ht as [E1 [E2 E3]]. simpl in *. subst r'.
      destruct r as [[|]|c]; try (mkrel; auto; fail).
      specialize (Hb s1 s1' E2). destruct (body s1) as [r2 s2], (body' s1') as [r2' s2'].
      destruct Hb as [F1 [F2 F3]]. simpl in *. subst r2'.
      destruct r2 as [u|c]; [apply IH; exact F2 | mkrel; auto].
  Qed.

  Theorem exec_rel_all :
    (forall c fuel s s', src_s c = true -> RS s s' ->
       rel tt_ok (exec opres truthy fuel c s) (execb opres truthy fuel (vts c) s')) /\
    (forall b fuel s s', src_b b = true -> RS s s' ->
       rel tt_ok (execb opres truthy fuel b s) (execb opres truthy fuel (vtb b) s')).
  Proof.
    apply stmt_block_ind.
    - (* SAssign *)
      intros tg e fuel s s' Hs H. cbn [src_s] in Hs. apply andb_true_iff in Hs. destruct Hs as [Ht He].
      cbn [vts]. exs.
      pose proof (exec_assign_rel tg e s s' Ht He H) as IH.
      destruct (exec_assign opres tg e s) as [r s1], (exec_assign opres (vtt tg) (vte e) s') as [r' s1'].
      destruct IH as [E1 [E2 E3]]. simpl in *. subst r'. destruct r as [[]|c]; mkrel; auto.
    - (* SAug *)
      intros [x|lc es] l e fuel s s' Hs H; cbn [src_s] in Hs; apply andb_true_iff in Hs; destruct Hs as [Ht He].
      + cbn [vts]. rewrite exec_aug_eq. now apply exec_aug_name_rel.
      + cbn [vts vtt]. exs.
        pose proof (exec_aug_comp_rel lc es l e s s' Ht He H) as IH.
        destruct (exec_aug opres (TgComp lc es) l e s) as [r s1], (exec_aug opres (TgComp lc (vtes es)) l (vte e) s') as [r' s1'].
        destruct IH as [E1 [E2 E3]]. simpl in *. subst r'. destruct r as [[]|c]; mkrel; auto.
    - (* SDel *)
      intros ts fuel s s' Hs H. cbn [vts src_s] in *. rewrite exec_del_eq.
      destruct (any_tgname ts) eqn:En.
      + now apply exec_del_each_rel.
      + exs.
        pose proof (exec_del_plain_rel ts s s' En Hs H) as IH.
        destruct (exec_del opres ts s) as [r s1], (exec_del opres (vtts ts) s') as [r' s1'].
        destruct IH as [E1 [E2 E3]]. simpl in *. subst r'. destruct r as [[]|c]; mkrel; auto.
    - (* SExpr *)
      intros e fuel s s' Hs H. cbn [vts src_s] in *. exs.
      pose proof (eval_rel e s s' Hs H) as IH.
      destruct (eval opres e s) as [r s1], (eval opres (vte e) s') as [r' s1'].
      destruct IH as [E1 [E2 E3]]. simpl in *. subst r'. destruct r as [v|c]; mkrel; auto.
    - (* SIf *)
      intros e b1 IH1 b2 IH2 fuel s s' Hs H. cbn [src_s] in Hs.
      apply andb_true_iff in Hs. destruct Hs as [Hs Hb2]. apply andb_true_iff in Hs. destruct Hs as [He Hb1].
      cbn [vts]. exs.
      pose proof (test_rel e s s' He H) as IH.
      destruct (test opres truthy e s) as [r s1], (test opres truthy (vte e) s') as [r' s1'].
      destruct IH as [E1 [E2 E3]]. simpl in *. subst r'.
      destruct r as [[|]|c]; [| |mkrel; auto].
      + specialize (IH1 fuel s1 s1' Hb1 E2).
        destruct (execb opres truthy fuel b1 s1) as [r2 s2], (execb opres truthy fuel (vtb b1) s1') as [r2' s2'].
        destruct IH1 as [F1 [F2 F3]]. simpl in *. subst r2'. destruct r2 as [[]|c]; mkrel; auto.
      + specialize (IH2 fuel s1 s1' Hb2 E2).
        destruct (execb opres truthy fuel b2 s1) as [r2 s2], (execb opres truthy fuel (vtb b2) s1') as [r2' s2'].
        destruct IH2 as [F1 [F2 F3]]. simpl in *. subst r2'. destruct r2 as [[]|c]; mkrel; auto.
    - (* SWhile *)
      intros e b IHb fuel s s' Hs H. cbn [src_s] in Hs. apply andb_true_iff in Hs. destruct Hs as [He Hb].
      cbn [vts]. exs.
      assert (L : rel tt_ok (loopf (test opres truthy e) (execb opres truthy fuel b) fuel s)
                      (loopf (test opres truthy (vte e)) (execb opres truthy fuel (vtb b)) fuel s')).
      { apply loopf_rel; [intros; now apply test_rel | intros; now apply IHb | exact H]. }
      destruct (loopf (test opres truthy e) (execb opres truthy fuel b) fuel s) as [r s1],
               (loopf (test opres truthy (vte e)) (execb opres truthy fuel (vtb b)) fuel s') as [r' s1'].
      destruct L as [E1 [E2 E3]]. simpl in *. subst r'. destruct r as [[]|c]; mkrel; auto.
    - (* BNil *)
      intros fuel s s' _ H. mkrel; auto.
    - (* BCons *)
      intros c IHc b IHb fuel s s' Hs H. cbn [src_b] in Hs. apply andb_true_iff in Hs. destruct Hs as [Hc Hb].
      cbn [vtb]. rewrite execb_app, execb_cons.
      specialize (IHc fuel s s' Hc H).
      destruct (exec opres truthy fuel c s) as [r s1], (execb opres truthy fuel (vts c) s') as [r' s1'].
      destruct IHc as [E1 [E2 E3]]. simpl in *. subst r'.
      destruct r as [[]|x]; [|mkrel; auto].
      now apply IHb.
  Qed.

  (* a store without placeholders is related to itself *)
  Lemma R_refl_clean o : (forall x u, o x <> Some (TUndef u)) -> R o o.
  Proof. intros H x. destruct (o x) as [[n|u]|] eqn:E; [reflexivity | exact (H x u E) | now left]. Qed.

  (* the form used by the obligation: the converted body, started where control_flow leaves it (variables that may be
     unbound hold their placeholder), behaves like the original started with those variables unbound *)
  Theorem variables_pass_correct_lemma b fuel s s' :
    src_b b = true -> RS s s' ->
    let p := execb opres truthy fuel b s in
    let p' := execb opres truthy fuel (vtb b) s' in
    fst p = fst p' /\ log (snd p) = log (snd p') /\ R (sto (snd p)) (sto (snd p')) /\ fst p <> Exc XLeak /\ fst p' <> Exc XLeak.
  Proof.
    intros Hb H p p'. destruct (proj2 exec_rel_all b fuel s s' Hb H) as [E1 [[E2 E2'] E3]].
    fold p p' in E1, E2, E2', E3. repeat split; auto.
    - intros C. rewrite C in E3. exact E3.
    - intros C. rewrite <- E1 in C. rewrite C in E3. exact E3.
  Qed.
End Preservation.
