(* C01 / variables pass: executable checks evaluated on every run.
   (a) structural tie: gvt on the body the real pass received vs the body it produced (orig flags of the output are
       not compared: they are annotations, not syntax);
   (b) the semantics of the core language against CPython: generated programs, run as Python text (source form, and
       converted form with the real ag__.ld / ag__.Undefined), compared with exec on the same initial store. *)
From Coq Require Import List Arith Bool.
Import ListNotations.
Require Import MV.Vars.VarLang.

Definition ctx_beq (a b : ctx) := match a, b with CLoad, CLoad | CStore, CStore | CDel, CDel => true | _, _ => false end.
Definition glabel_beq (a b : glabel) :=
  match a, b with
  | LCall, LCall | LAttrLd, LAttrLd | LAttrUndef, LAttrUndef | LAssign, LAssign | LExpr, LExpr | LIf, LIf | LWhile, LWhile
  | LBlock, LBlock => true
  | LConst x, LConst y | LOp x, LOp y | LComp x, LComp y | LOther x, LOther y => Nat.eqb x y
  | _, _ => false
  end.

Fixpoint tree_beq (a b : tree) : bool :=
  match a, b with
  | GName x c _, GName y d _ => Nat.eqb x y && ctx_beq c d
  | GStr x, GStr y => Nat.eqb x y
  | GNode l k, GNode m j => glabel_beq l m && trees_beq k j
  | GAug l t v, GAug m u w => Nat.eqb l m && tree_beq t u && tree_beq v w
  | GDelete k, GDelete j => trees_beq k j
  | _, _ => false
  end
with trees_beq (a b : trees) : bool :=
  match a, b with
  | GNil, GNil => true
  | GCons t r, GCons u q => tree_beq t u && trees_beq r q
  | _, _ => false
  end.

Definition gcase := (nat * tree * tree)%type.
Definition check_gcase (c : gcase) := let '(_, tin, tout) := c in trees_beq (gvt tin) (gone tout).
Definition failing_gcases (cs : list gcase) : list nat :=
  map (fun c => fst (fst c)) (filter (fun c => negb (check_gcase c)) cs).

(* ------------------------------------------------------------------ semantics against CPython *)
Fixpoint expr_beq (a b : expr) : bool :=
  match a, b with
  | EName x o, EName y p => Nat.eqb x y && Bool.eqb o p
  | EConst x, EConst y => Nat.eqb x y
  | EOp l es, EOp m fs => Nat.eqb l m && exprs_beq es fs
  | ELd e, ELd f => expr_beq e f
  | EUndefined x, EUndefined y => Nat.eqb x y
  | _, _ => false
  end
with exprs_beq (a b : exprs) : bool :=
  match a, b with
  | ENil, ENil => true
  | ECons e r, ECons f q => expr_beq e f && exprs_beq r q
  | _, _ => false
  end.
Definition target_beq (a b : target) :=
  match a, b with
  | TgName x, TgName y => Nat.eqb x y
  | TgComp l es, TgComp m fs => Nat.eqb l m && exprs_beq es fs
  | _, _ => false
  end.
Fixpoint targets_beq (a b : targets) :=
  match a, b with
  | TNil, TNil => true
  | TCons t r, TCons u q => target_beq t u && targets_beq r q
  | _, _ => false
  end.
Fixpoint stmt_beq (a b : stmt) : bool :=
  match a, b with
  | SAssign t e, SAssign u f => target_beq t u && expr_beq e f
  | SAug t l e, SAug u m f => target_beq t u && Nat.eqb l m && expr_beq e f
  | SDel ts, SDel us => targets_beq ts us
  | SExpr e, SExpr f => expr_beq e f
  | SIf e b1 b2, SIf f c1 c2 => expr_beq e f && block_beq b1 c1 && block_beq b2 c2
  | SWhile e b, SWhile f c => expr_beq e f && block_beq b c
  | _, _ => false
  end
with block_beq (a b : block) : bool :=
  match a, b with
  | BNil, BNil => true
  | BCons s r, BCons t q => stmt_beq s t && block_beq r q
  | _, _ => false
  end.

(* the operations the harness' Python functions implement *)
Definition LADD : label := 0.       (* the arithmetic of `+=` on the harness' integers: not logged on the Python side *)
Definition opres_std (l : label) (args : list nat) : option nat :=
  if Nat.eqb l LADD then Some (fold_right Nat.add 0 args)
  else let r := (l * 7 + 3 * fold_right Nat.add 0 args + 1) mod 11 in
       if Nat.eqb r 10 then None else Some r.
Definition truthy_std (n : nat) : bool := negb (Nat.eqb n 0).

Fixpoint lbeq {A} (eqb : A -> A -> bool) (a b : list A) : bool :=
  match a, b with
  | [], [] => true
  | x :: r, y :: q => eqb x y && lbeq eqb r q
  | _, _ => false
  end.
Definition event_beq (a b : event) : bool :=
  match a, b with
  | EvOp l x, EvOp m y => Nat.eqb l m && lbeq Nat.eqb x y
  | EvStore l x v, EvStore m y w => Nat.eqb l m && lbeq Nat.eqb x y && Nat.eqb v w
  | EvDel l x, EvDel m y => Nat.eqb l m && lbeq Nat.eqb x y
  | _, _ => false
  end.
Definition visible (e : event) := match e with EvOp l _ => negb (Nat.eqb l LADD) | _ => true end.

Definition tval_beq (a b : option tval) :=
  match a, b with
  | None, None => true
  | Some (TV x), Some (TV y) => Nat.eqb x y
  | Some (TUndef x), Some (TUndef y) => Nat.eqb x y
  | _, _ => false
  end.

Fixpoint init_store (bs : list (var * tval)) : var -> option tval :=
  match bs with [] => fun _ => None | (x, v) :: r => upd (init_store r) x (Some v) end.

(* how a run ended: 0 normally, 1 NameError of variable a, 2 exception of operation a, 3 placeholder reached a user
   operation, 4 out of fuel *)
Definition outcome_code (r : res unit) : nat * nat :=
  match r with
  | Ok _ => (0, 0)
  | Exc (XName x) => (1, x)
  | Exc (XOp l) => (2, l)
  | Exc XLeak => (3, 0)
  | Exc XFuel => (4, 0)
  end.

Record expect := mkexp { x_out : nat * nat; x_log : list event; x_final : list (var * option tval) }.

Definition run_ok (fuel : nat) (b : block) (init : list (var * tval)) (x : expect) : bool :=
  let '(r, s1) := execb opres_std truthy_std fuel b (mkst (init_store init) []) in
  let oc := outcome_code r in
  Nat.eqb (fst oc) (fst (x_out x)) && Nat.eqb (snd oc) (snd (x_out x)) &&
  lbeq event_beq (filter visible (log s1)) (x_log x) &&
  forallb (fun p => tval_beq (sto s1 (fst p)) (snd p)) (x_final x).

(* id, fuel, source program, its initial store and CPython's result; converted program as rendered by the harness,
   its initial store (placeholders included) and CPython's result with the real operators *)
Definition vcase := (nat * nat * block * list (var * tval) * expect * block * list (var * tval) * expect)%type.
Definition check_vcase (c : vcase) : bool :=
  let '(_, fuel, b, i, x, b', i', x') := c in
  block_beq (vtb b) b' && run_ok fuel b i x && run_ok fuel b' i' x'.
Definition why_vcase (c : vcase) : list bool :=
  let '(_, fuel, b, i, x, b', i', x') := c in [block_beq (vtb b) b'; run_ok fuel b i x; run_ok fuel b' i' x'].
Definition failing_vcases (cs : list vcase) : list nat :=
  map (fun c => let '(n, _, _, _, _, _, _, _) := c in n) (filter (fun c => negb (check_vcase c)) cs).
