(* C01 / variables pass (malt/converters/variables.py): reads of user variables become ag__.ld(x), `del x` becomes
   `ag__.ld(x); x = ag__.Undefined('x')`, `x op= e` becomes `x = ag__.ld(x); x op= e'`.
   Two levels:
   - a generic syntax tree (`tree`) on which the pass is modelled for whole function bodies (gvt); tied to the real
     pass by structural comparison on every run (VarCheck.v);
   - a core language with a semantics (`expr`/`stmt`) on which the pass (vte/vts/vtb) is proved to preserve behaviour
     (VarProofs.v); `embed` maps the core language into trees and commutes with the two models of the pass. *)
From Coq Require Import List Arith Bool.
Import ListNotations.

Definition var := nat.
Definition label := nat.

(* ------------------------------------------------------------------ generic trees *)
Inductive ctx := CLoad | CStore | CDel.
Inductive glabel :=
  | LCall | LAttrLd | LAttrUndef | LAssign | LExpr       (* shapes the pass generates *)
  | LConst (k : nat) | LOp (l : label) | LComp (l : label) | LIf | LWhile | LBlock   (* images of the core language *)
  | LOther (n : nat).                                    (* every other node kind (exporter) *)

Inductive tree :=
  | GName (x : var) (c : ctx) (orig : bool)
  | GStr (x : var)                       (* string constant naming a variable *)
  | GNode (l : glabel) (k : trees)
  | GAug (l : label) (tg v : tree)
  | GDelete (ts : trees)
with trees := GNil | GCons (t : tree) (ts : trees).

Scheme tree_ind2 := Induction for tree Sort Prop
  with trees_ind2 := Induction for trees Sort Prop.
Combined Scheme tree_trees_ind from tree_ind2, trees_ind2.

Fixpoint gapp (a b : trees) : trees := match a with GNil => b | GCons t r => GCons t (gapp r b) end.
Definition gone (t : tree) := GCons t GNil.
Definition ghd (d : tree) (ts : trees) := match ts with GCons t _ => t | GNil => d end.

Definition AG : var := 0.        (* the name ag__ *)
Definition gag := GName AG CLoad false.
Definition gld (t : tree) := GNode LCall (GCons (GNode LAttrLd (gone gag)) (gone t)).
Definition gundef (x : var) := GNode LCall (GCons (GNode LAttrUndef (gone gag)) (gone (GStr x))).

Definition is_name (t : tree) := match t with GName _ _ _ => true | _ => false end.
Fixpoint any_name (ts : trees) := match ts with GNil => false | GCons t r => is_name t || any_name r end.

(* the targets of a `del` statement, one by one (after the generic visit) *)
Fixpoint gdel_each (ts : trees) : trees :=
  match ts with
  | GNil => GNil
  | GCons t r =>
      match t with
      | GName x _ o => GCons (GNode LExpr (gone (gld (GName x CLoad o))))
                         (GCons (GNode LAssign (GCons (GName x CStore o) (gone (gundef x)))) (gdel_each r))
      | _ => GCons (GDelete (gone t)) (gdel_each r)
      end
  end.

Fixpoint gvt (t : tree) : trees :=
  match t with
  | GName x CLoad true => gone (gld t)
  | GName _ _ _ => gone t
  | GStr _ => gone t
  | GNode l k => gone (GNode l (gvts k))
  | GAug l tg v =>
      let n := GAug l (ghd tg (gvt tg)) (ghd v (gvt v)) in
      match tg with
      | GName x _ o => GCons (GNode LAssign (GCons (GName x CStore o) (gone (gld (GName x CLoad o))))) (gone n)
      | _ => gone n
      end
  | GDelete ts => let ts' := gvts ts in if any_name ts then gdel_each ts' else gone (GDelete ts')
  end
with gvts (ts : trees) : trees :=
  match ts with GNil => GNil | GCons t r => gapp (gvt t) (gvts r) end.

(* ------------------------------------------------------------------ core language *)
Inductive expr :=
  | EName (x : var) (orig : bool)
  | EConst (k : nat)
  | EOp (l : label) (es : exprs)          (* opaque user operation: logged with its argument values *)
  | ELd (e : expr)                        (* ag__.ld(e) *)
  | EUndefined (x : var)                  (* ag__.Undefined('x') *)
with exprs := ENil | ECons (e : expr) (es : exprs).

Scheme expr_ind2 := Induction for expr Sort Prop
  with exprs_ind2 := Induction for exprs Sort Prop.
Combined Scheme expr_exprs_ind from expr_ind2, exprs_ind2.

Inductive target := TgName (x : var) | TgComp (l : label) (es : exprs).     (* x  |  a.b, a[i] (es are read) *)
Inductive targets := TNil | TCons (t : target) (ts : targets).

Inductive stmt :=
  | SAssign (tg : target) (e : expr)
  | SAug (tg : target) (l : label) (e : expr)
  | SDel (ts : targets)
  | SExpr (e : expr)
  | SIf (e : expr) (b1 b2 : block)
  | SWhile (e : expr) (b : block)
with block := BNil | BCons (s : stmt) (b : block).

Scheme stmt_ind2 := Induction for stmt Sort Prop
  with block_ind2 := Induction for block Sort Prop.
Combined Scheme stmt_block_ind from stmt_ind2, block_ind2.

Fixpoint bapp (a b : block) : block := match a with BNil => b | BCons s r => BCons s (bapp r b) end.
Definition bone (s : stmt) := BCons s BNil.

(* the pass on the core language *)
Fixpoint vte (e : expr) : expr :=
  match e with
  | EName x true => ELd e
  | EName _ false => e
  | EConst _ => e
  | EOp l es => EOp l (vtes es)
  | ELd e1 => ELd (vte e1)
  | EUndefined _ => e
  end
with vtes (es : exprs) : exprs := match es with ENil => ENil | ECons e r => ECons (vte e) (vtes r) end.

Definition vtt (t : target) : target := match t with TgName x => t | TgComp l es => TgComp l (vtes es) end.
Fixpoint vtts (ts : targets) : targets := match ts with TNil => TNil | TCons t r => TCons (vtt t) (vtts r) end.

Definition tg_is_name (t : target) := match t with TgName _ => true | _ => false end.
Fixpoint any_tgname (ts : targets) := match ts with TNil => false | TCons t r => tg_is_name t || any_tgname r end.

Fixpoint del_each (ts : targets) : block :=
  match ts with
  | TNil => BNil
  | TCons (TgName x) r => BCons (SExpr (ELd (EName x true))) (BCons (SAssign (TgName x) (EUndefined x)) (del_each r))
  | TCons t r => BCons (SDel (TCons t TNil)) (del_each r)
  end.

Fixpoint vts (s : stmt) : block :=
  match s with
  | SAssign tg e => bone (SAssign (vtt tg) (vte e))
  | SAug tg l e =>
      match tg with
      | TgName x => BCons (SAssign (TgName x) (ELd (EName x true))) (bone (SAug tg l (vte e)))
      | _ => bone (SAug (vtt tg) l (vte e))
      end
  | SDel ts => if any_tgname ts then del_each (vtts ts) else bone (SDel (vtts ts))
  | SExpr e => bone (SExpr (vte e))
  | SIf e b1 b2 => bone (SIf (vte e) (vtb b1) (vtb b2))
  | SWhile e b => bone (SWhile (vte e) (vtb b))
  end
with vtb (b : block) : block := match b with BNil => BNil | BCons s r => bapp (vts s) (vtb r) end.

(* ------------------------------------------------------------------ embedding of the core language into trees *)
Fixpoint emb_e (e : expr) : tree :=
  match e with
  | EName x o => GName x CLoad o
  | EConst k => GNode (LConst k) GNil
  | EOp l es => GNode (LOp l) (emb_es es)
  | ELd e1 => gld (emb_e e1)
  | EUndefined x => gundef x
  end
with emb_es (es : exprs) : trees := match es with ENil => GNil | ECons e r => GCons (emb_e e) (emb_es r) end.

Definition emb_t (c : ctx) (t : target) : tree :=
  match t with TgName x => GName x c true | TgComp l es => GNode (LComp l) (emb_es es) end.
Fixpoint emb_ts (ts : targets) : trees := match ts with TNil => GNil | TCons t r => GCons (emb_t CDel t) (emb_ts r) end.

Fixpoint emb_s (s : stmt) : tree :=
  match s with
  | SAssign tg e => GNode LAssign (GCons (emb_t CStore tg) (gone (emb_e e)))
  | SAug tg l e => GAug l (emb_t CStore tg) (emb_e e)
  | SDel ts => GDelete (emb_ts ts)
  | SExpr e => GNode LExpr (gone (emb_e e))
  | SIf e b1 b2 => GNode LIf (GCons (emb_e e) (GCons (GNode LBlock (emb_b b1)) (gone (GNode LBlock (emb_b b2)))))
  | SWhile e b => GNode LWhile (GCons (emb_e e) (gone (GNode LBlock (emb_b b))))
  end
with emb_b (b : block) : trees := match b with BNil => GNil | BCons s r => GCons (emb_s s) (emb_b r) end.

(* ------------------------------------------------------------------ semantics of the core language *)
Inductive tval := TV (n : nat) | TUndef (x : var).
Inductive exc := XName (x : var) | XOp (l : label) | XLeak | XFuel.
Inductive res (A : Type) := Ok (a : A) | Exc (c : exc).
Arguments Ok {A} a. Arguments Exc {A} c.

Inductive event := EvOp (l : label) (args : list nat) | EvStore (l : label) (args : list nat) (v : nat) | EvDel (l : label) (args : list nat).
Record st := mkst { sto : var -> option tval; log : list event }.

Definition upd (s : var -> option tval) (x : var) (v : option tval) : var -> option tval :=
  fun y => if Nat.eqb y x then v else s y.
Definition setv (s : st) (x : var) (v : option tval) := mkst (upd (sto s) x v) (log s).
Definition addlog (s : st) (e : event) := mkst (sto s) (log s ++ [e]).

Fixpoint clean (vs : list tval) : option (list nat) :=
  match vs with
  | [] => Some []
  | TV n :: r => match clean r with Some ns => Some (n :: ns) | None => None end
  | TUndef _ :: _ => None
  end.

Section Sem.
  Variable opres : label -> list nat -> option nat.     (* what a user operation returns; None: it raises *)
  Variable truthy : nat -> bool.

  Fixpoint eval (e : expr) (s : st) : res tval * st :=
    match e with
    | EName x _ => match sto s x with Some v => (Ok v, s) | None => (Exc (XName x), s) end
    | EConst k => (Ok (TV k), s)
    | EOp l es =>
        match evals es s with
        | (Ok vs, s1) =>
            match clean vs with
            | None => (Exc XLeak, s1)
            | Some ns => let s2 := addlog s1 (EvOp l ns) in
                         match opres l ns with Some r => (Ok (TV r), s2) | None => (Exc (XOp l), s2) end
            end
        | (Exc c, s1) => (Exc c, s1)
        end
    | ELd e1 =>
        match eval e1 s with
        | (Ok (TUndef x), s1) => (Exc (XName x), s1)
        | r => r
        end
    | EUndefined x => (Ok (TUndef x), s)
    end
  with evals (es : exprs) (s : st) : res (list tval) * st :=
    match es with
    | ENil => (Ok [], s)
    | ECons e r =>
        match eval e s with
        | (Ok v, s1) => match evals r s1 with (Ok vs, s2) => (Ok (v :: vs), s2) | (Exc c, s2) => (Exc c, s2) end
        | (Exc c, s1) => (Exc c, s1)
        end
    end.

  (* the values of the sub-expressions of a composite target, all of them user values *)
  Definition eval_comp (es : exprs) (s : st) : res (list nat) * st :=
    match evals es s with
    | (Ok vs, s1) => match clean vs with Some ns => (Ok ns, s1) | None => (Exc XLeak, s1) end
    | (Exc c, s1) => (Exc c, s1)
    end.

  Definition assign (tg : target) (v : tval) (s : st) : res unit * st :=
    match tg with
    | TgName x => (Ok tt, setv s x (Some v))
    | TgComp l es =>
        match eval_comp es s with
        | (Ok ns, s1) => match v with TV n => (Ok tt, addlog s1 (EvStore l ns n)) | TUndef _ => (Exc XLeak, s1) end
        | (Exc c, s1) => (Exc c, s1)
        end
    end.

  (* Python evaluates the right-hand side of an assignment first *)
  Definition exec_assign (tg : target) (e : expr) (s : st) : res unit * st :=
    match eval e s with
    | (Ok v, s1) => assign tg v s1
    | (Exc c, s1) => (Exc c, s1)
    end.

  Definition exec_aug (tg : target) (l : label) (e : expr) (s : st) : res unit * st :=
    match tg with
    | TgName x =>
        match sto s x with
        | None => (Exc (XName x), s)
        | Some (TUndef _) => (Exc XLeak, s)
        | Some (TV n0) =>
            match eval e s with
            | (Ok (TV n1), s1) =>
                let s2 := addlog s1 (EvOp l [n0; n1]) in
                match opres l [n0; n1] with Some r => (Ok tt, setv s2 x (Some (TV r))) | None => (Exc (XOp l), s2) end
            | (Ok (TUndef _), s1) => (Exc XLeak, s1)
            | (Exc c, s1) => (Exc c, s1)
            end
        end
    | TgComp lc es =>
        match eval_comp es s with
        | (Ok ns, s1) =>
            let s2 := addlog s1 (EvOp lc ns) in
            match opres lc ns with
            | None => (Exc (XOp lc), s2)
            | Some n0 =>
                match eval e s2 with
                | (Ok (TV n1), s3) =>
                    let s4 := addlog s3 (EvOp l [n0; n1]) in
                    match opres l [n0; n1] with Some r => (Ok tt, addlog s4 (EvStore lc ns r)) | None => (Exc (XOp l), s4) end
                | (Ok (TUndef _), s3) => (Exc XLeak, s3)
                | (Exc c, s3) => (Exc c, s3)
                end
            end
        | (Exc c, s1) => (Exc c, s1)
        end
    end.

  Fixpoint exec_del (ts : targets) (s : st) : res unit * st :=
    match ts with
    | TNil => (Ok tt, s)
    | TCons (TgName x) r =>
        match sto s x with
        | None => (Exc (XName x), s)
        | Some _ => exec_del r (setv s x None)
        end
    | TCons (TgComp l es) r =>
        match eval_comp es s with
        | (Ok ns, s1) => exec_del r (addlog s1 (EvDel l ns))
        | (Exc c, s1) => (Exc c, s1)
        end
    end.

  Definition test (e : expr) (s : st) : res bool * st :=
    match eval e s with
    | (Ok (TV n), s1) => (Ok (truthy n), s1)
    | (Ok (TUndef _), s1) => (Exc XLeak, s1)
    | (Exc c, s1) => (Exc c, s1)
    end.

  Fixpoint loopf (tst : st -> res bool * st) (body : st -> res unit * st) (n : nat) (s : st) : res unit * st :=
    match n with
    | 0 => (Exc XFuel, s)
    | S n' =>
        match tst s with
        | (Ok true, s1) => match body s1 with (Ok _, s2) => loopf tst body n' s2 | r => r end
        | (Ok false, s1) => (Ok tt, s1)
        | (Exc x, s1) => (Exc x, s1)
        end
    end.

  Fixpoint exec (fuel : nat) (c : stmt) (s : st) : res unit * st :=
    match c with
    | SAssign tg e => exec_assign tg e s
    | SAug tg l e => exec_aug tg l e s
    | SDel ts => exec_del ts s
    | SExpr e => match eval e s with (Ok _, s1) => (Ok tt, s1) | (Exc x, s1) => (Exc x, s1) end
    | SIf e b1 b2 =>
        match test e s with
        | (Ok true, s1) => execb fuel b1 s1
        | (Ok false, s1) => execb fuel b2 s1
        | (Exc x, s1) => (Exc x, s1)
        end
    | SWhile e b => loopf (test e) (execb fuel b) fuel s
    end
  with execb (fuel : nat) (b : block) (s : st) : res unit * st :=
    match b with
    | BNil => (Ok tt, s)
    | BCons c r => match exec fuel c s with (Ok _, s1) => execb fuel r s1 | x => x end
    end.
End Sem.
