(* C09: lemmas about MV.Iface.Factory. *)
From Coq Require Import String List Bool Arith Lia Permutation.
Import ListNotations.
Require Import MV.Iface.IfaceSyntax MV.Iface.Factory.

(* ---------- membership, dictionaries ---------- *)
Lemma mem_In : forall n l, mem n l = true <-> In n l.
Proof.
  intros n l; unfold mem; rewrite existsb_exists; split.
  - intros [x [H E]]; apply String.eqb_eq in E; subst; exact H.
  - intros H; exists n; split; [exact H | apply String.eqb_refl].
Qed.

Lemma mem_false : forall n l, mem n l = false <-> ~ In n l.
Proof.
  intros n l; rewrite <- mem_In; destruct (mem n l); split; intros; try discriminate; auto.
  exfalso; apply H; reflexivity.
Qed.

Lemma dict_get_in : forall n m v, dict_get n m = Some v -> In (n, v) m.
Proof.
  induction m as [|[k w] r IH]; simpl; intros v H; [discriminate|].
  destruct (dict_get n r) eqn:E.
  - inversion H; subst; right; apply IH; reflexivity.
  - destruct (String.eqb k n) eqn:K; [|discriminate].
    apply String.eqb_eq in K; inversion H; subst; left; reflexivity.
Qed.

Lemma dict_get_none : forall n m, dict_get n m = None <-> ~ In n (map fst m).
Proof.
  induction m as [|[k w] r IH]; simpl.
  - split; auto.
  - destruct (dict_get n r) eqn:E.
    + split; [discriminate|]. intros H; exfalso; apply H; right.
      apply dict_get_in in E. change n with (fst (n, n0)). apply in_map; exact E.
    + destruct (String.eqb k n) eqn:K.
      * apply String.eqb_eq in K; subst; split; [discriminate|]. intros H; exfalso; apply H; left; reflexivity.
      * apply String.eqb_neq in K; split; [|reflexivity].
        intros _ [H|H]; [exact (K H)|]. apply IH in H; [exact H|reflexivity].
Qed.

Lemma dict_get_nodup : forall n v m, NoDup (map fst m) -> In (n, v) m -> dict_get n m = Some v.
Proof.
  induction m as [|[k w] r IH]; simpl; intros ND H; [contradiction|].
  inversion ND as [|? ? NI ND']; subst.
  destruct H as [H|H].
  - inversion H; subst.
    assert (E : dict_get n r = None) by (apply dict_get_none; exact NI).
    rewrite E, String.eqb_refl; reflexivity.
  - rewrite (IH ND' H); reflexivity.
Qed.

Lemma map_fst_combine : forall (A B : Type) (l : list A) (l' : list B),
  length l' = length l -> map fst (combine l l') = l.
Proof.
  induction l; destruct l'; simpl; intros H; try discriminate; [reflexivity|].
  f_equal; apply IHl; lia.
Qed.

Lemma select_spec : forall m ns cs, select m ns = Some cs ->
  length cs = length ns /\ forall n k, In (n, k) (combine ns cs) -> dict_get n m = Some k.
Proof.
  induction ns as [|a r IH]; simpl; intros cs H.
  - inversion H; subst; split; [reflexivity|]. simpl; contradiction.
  - destruct (dict_get a m) as [c0|] eqn:E; [|discriminate].
    destruct (select m r) as [cs0|] eqn:S; [|discriminate]. inversion H; subst.
    destruct (IH _ eq_refl) as [L P]; split; [simpl; lia|].
    simpl; intros n k [Q|Q]; [inversion Q; subst; exact E | apply P; exact Q].
Qed.

Lemma select_some : forall m ns, (forall n, In n ns -> dict_get n m <> None) -> exists cs, select m ns = Some cs.
Proof.
  induction ns as [|a r IH]; simpl; intros H; [eexists; reflexivity|].
  destruct (dict_get a m) eqn:E; [|exfalso; apply (H a); auto].
  destruct IH as [cs S]; [intros; apply H; auto|]. rewrite S; eexists; reflexivity.
Qed.

Lemma select_none : forall m ns n, In n ns -> dict_get n m = None -> select m ns = None.
Proof.
  induction ns as [|a r IH]; simpl; intros n H E; [contradiction|].
  destruct H as [H|H].
  - subst; rewrite E; reflexivity.
  - rewrite (IH n H E). destruct (dict_get a m); reflexivity.
Qed.

(* ---------- what cfg_ok gives ---------- *)
Lemma list_beq_eq : forall (A : Type) (eqb : A -> A -> bool),
  (forall x y, eqb x y = true -> x = y) -> forall l1 l2, list_beq eqb l1 l2 = true -> l1 = l2.
Proof.
  intros A eqb H; induction l1; destruct l2; simpl; intros E; try discriminate; [reflexivity|].
  apply andb_true_iff in E; destruct E as [E1 E2]; f_equal; [apply H; exact E1 | apply IHl1; exact E2].
Qed.

Lemma tname_beq_eq : forall x y, tname_beq x y = true -> x = y.
Proof. destruct x, y; simpl; intros; try discriminate; reflexivity. Qed.
Lemma tparams_beq_eq : forall x y, tparams_beq x y = true -> x = y.
Proof. destruct x, y; simpl; intros; try discriminate; reflexivity. Qed.
Lemma iitem_beq_eq : forall x y, iitem_beq x y = true -> x = y.
Proof. destruct x, y; simpl; intros H; try discriminate; try reflexivity. f_equal; apply tname_beq_eq; exact H. Qed.
Lemma oitem_beq_eq : forall x y, oitem_beq x y = true -> x = y.
Proof.
  destruct x, y; simpl; intros H; try discriminate; try reflexivity.
  - f_equal; apply tname_beq_eq; exact H.
  - apply andb_true_iff in H; destruct H as [H H3]; apply andb_true_iff in H; destruct H as [H1 H2].
    f_equal; [apply tname_beq_eq | apply tparams_beq_eq | apply (list_beq_eq _ _ iitem_beq_eq)]; assumption.
Qed.
Lemma mitem_beq_eq : forall x y, mitem_beq x y = true -> x = y.
Proof.
  destruct x, y; simpl; intros H; try discriminate; try reflexivity.
  apply andb_true_iff in H; destruct H as [H H3]; apply andb_true_iff in H; destruct H as [H1 H2].
  f_equal; [apply tname_beq_eq | apply tparams_beq_eq | apply (list_beq_eq _ _ oitem_beq_eq)]; assumption.
Qed.

Record cfg_facts (cfg : config) : Prop := {
  cf_keys : map_keys cfg = NSelfFreevars;
  cf_sel : select_by cfg = NFactoryFreevars;
  cf_ft : ft_closure cfg = ClSelected;
  cf_len : exists a b, len_check cfg = Some (a, b) /\ len_operand_ok a b = true;
  cf_dg : defaults_guard cfg <> GNever;
  cf_kg : kwdefaults_guard cfg <> GNever;
  cf_wrap : no_future (wrap_module cfg) = wrap_expected;
  cf_ed : erase_defaults cfg <> EraseNothing;
  cf_ek : erase_kwdefaults cfg <> EraseNothing;
  cf_first : erase_before_transform cfg = true;
  cf_deco : deco_top cfg = DecoClear;
  cf_level : deco_level cfg = 2
}.

Lemma cfg_ok_facts : forall cfg, cfg_ok cfg = true -> cfg_facts cfg.
Proof.
  intros cfg H; unfold cfg_ok in H.
  repeat (apply andb_true_iff in H; destruct H as [H ?]).
  constructor.
  - destruct (map_keys cfg), (select_by cfg), (ft_closure cfg); try discriminate; reflexivity.
  - destruct (map_keys cfg), (select_by cfg), (ft_closure cfg); try discriminate; reflexivity.
  - destruct (map_keys cfg), (select_by cfg), (ft_closure cfg); try discriminate; reflexivity.
  - destruct (len_check cfg) as [[a b]|]; [exists a, b; split; [reflexivity | assumption] | discriminate].
  - destruct (defaults_guard cfg); simpl in *; discriminate.
  - destruct (kwdefaults_guard cfg); simpl in *; discriminate.
  - apply (list_beq_eq _ _ mitem_beq_eq); assumption.
  - destruct (erase_defaults cfg); simpl in *; discriminate.
  - destruct (erase_kwdefaults cfg); simpl in *; discriminate.
  - assumption.
  - destruct (deco_top cfg); try discriminate; reflexivity.
  - apply Nat.eqb_eq; assumption.
Qed.

(* ---------- instantiate: cells are matched by name ---------- *)
Lemma len_check_meaning : forall a b fv ffv cl sel,
  len_operand_ok a b = true -> length sel = length ffv -> length cl = length fv ->
  Nat.eqb (len_of a fv ffv cl sel) (len_of b fv ffv cl sel) = Nat.eqb (length ffv) (length fv).
Proof.
  intros a b fv ffv cl sel H L1 L2.
  destruct a, b; simpl in H; try discriminate; simpl; rewrite ?L1, ?L2; try reflexivity; apply Nat.eqb_sym.
Qed.

Lemma nodup_incl_length_perm : forall (l l' : list name),
  NoDup l -> incl l l' -> length l = length l' -> Permutation l l'.
Proof. intros l l' ND I L; apply NoDup_Permutation_bis; [exact ND | lia | exact I]. Qed.

Section Instantiate.
  Variable cfg : config.
  Hypothesis OK : cfg_ok cfg = true.
  Variables (fv : list name) (cl : list nat) (ffv : list name).
  Hypothesis NDfv : NoDup fv.
  Hypothesis NDffv : NoDup ffv.
  Hypothesis LEN : length cl = length fv.

  Lemma inst_ok : forall fc, inst_closure cfg fv cl ffv = Ok fc ->
    length fc = length ffv /\ Permutation ffv fv
    /\ forall n k, In (n, k) (combine ffv fc) -> In (n, k) (combine fv cl).
  Proof.
    intros fc H. destruct (cfg_ok_facts cfg OK) as [K S F [a [b [C LC]]] _ _ _ _ _ _ _ _].
    unfold inst_closure in H. rewrite K, S, F, C in H. simpl in H.
    destruct (select (combine fv cl) ffv) as [sel|] eqn:E; [|discriminate].
    destruct (select_spec _ _ _ E) as [L P].
    assert (INC : incl ffv fv).
    { intros n Hn.
      assert (exists k, In (n, k) (combine ffv sel)) as [k Hk].
      { clear - Hn L. revert sel L; induction ffv as [|x r IH]; intros sel L; [contradiction|].
        destruct sel as [|c cs]; [discriminate|]. destruct Hn as [Hn|Hn].
        - subst; exists c; left; reflexivity.
        - destruct (IH Hn cs) as [k Hk]; [simpl in L; lia|]. exists k; right; exact Hk. }
      apply P in Hk. apply dict_get_in in Hk. apply in_combine_l in Hk; exact Hk. }
    rewrite (len_check_meaning a b fv ffv cl sel LC L LEN) in H.
    destruct (Nat.eqb (length ffv) (length fv)) eqn:Q; [|discriminate].
    apply Nat.eqb_eq in Q. rewrite L, Nat.eqb_refl in H. inversion H; subst.
    split; [exact L|]. split; [apply nodup_incl_length_perm; assumption|].
    intros n k Hk. apply dict_get_in. apply P; exact Hk.
  Qed.

  Lemma inst_perm_succeeds : Permutation ffv fv -> exists fc, inst_closure cfg fv cl ffv = Ok fc.
  Proof.
    intros PM. destruct (cfg_ok_facts cfg OK) as [K S F [a [b [C LC]]] _ _ _ _ _ _ _ _].
    unfold inst_closure. rewrite K, S, F, C. simpl.
    destruct (select_some (combine fv cl) ffv) as [sel E].
    { intros n Hn X. apply dict_get_none in X. apply X. rewrite map_fst_combine by exact LEN.
      apply (Permutation_in _ PM); exact Hn. }
    rewrite E. destruct (select_spec _ _ _ E) as [L _].
    rewrite (len_check_meaning a b fv ffv cl sel LC L LEN).
    replace (Nat.eqb (length ffv) (length fv)) with true
      by (symmetry; apply Nat.eqb_eq; apply Permutation_length; exact PM).
    rewrite L, Nat.eqb_refl. eexists; reflexivity.
  Qed.

  Lemma inst_keyerror : ~ incl ffv fv -> inst_closure cfg fv cl ffv = Err KeyError.
  Proof.
    intros NI. destruct (cfg_ok_facts cfg OK) as [K S F _ _ _ _ _ _ _ _ _].
    unfold inst_closure. rewrite K, S, F. simpl.
    assert (exists n, In n ffv /\ ~ In n fv) as [n [H1 H2]].
    { clear - NI. induction ffv as [|a r IH].
      - exfalso; apply NI; intros x [].
      - destruct (in_dec string_dec a fv) as [Y|N]; [|exists a; split; [left; reflexivity | exact N]].
        destruct IH as [n [H1 H2]].
        + intros I; apply NI; intros x [X|X]; [subst; exact Y | apply I; exact X].
        + exists n; split; [right; exact H1 | exact H2]. }
    rewrite (select_none _ _ n H1); [reflexivity|].
    apply dict_get_none. rewrite map_fst_combine by exact LEN. exact H2.
  Qed.

  Lemma inst_valueerror : incl ffv fv -> ~ Permutation ffv fv ->
    inst_closure cfg fv cl ffv = Err ValueError.
  Proof.
    intros INC NP. destruct (cfg_ok_facts cfg OK) as [K S F [a [b [C LC]]] _ _ _ _ _ _ _ _].
    unfold inst_closure. rewrite K, S, F, C. simpl.
    destruct (select_some (combine fv cl) ffv) as [sel E].
    { intros n Hn X. apply dict_get_none in X. apply X. rewrite map_fst_combine by exact LEN.
      apply INC; exact Hn. }
    rewrite E. destruct (select_spec _ _ _ E) as [L _].
    rewrite (len_check_meaning a b fv ffv cl sel LC L LEN).
    destruct (Nat.eqb (length ffv) (length fv)) eqn:Q; [|reflexivity].
    exfalso; apply NP. apply Nat.eqb_eq in Q. apply nodup_incl_length_perm; assumption.
  Qed.
End Instantiate.

(* ---------- scopes of the generated module ---------- *)
Lemma wrap_scopes_ok : forall cfg e fv, cfg_ok cfg = true ->
  wrap_scopes cfg e fv = Some {| outer_locals := fv ++ [e_inner e];
                                 inner_locals := e_extra e ++ [e_entity e];
                                 inner_refs := e_unbound e ++ [e_entity e] |}.
Proof.
  intros cfg e fv H. destruct (cfg_ok_facts cfg H) as [_ _ _ _ _ _ W _ _ _ _ _].
  unfold wrap_scopes. rewrite W. unfold wrap_expected. cbn.
  rewrite ?app_nil_r. reflexivity.
Qed.

Lemma dedup_In : forall n l, In n (dedup l) <-> In n l.
Proof.
  induction l as [|a r IH]; simpl; [tauto|].
  destruct (mem a r) eqn:M.
  - rewrite IH. split; [auto|]. intros [X|X]; [subst; apply mem_In; exact M | exact X].
  - simpl. rewrite IH. tauto.
Qed.

Lemma dedup_NoDup : forall l, NoDup (dedup l).
Proof.
  induction l as [|a r IH]; simpl; [constructor|].
  destruct (mem a r) eqn:M; [exact IH|]. constructor; [|exact IH].
  rewrite dedup_In. apply mem_false; exact M.
Qed.

Lemma assoc_in : forall n m k, assoc n m = Some k -> In (n, k) m.
Proof.
  induction m as [|[a v] r IH]; simpl; intros k H; [discriminate|].
  destruct (String.eqb a n) eqn:E.
  - apply String.eqb_eq in E; inversion H; subst; left; reflexivity.
  - right; apply IH; exact H.
Qed.

Lemma entity_closure_spec : forall s fc ns cells, entity_closure s fc ns = Some cells ->
  map fst cells = ns /\
  forall n r, In (n, r) cells ->
    (mem n (inner_locals s) = true /\ r = CFresh n)
    \/ (mem n (inner_locals s) = false /\ exists k, r = COrig k /\ In (n, k) fc).
Proof.
  induction ns as [|a r IH]; simpl; intros cells H.
  - inversion H; subst; split; [reflexivity|]. simpl; contradiction.
  - destruct (entity_closure s fc r) as [cs|] eqn:E; [|discriminate].
    destruct (IH _ eq_refl) as [M P].
    destruct (mem a (inner_locals s)) eqn:Q.
    + inversion H; subst; split; [reflexivity|].
      simpl; intros n x [X|X]; [inversion X; subst; left; auto | apply P; exact X].
    + destruct (assoc a fc) as [k|] eqn:A; [|discriminate].
      inversion H; subst; split; [reflexivity|].
      simpl; intros n x [X|X]; [|apply P; exact X].
      inversion X; subst; right; split; [exact Q|]. exists k; split; [reflexivity | apply assoc_in; exact A].
Qed.

(* ---------- evaluation of the regenerated def ---------- *)
Lemma kw_pairs_map : forall (f : dexpr -> dexpr) ks ds,
  kw_pairs ks (map (option_map f) ds) = map (fun p => (fst p, f (snd p))) (kw_pairs ks ds).
Proof.
  induction ks as [|k r IH]; destruct ds as [|[d|] ds']; simpl; try reflexivity.
  - f_equal; apply IH.
  - apply IH.
Qed.

Lemma erased_no_event : forall v, fst (eval_dexpr (erased_of v)) = [].
Proof. destruct v; reflexivity. Qed.

Lemma erased_value : forall v, snd (eval_dexpr (erased_of v)) = VNone \/ snd (eval_dexpr (erased_of v)) = VConst.
Proof. destruct v; simpl; auto. Qed.

Lemma concat_all_nil : forall (A : Type) (l : list (list A)), (forall x, In x l -> x = []) -> concat l = [].
Proof.
  induction l as [|a r IH]; simpl; intros H; [reflexivity|].
  rewrite (H a) by (left; reflexivity). apply IH; intros; apply H; right; assumption.
Qed.

Lemma norm_opt_nonempty : forall (A : Type) (l : list A), norm (opt_nonempty l) = l.
Proof. destruct l; reflexivity. Qed.

Lemma eval_def_erased : forall cfg s, cfg_ok cfg = true ->
  let '(evs, d, kd) := eval_def (erase cfg s) [] in
  evs = []
  /\ (s_defaults s = [] -> d = None)
  /\ (kw_pairs (kwonly (s_params s)) (s_kwdefaults s) = [] -> kd = None)
  /\ (forall v, In v (norm d) -> v = VNone \/ v = VConst)
  /\ (forall p, In p (norm kd) -> snd p = VNone \/ snd p = VConst).
Proof.
  intros cfg s H. destruct (cfg_ok_facts cfg H) as [_ _ _ _ _ _ _ ED EK _ _ _].
  unfold eval_def, erase. simpl.
  assert (D : s_defaults (erase cfg s) = map (fun _ => erased_expr cfg) (s_defaults s)).
  { unfold erase; simpl. destruct (erase_defaults cfg); try reflexivity. exfalso; apply ED; reflexivity. }
  assert (K : s_kwdefaults (erase cfg s) = map (option_map (fun _ => erased_kwexpr cfg)) (s_kwdefaults s)).
  { unfold erase; simpl. destruct (erase_kwdefaults cfg); try reflexivity. exfalso; apply EK; reflexivity. }
  unfold erase in D, K; simpl in D, K. rewrite D, K. rewrite kw_pairs_map.
  rewrite !map_map. simpl. rewrite app_nil_r.
  repeat split.
  - rewrite !concat_all_nil; [reflexivity| |].
    + intros x Hx. apply in_map_iff in Hx. destruct Hx as [p [E _]]. subst; apply erased_no_event.
    + intros x Hx. apply in_map_iff in Hx. destruct Hx as [p [E _]]. subst; apply erased_no_event.
  - intros E; rewrite E; reflexivity.
  - intros E; rewrite E; reflexivity.
  - intros v Hv. rewrite norm_opt_nonempty in Hv. apply in_map_iff in Hv.
    destruct Hv as [p [E _]]. subst; apply erased_value.
  - intros p Hp. rewrite norm_opt_nonempty in Hp. apply in_map_iff in Hp.
    destruct Hp as [q [E _]]. subst; simpl; apply erased_value.
Qed.

(* ---------- inversion of convert ---------- *)
Lemma convert_inv : forall cfg o e ffv c, cfg_ok cfg = true -> e_level e = 2 -> convert cfg o e ffv = Ok c ->
  let s := {| outer_locals := o_freevars o ++ [e_inner e];
              inner_locals := e_extra e ++ [e_entity e];
              inner_refs := e_unbound e ++ [e_entity e] |} in
  exists fc cells,
    inst_closure cfg (o_freevars o) (o_closure o) ffv = Ok fc
    /\ entity_closure s (combine ffv fc) (entity_free s e) = Some cells
    /\ c = let '(evs, d, kd) := eval_def (erase cfg (o_sig o)) [] in
           {| c_params := s_params (o_sig o);
              c_defaults := if attaches (defaults_guard cfg) (o_defaults o) then o_defaults o else d;
              c_kwdefaults := if attaches (kwdefaults_guard cfg) (o_kwdefaults o) then o_kwdefaults o else kd;
              c_globals := o_globals o;
              c_closure := cells;
              c_events := evs |}.
Proof.
  intros cfg o e ffv c H LV C. simpl.
  destruct (cfg_ok_facts cfg H) as [_ _ _ _ _ _ _ _ _ EF DT DL].
  unfold convert in C. rewrite (wrap_scopes_ok cfg e (o_freevars o) H) in C.
  destruct (inst_closure cfg (o_freevars o) (o_closure o) ffv) as [fc|x] eqn:I; [|discriminate].
  match type of C with match ?X with _ => _ end = _ => destruct X as [cells|] eqn:EC end; [|discriminate].
  exists fc, cells. split; [reflexivity|]. split; [exact EC|].
  rewrite EF in C. unfold transformed_decos in C. rewrite DL, LV, DT in C. simpl in C.
  destruct (eval_def (erase cfg (o_sig o)) []) as [[evs d] kd]. inversion C; reflexivity.
Qed.

(* ---------- main lemmas ---------- *)
Lemma norm_not_attached : forall (A B : Type) g (rt : option (list A)) (src : list B),
  guard_covers g rt src = true -> attaches g rt = false -> norm rt = [] /\ src = [].
Proof.
  intros A B g rt src G N. destruct g; simpl in *; try discriminate.
  - rewrite N in G; simpl in G. destruct src; [|discriminate]. split; [|reflexivity].
    destruct rt as [[|]|]; simpl in *; try reflexivity; discriminate.
  - destruct rt; [discriminate|]. destruct src; [|discriminate]. split; reflexivity.
Qed.

Lemma signature_lemma : forall cfg o e ffv c, cfg_ok cfg = true -> e_level e = 2 -> convert cfg o e ffv = Ok c ->
  c_params c = s_params (o_sig o)
  /\ (defaults_covered cfg o = true ->
      norm (c_defaults c) = norm (o_defaults o) /\ norm (c_kwdefaults c) = norm (o_kwdefaults o)).
Proof.
  intros cfg o e ffv c H LV C.
  destruct (convert_inv cfg o e ffv c H LV C) as [fc [cells [_ [_ E]]]].
  pose proof (eval_def_erased cfg (o_sig o) H) as EV.
  destruct (eval_def (erase cfg (o_sig o)) []) as [[evs d] kd].
  destruct EV as [_ [D0 [K0 _]]]. subst c; simpl. split; [reflexivity|].
  intros CV. unfold defaults_covered in CV. apply andb_true_iff in CV. destruct CV as [C1 C2]. split.
  - destruct (attaches (defaults_guard cfg) (o_defaults o)) eqn:A; [reflexivity|].
    destruct (norm_not_attached _ _ _ _ _ C1 A) as [N S]. rewrite N, (D0 S); reflexivity.
  - destruct (attaches (kwdefaults_guard cfg) (o_kwdefaults o)) eqn:A; [reflexivity|].
    destruct (norm_not_attached _ _ _ _ _ C2 A) as [N S]. rewrite N, (K0 S); reflexivity.
Qed.

Lemma covered_when_always : forall cfg o, defaults_guard cfg = GAlways -> kwdefaults_guard cfg = GAlways ->
  defaults_covered cfg o = true.
Proof. intros cfg o A B; unfold defaults_covered; rewrite A, B; reflexivity. Qed.

Lemma defaults_lemma : forall cfg o e ffv c, cfg_ok cfg = true -> e_level e = 2 -> convert cfg o e ffv = Ok c ->
  c_events c = []
  /\ (forall v, In v (norm (c_defaults c)) -> In v (norm (o_defaults o)) \/ v = VNone \/ v = VConst)
  /\ (forall p, In p (norm (c_kwdefaults c)) -> In p (norm (o_kwdefaults o)) \/ snd p = VNone \/ snd p = VConst).
Proof.
  intros cfg o e ffv c H LV C.
  destruct (convert_inv cfg o e ffv c H LV C) as [fc [cells [_ [_ E]]]].
  pose proof (eval_def_erased cfg (o_sig o) H) as EV.
  destruct (eval_def (erase cfg (o_sig o)) []) as [[evs d] kd].
  destruct EV as [E0 [_ [_ [VD VK]]]]. subst c; simpl. split; [exact E0|]. split.
  - intros v Hv. destruct (attaches (defaults_guard cfg) (o_defaults o)); [left; exact Hv | right; apply VD; exact Hv].
  - intros p Hp. destruct (attaches (kwdefaults_guard cfg) (o_kwdefaults o)); [left; exact Hp | right; apply VK; exact Hp].
Qed.

Lemma globals_lemma : forall cfg o e ffv c, convert cfg o e ffv = Ok c -> c_globals c = o_globals o.
Proof.
  intros cfg o e ffv c C. unfold convert in C.
  destruct (wrap_scopes cfg e (o_freevars o)); [|discriminate].
  destruct (inst_closure cfg (o_freevars o) (o_closure o) ffv); [|discriminate].
  match type of C with match ?X with _ => _ end = _ => destruct X end; [|discriminate].
  destruct (eval_def _ _) as [[? ?] ?].
  inversion C; reflexivity.
Qed.

Lemma cells_lemma : forall cfg o e ffv c, cfg_ok cfg = true -> e_level e = 2 ->
  NoDup (o_freevars o) -> NoDup ffv -> length (o_closure o) = length (o_freevars o) ->
  (forall s, wrap_scopes cfg e (o_freevars o) = Some s -> forall n, In n ffv <-> In n (model_ffv s)) ->
  convert cfg o e ffv = Ok c ->
  let orig_cells := combine (o_freevars o) (o_closure o) in
  (forall n, In n (o_freevars o) -> exists k, In (n, COrig k) (c_closure c) /\ In (n, k) orig_cells)
  /\ Permutation ffv (o_freevars o)
  /\ (forall n k, In (n, COrig k) (c_closure c) -> In (n, k) orig_cells)
  /\ (forall n n', In (n, CFresh n') (c_closure c) -> n' = n /\ In n (e_extra e ++ [e_entity e]))
  /\ NoDup (map fst (c_closure c)).
Proof.
  intros cfg o e ffv c H LV ND NDF LEN FFV C. simpl.
  destruct (convert_inv cfg o e ffv c H LV C) as [fc [cells [I [EC E]]]].
  set (s := {| outer_locals := o_freevars o ++ [e_inner e];
               inner_locals := e_extra e ++ [e_entity e];
               inner_refs := e_unbound e ++ [e_entity e] |}) in *.
  assert (CC : c_closure c = cells).
  { subst c. destruct (eval_def (erase cfg (o_sig o)) []) as [[? ?] ?]; reflexivity. }
  rewrite CC. clear E CC.
  destruct (inst_ok cfg H _ _ _ NDF LEN fc I) as [L [PM BY]].
  destruct (entity_closure_spec _ _ _ _ EC) as [MF SP].
  specialize (FFV s (wrap_scopes_ok cfg e (o_freevars o) H)).
  split; [|split; [exact PM|split; [|split]]].
  - intros n Hn0. assert (Hn : In n ffv) by (apply (Permutation_in _ (Permutation_sym PM)); exact Hn0).
    apply FFV in Hn. unfold model_ffv in Hn. apply (proj1 (dedup_In _ _)) in Hn.
    apply filter_In in Hn. destruct Hn as [R Q]. apply andb_true_iff in Q. destruct Q as [Q1 Q2].
    apply negb_true_iff in Q1.
    assert (U : In n (e_unbound e)).
    { simpl in R. apply in_app_or in R. destruct R as [R|[R|[]]]; [exact R|].
      exfalso. subst n. apply mem_false in Q1. apply Q1. simpl. apply in_or_app; right; left; reflexivity. }
    assert (EF : In n (entity_free s e)).
    { unfold entity_free. apply dedup_In. apply filter_In. split; [exact U|]. rewrite Q2; apply orb_true_r. }
    assert (exists r, In (n, r) cells) as [r Hr].
    { rewrite <- MF in EF. apply in_map_iff in EF. destruct EF as [[a b] [E1 E2]]. simpl in E1; subst.
      exists b; exact E2. }
    destruct (SP _ _ Hr) as [[X _]|[_ [k [X Y]]]]; [rewrite X in Q1; discriminate|].
    subst r. exists k. split; [exact Hr | apply BY; exact Y].
  - intros n k Hk. destruct (SP _ _ Hk) as [[_ X]|[_ [k' [X Y]]]]; [discriminate|].
    inversion X; subst. apply BY; exact Y.
  - intros n n' Hk. destruct (SP _ _ Hk) as [[X Y]|[_ [k' [X _]]]]; [|discriminate].
    inversion Y; subst. split; [reflexivity | apply mem_In in X; exact X].
  - rewrite MF. apply dedup_NoDup.
Qed.

(* with duplicate-free names "the cell of n" is unique *)
Lemma cell_of_name_unique : forall (fv : list name) (cl : list nat) n k k',
  NoDup fv -> length cl = length fv ->
  In (n, k) (combine fv cl) -> In (n, k') (combine fv cl) -> k = k'.
Proof.
  intros fv cl n k k' ND L H1 H2.
  assert (NM : NoDup (map fst (combine fv cl))) by (rewrite map_fst_combine by exact L; exact ND).
  pose proof (dict_get_nodup _ _ _ NM H1) as E1. pose proof (dict_get_nodup _ _ _ NM H2) as E2.
  rewrite E1 in E2; inversion E2; reflexivity.
Qed.
