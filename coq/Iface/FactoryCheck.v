(* C09: the correspondence checker evaluated by vm_compute on the cases the harness
   writes (tools/props/c09.py): every modelled step is compared with what the real
   implementation and CPython did for the same function. *)
From Coq Require Import String List Bool Arith.
Import ListNotations.
Require Import MV.Iface.IfaceSyntax MV.Generated.C09_gen MV.Iface.Factory.

Definition opt_beq {A} (eqb : A -> A -> bool) (a b : option A) : bool :=
  match a, b with Some x, Some y => eqb x y | None, None => true | _, _ => false end.
Definition names_beq := list_beq String.eqb.
Definition params_beq (a b : params) : bool :=
  names_beq (posonly a) (posonly b) && names_beq (pargs a) (pargs b)
  && opt_beq String.eqb (vararg a) (vararg b) && names_beq (kwonly a) (kwonly b)
  && opt_beq String.eqb (kwarg a) (kwarg b).
Definition dexpr_beq (a b : dexpr) : bool :=
  match a, b with
  | DNone, DNone | DConst, DConst => true
  | DUser x, DUser y => Nat.eqb x y
  | _, _ => false
  end.
Definition fsig_beq (a b : fsig) : bool :=
  params_beq (s_params a) (s_params b) && list_beq dexpr_beq (s_defaults a) (s_defaults b)
  && list_beq (opt_beq dexpr_beq) (s_kwdefaults a) (s_kwdefaults b).
Definition value_beq (a b : value) : bool :=
  match a, b with
  | VNone, VNone | VConst, VConst => true
  | VEval x, VEval y | VObj x, VObj y => Nat.eqb x y
  | _, _ => false
  end.
Definition event_beq (a b : event) : bool :=
  match a, b with
  | EvalUser x, EvalUser y | ApplyDeco x, ApplyDeco y => Nat.eqb x y
  | _, _ => false
  end.
Definition cellref_beq (a b : cellref) : bool :=
  match a, b with
  | COrig x, COrig y => Nat.eqb x y
  | CFresh x, CFresh y => String.eqb x y
  | _, _ => false
  end.
Definition err_beq (a b : err) : bool :=
  match a, b with
  | KeyError, KeyError | ValueError, ValueError | LoadError, LoadError => true
  | _, _ => false
  end.

Definition subset {A} (eqb : A -> A -> bool) (l1 l2 : list A) : bool :=
  forallb (fun x => existsb (eqb x) l2) l1.
Definition set_beq {A} (eqb : A -> A -> bool) (l1 l2 : list A) : bool :=
  subset eqb l1 l2 && subset eqb l2 l1.
Definition kwv_beq (a b : name * value) : bool := String.eqb (fst a) (fst b) && value_beq (snd a) (snd b).
Definition cell_beq (a b : name * cellref) : bool := String.eqb (fst a) (fst b) && cellref_beq (snd a) (snd b).

(* what was observed *)
Inductive outcome :=
| OErr (e : err)
| OFn (p : params) (d : option (list value)) (kd : option (list (name * value))) (g : nat)
      (cells : list (name * cellref)) (evs : list event).

Record case := mkCase {
  k_index : nat;
  k_orig : orig;
  k_env : env;
  k_ffv : list name;                 (* factory code co_freevars, in CPython's order *)
  k_outer : option (list name * list name);
                                     (* symtable: names bound in outer / inner factory *)
  k_entity_free : list name;         (* co_freevars of the converted function *)
  k_sig_after : option fsig;         (* parameter list leaving transform_ast *)
  k_decos_after : list nat;
  k_outcome : outcome
}.

Definition check_case (cfg : config) (k : case) : bool :=
  let o := k_orig k in let e := k_env k in
  let sg := if erase_before_transform cfg then erase cfg (o_sig o) else o_sig o in
  match k_sig_after k with Some s' => fsig_beq sg s' | None => true end
  && list_beq Nat.eqb (transformed_decos cfg e (o_decos o)) (k_decos_after k)
  && match wrap_scopes cfg e (o_freevars o), k_outer k with
     | Some s, Some (ol, il) =>
         set_beq String.eqb (outer_locals s) ol && set_beq String.eqb (inner_locals s) il
         && set_beq String.eqb (model_ffv s) (k_ffv k)
         && Nat.eqb (List.length (model_ffv s)) (List.length (k_ffv k))
         && match k_outcome k with
            | OFn _ _ _ _ _ _ => set_beq String.eqb (entity_free s e) (k_entity_free k)
            | OErr _ => true
            end
     | _, None => true
     | None, Some _ => false
     end
  && match convert cfg o e (k_ffv k), k_outcome k with
     | Err x, OErr y => err_beq x y
     | Ok c, OFn p d kd g cells evs =>
         params_beq (c_params c) p
         && opt_beq (list_beq value_beq) (c_defaults c) d
         && opt_beq (list_beq kwv_beq) (c_kwdefaults c) kd
         && Nat.eqb (c_globals c) g
         && set_beq cell_beq (c_closure c) cells
         && Nat.eqb (List.length (c_closure c)) (List.length cells)
         && list_beq event_beq (c_events c) evs
     | _, _ => false
     end.

Definition failing (cs : list case) : list nat :=
  map k_index (filter (fun k => negb (check_case config_gen k)) cs).
