(* C09: vocabulary shared by the table generated from malt/pyct/transpiler.py and
   malt/converters/functions.py (coq/Generated/C09_gen.v) and the hand model. *)
From Coq Require Import List.
Import ListNotations.

(* a list of names available inside _PythonFnFactory.instantiate *)
Inductive names_src := NSelfFreevars      (* self._freevars = fn.__code__.co_freevars *)
                     | NFactoryFreevars.  (* self._unbound_factory.__code__.co_freevars *)
Inductive len_operand := LSelected | LClosureArg | LSelfFreevars | LFactoryFreevars.
Inductive closure_src := ClSelected | ClClosureArg.
(* guard in front of `new_fn.__defaults__ = defaults` *)
Inductive attach_guard := GTruthy | GNotNone | GAlways | GNever.

(* the template of _wrap_into_factory *)
Inductive tname := NOuter | NInner | NEntity.
Inductive tparams := PNone | PFactoryArgs.
Inductive iitem := IDummies | IEntity | IRet (n : tname).
Inductive oitem := ODummies | OEntity | ORet (n : tname) | ODef (n : tname) (p : tparams) (body : list iitem).
Inductive mitem := MFuture | MDef (n : tname) (p : tparams) (body : list oitem).

Inductive erase_mode := EraseAll | ErasePresent | EraseNothing.
Inductive erase_value := EConstNone | EConstOther.
Inductive deco_action := DecoClear | DecoKeep | DecoAppendArtifact.

Record config := {
  map_keys : names_src;                         (* closure_map = dict(zip(<map_keys>, closure)) *)
  select_by : names_src;                        (* tuple(closure_map[n] for n in <select_by>) *)
  len_check : option (len_operand * len_operand);
  ft_closure : closure_src;                     (* types.FunctionType(..., closure=<ft_closure>) *)
  defaults_guard : attach_guard;
  kwdefaults_guard : attach_guard;
  wrap_module : list mitem;
  erase_defaults : erase_mode;
  erase_kwdefaults : erase_mode;
  erase_const : erase_value;                    (* placeholder for positional defaults *)
  erase_kwconst : erase_value;                  (* placeholder for keyword-only defaults *)
  erase_before_transform : bool;
  deco_top : deco_action;                       (* fn_scope.level <= deco_level *)
  deco_nested : deco_action;
  deco_level : nat
}.

(* ---- the cache that chooses the factory serving a function (malt/pyct/cache.py
   CodeObjectCache as used by PyToPy.transform_function; generated into
   coq/Generated/C09_cache_gen.v by tools/translate/c09_cache.py) ---- *)
(* what _get_key makes of a function *)
Inductive key_src := KCode      (* entity.__code__: code objects hash and compare BY VALUE *)
                   | KCodeId.   (* id(entity.__code__): the address of the code object *)
(* the mapping behind self._cache *)
Inductive store_kind := SWeakKeys   (* weakref.WeakKeyDictionary(): the entry goes when the key object dies *)
                      | SStrong.    (* a plain dict *)
Record cache_config := { ck_key : key_src; ck_store : store_kind }.
