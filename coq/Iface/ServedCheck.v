(* C09: the recorded history of one run of the harness (tools/props/c09.py: every code
   object that reached PyToPy.transform_function -- creation, address, value, death as seen
   by a weak-reference callback -- and which factory served each conversion) replayed on
   the model MV.Iface.Served over the configuration generated from malt/pyct/cache.py,
   evaluated by vm_compute. *)
From Coq Require Import List Bool NArith.
Import ListNotations.
Require Import MV.Iface.IfaceSyntax MV.Generated.C09_cache_gen MV.Iface.Served.

Definition served_beq (a b : served) : bool :=
  match a, b with
  | SFactory x, SFactory y => N.eqb x y
  | STypeError, STypeError | SNoObject, SNoObject => true
  | _, _ => false
  end.
Definition out_beq (a b : N * served) : bool := N.eqb (fst a) (fst b) && served_beq (snd a) (snd b).

Record hcase := mkHCase { h_events : list hev; h_observed : list (N * served) }.

(* 1-based ordinals of the conversions on which model and implementation differ (a missing
   or surplus conversion counts as a difference at the first unmatched ordinal) *)
Fixpoint diff (n : nat) (a b : list (N * served)) : list nat :=
  match a, b with
  | [], [] => []
  | x :: r, y :: s => if out_beq x y then diff (S n) r s else n :: diff (S n) r s
  | _, _ => [n]
  end.

(* [0] when the recorded history is not one CPython can produce (fresh identities, no two
   live objects at one address, only live objects die / are converted) *)
Definition hist_mismatches (k : hcase) : list nat :=
  (if wf_hist cache_gen empty_world (h_events k) then [] else [0%nat])
  ++ firstn 20 (diff 1 (outputs cache_gen empty_world (h_events k)) (h_observed k)).
