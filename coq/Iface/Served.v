(* C09: which generated factory serves a function.  PyToPy.transform_function looks the
   function up in a cache before converting it, and instantiates whatever factory it finds
   with the function's own globals / closure / defaults: the calling interface (parameter
   names, kinds, order) of the result is that of the function the factory was GENERATED
   FROM.  This file models the life of code objects (creation at an address, death, the
   address being handed out again), the cache as configured in malt/pyct/cache.py
   (coq/Generated/C09_cache_gen.v) and the sequence of conversions, so that "the converted
   function has the interface of ITS original" can be stated over whole histories.
   S (runtime, validated on every run by MV.Iface.ServedCheck over the recorded history):
   weakref.WeakKeyDictionary semantics, code-object equality, address reuse.
   No proofs in this file. *)
From Coq Require Import List Bool NArith.
Import ListNotations.
Require Import MV.Iface.IfaceSyntax.
Local Open Scope N_scope.

(* a code object: a unique identity (never reused), the address CPython gave it (reused after
   its death), its value (two code objects are == iff they have the same value: same name,
   first line, parameter counts, flags, bytecode, constants, names, variable names, line
   table; the file name is NOT part of it) *)
Record cobj := mkObj { ob_uid : N; ob_addr : N; ob_val : N; ob_alive : bool }.

Inductive ckey := KVal (v : N) | KAddr (a : N).
Definition ckey_eqb (a b : ckey) : bool :=
  match a, b with
  | KVal x, KVal y | KAddr x, KAddr y => N.eqb x y
  | _, _ => false
  end.

(* one factory in the two-level cache: cache[key][subkey] = factory generated from the
   function whose code object is [en_src]; [en_holder] is the code object the (weak) key of
   the bucket refers to, i.e. the first one that created the bucket *)
Record centry := mkEntry { en_key : ckey; en_holder : N; en_sub : N; en_src : N }.
Record world := mkWorld { w_objs : list cobj; w_entries : list centry }.
Definition empty_world : world := mkWorld [] [].

Inductive hev := ENew (uid addr val : N)      (* a code object comes to life *)
               | EDie (uid : N)               (* ... is deallocated *)
               | EConvert (uid sub : N).      (* transform_function(fn with that code, options -> subkey) *)

Inductive served := SFactory (src : N)        (* factory generated from the code object [src] *)
                  | STypeError                (* weak reference to an int *)
                  | SNoObject.                (* ill-formed history *)

Fixpoint find_obj (u : N) (l : list cobj) : option cobj :=
  match l with
  | [] => None
  | o :: r => if N.eqb (ob_uid o) u then Some o else find_obj u r
  end.

Definition key_of (cfg : cache_config) (o : cobj) : ckey :=
  match ck_key cfg with KCode => KVal (ob_val o) | KCodeId => KAddr (ob_addr o) end.

Fixpoint lookup (k : ckey) (sub : N) (l : list centry) : option centry :=
  match l with
  | [] => None
  | e :: r => if ckey_eqb (en_key e) k && N.eqb (en_sub e) sub then Some e else lookup k sub r
  end.

(* the bucket of a key is created once (`self._cache[key] = parent = {}`) and keyed by a weak
   reference to the code object that was looked up then *)
Fixpoint bucket_holder (k : ckey) (dflt : N) (l : list centry) : N :=
  match l with
  | [] => dflt
  | e :: r => if ckey_eqb (en_key e) k then en_holder e else bucket_holder k dflt r
  end.

(* a plain dict keyed by the code object itself keeps that object alive *)
Definition held_strongly (cfg : cache_config) (w : world) (u : N) : bool :=
  match ck_key cfg, ck_store cfg with
  | KCode, SStrong => existsb (fun e => N.eqb (en_holder e) u) (w_entries w)
  | _, _ => false
  end.

Definition kill (u : N) (l : list cobj) : list cobj :=
  map (fun o => if N.eqb (ob_uid o) u then mkObj (ob_uid o) (ob_addr o) (ob_val o) false else o) l.

Definition step (cfg : cache_config) (w : world) (e : hev) : world * option (N * served) :=
  match e with
  | ENew u a v => (mkWorld (mkObj u a v true :: w_objs w) (w_entries w), None)
  | EDie u =>
      if held_strongly cfg w u then (w, None)
      else (mkWorld (kill u (w_objs w))
                    (match ck_store cfg with
                     | SWeakKeys => filter (fun e => negb (N.eqb (en_holder e) u)) (w_entries w)
                     | SStrong => w_entries w
                     end), None)
  | EConvert u sub =>
      match find_obj u (w_objs w) with
      | None => (w, Some (u, SNoObject))
      | Some o =>
        match ck_key cfg, ck_store cfg with
        | KCodeId, SWeakKeys => (w, Some (u, STypeError))
        | _, _ =>
          let k := key_of cfg o in
          match lookup k sub (w_entries w) with
          | Some e => (w, Some (u, SFactory (en_src e)))
          | None => (mkWorld (w_objs w)
                             (w_entries w ++ [mkEntry k (bucket_holder k u (w_entries w)) sub u]),
                     Some (u, SFactory u))
          end
        end
      end
  end.

Fixpoint final (cfg : cache_config) (w : world) (h : list hev) : world :=
  match h with [] => w | e :: r => final cfg (fst (step cfg w e)) r end.

(* (code object converted, what served it), one per EConvert, in order *)
Fixpoint outputs (cfg : cache_config) (w : world) (h : list hev) : list (N * served) :=
  match h with
  | [] => []
  | e :: r => match snd (step cfg w e) with
              | Some x => x :: outputs cfg (fst (step cfg w e)) r
              | None => outputs cfg (fst (step cfg w e)) r
              end
  end.

(* histories CPython can produce: identities are fresh, no two LIVE objects share an address
   (a dead object's address may be handed out again), only live objects die or are converted *)
Definition alive_in (u : N) (l : list cobj) : bool :=
  match find_obj u l with Some o => ob_alive o | None => false end.
Definition wf_ev (w : world) (e : hev) : bool :=
  match e with
  | ENew u a _ => negb (existsb (fun o => N.eqb (ob_uid o) u) (w_objs w))
                  && negb (existsb (fun o => ob_alive o && N.eqb (ob_addr o) a) (w_objs w))
  | EDie u => alive_in u (w_objs w)
  | EConvert u _ => alive_in u (w_objs w)
  end.
Fixpoint wf_hist (cfg : cache_config) (w : world) (h : list hev) : bool :=
  match h with
  | [] => true
  | e :: r => wf_ev w e && wf_hist cfg (fst (step cfg w e)) r
  end.

Definition val_of (u : N) (w : world) : option N := option_map ob_val (find_obj u (w_objs w)).

(* the discipline served_by_equal_code needs of the generated configuration: the key is
   the code object (compared by value); an address is not a key, whatever the store *)
Definition cache_ok (cfg : cache_config) : bool :=
  match ck_key cfg with KCode => true | KCodeId => false end.
