(* C09: executable model of how a converted function gets its calling interface and
   environment (malt/pyct/transpiler.py: _erase_arg_defaults, _wrap_into_factory,
   _PythonFnFactory.create/instantiate; converters/functions.py: decorators), interpreted
   over the `config` generated from the current source, together with the part of
   CPython's semantics it relies on (S): evaluation of a `def` statement, resolution of
   free names through nested function scopes, types.FunctionType.
   No proofs in this file. *)
From Coq Require Import List String Bool Arith.
Import ListNotations.
Require Import MV.Iface.IfaceSyntax.


Definition name := string.

(* ---------- signatures ---------- *)
Record params := mkParams {
  posonly : list name; pargs : list name; vararg : option name; kwonly : list name; kwarg : option name }.

(* a default expression as written in the source *)
Inductive dexpr := DNone            (* the constant None put there by _erase_arg_defaults *)
                 | DConst           (* another constant *)
                 | DUser (id : nat). (* the user's id-th default expression *)
(* what a parameter default is at run time *)
Inductive value := VNone | VConst
                 | VEval (id : nat)  (* object produced by evaluating user expression id *now* *)
                 | VObj (o : nat).   (* an object that existed before the conversion (identity o) *)
Inductive event := EvalUser (id : nat) | ApplyDeco (id : nat).

Record fsig := mkSig {
  s_params : params;
  s_defaults : list dexpr;              (* ast.arguments.defaults *)
  s_kwdefaults : list (option dexpr)    (* ast.arguments.kw_defaults, aligned with kwonly *)
}.

Definition erased_of (v : erase_value) : dexpr :=
  match v with EConstNone => DNone | EConstOther => DConst end.
Definition erased_expr (cfg : config) : dexpr := erased_of (erase_const cfg).
Definition erased_kwexpr (cfg : config) : dexpr := erased_of (erase_kwconst cfg).

(* GenericTranspiler._erase_arg_defaults *)
Definition erase (cfg : config) (s : fsig) : fsig :=
  {| s_params := s_params s;
     s_defaults := match erase_defaults cfg with
                   | EraseNothing => s_defaults s
                   | _ => map (fun _ => erased_expr cfg) (s_defaults s)
                   end;
     s_kwdefaults := match erase_kwdefaults cfg with
                     | EraseNothing => s_kwdefaults s
                     | _ => map (option_map (fun _ => erased_kwexpr cfg)) (s_kwdefaults s)
                     end |}.

(* S: evaluating a default expression when a `def` statement is executed *)
Definition eval_dexpr (d : dexpr) : list event * value :=
  match d with
  | DNone => ([], VNone)
  | DConst => ([], VConst)
  | DUser i => ([EvalUser i], VEval i)
  end.

Fixpoint kw_pairs (ks : list name) (ds : list (option dexpr)) : list (name * dexpr) :=
  match ks, ds with
  | k :: ks', Some d :: ds' => (k, d) :: kw_pairs ks' ds'
  | _ :: ks', None :: ds' => kw_pairs ks' ds'
  | _, _ => []
  end.

Definition opt_nonempty {A} (l : list A) : option (list A) :=
  match l with [] => None | _ => Some l end.

(* S: `def` with this signature and decorator list executed: events in evaluation order
   (decorator expressions are names here; positional defaults, keyword-only defaults,
   then the decorators are applied innermost first), __defaults__, __kwdefaults__ *)
Definition eval_def (s : fsig) (decos : list nat)
  : list event * option (list value) * option (list (name * value)) :=
  let ds := map eval_dexpr (s_defaults s) in
  let kws := map (fun p => (fst p, eval_dexpr (snd p))) (kw_pairs (kwonly (s_params s)) (s_kwdefaults s)) in
  (List.concat (map fst ds) ++ List.concat (map (fun p => fst (snd p)) kws) ++ map ApplyDeco (rev decos),
   opt_nonempty (map snd ds),
   opt_nonempty (map (fun p => (fst p, snd (snd p))) kws)).

(* ---------- names, cells ---------- *)
Definition mem (n : name) (l : list name) : bool := existsb (String.eqb n) l.

(* dict(zip(keys, vals))[n]: the last pair wins, zip truncates *)
Fixpoint dict_get (n : name) (m : list (name * nat)) : option nat :=
  match m with
  | [] => None
  | (k, v) :: r => match dict_get n r with
                   | Some c => Some c
                   | None => if String.eqb k n then Some v else None
                   end
  end.

Fixpoint select (m : list (name * nat)) (ns : list name) : option (list nat) :=
  match ns with
  | [] => Some []
  | n :: r => match dict_get n m, select m r with
              | Some c, Some cs => Some (c :: cs)
              | _, _ => None
              end
  end.

Inductive err := KeyError          (* closure_map[name] *)
               | ValueError        (* the explicit length check, or types.FunctionType's own *)
               | LoadError.        (* the generated module does not have the expected shape *)
Inductive res (A : Type) := Ok (a : A) | Err (e : err).
Arguments Ok {A} a. Arguments Err {A} e.

Definition pick (s : names_src) (fv ffv : list name) : list name :=
  match s with NSelfFreevars => fv | NFactoryFreevars => ffv end.

Definition len_of (o : len_operand) (fv ffv : list name) (cl sel : list nat) : nat :=
  match o with
  | LSelected => List.length sel | LClosureArg => List.length cl
  | LSelfFreevars => List.length fv | LFactoryFreevars => List.length ffv
  end.

(* _PythonFnFactory.instantiate up to types.FunctionType(...): the cells the bound
   factory holds, position by position for the factory code's co_freevars [ffv] *)
Definition inst_closure (cfg : config) (fv : list name) (cl : list nat) (ffv : list name)
  : res (list nat) :=
  let m := combine (pick (map_keys cfg) fv ffv) cl in
  match select m (pick (select_by cfg) fv ffv) with
  | None => Err KeyError
  | Some sel =>
    if match len_check cfg with
       | None => true
       | Some (a, b) => Nat.eqb (len_of a fv ffv cl sel) (len_of b fv ffv cl sel)
       end
    then
      let c := match ft_closure cfg with ClSelected => sel | ClClosureArg => cl end in
      (* S: FunctionType requires len(closure) == len(code.co_freevars) *)
      if Nat.eqb (List.length c) (List.length ffv) then Ok c else Err ValueError
    else Err ValueError
  end.

(* ---------- the generated module and CPython's scoping of it ---------- *)
Record env := mkEnv {
  e_unbound : list name;     (* names the transformed function uses but does not bind itself *)
  e_extra : list name;       (* keys of get_extra_locals() *)
  e_entity : name;           (* ctx.info.name *)
  e_inner : name;
  e_outer : name;
  e_level : nat              (* FunctionTransformer's fn_scope.level at the converted function *)
}.

Definition tname_of (e : env) (t : tname) : name :=
  match t with NOuter => e_outer e | NInner => e_inner e | NEntity => e_entity e end.
Definition params_of (e : env) (p : tparams) : list name :=
  match p with PNone => [] | PFactoryArgs => e_extra e end.

Definition ilocals (e : env) (fv : list name) (i : iitem) : list name :=
  match i with IDummies => fv | IEntity => [e_entity e] | IRet _ => [] end.
Definition irefs (e : env) (i : iitem) : list name :=
  match i with IDummies => [] | IEntity => e_unbound e | IRet t => [tname_of e t] end.
Definition olocals (e : env) (fv : list name) (o : oitem) : list name :=
  match o with
  | ODummies => fv | OEntity => [e_entity e] | ORet _ => [] | ODef t _ _ => [tname_of e t]
  end.

Definition tname_beq (a b : tname) : bool :=
  match a, b with NOuter, NOuter | NInner, NInner | NEntity, NEntity => true | _, _ => false end.
Definition tparams_beq (a b : tparams) : bool :=
  match a, b with PNone, PNone | PFactoryArgs, PFactoryArgs => true | _, _ => false end.
Definition iitem_beq (a b : iitem) : bool :=
  match a, b with
  | IDummies, IDummies | IEntity, IEntity => true
  | IRet x, IRet y => tname_beq x y
  | _, _ => false
  end.
Fixpoint list_beq {A} (eqb : A -> A -> bool) (l1 l2 : list A) : bool :=
  match l1, l2 with
  | [], [] => true
  | x :: r, y :: s => eqb x y && list_beq eqb r s
  | _, _ => false
  end.
Definition oitem_beq (a b : oitem) : bool :=
  match a, b with
  | ODummies, ODummies | OEntity, OEntity => true
  | ORet x, ORet y => tname_beq x y
  | ODef n p b1, ODef n' p' b2 => tname_beq n n' && tparams_beq p p' && list_beq iitem_beq b1 b2
  | _, _ => false
  end.
Definition mitem_beq (a b : mitem) : bool :=
  match a, b with
  | MFuture, MFuture => true
  | MDef n p b1, MDef n' p' b2 => tname_beq n n' && tparams_beq p p' && list_beq oitem_beq b1 b2
  | _, _ => false
  end.

(* the module must define a niladic outer factory that returns the one factory it
   defines, which in turn must define and return the entity (create() calls
   getattr(module, outer)() and instantiate() calls the result with **extra_locals) *)
Definition no_future (m : list mitem) : list mitem :=
  filter (fun i => match i with MFuture => false | _ => true end) m.

Definition find_inner (body : list oitem) : option (tparams * list iitem) :=
  match filter (fun o => match o with ODef NInner _ _ => true | _ => false end) body with
  | [ODef _ p b] => Some (p, b)
  | _ => None
  end.

Record scopes := mkScopes { outer_locals : list name; inner_locals : list name; inner_refs : list name }.

Definition last_is {A} (eqb : A -> A -> bool) (x : A) (l : list A) : bool :=
  match rev l with y :: _ => eqb x y | [] => false end.

Definition wrap_scopes (cfg : config) (e : env) (fv : list name) : option scopes :=
  match no_future (wrap_module cfg) with
  | [MDef NOuter PNone obody] =>
    match find_inner obody with
    | Some (PFactoryArgs, ibody) =>
      if last_is oitem_beq (ORet NInner) obody && last_is iitem_beq (IRet NEntity) ibody
         && existsb (iitem_beq IEntity) ibody
      then Some {| outer_locals := List.concat (map (olocals e fv) obody);
                   inner_locals := e_extra e ++ List.concat (map (ilocals e fv) ibody);
                   inner_refs := List.concat (map (irefs e) ibody) |}
      else None
    | _ => None
    end
  | _ => None
  end.

Fixpoint dedup (l : list name) : list name :=
  match l with
  | [] => []
  | x :: r => if mem x r then dedup r else x :: dedup r
  end.

(* S: the inner factory's co_freevars, as a set: names referenced in it (or passed through
   it by the entity) that it does not bind and its enclosing function does *)
Definition model_ffv (s : scopes) : list name :=
  dedup (filter (fun n => negb (mem n (inner_locals s)) && mem n (outer_locals s)) (inner_refs s)).

(* S: the entity's co_freevars, as a set *)
Definition entity_free (s : scopes) (e : env) : list name :=
  dedup (filter (fun n => mem n (inner_locals s) || mem n (outer_locals s)) (e_unbound e)).

Inductive cellref := COrig (k : nat)        (* a cell handed to instantiate (identity k) *)
                   | CFresh (n : name).     (* a cell created by calling the bound factory *)

Fixpoint assoc (n : name) (m : list (name * nat)) : option nat :=
  match m with
  | [] => None
  | (k, v) :: r => if String.eqb k n then Some v else assoc n r
  end.

Fixpoint entity_closure (s : scopes) (fcells : list (name * nat)) (ns : list name)
  : option (list (name * cellref)) :=
  match ns with
  | [] => Some []
  | n :: r =>
    match entity_closure s fcells r with
    | None => None
    | Some cs =>
      if mem n (inner_locals s) then Some ((n, CFresh n) :: cs)
      else match assoc n fcells with
           | Some k => Some ((n, COrig k) :: cs)
           | None => None
           end
    end
  end.

(* ---------- the function being converted, the result ---------- *)
Record orig := mkOrig {
  o_sig : fsig;                                 (* as written in the source *)
  o_decos : list nat;                           (* decorators written above it *)
  o_self : option nat;                          (* Some instance for a bound method *)
  o_freevars : list name;                       (* fn.__code__.co_freevars *)
  o_closure : list nat;                         (* identities of fn.__closure__ (or ()) *)
  o_globals : nat;                              (* identity of fn.__globals__ *)
  o_defaults : option (list value);             (* fn.__defaults__ *)
  o_kwdefaults : option (list (name * value))   (* fn.__kwdefaults__ *)
}.

Record converted := mkConv {
  c_params : params;
  c_defaults : option (list value);
  c_kwdefaults : option (list (name * value));
  c_globals : nat;
  c_closure : list (name * cellref);
  c_events : list event          (* user code run while creating the function object *)
}.

Definition truthy {A} (d : option (list A)) : bool :=
  match d with Some (_ :: _) => true | _ => false end.
Definition attaches {A} (g : attach_guard) (d : option (list A)) : bool :=
  match g with
  | GTruthy => truthy d
  | GNotNone => match d with Some _ => true | None => false end
  | GAlways => true
  | GNever => false
  end.

(* FunctionTransformer.visit_FunctionDef on the function being converted *)
Definition artifact_deco : nat := 0.
Definition transformed_decos (cfg : config) (e : env) (decos : list nat) : list nat :=
  match (if Nat.leb (e_level e) (deco_level cfg) then deco_top cfg else deco_nested cfg) with
  | DecoClear => []
  | DecoKeep => decos
  | DecoAppendArtifact => decos ++ [artifact_deco]
  end.

(* the whole path: parse -> erase -> transform_ast (parameter list untouched, decorators
   per functions.py, body replaced: only its unbound names matter here) -> wrap -> load ->
   outer() -> instantiate(fn.__globals__, fn.__closure__ or (), fn.__defaults__,
   fn.__kwdefaults__) with [ffv] = the order CPython gave the factory's co_freevars *)
Definition convert (cfg : config) (o : orig) (e : env) (ffv : list name) : res converted :=
  let sg := if erase_before_transform cfg then erase cfg (o_sig o) else o_sig o in
  let decos := transformed_decos cfg e (o_decos o) in
  match wrap_scopes cfg e (o_freevars o) with
  | None => Err LoadError
  | Some s =>
    match inst_closure cfg (o_freevars o) (o_closure o) ffv with
    | Err x => Err x
    | Ok fc =>
      match entity_closure s (combine ffv fc) (entity_free s e) with
      | None => Err LoadError
      | Some cells =>
        let '(evs, d, kd) := eval_def sg decos in
        Ok {| c_params := s_params sg;
              c_defaults := if attaches (defaults_guard cfg) (o_defaults o) then o_defaults o else d;
              c_kwdefaults := if attaches (kwdefaults_guard cfg) (o_kwdefaults o) then o_kwdefaults o else kd;
              c_globals := o_globals o;
              c_closure := cells;
              c_events := evs |}
      end
    end
  end.

(* what inspect.signature and a call see of the defaults: None and () / {} are alike *)
Definition norm {A} (d : option (list A)) : list A := match d with Some l => l | None => [] end.

(* ---------- the discipline the theorems need of the generated table ---------- *)
Definition wrap_expected : list mitem :=
  [MDef NOuter PNone [ODummies; ODef NInner PFactoryArgs [IEntity; IRet NEntity]; ORet NInner]].

Definition len_operand_ok (a b : len_operand) : bool :=
  match a, b with
  | (LSelected | LFactoryFreevars), (LClosureArg | LSelfFreevars) => true
  | (LClosureArg | LSelfFreevars), (LSelected | LFactoryFreevars) => true
  | _, _ => false
  end.

Definition guard_ok (g : attach_guard) : bool := match g with GNever => false | _ => true end.
Definition erase_on (m : erase_mode) : bool := match m with EraseNothing => false | _ => true end.

Definition cfg_ok (cfg : config) : bool :=
  match map_keys cfg, select_by cfg, ft_closure cfg with
  | NSelfFreevars, NFactoryFreevars, ClSelected => true | _, _, _ => false end
  && match len_check cfg with None => false | Some (a, b) => len_operand_ok a b end
  && guard_ok (defaults_guard cfg) && guard_ok (kwdefaults_guard cfg)
  && list_beq mitem_beq (no_future (wrap_module cfg)) wrap_expected
  && erase_on (erase_defaults cfg) && erase_on (erase_kwdefaults cfg)
  && erase_before_transform cfg
  && match deco_top cfg with DecoClear => true | _ => false end
  && Nat.eqb (deco_level cfg) 2.

(* the run-time defaults agree with the source as far as the re-attachment guard needs:
   a function whose __defaults__ was cleared after its definition is the known finding *)
Definition guard_covers {A B} (g : attach_guard) (rt : option (list A)) (src : list B) : bool :=
  match g with
  | GAlways => true
  | GNotNone => match rt with Some _ => true | None => match src with [] => true | _ => false end end
  | GTruthy => truthy rt || match src with [] => true | _ => false end
  | GNever => false
  end.

Definition defaults_covered (cfg : config) (o : orig) : bool :=
  guard_covers (defaults_guard cfg) (o_defaults o) (s_defaults (o_sig o))
  && guard_covers (kwdefaults_guard cfg) (o_kwdefaults o)
       (kw_pairs (kwonly (s_params (o_sig o))) (s_kwdefaults (o_sig o))).
