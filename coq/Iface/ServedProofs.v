(* C09: lemmas about MV.Iface.Served: with the cache keyed by the code object itself
   (compared by value) every conversion of every well-formed history is served by a factory
   generated from a code object EQUAL to the one being converted; keyed by the address of
   the code object it is not. *)
From Coq Require Import List Bool NArith.
Import ListNotations.
Require Import MV.Iface.IfaceSyntax MV.Iface.Served.
Local Open Scope N_scope.

Lemma find_obj_uid : forall u l o, find_obj u l = Some o -> ob_uid o = u /\ In o l.
Proof.
  induction l as [|x r IH]; simpl; intros o H; [discriminate|].
  destruct (N.eqb (ob_uid x) u) eqn:E.
  - inversion H; subst. apply N.eqb_eq in E. auto.
  - destruct (IH _ H). auto.
Qed.

Lemma find_obj_kill : forall x u l o, find_obj x l = Some o ->
  exists o', find_obj x (kill u l) = Some o' /\ ob_val o' = ob_val o.
Proof.
  induction l as [|y r IH]; simpl; intros o H; [discriminate|].
  destruct (N.eqb (ob_uid y) u) eqn:Eu; simpl;
    destruct (N.eqb (ob_uid y) x) eqn:Ex.
  - inversion H; subst. eexists; split; [reflexivity|reflexivity].
  - auto.
  - inversion H; subst. eexists; split; reflexivity.
  - auto.
Qed.

Lemma existsb_false_In : forall (A : Type) (f : A -> bool) l x, existsb f l = false -> In x l -> f x = false.
Proof.
  induction l as [|y r IH]; simpl; intros x H Hin; [contradiction|].
  apply orb_false_iff in H. destruct H as [H1 H2]. destruct Hin as [->|Hin]; auto.
Qed.

(* an object that exists keeps existing, with the same value *)
Lemma step_stable : forall cfg w e x o, wf_ev w e = true -> find_obj x (w_objs w) = Some o ->
  exists o', find_obj x (w_objs (fst (step cfg w e))) = Some o' /\ ob_val o' = ob_val o.
Proof.
  intros cfg w e x o Hwf Hf. destruct e as [u a v|u|u sub]; simpl.
  - simpl in Hwf. apply andb_true_iff in Hwf. destruct Hwf as [Hfresh _].
    apply negb_true_iff in Hfresh.
    destruct (find_obj_uid _ _ _ Hf) as [Hu Hin].
    pose proof (existsb_false_In _ _ _ _ Hfresh Hin) as Hne. simpl in Hne.
    rewrite Hu in Hne. rewrite N.eqb_sym in Hne. rewrite Hne. eauto.
  - destruct (held_strongly cfg w u); simpl; [eauto|]. apply find_obj_kill; assumption.
  - destruct (find_obj u (w_objs w)); simpl; [|eauto].
    destruct (ck_key cfg), (ck_store cfg); simpl; try (eauto; fail);
      destruct (lookup _ sub (w_entries w)); simpl; eauto.
Qed.

Lemma hist_stable : forall cfg h w x o, wf_hist cfg w h = true -> find_obj x (w_objs w) = Some o ->
  exists o', find_obj x (w_objs (final cfg w h)) = Some o' /\ ob_val o' = ob_val o.
Proof.
  induction h as [|e r IH]; simpl; intros w x o Hwf Hf; [eauto|].
  apply andb_true_iff in Hwf. destruct Hwf as [H1 H2].
  destruct (step_stable cfg w e x o H1 Hf) as [o1 [Hf1 Hv1]].
  destruct (IH _ _ _ H2 Hf1) as [o2 [Hf2 Hv2]].
  exists o2. split; [assumption|congruence].
Qed.

(* every factory in the cache sits under the value of the code object it was generated from *)
Definition inv (w : world) : Prop :=
  forall e, In e (w_entries w) ->
  exists o, find_obj (en_src e) (w_objs w) = Some o /\ en_key e = KVal (ob_val o).

Lemma lookup_In : forall k sub l e, lookup k sub l = Some e -> In e l /\ ckey_eqb (en_key e) k = true.
Proof.
  induction l as [|y r IH]; simpl; intros e H; [discriminate|].
  destruct (ckey_eqb (en_key y) k && N.eqb (en_sub y) sub) eqn:E.
  - inversion H; subst. apply andb_true_iff in E. tauto.
  - destruct (IH _ H). auto.
Qed.

Lemma step_inv : forall cfg w e, ck_key cfg = KCode -> wf_ev w e = true -> inv w -> inv (fst (step cfg w e)).
Proof.
  intros cfg w e Hk Hwf Hinv. destruct e as [u a v|u|u sub]; simpl.
  - intros en Hin. simpl in Hin. destruct (Hinv _ Hin) as [o [Hf Hkey]].
    destruct (step_stable cfg w (ENew u a v) _ _ Hwf Hf) as [o' [Hf' Hv']].
    simpl in Hf'. exists o'. split; [assumption|congruence].
  - destruct (held_strongly cfg w u) eqn:Hh; simpl; [assumption|].
    intros en Hin.
    assert (Hin0 : In en (w_entries w)).
    { destruct (ck_store cfg); [apply filter_In in Hin; tauto|assumption]. }
    destruct (Hinv _ Hin0) as [o [Hf Hkey]].
    destruct (find_obj_kill (en_src en) u _ _ Hf) as [o' [Hf' Hv']].
    exists o'. split; [assumption|congruence].
  - destruct (find_obj u (w_objs w)) as [o|] eqn:Hf; simpl; [|assumption].
    rewrite Hk. destruct (ck_store cfg);
      (destruct (lookup (key_of cfg o) sub (w_entries w)) eqn:Hl; simpl; [assumption|];
       intros en Hin; apply in_app_or in Hin; destruct Hin as [Hin|[<-|[]]];
       [apply Hinv; assumption| simpl; exists o; split; [assumption|unfold key_of; rewrite Hk; reflexivity]]).
Qed.

Lemma served_gen : forall cfg, cache_ok cfg = true -> forall h w, inv w -> wf_hist cfg w h = true ->
  forall u s, In (u, SFactory s) (outputs cfg w h) ->
  exists v, val_of u (final cfg w h) = Some v /\ val_of s (final cfg w h) = Some v.
Proof.
  intros cfg Hok. assert (Hk : ck_key cfg = KCode) by (unfold cache_ok in Hok; destruct (ck_key cfg); [reflexivity|discriminate]).
  induction h as [|e r IH]; simpl; intros w Hinv Hwf u s Hin; [contradiction|].
  apply andb_true_iff in Hwf. destruct Hwf as [H1 H2].
  pose proof (step_inv cfg w e Hk H1 Hinv) as Hinv'.
  destruct (snd (step cfg w e)) as [x|] eqn:Hs; [destruct Hin as [->|Hin]|]; try (eapply IH; eassumption).
  (* the conversion at the head *)
  destruct e as [u0 a v|u0|u0 sub]; simpl in Hs; try discriminate.
  - destruct (held_strongly cfg w u0); discriminate.
  - simpl in H1. unfold alive_in in H1.
    destruct (find_obj u0 (w_objs w)) as [o|] eqn:Hf; [|discriminate].
    assert (Hgoal : exists os, find_obj u (w_objs (fst (step cfg w (EConvert u0 sub)))) = Some o
                             /\ find_obj s (w_objs (fst (step cfg w (EConvert u0 sub)))) = Some os
                             /\ ob_val os = ob_val o).
    { simpl. rewrite Hf. rewrite Hk in *. 
      destruct (ck_store cfg);
        (destruct (lookup (key_of cfg o) sub (w_entries w)) as [en|] eqn:Hl; simpl in *;
         [ inversion Hs; subst; destruct (lookup_In _ _ _ _ Hl) as [Hin' Hkeq];
           destruct (Hinv _ Hin') as [os [Hfs Hkey]]; exists os; repeat split; try assumption;
           rewrite Hkey in Hkeq; unfold key_of in Hkeq; rewrite Hk in Hkeq; simpl in Hkeq;
           apply N.eqb_eq in Hkeq; assumption
         | inversion Hs; subst; exists o; repeat split; assumption ]). }
    destruct Hgoal as [os [Hfu [Hfs Hv]]].
    destruct (hist_stable cfg r _ _ _ H2 Hfu) as [o1 [Hf1 Hv1]].
    destruct (hist_stable cfg r _ _ _ H2 Hfs) as [o2 [Hf2 Hv2]].
    exists (ob_val o). unfold val_of. rewrite Hf1, Hf2. simpl. split; congruence.
Qed.

Lemma served_lemma : forall cfg, cache_ok cfg = true -> forall h, wf_hist cfg empty_world h = true ->
  forall u s, In (u, SFactory s) (outputs cfg empty_world h) ->
  exists v, val_of u (final cfg empty_world h) = Some v /\ val_of s (final cfg empty_world h) = Some v.
Proof.
  intros cfg Hok h Hwf u s Hin. apply (served_gen cfg Hok h empty_world); try assumption.
  intros e [].
Qed.

(* with such a cache nothing but a factory is ever the answer *)
Lemma always_a_factory : forall cfg, cache_ok cfg = true -> forall h w, wf_hist cfg w h = true ->
  forall u x, In (u, x) (outputs cfg w h) -> exists s, x = SFactory s.
Proof.
  intros cfg Hok. assert (Hk : ck_key cfg = KCode) by (unfold cache_ok in Hok; destruct (ck_key cfg); [reflexivity|discriminate]).
  induction h as [|e r IH]; simpl; intros w Hwf u x Hin; [contradiction|].
  apply andb_true_iff in Hwf. destruct Hwf as [H1 H2].
  destruct (snd (step cfg w e)) as [y|] eqn:Hs; [destruct Hin as [->|Hin]|]; try (eapply IH; eassumption).
  destruct e as [u0 a v|u0|u0 sub]; simpl in Hs; try discriminate.
  - destruct (held_strongly cfg w u0); discriminate.
  - simpl in H1. unfold alive_in in H1.
    destruct (find_obj u0 (w_objs w)) as [o|] eqn:Hf; [|discriminate].
    rewrite Hk in Hs. destruct (ck_store cfg);
      (destruct (lookup (key_of cfg o) sub (w_entries w)); simpl in Hs; inversion Hs; eauto).
Qed.
