(* C14 (H/S): what `globals()` / `locals()` hand out.

   `globals_in_original_context` / `locals_in_original_context` find the originating frame
   (Frames.v) and hand out a mapping.  Python's builtins hand out the frame's OWN mapping object:
   for globals() the live module dictionary -- names are read and written in it, every call
   returns the same object, a write through it is a write to the global name; for locals() in a
   function (CPython <= 3.12) the frame's f_locals dictionary -- one object per frame, refreshed
   from the fast local variables at every call, writes through it stay in it and do not reach the
   variables.  An implementation that hands out a copy (`Snapshot`) is observably different as
   soon as code WRITES through the mapping, compares two results by identity, or (locals) relies
   on the refresh of an earlier result.

   The translator emits, for each of the two builtins, which of the two the source does
   (`ctx_ns_gen`); `run` is the implementation model (mapping objects with identity: the frame's
   own one and the copies made so far), `spec_run` the semantics of the Python builtin (one
   mapping, no identities).  Traces of operations are the correspondence cases: the converted
   program rendered from a trace must observe what `run` computes.
   No proofs in this file. *)
From Coq Require Import List String Bool Arith.
Import ListNotations.
Local Open Scope string_scope.

Definition ns := list (string * nat).
Fixpoint nget (k : string) (m : ns) : option nat :=
  match m with [] => None | (n, v) :: r => if String.eqb k n then Some v else nget k r end.
Fixpoint nset (k : string) (v : nat) (m : ns) : ns :=
  match m with
  | [] => [(k, v)]
  | (n, w) :: r => if String.eqb k n then (n, v) :: r else (n, w) :: nset k v r
  end.
Fixpoint ndel (k : string) (m : ns) : ns :=
  match m with [] => [] | (n, w) :: r => if String.eqb k n then ndel k r else (n, w) :: ndel k r end.
(* PyFrame_FastToLocals: every bound variable is stored into the dictionary *)
Definition overlay (fastv : ns) (d : ns) : ns := fold_left (fun acc p => nset (fst p) (snd p) acc) fastv d.

Inductive handout := Live | Snapshot.
Definition is_live (h : handout) : bool := match h with Live => true | Snapshot => false end.
(* KGlobals: names live in the mapping itself.  KLocals: names live in fast slots, the mapping is
   refreshed from them whenever it is handed out. *)
Inductive kind := KGlobals | KLocals.

(* a mapping-valued expression of the program: a variable that holds an earlier result, or a call
   of the builtin in place *)
Inductive href := HVar (h : nat) | HFresh.
Inductive op :=
| OCall (h : nat)                          (* g_h = globals()        *)
| OSet (r : href) (k : string) (v : nat)   (* r[k] = v               *)
| ODel (r : href) (k : string)             (* r.pop(k, None)         *)
| OGet (r : href) (k : string)             (* observe r.get(k)       *)
| OGetName (k : string)                    (* observe the name k     *)
| OSetName (k : string) (v : nat)          (* k = v  (global k / local k) *)
| OSame (r1 r2 : href)                     (* observe r1 is r2       *)
| OIsOwn (r : href).                       (* observe r is <the frame's own mapping> *)
Inductive obs := BVal (v : option nat) | BBool (b : bool) | BUnbound.

(* ---- implementation model: mapping objects with identity ---- *)
Inductive hval := HOwn | HCopy (i : nat).
Definition hval_eqb (a b : hval) : bool :=
  match a, b with HOwn, HOwn => true | HCopy i, HCopy j => Nat.eqb i j | _, _ => false end.
Definition is_own (a : hval) : bool := match a with HOwn => true | _ => false end.
Record state := mkst { fast : ns; own : ns; copies : list ns; env : list (nat * hval) }.
Fixpoint elookup (h : nat) (e : list (nat * hval)) : option hval :=
  match e with [] => None | (n, v) :: r => if Nat.eqb h n then Some v else elookup h r end.
Fixpoint upd_nth (i : nat) (f : ns -> ns) (l : list ns) : list ns :=
  match l, i with
  | [], _ => []
  | x :: r, 0 => f x :: r
  | x :: r, S j => x :: upd_nth j f r
  end.
Definition rd (v : hval) (st : state) : ns :=
  match v with HOwn => own st | HCopy i => nth i (copies st) [] end.
Definition wr (v : hval) (f : ns -> ns) (st : state) : state :=
  match v with
  | HOwn => mkst (fast st) (f (own st)) (copies st) (env st)
  | HCopy i => mkst (fast st) (own st) (upd_nth i f (copies st)) (env st)
  end.
Definition refresh (kd : kind) (st : state) : state :=
  match kd with
  | KGlobals => st
  | KLocals => mkst (fast st) (overlay (fast st) (own st)) (copies st) (env st)
  end.
(* one call of the *_in_original_context function *)
Definition hand (ho : handout) (kd : kind) (st : state) : state * hval :=
  let st1 := refresh kd st in
  match ho with
  | Live => (st1, HOwn)
  | Snapshot => (mkst (fast st1) (own st1) (copies st1 ++ [own st1]) (env st1), HCopy (List.length (copies st1)))
  end.
Definition resolve (ho : handout) (kd : kind) (r : href) (st : state) : option (state * hval) :=
  match r with
  | HFresh => Some (hand ho kd st)
  | HVar h => match elookup h (env st) with Some v => Some (st, v) | None => None end
  end.
Definition name_get (kd : kind) (k : string) (st : state) : option nat :=
  match kd with KGlobals => nget k (own st) | KLocals => nget k (fast st) end.
Definition name_set (kd : kind) (k : string) (v : nat) (st : state) : state :=
  match kd with
  | KGlobals => mkst (fast st) (nset k v (own st)) (copies st) (env st)
  | KLocals => mkst (nset k v (fast st)) (own st) (copies st) (env st)
  end.
Definition step (ho : handout) (kd : kind) (o : op) (st : state) : state * list obs :=
  match o with
  | OCall h => let (st1, v) := hand ho kd st in
               (mkst (fast st1) (own st1) (copies st1) ((h, v) :: env st1), [])
  | OSet r k v => match resolve ho kd r st with
                  | None => (st, [BUnbound])
                  | Some (st1, hv) => (wr hv (nset k v) st1, [])
                  end
  | ODel r k => match resolve ho kd r st with
                | None => (st, [BUnbound])
                | Some (st1, hv) => (wr hv (ndel k) st1, [])
                end
  | OGet r k => match resolve ho kd r st with
                | None => (st, [BUnbound])
                | Some (st1, hv) => (st1, [BVal (nget k (rd hv st1))])
                end
  | OGetName k => (st, [BVal (name_get kd k st)])
  | OSetName k v => (name_set kd k v st, [])
  | OSame r1 r2 => match resolve ho kd r1 st with
                   | None => (st, [BUnbound])
                   | Some (st1, v1) => match resolve ho kd r2 st1 with
                                       | None => (st1, [BUnbound])
                                       | Some (st2, v2) => (st2, [BBool (hval_eqb v1 v2)])
                                       end
                   end
  | OIsOwn r => match resolve ho kd r st with
                | None => (st, [BUnbound])
                | Some (st1, hv) => (st1, [BBool (is_own hv)])
                end
  end.
Fixpoint run_from (ho : handout) (kd : kind) (ops : list op) (st : state) : list obs :=
  match ops with
  | [] => []
  | o :: r => let (st1, b) := step ho kd o st in b ++ run_from ho kd r st1
  end.
Definition init (f o : ns) : state := mkst f o [] [].
Definition run (ho : handout) (kd : kind) (f o : ns) (ops : list op) : list obs := run_from ho kd ops (init f o).

(* ---- semantics of the Python builtin: one mapping per frame, every result is that mapping ---- *)
Record sstate := mkss { sfast : ns; sown : ns; sbound : list nat }.
Fixpoint mem_nat (h : nat) (l : list nat) : bool :=
  match l with [] => false | x :: r => Nat.eqb h x || mem_nat h r end.
Definition srefresh (kd : kind) (s : sstate) : sstate :=
  match kd with
  | KGlobals => s
  | KLocals => mkss (sfast s) (overlay (sfast s) (sown s)) (sbound s)
  end.
Definition sresolve (kd : kind) (r : href) (s : sstate) : option sstate :=
  match r with
  | HFresh => Some (srefresh kd s)
  | HVar h => if mem_nat h (sbound s) then Some s else None
  end.
Definition sname_get (kd : kind) (k : string) (s : sstate) : option nat :=
  match kd with KGlobals => nget k (sown s) | KLocals => nget k (sfast s) end.
Definition sname_set (kd : kind) (k : string) (v : nat) (s : sstate) : sstate :=
  match kd with
  | KGlobals => mkss (sfast s) (nset k v (sown s)) (sbound s)
  | KLocals => mkss (nset k v (sfast s)) (sown s) (sbound s)
  end.
Definition sstep (kd : kind) (o : op) (s : sstate) : sstate * list obs :=
  match o with
  | OCall h => let s1 := srefresh kd s in (mkss (sfast s1) (sown s1) (h :: sbound s1), [])
  | OSet r k v => match sresolve kd r s with
                  | None => (s, [BUnbound])
                  | Some s1 => (mkss (sfast s1) (nset k v (sown s1)) (sbound s1), [])
                  end
  | ODel r k => match sresolve kd r s with
                | None => (s, [BUnbound])
                | Some s1 => (mkss (sfast s1) (ndel k (sown s1)) (sbound s1), [])
                end
  | OGet r k => match sresolve kd r s with
                | None => (s, [BUnbound])
                | Some s1 => (s1, [BVal (nget k (sown s1))])
                end
  | OGetName k => (s, [BVal (sname_get kd k s)])
  | OSetName k v => (sname_set kd k v s, [])
  | OSame r1 r2 => match sresolve kd r1 s with
                   | None => (s, [BUnbound])
                   | Some s1 => match sresolve kd r2 s1 with
                                | None => (s1, [BUnbound])
                                | Some s2 => (s2, [BBool true])
                                end
                   end
  | OIsOwn r => match sresolve kd r s with
                | None => (s, [BUnbound])
                | Some s1 => (s1, [BBool true])
                end
  end.
Fixpoint spec_from (kd : kind) (ops : list op) (s : sstate) : list obs :=
  match ops with
  | [] => []
  | o :: r => let (s1, b) := sstep kd o s in b ++ spec_from kd r s1
  end.
Definition spec_run (kd : kind) (f o : ns) (ops : list op) : list obs := spec_from kd ops (mkss f o []).

(* ---- the generated table ---- *)
Definition ns_table := list (string * handout).
Fixpoint ns_lookup (b : string) (T : ns_table) : option handout :=
  match T with [] => None | (n, h) :: r => if String.eqb b n then Some h else ns_lookup b r end.
Definition ns_table_ok (T : ns_table) : bool :=
  forallb (fun p => is_live (snd p)) T
  && match ns_lookup "globals" T with Some _ => true | None => false end
  && match ns_lookup "locals" T with Some _ => true | None => false end.
Definition kind_of (b : string) : kind := if String.eqb b "locals" then KLocals else KGlobals.

(* ---- correspondence with the implementation ---- *)
Definition obs_eqb (a b : obs) : bool :=
  match a, b with
  | BVal None, BVal None => true
  | BVal (Some x), BVal (Some y) => Nat.eqb x y
  | BBool x, BBool y => Bool.eqb x y
  | BUnbound, BUnbound => true
  | _, _ => false
  end.
Fixpoint obsl_eqb (a b : list obs) : bool :=
  match a, b with
  | [], [] => true
  | x :: a', y :: b' => obs_eqb x y && obsl_eqb a' b'
  | _, _ => false
  end.
(* index, builtin, initial variables, initial content of the frame's mapping, trace, what the
   converted program observed (None = it raised) *)
Definition nscase : Type := (nat * string * ns * ns * list op * option (list obs))%type.
Definition check_nscase (T : ns_table) (c : nscase) : bool :=
  match c with
  | (_, b, f, o, ops, expected) =>
    match ns_lookup b T, expected with
    | Some ho, Some e => obsl_eqb (run ho (kind_of b) f o ops) e
    | _, _ => false
    end
  end.
Definition failing_ns (T : ns_table) (cs : list nscase) : list nat :=
  map (fun c => match c with (n, _, _, _, _, _) => n end) (filter (fun c => negb (check_nscase T c)) cs).
