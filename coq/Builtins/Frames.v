(* C14 (H): `_find_originating_frame` of py_builtins.py over a call stack.

   A frame is its f_locals (name -> object identity); the stack is listed from
   the innermost frame (the one `inspect.currentframe()` returns) outwards, as
   the `f_back` chain is walked.  `find_frame` is a transliteration of the
   while loop: it answers the index of the frame returned, or None when the
   final `assert result is not None` fails.  The translator pins the shape of
   the Python function; the correspondence runs it on real call stacks.
   No proofs in this file. *)
From Coq Require Import List String Bool Arith.
Import ListNotations.
Local Open Scope string_scope.

Definition frame := list (string * nat).
Fixpoint flookup (n : string) (f : frame) : option nat :=
  match f with [] => None | (k, o) :: r => if String.eqb n k then Some o else flookup n r end.
(* ctx_frame.f_locals.get(scope.name, None) is scope *)
Definition holds (name : string) (scope : nat) (f : frame) : bool :=
  match flookup name f with Some o => Nat.eqb o scope | None => false end.

Fixpoint find_from (name : string) (scope : nat) (innermost : bool) (stack : list frame)
         (i : nat) (result : option nat) : option nat :=
  match stack with
  | [] => result
  | f :: rest =>
    if holds name scope f then
      if innermost then Some i else find_from name scope innermost rest (S i) (Some i)
    else find_from name scope innermost rest (S i) result
  end.
Definition find_frame (name : string) (scope : nat) (innermost : bool) (stack : list frame) : option nat :=
  find_from name scope innermost stack 0 None.

(* what eval('<name>') / locals()['<name>'] sees through the frame found *)
Definition ctx_lookup (name : string) (scope : nat) (innermost : bool) (stack : list frame) (var : string)
  : option nat :=
  match find_frame name scope innermost stack with
  | None => None
  | Some i => match nth_error stack i with Some f => flookup var f | None => None end
  end.

(* correspondence case: index, scope name, stack (object 1 = the scope searched for), innermost,
   index the implementation returned (None = AssertionError) *)
Definition fcase : Set := (nat * string * list frame * bool * option nat)%type.
Definition check_fcase (c : fcase) : bool :=
  match c with
  | (_, name, stack, inner, expected) =>
    match find_frame name 1 inner stack, expected with
    | Some i, Some j => Nat.eqb i j
    | None, None => true
    | _, _ => false
    end
  end.
Definition failing_f (cs : list fcase) : list nat :=
  map (fun c => match c with (n, _, _, _, _) => n end) (filter (fun c => negb (check_fcase c)) cs).
