(* C14: the layers converted_call uses for a functools.partial give Python's partial rule. *)
From Coq Require Import List String Bool Arith.
Import ListNotations.
Require Import MV.Builtins.Binding MV.Builtins.Partial.
Local Open Scope string_scope.

(* the decidable discipline on the generated layers *)
Definition is_pc (l : list layer) : bool :=
  match l with
  | a :: b :: nil => layer_beq a LPartial && layer_beq b LCall
  | _ => false
  end.
Definition layers_ok (kwl argl : list layer) : bool := is_pc kwl && is_pc argl.
Lemma is_pc_eq : forall l, is_pc l = true -> l = [LPartial; LCall].
Proof. intros [|[|] [|[|] [|]]]; simpl; intros; try discriminate; reflexivity. Qed.

Section P.
  Context {A : Type}.
  Implicit Types d n : list (string * A).

  Lemma lookup_dset : forall k v d x,
    lookup x (dset k v d) = if String.eqb x k then Some v else lookup x d.
  Proof.
    intros k v d x; induction d as [|[y w] r IH]; simpl.
    - destruct (String.eqb x k); reflexivity.
    - destruct (String.eqb k y) eqn:E; simpl.
      + apply String.eqb_eq in E; subst. destruct (String.eqb x y); reflexivity.
      + destruct (String.eqb x y) eqn:F.
        * apply String.eqb_eq in F; subst. rewrite String.eqb_sym, E. reflexivity.
        * exact IH.
  Qed.
  (* after d.update(n): the last value n gives a key, else d's *)
  Fixpoint lookup_last (x : string) (n : list (string * A)) (acc : option A) : option A :=
    match n with [] => acc | (k, v) :: r => lookup_last x r (if String.eqb x k then Some v else acc) end.
  Lemma lookup_dupdate_gen : forall n d x, lookup x (dupdate d n) = lookup_last x n (lookup x d).
  Proof.
    induction n as [|[k v] r IH]; intros d x; simpl; [reflexivity|].
    rewrite IH, lookup_dset. reflexivity.
  Qed.
  Lemma lookup_last_nodup : forall n x acc, nodup_keys (map fst n) = true ->
    lookup_last x n acc = match lookup x n with Some v => Some v | None => acc end.
  Proof.
    induction n as [|[k v] r IH]; intros x acc N; simpl in *; [reflexivity|].
    apply andb_prop in N; destruct N as [N1 N2]. rewrite IH by exact N2.
    destruct (String.eqb x k) eqn:E; [|reflexivity].
    apply String.eqb_eq in E; subst.
    destruct (lookup k r) as [w|] eqn:L; [|reflexivity]. exfalso.
    assert (I : mem k (map fst r) = true).
    { clear -L. induction r as [|[y u] r IH]; simpl in *; [discriminate|].
      destruct (String.eqb k y); [reflexivity|auto]. }
    rewrite I in N1. discriminate.
  Qed.
  Lemma lookup_dupdate : forall d n x, nodup_keys (map fst n) = true ->
    lookup x (dupdate d n) = match lookup x n with Some v => Some v | None => lookup x d end.
  Proof. intros; rewrite lookup_dupdate_gen, lookup_last_nodup by assumption. reflexivity. Qed.

  Lemma dset_fresh : forall k v d, mem k (map fst d) = false -> dset k v d = (d ++ [(k, v)])%list.
  Proof.
    intros k v d; induction d as [|[y w] r IH]; simpl; intros H; [reflexivity|].
    destruct (String.eqb k y); [discriminate|]. rewrite IH by exact H. reflexivity.
  Qed.
  Lemma dupdate_app_fresh : forall n d, nodup_keys (map fst (d ++ n)) = true -> dupdate d n = (d ++ n)%list.
  Proof.
    induction n as [|[k v] r IH]; intros d N; simpl; [rewrite app_nil_r; reflexivity|].
    assert (F : mem k (map fst d) = false /\ nodup_keys (map fst ((d ++ [(k, v)]) ++ r)) = true).
    { rewrite <- app_assoc. simpl. split; [|exact N].
      clear IH. induction d as [|[y w] d IHd]; simpl in *; [reflexivity|].
      apply andb_prop in N; destruct N as [N1 N2]. rewrite map_app in N1. simpl in N1.
      destruct (String.eqb k y) eqn:E.
      - apply String.eqb_eq in E; subst. exfalso.
        assert (M : mem y (map fst d ++ y :: map fst r) = true).
        { clear. induction (map fst d) as [|z l IH]; simpl; [rewrite String.eqb_refl; reflexivity|].
          destruct (String.eqb y z); auto. }
        rewrite M in N1. discriminate.
      - apply IHd. exact N2. }
    destruct F as [F1 F2]. rewrite dset_fresh by exact F1. rewrite IH by exact F2.
    rewrite <- app_assoc. reflexivity.
  Qed.
  Lemma dupdate_nil : forall n, nodup_keys (map fst n) = true -> dupdate [] n = n.
  Proof. intros n N. rewrite dupdate_app_fresh by exact N. reflexivity. Qed.

  Theorem merge_is_partial_spec : forall kwl argl, layers_ok kwl argl = true ->
    forall (pargs args : list A) pkws kws, nodup_keys (map fst pkws) = true ->
      (merge_args argl pargs args, merge_kws kwl pkws kws) = partial_spec pargs pkws args kws.
  Proof.
    intros kwl argl H pargs args pkws kws N.
    apply andb_prop in H; destruct H as [H1 H2].
    apply is_pc_eq in H1; apply is_pc_eq in H2; subst.
    unfold merge_args, merge_kws, partial_spec; simpl. rewrite app_nil_r, dupdate_nil by exact N. reflexivity.
  Qed.

  (* Python's rule, semantically: call-site keywords win, the others come from the partial *)
  Theorem partial_spec_call_site_wins : forall (pargs args : list A) (pkws kws : list (string * A)) x, nodup_keys (map fst kws) = true ->
    lookup x (snd (partial_spec pargs pkws args kws))
    = match lookup x kws with Some v => Some v | None => lookup x pkws end.
  Proof. intros; simpl. apply lookup_dupdate; assumption. Qed.
End P.
