(* C14 (S): Python's argument-binding algorithm, declaratively.

   A signature is the ordered parameter list of a `def` (positional-only,
   positional-or-keyword, *varpos, keyword-only, **varkw); a call is a list of
   positional argument values and an ordered list of keyword/value pairs.
   `bind` answers what CPython's call machinery answers: either the call is
   rejected (TypeError: too many positionals, unknown / repeated keyword,
   multiple values for a parameter, missing required argument) or every
   parameter gets its argument, its default, or -- for documented signatures of
   builtins only -- is `absent` (optional parameter without expressible
   default, e.g. the `stop` of range).

   The function is validated against CPython on every run of the check
   (tools/props/c14.py: random `def` signatures x random call shapes, and the
   documented signatures of DocSigs.v against the real builtins).
   No proofs in this file. *)
From Coq Require Import List String Bool Arith.
Import ListNotations.
Local Open Scope string_scope.

(* the constants that occur as defaults / literal arguments in py_builtins.py *)
Inductive const : Set := CInt0 | CTrue | CFalse | CNone | CUnspec | CStr (s : string).

Inductive pkind : Set := PosOnly | PosOrKw | KwOnly.
Inductive pdef : Set := Required | Default (c : const) | Absent.
Record param : Set := mkparam { pname : string; pkind_ : pkind; pdef_ : pdef }.
Record sig : Set := mksig { params : list param; varpos : option string; varkw : option string }.

Definition is_pos (p : param) : bool := match pkind_ p with KwOnly => false | _ => true end.
Definition is_kw (p : param) : bool := match pkind_ p with PosOnly => false | _ => true end.
Definition kw_names (s : sig) : list string := map pname (filter is_kw (params s)).
Definition npos (s : sig) : nat := List.length (filter is_pos (params s)).

Fixpoint mem (k : string) (l : list string) : bool :=
  match l with [] => false | x :: r => if String.eqb k x then true else mem k r end.
Fixpoint nodup_keys (l : list string) : bool :=
  match l with [] => true | k :: r => negb (mem k r) && nodup_keys r end.

Section Bind.
  Context {A : Type}.

  Inductive bval : Type := BArg (a : A) | BConst (c : const) | BAbsent.
  Record binding : Type := mkbinding
    { bound : list (string * bval); star : list A; starstar : list (string * A) }.

  Fixpoint lookup (k : string) (l : list (string * A)) : option A :=
    match l with [] => None | (x, v) :: r => if String.eqb k x then Some v else lookup k r end.

  (* i = index of the next positional slot *)
  Fixpoint bind_params (ps : list param) (i : nat) (args : list A) (kws : list (string * A))
    : option (list (string * bval)) :=
    match ps with
    | [] => Some []
    | p :: ps' =>
      let bypos := if is_pos p then nth_error args i else None in
      let bykw := if is_kw p then lookup (pname p) kws else None in
      let i' := if is_pos p then S i else i in
      let rest := bind_params ps' i' args kws in
      let put v := match rest with Some l => Some ((pname p, v) :: l) | None => None end in
      match bypos, bykw with
      | Some _, Some _ => None                      (* multiple values for argument *)
      | Some a, None => put (BArg a)
      | None, Some a => put (BArg a)
      | None, None =>
        match pdef_ p with
        | Required => None                           (* missing required argument *)
        | Default c => put (BConst c)
        | Absent => put BAbsent
        end
      end
    end.

  Definition keys_ok (s : sig) (kws : list (string * A)) : bool :=
    nodup_keys (map fst kws)
    && match varkw s with
       | Some _ => true
       | None => forallb (fun k => mem k (kw_names s)) (map fst kws)
       end.
  Definition arity_ok (s : sig) (args : list A) : bool :=
    match varpos s with Some _ => true | None => Nat.leb (List.length args) (npos s) end.

  Definition bind (s : sig) (args : list A) (kws : list (string * A)) : option binding :=
    if keys_ok s kws && arity_ok s args then
      match bind_params (params s) 0 args kws with
      | None => None
      | Some b => Some {| bound := b;
                          star := skipn (npos s) args;
                          starstar := filter (fun kv => negb (mem (fst kv) (kw_names s))) kws |}
      end
    else None.
End Bind.
Arguments bval : clear implicits.
Arguments binding : clear implicits.

(* A documented builtin signature: the parameter list, the parameters the
   builtin only looks at through their truth value (`strict` of zip), the
   dependencies between optional parameters (`base` of int needs an explicit
   first argument) and whether the builtin returns a value (print: None). *)
Record docsig : Set := mkdoc
  { dsig : sig; dtruth : list string; drequires : list (string * string); dret : bool }.

Section BindDoc.
  Context {A : Type}.
  Definition is_arg (b : list (string * bval A)) (p : string) : bool :=
    match find (fun nb => String.eqb p (fst nb)) b with
    | Some (_, BArg _) => true
    | _ => false
    end.
  Definition bind_doc (d : docsig) (args : list A) (kws : list (string * A)) : option (binding A) :=
    match bind (dsig d) args kws with
    | None => None
    | Some b =>
      if forallb (fun pq => implb (is_arg (bound b) (fst pq)) (is_arg (bound b) (snd pq))) (drequires d)
      then Some b else None
    end.
End BindDoc.
