(* C14 (S): the documented signatures of the 13 builtins the call wrapper
   substitutes (docs.python.org/3.12/library/functions.html), as data for
   Binding.bind_doc.  Validated against the real builtins on every run
   (tools/props/c14.py: every call shape with valid values is accepted by the
   builtin iff bind_doc accepts it; passing a documented default explicitly
   equals omitting it).  No proofs in this file. *)
From Coq Require Import List String Bool.
Import ListNotations.
Require Import MV.Builtins.Binding.
Local Open Scope string_scope.

Definition po n := mkparam n PosOnly Required.
Definition doc1 (n : string) : docsig := mkdoc (mksig [po n] None None) [] [] true.

Definition doc_of (b : string) : option docsig :=
  if String.eqb b "abs" then Some (doc1 "x")                         (* abs(x, /) *)
  else if String.eqb b "all" then Some (doc1 "iterable")             (* all(iterable, /) *)
  else if String.eqb b "any" then Some (doc1 "iterable")
  else if String.eqb b "len" then Some (doc1 "obj")
  else if String.eqb b "enumerate" then                              (* enumerate(iterable, start=0) *)
    Some (mkdoc (mksig [mkparam "iterable" PosOrKw Required; mkparam "start" PosOrKw (Default CInt0)] None None) [] [] true)
  else if String.eqb b "filter" then                                 (* filter(function, iterable, /) *)
    Some (mkdoc (mksig [po "function"; po "iterable"] None None) [] [] true)
  else if String.eqb b "float" then                                  (* float(x=0, /) *)
    Some (mkdoc (mksig [mkparam "x" PosOnly (Default CInt0)] None None) [] [] true)
  else if String.eqb b "int" then                                    (* int(x=0, /) ; int(x, /, base=10) *)
    Some (mkdoc (mksig [mkparam "x" PosOnly (Default CInt0); mkparam "base" PosOrKw Absent] None None)
                [] [("base", "x")] true)
  else if String.eqb b "map" then                                    (* map(function, iterable, /, *iterables) *)
    Some (mkdoc (mksig [po "function"; po "iterable"] (Some "iterables") None) [] [] true)
  else if String.eqb b "print" then                                  (* print( *objects, sep=' ', end=newline, file=None, flush=False) *)
    Some (mkdoc (mksig [mkparam "sep" KwOnly (Default (CStr " ")); mkparam "end" KwOnly (Default (CStr "
")); mkparam "file" KwOnly (Default CNone); mkparam "flush" KwOnly (Default CFalse)] (Some "objects") None)
                [] [] false)
  else if String.eqb b "range" then                                  (* range(stop) ; range(start, stop[, step]) *)
    Some (mkdoc (mksig [po "start_or_stop"; mkparam "stop" PosOnly Absent; mkparam "step" PosOnly Absent] None None)
                [] [("step", "stop")] true)
  else if String.eqb b "sorted" then                                 (* sorted(iterable, /, *, key=None, reverse=False) *)
    Some (mkdoc (mksig [po "iterable"; mkparam "key" KwOnly (Default CNone); mkparam "reverse" KwOnly (Default CFalse)] None None)
                [] [] true)
  else if String.eqb b "zip" then                                    (* zip( *iterables, strict=False) *)
    Some (mkdoc (mksig [mkparam "strict" KwOnly (Default CFalse)] (Some "iterables") None) ["strict"] [] true)
  else None.

Definition documented : list string :=
  ["abs"; "all"; "any"; "enumerate"; "filter"; "float"; "int"; "len"; "map"; "print"; "range"; "sorted"; "zip"].
