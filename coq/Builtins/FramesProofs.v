(* C14: what the frame search of py_builtins.py guarantees. *)
From Coq Require Import List String Bool Arith Lia.
Import ListNotations.
Require Import MV.Builtins.Frames.
Local Open Scope string_scope.

Section Find.
  Variable name : string.
  Variable scope : nat.

  Lemma find_from_spec : forall inner stack i res k,
    find_from name scope inner stack i res = Some k ->
    (res = Some k /\ forall f, In f stack -> inner = false -> holds name scope f = false)
    \/ (i <= k /\ exists f, nth_error stack (k - i) = Some f /\ holds name scope f = true
        /\ (inner = true -> forall j g, j < k - i -> nth_error stack j = Some g -> holds name scope g = false)
        /\ (inner = false -> forall j g, k - i < j -> nth_error stack j = Some g -> holds name scope g = false)).
  Proof.
    intros inner stack; induction stack as [|f rest IH]; intros i res k H; simpl in H.
    - left; split; [exact H | intros f []].
    - destruct (holds name scope f) eqn:Hf.
      + destruct inner.
        * injection H as <-. right. split; [lia|]. exists f. replace (i - i) with 0 by lia.
          repeat split; auto; try discriminate. intros j g Hj; lia.
        * apply IH in H. destruct H as [[E A]|(Hle & g & Hn & Hg & _ & Hout)].
          -- injection E as <-. right. split; [lia|]. exists f. replace (i - i) with 0 by lia.
             repeat split; auto; try discriminate.
             intros _ j g Hj Hn. destruct j; [lia|]. simpl in Hn. apply A; auto. eapply nth_error_In; eauto.
          -- right. split; [lia|]. exists g. replace (k - i) with (S (k - S i)) by lia.
             repeat split; auto; try discriminate.
             intros _ j h Hj Hn'. destruct j; [lia|]. simpl in Hn'. apply (Hout eq_refl j h); auto; lia.
      + apply IH in H. destruct H as [[E A]|(Hle & g & Hn & Hg & Hin & Hout)].
        * left. split; auto. intros h [<-|Hh] Hi; auto.
        * right. split; [lia|]. exists g. replace (k - i) with (S (k - S i)) by lia.
          repeat split; auto.
          -- intros Hi j h Hj Hn'. destruct j; simpl in Hn'; [injection Hn' as <-; exact Hf|].
             apply (Hin Hi j h); auto; lia.
          -- intros Hi j h Hj Hn'. destruct j; [lia|]. simpl in Hn'. apply (Hout Hi j h); auto; lia.
  Qed.

  (* the frame returned holds the scope object; innermost search: no nearer frame does;
     outermost search: no farther frame does *)
  Theorem find_frame_spec : forall inner stack k,
    find_frame name scope inner stack = Some k ->
    exists f, nth_error stack k = Some f /\ holds name scope f = true
      /\ (inner = true -> forall j g, j < k -> nth_error stack j = Some g -> holds name scope g = false)
      /\ (inner = false -> forall j g, k < j -> nth_error stack j = Some g -> holds name scope g = false).
  Proof.
    intros inner stack k H. apply find_from_spec in H.
    destruct H as [[E _]|(_ & f & Hn & Hf & Hin & Hout)]; [discriminate|].
    replace (k - 0) with k in * by lia. exists f; auto.
  Qed.

  Lemma find_from_some : forall inner stack i k, find_from name scope inner stack i (Some k) <> None.
  Proof.
    intros inner stack; induction stack as [|f rest IH]; intros i k; simpl; [discriminate|].
    destruct (holds name scope f); [destruct inner; [discriminate|apply IH]|apply IH].
  Qed.

  Lemma find_from_none : forall inner stack i,
    find_from name scope inner stack i None = None -> forall f, In f stack -> holds name scope f = false.
  Proof.
    intros inner stack; induction stack as [|f rest IH]; intros i H g Hg; [destruct Hg|].
    simpl in H. destruct (holds name scope f) eqn:Hf.
    - destruct inner; [discriminate|]. exfalso. exact (find_from_some _ _ _ _ H).
    - destruct Hg as [<-|Hg]; eauto.
  Qed.

  (* the search fails (AssertionError) only if no frame holds the scope object *)
  Theorem find_frame_total : forall inner stack f,
    In f stack -> holds name scope f = true -> find_frame name scope inner stack <> None.
  Proof.
    intros inner stack f I Hf E. apply (find_from_none inner stack 0 E) in I. congruence.
  Qed.

  Definition none_hold (l : list frame) : Prop := forall f, In f l -> holds name scope f = false.

  Lemma find_from_skip : forall inner pre rest i res, none_hold pre ->
    find_from name scope inner (pre ++ rest) i res = find_from name scope inner rest (i + List.length pre) res.
  Proof.
    intros inner pre; induction pre as [|f pre IH]; intros rest i res N; simpl.
    - f_equal; lia.
    - rewrite (N f (or_introl eq_refl)). rewrite IH by (intros g Hg; apply N; right; exact Hg).
      f_equal; lia.
  Qed.
  Lemma find_from_keep : forall stack i k, none_hold stack ->
    find_from name scope false stack i (Some k) = Some k.
  Proof.
    induction stack as [|f stack IH]; intros i k N; simpl; auto.
    rewrite (N f (or_introl eq_refl)). apply IH. intros g Hg; apply N; right; exact Hg.
  Qed.

  (* the stack of a context builtin called directly in the user function F: malt's own frames
     (which never hold the scope object), then F, then the callers *)
  Theorem innermost_finds_function_frame : forall helpers F outer,
    none_hold helpers -> holds name scope F = true ->
    find_frame name scope true (helpers ++ F :: outer) = Some (List.length helpers).
  Proof.
    intros helpers F outer N HF. unfold find_frame. rewrite find_from_skip by exact N.
    simpl. rewrite HF. reflexivity.
  Qed.

  (* zero-argument super: whatever frames between the call and the user function F hold the scope
     object (generated body functions of loops and branches do), the outermost search returns F
     as long as no caller of F holds it *)
  Lemma find_from_outermost : forall inner_frames F outer i res,
    holds name scope F = true -> none_hold outer ->
    find_from name scope false (inner_frames ++ F :: outer) i res = Some (i + List.length inner_frames).
  Proof.
    induction inner_frames as [|f l IH]; intros F outer i res HF N; simpl.
    - rewrite HF. rewrite find_from_keep by exact N. f_equal; lia.
    - destruct (holds name scope f); rewrite IH by assumption; f_equal; lia.
  Qed.
  Theorem outermost_finds_function_frame : forall inner_frames F outer,
    holds name scope F = true -> none_hold outer ->
    find_frame name scope false (inner_frames ++ F :: outer) = Some (List.length inner_frames).
  Proof. intros; unfold find_frame. rewrite find_from_outermost by assumption. reflexivity. Qed.
End Find.
