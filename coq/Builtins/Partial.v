(* C14: a builtin reached through functools.partial.

   (S) Python's rule for a partial object binding positionals pargs and keywords pkws, called with
   positionals args and keywords kws: func is called with
   pargs ++ args and {**pkws, **kws} -- bound positionals first, call-site keywords win
   (`partial_spec`; validated against CPython's functools.partial on every run).
   (H/G) the functools.partial branch of api.converted_call builds the keyword dict from layers
   applied one after the other with dict-update semantics and concatenates the positionals in a
   given order; which layers, in which order, is generated from the source
   (partial_kw_layers_gen / partial_arg_order_gen in Generated/C14_gen.v).
   No proofs in this file. *)
From Coq Require Import List String Bool Arith.
Import ListNotations.
Require Import MV.Builtins.Binding.
Local Open Scope string_scope.

Inductive layer : Set := LPartial | LCall.
Definition layer_beq (a b : layer) : bool :=
  match a, b with LPartial, LPartial | LCall, LCall => true | _, _ => false end.

Section Merge.
  Context {A : Type}.
  (* d[k] = v on an insertion-ordered dict *)
  Fixpoint dset (k : string) (v : A) (d : list (string * A)) : list (string * A) :=
    match d with
    | [] => [(k, v)]
    | (x, w) :: r => if String.eqb k x then (x, v) :: r else (x, w) :: dset k v r
    end.
  (* d.update(n) *)
  Fixpoint dupdate (d n : list (string * A)) : list (string * A) :=
    match n with [] => d | (k, v) :: r => dupdate (dset k v d) r end.

  Definition sel {B : Type} (p c : B) (l : layer) : B := match l with LPartial => p | LCall => c end.
  Definition merge_kws (layers : list layer) (pkws kws : list (string * A)) : list (string * A) :=
    fold_left (fun acc l => dupdate acc (sel pkws kws l)) layers [].
  Definition merge_args (order : list layer) (pargs args : list A) : list A :=
    flat_map (sel pargs args) order.

  Definition partial_spec (pargs : list A) (pkws : list (string * A)) (args : list A) (kws : list (string * A))
    : list A * list (string * A) := ((pargs ++ args)%list, dupdate pkws kws).
End Merge.

(* correspondence: index, partial's args/keywords, call-site args/keywords, what CPython's partial
   passed to the function, what converted_call passed to it *)
Definition pcase : Set :=
  (nat * list nat * list (string * nat) * list nat * list (string * nat)
   * (list nat * list (string * nat)) * (list nat * list (string * nat)))%type.
Definition akbeq (a b : list nat * list (string * nat)) : bool :=
  (fix lb (x y : list nat) := match x, y with [], [] => true | p :: x', q :: y' => Nat.eqb p q && lb x' y' | _, _ => false end)
    (fst a) (fst b)
  && (fix kb (x y : list (string * nat)) := match x, y with
        | [], [] => true
        | (k, p) :: x', (k', q) :: y' => String.eqb k k' && Nat.eqb p q && kb x' y'
        | _, _ => false end) (snd a) (snd b).
Definition check_pcase (kwl argl : list layer) (c : pcase) : bool :=
  match c with
  | (_, pa, pk, ca, ck, py, impl) =>
    akbeq (partial_spec pa pk ca ck) py && akbeq (merge_args argl pa ca, merge_kws kwl pk ck) impl
  end.
Definition failing_p (kwl argl : list layer) (cs : list pcase) : list nat :=
  map (fun c => match c with (n, _, _, _, _, _, _) => n end) (filter (fun c => negb (check_pcase kwl argl c)) cs).
