(* C14: boolean checkers evaluated by vm_compute.
   * `good_b` / `conforms`: the forwarding property decided on symbolic calls
     (argument values are tokens: natural numbers whose residue mod 3 is their
     truth value and whose quotient selects a class for the type registries);
     `conforms` partitions the supported builtins into those for which the
     universally quantified theorem is proved (Properties/C14) and those with a
     refuting call shape.
   * `check_case` / `failing`: correspondence of the model with the real
     overloads on cases written by tools/props/c14.py.
   No proofs in this file. *)
From Coq Require Import List String Bool Arith.
Import ListNotations.
Require Import MV.Builtins.Binding MV.Builtins.Overload MV.Builtins.DocSigs.
Local Open Scope string_scope.

Definition ttruth (n : nat) : option bool :=
  match n mod 3 with 0 => Some false | 1 => Some true | _ => None end.

Fixpoint lbeq {B : Type} (f : B -> B -> bool) (a b : list B) : bool :=
  match a, b with
  | [], [] => true
  | x :: a', y :: b' => f x y && lbeq f a' b'
  | _, _ => false
  end.
Definition const_beq (a b : const) : bool :=
  match a, b with
  | CInt0, CInt0 | CTrue, CTrue | CFalse, CFalse | CNone, CNone | CUnspec, CUnspec => true
  | CStr s, CStr t => String.eqb s t
  | _, _ => false
  end.
Definition val_beq (a b : val nat) : bool :=
  match a, b with
  | VV x, VV y => Nat.eqb x y
  | VC x, VC y => const_beq x y
  | _, _ => false
  end.
Definition kv_beq (a b : string * val nat) : bool := String.eqb (fst a) (fst b) && val_beq (snd a) (snd b).
Definition exc_beq (a b : exc) : bool :=
  match a, b with ETypeError, ETypeError | EValueError, EValueError => true | _, _ => false end.
Definition res_beq (a b : result nat) : bool :=
  match a, b with
  | RCall n pa ka r, RCall n' pa' ka' r' =>
    String.eqb n n' && lbeq val_beq pa pa' && lbeq kv_beq ka ka' && Bool.eqb r r'
  | ROverride n o pa ka, ROverride n' o' pa' ka' =>
    String.eqb n n' && Nat.eqb o o' && lbeq val_beq pa pa' && lbeq kv_beq ka ka'
  | RExc x, RExc y => exc_beq x y
  | RTruthExc v, RTruthExc w => Nat.eqb v w
  | RStuck, RStuck => true
  | _, _ => false
  end.
Definition optb_beq (a b : option bool) : bool :=
  match a, b with Some x, Some y => Bool.eqb x y | None, None => true | _, _ => false end.
Definition nval_beq (a b : @nval nat) : bool :=
  match a, b with
  | NV x, NV y => Nat.eqb x y
  | NC x, NC y => const_beq x y
  | NAbsent, NAbsent => true
  | NTruth x, NTruth y => optb_beq x y
  | _, _ => false
  end.
Definition norm_beq (a b : list (string * @nval nat) * list (val nat) * list (string * val nat)) : bool :=
  match a, b with
  | (l, s, k), (l', s', k') =>
    lbeq (fun p q => String.eqb (fst p) (fst q) && nval_beq (snd p) (snd q)) l l'
    && lbeq val_beq s s' && lbeq kv_beq k k'
  end.

(* the forwarding property on one call, decided (registries hold nothing) *)
Definition good_b (T : table) (b : string) (d : docsig) (args : list nat) (kws : list (string * nat)) : bool :=
  match bind_doc d (lift_args args) (lift_kws kws) with
  | None => true
  | Some bnd =>
    let r := run_overload ttruth None T b (lift_args args) (lift_kws kws) in
    match truth_exc ttruth d (bound bnd) with
    | Some v => res_beq r (RTruthExc v)
    | None =>
      match r with
      | RCall b' pa ka ret =>
        String.eqb b' b && Bool.eqb ret (dret d)
        && match bind_doc d pa ka with
           | Some bnd' => norm_beq (norm ttruth d bnd') (norm ttruth d bnd)
           | None => false
           end
      | _ => false
      end
    end
  end.

(* keyword parts: every sublist of the documented keyword names, truth-tested
   parameters with each truth value; ids from 100 *)
Fixpoint kw_choices (truth : list string) (names : list string) (id : nat) : list (list (string * nat)) :=
  match names with
  | [] => [[]]
  | n :: r =>
    let rest := kw_choices truth r (id + 3) in
    let toks := if mem n truth then [3 * id; 3 * id + 1; 3 * id + 2] else [3 * id + 1] in
    rest ++ flat_map (fun t => map (fun l => (n, t) :: l) rest) toks
  end.
Definition pos_tokens (n : nat) : list nat := map (fun i => 3 * i + 1) (seq 0 n).
Definition shapes (d : docsig) : list (list nat * list (string * nat)) :=
  flat_map (fun n => map (fun k => (pos_tokens n, k)) (kw_choices (dtruth d) (kw_names (dsig d)) 100))
           (seq 0 (npos (dsig d) + 3)).

Definition bad_shapes (T : table) (b : string) (d : docsig) : list (list nat * list (string * nat)) :=
  filter (fun sh => negb (good_b T b d (fst sh) (snd sh))) (shapes d).
Definition conforms (T : table) (b : string) : bool :=
  match doc_of b with
  | None => false
  | Some d => match bad_shapes T b d with [] => true | _ => false end
  end.
Definition nonconforming (T : table) : list (string * list (list nat * list (string * nat))) :=
  flat_map (fun b => match doc_of b with
                     | None => [(b, [])]
                     | Some d => match bad_shapes T b d with [] => [] | l => [(b, l)] end
                     end) (supported T).

(* ---- correspondence with the implementation ---- *)
(* registries of a case: (registry name, class, override id); the class of token n is (n / 3) mod 4 *)
Definition regspec := list (string * nat * nat).
Fixpoint reg_of (s : regspec) (name : string) (v : nat) : option nat :=
  match s with
  | [] => None
  | (n, c, o) :: r => if String.eqb n name && Nat.eqb c ((v / 3) mod 4) then Some o else reg_of r name v
  end.
(* index, builtin, positional tokens, keyword tokens, registries, observed behaviour of the real overload *)
Definition case : Type := (nat * string * list nat * list (string * nat) * regspec * result nat)%type.
Definition check_case (T : table) (c : case) : bool :=
  match c with
  | (_, b, args, kws, rs, expected) =>
    res_beq (run_overload ttruth (Some (reg_of rs)) T b (lift_args args) (lift_kws kws)) expected
  end.
Definition case_index (c : case) : nat := match c with (n, _, _, _, _, _) => n end.
Definition failing (T : table) (cs : list case) : list nat :=
  map case_index (filter (fun c => negb (check_case T c)) cs).

(* validation of `bind` against CPython: signature, call, does CPython accept, and if so the
   binding it makes (parameter -> token or None for default; *args; **kwargs) *)
Definition bcase : Type :=
  (nat * sig * list nat * list (string * nat) * option (list (string * option nat) * list nat * list (string * nat)))%type.
Definition bound_beq (a : list (string * bval nat)) (b : list (string * option nat)) : bool :=
  lbeq (fun p q => String.eqb (fst p) (fst q)) a a
  && (fix go (a : list (string * bval nat)) (b : list (string * option nat)) : bool :=
        match a, b with
        | [], [] => true
        | (n, BArg v) :: a', (m, Some w) :: b' => String.eqb n m && Nat.eqb v w && go a' b'
        | (n, BConst _) :: a', (m, None) :: b' => String.eqb n m && go a' b'
        | _, _ => false
        end) a b.
Definition check_bcase (c : bcase) : bool :=
  match c with
  | (_, s, args, kws, expected) =>
    match bind s args kws, expected with
    | None, None => true
    | Some b, Some (eb, es, ek) =>
      bound_beq (bound b) eb && lbeq Nat.eqb (star b) es
      && lbeq (fun p q => String.eqb (fst p) (fst q) && Nat.eqb (snd p) (snd q)) (starstar b) ek
    | _, _ => false
    end
  end.
Definition failing_b (cs : list bcase) : list nat :=
  map (fun c => match c with (n, _, _, _, _) => n end) (filter (fun c => negb (check_bcase c)) cs).

(* documented signature vs the real builtin: does the builtin accept this shape (valid values) *)
Definition dcase : Type := (nat * string * list nat * list (string * nat) * bool)%type.
Definition check_dcase (c : dcase) : bool :=
  match c with
  | (_, b, args, kws, accepted) =>
    match doc_of b with
    | None => false
    | Some d => Bool.eqb (match bind_doc d args kws with Some _ => true | None => false end) accepted
    end
  end.
Definition failing_d (cs : list dcase) : list nat :=
  map (fun c => match c with (n, _, _, _, _) => n end) (filter (fun c => negb (check_dcase c)) cs).
