(* C14: lemmas about the overload interpreter and the forwarding theorem. *)
From Coq Require Import List String Bool Arith Permutation.
Import ListNotations.
Require Import MV.Builtins.Binding MV.Builtins.Overload MV.Builtins.DocSigs MV.Builtins.BuiltinsCheck.
Local Open Scope string_scope.

(* the keyword part of a call given by "which documented keyword carries which value" *)
Definition canon {V} (names : list string) (kv : string -> option V) : list (string * V) :=
  flat_map (fun k => match kv k with Some v => [(k, v)] | None => [] end) names.

(* The forwarding property on one call (registries given by `reg`). *)
Definition good {V} (truthy : V -> option bool) (reg : option (string -> V -> option nat))
    (T : table) (b : string) (d : docsig) (args : list V) (kws : list (string * V)) : Prop :=
  forall bnd, bind_doc d (lift_args args) (lift_kws kws) = Some bnd ->
    match truth_exc truthy d (bound bnd) with
    | Some v => run_overload truthy reg T b (lift_args args) (lift_kws kws) = RTruthExc v
    | None => exists pa ka bnd',
        run_overload truthy reg T b (lift_args args) (lift_kws kws) = RCall b pa ka (dret d)
        /\ bind_doc d pa ka = Some bnd' /\ norm truthy d bnd' = norm truthy d bnd
    end.

Section Empty.
  Context {V : Type}.
  Variable truthy : V -> option bool.
  Variable r : string -> V -> option nat.
  Hypothesis r_empty : forall n v, r n v = None.
  Variable T : table.

  Lemma reg_lookup_empty : forall n v, reg_lookup r n v = None.
  Proof. intros n [v|c]; simpl; auto. Qed.
  Lemma common_empty : forall n l, common_override r n None l = None.
  Proof. intros n [|x l]; simpl; auto. rewrite reg_lookup_empty. reflexivity. Qed.
  Lemma first_empty : forall n l, first_override r n l = None.
  Proof. intros n l; induction l as [|x l IH]; simpl; auto. rewrite reg_lookup_empty. exact IH. Qed.

  Lemma run_fn_empty : forall fuel f pa ka,
    run_fn truthy (Some r) T fuel f pa ka = run_fn truthy None T fuel f pa ka.
  Proof.
    induction fuel as [|fuel IH]; intros f pa ka; simpl; [reflexivity|].
    destruct (assoc f (fns T)) as [fd|]; [|reflexivity].
    destruct (bind (fsig fd) pa ka) as [bd|]; [|reflexivity].
    generalize (fbody fd). intro b.
    induction b as [c t IHt e IHe|t a|t a|x|rn p a k IHk|rn st h a|rn st h a|kp al x k IHk].
    - destruct (eval_cond truthy _ c) as [[|]| |]; auto.
    - destruct (eval_args _ a) as [[pa' ka']|]; auto. destruct t; auto.
    - destruct (eval_args _ a) as [[pa' ka']|]; auto. destruct t; auto. rewrite IH; reflexivity.
    - reflexivity.
    - destruct (assoc p _) as [[v|l|l]|]; auto. rewrite reg_lookup_empty. exact IHk.
    - destruct (assoc st _) as [[v|l|l]|]; auto. rewrite common_empty.
      destruct (eval_args _ a) as [[pa' ka']|]; auto.
    - destruct (assoc st _) as [[v|l|l]|]; auto. rewrite first_empty.
      destruct (eval_args _ a) as [[pa' ka']|]; auto.
    - destruct (assoc kp _) as [[v|l|l]|]; auto. destruct (forallb _ _); auto.
  Qed.

  Lemma run_overload_empty : forall b pa ka,
    run_overload truthy (Some r) T b pa ka = run_overload truthy None T b pa ka.
  Proof.
    intros; unfold run_overload. destruct (mem b (supported T)); [|reflexivity].
    destruct (assoc b (fmap T)); [|reflexivity]. apply run_fn_empty.
  Qed.

  Lemma good_empty : forall b d args kws,
    good truthy None T b d args kws -> good truthy (Some r) T b d args kws.
  Proof.
    intros b d args kws G bnd H. specialize (G bnd H).
    destruct (truth_exc truthy d (bound bnd)) as [v|].
    - rewrite (run_overload_empty b). exact G.
    - destruct G as (pa & ka & bnd' & G1 & G2 & G3). exists pa, ka, bnd'.
      rewrite (run_overload_empty b). auto.
  Qed.
End Empty.

(* ---- the decision procedure agrees with the proposition (on tokens) ---- *)
Lemma lbeq_refl : forall B (f : B -> B -> bool), (forall x, f x x = true) -> forall l, lbeq f l l = true.
Proof. intros B f H l; induction l; simpl; auto. rewrite H, IHl; reflexivity. Qed.
Lemma const_beq_refl : forall c, const_beq c c = true.
Proof. destruct c; simpl; auto. apply String.eqb_refl. Qed.
Lemma val_beq_refl : forall v, val_beq v v = true.
Proof. destruct v; simpl; [apply Nat.eqb_refl | apply const_beq_refl]. Qed.
Lemma kv_beq_refl : forall v, kv_beq v v = true.
Proof. intros [k v]; unfold kv_beq; simpl. rewrite String.eqb_refl, val_beq_refl; reflexivity. Qed.
Lemma nval_beq_refl : forall v, nval_beq v v = true.
Proof.
  destruct v as [v|c| |[[|]|]]; simpl; auto; [apply Nat.eqb_refl | apply const_beq_refl].
Qed.
Lemma norm_beq_refl : forall x, norm_beq x x = true.
Proof.
  intros [[l s] k]; simpl.
  rewrite (lbeq_refl _ val_beq val_beq_refl), (lbeq_refl _ kv_beq kv_beq_refl), lbeq_refl; auto.
  intros [n v]; simpl. rewrite String.eqb_refl, nval_beq_refl; reflexivity.
Qed.
Lemma res_beq_refl : forall x, res_beq x x = true.
Proof.
  destruct x; simpl; auto.
  - rewrite String.eqb_refl, (lbeq_refl _ val_beq val_beq_refl), (lbeq_refl _ kv_beq kv_beq_refl), Bool.eqb_reflx; auto.
  - rewrite String.eqb_refl, Nat.eqb_refl, (lbeq_refl _ val_beq val_beq_refl), (lbeq_refl _ kv_beq kv_beq_refl); auto.
  - destruct e; reflexivity.
  - apply Nat.eqb_refl.
Qed.

Lemma good_good_b : forall T b d args kws, good ttruth None T b d args kws -> good_b T b d args kws = true.
Proof.
  intros T b d args kws G. unfold good_b.
  destruct (bind_doc d (lift_args args) (lift_kws kws)) as [bnd|] eqn:E; [|reflexivity].
  specialize (G bnd E).
  destruct (truth_exc ttruth d (bound bnd)) as [v|].
  - rewrite G. apply res_beq_refl.
  - destruct G as (pa & ka & bnd' & -> & -> & ->).
    rewrite String.eqb_refl, Bool.eqb_reflx, norm_beq_refl. reflexivity.
Qed.

(* a builtin that does not conform has a call shape, accepted by its documented
   signature, on which the overload does not forward an identical binding *)
Lemma nonconforming_witness : forall T b d, doc_of b = Some d -> conforms T b = false ->
  exists args kws, In (args, kws) (shapes d) /\ ~ good ttruth None T b d args kws.
Proof.
  intros T b d D C. unfold conforms in C. rewrite D in C.
  destruct (bad_shapes T b d) as [|[args kws] l] eqn:E; [discriminate|].
  assert (I : In (args, kws) (bad_shapes T b d)) by (rewrite E; left; reflexivity).
  unfold bad_shapes in I. apply filter_In in I. destruct I as [I N]. simpl in N.
  exists args, kws. split; [exact I|]. intro G. apply good_good_b in G. rewrite G in N. discriminate.
Qed.

(* ---- the order of keyword arguments ---- *)
Lemma mem_In : forall k l, mem k l = true <-> In k l.
Proof.
  intros k l; induction l as [|x l IH]; simpl; [split; [discriminate|tauto]|].
  destruct (String.eqb k x) eqn:E.
  - apply String.eqb_eq in E. subst. tauto.
  - apply String.eqb_neq in E. rewrite IH. split; [tauto|]. intros [H|H]; [congruence|exact H].
Qed.
Lemma mem_perm : forall k l l', Permutation l l' -> mem k l = mem k l'.
Proof.
  intros k l l' P. destruct (mem k l) eqn:A; destruct (mem k l') eqn:B; auto.
  - apply mem_In in A. apply (Permutation_in _ P) in A. apply mem_In in A. congruence.
  - apply mem_In in B. apply (Permutation_in _ (Permutation_sym P)) in B. apply mem_In in B. congruence.
Qed.
Lemma nodup_keys_NoDup : forall l, nodup_keys l = true <-> NoDup l.
Proof.
  induction l as [|k l IH]; simpl; [split; [constructor|reflexivity]|].
  rewrite andb_true_iff, negb_true_iff, IH. split.
  - intros [A B]; constructor; auto. intro I. apply mem_In in I. congruence.
  - intro N; inversion N; subst. split; auto. destruct (mem k l) eqn:E; auto. apply mem_In in E. contradiction.
Qed.
Lemma nodup_keys_perm : forall l l', Permutation l l' -> nodup_keys l = nodup_keys l'.
Proof.
  intros l l' P. destruct (nodup_keys l) eqn:A; destruct (nodup_keys l') eqn:B; auto.
  - apply nodup_keys_NoDup in A. apply (Permutation_NoDup P) in A. apply nodup_keys_NoDup in A. congruence.
  - apply nodup_keys_NoDup in B. apply (Permutation_NoDup (Permutation_sym P)) in B. apply nodup_keys_NoDup in B. congruence.
Qed.
Lemma forallb_perm : forall B (f : B -> bool) l l', Permutation l l' -> forallb f l = forallb f l'.
Proof.
  intros B f l l' P; induction P; simpl; auto.
  - rewrite IHP; reflexivity.
  - destruct (f x), (f y); reflexivity.
  - congruence.
Qed.

Section P.
  Context {A : Type}.
  Lemma lookup_In : forall k (l : list (string * A)) v, NoDup (map fst l) -> In (k, v) l -> lookup k l = Some v.
  Proof.
    intros k l v; induction l as [|[x w] l IH]; simpl; intros N I; [destruct I|].
    inversion N; subst. destruct I as [E|I].
    - injection E as -> ->. rewrite String.eqb_refl. reflexivity.
    - destruct (String.eqb k x) eqn:E; auto. apply String.eqb_eq in E; subst.
      exfalso. apply H1. change x with (fst (x, v)). apply in_map. exact I.
  Qed.
  Lemma lookup_None : forall k (l : list (string * A)), lookup k l = None -> ~ In k (map fst l).
  Proof.
    intros k l; induction l as [|[x w] l IH]; simpl; intros H; [tauto|].
    destruct (String.eqb k x) eqn:E; [discriminate|]. apply String.eqb_neq in E.
    intros [F|F]; [congruence|]. exact (IH H F).
  Qed.
  Lemma lookup_Some_In : forall k (l : list (string * A)) v, lookup k l = Some v -> In (k, v) l.
  Proof.
    intros k l v; induction l as [|[x w] l IH]; simpl; intros H; [discriminate|].
    destruct (String.eqb k x) eqn:E; auto. apply String.eqb_eq in E; subst. injection H as ->. left; reflexivity.
  Qed.
  Lemma lookup_perm : forall k (l l' : list (string * A)), NoDup (map fst l) -> Permutation l l' ->
    lookup k l = lookup k l'.
  Proof.
    intros k l l' N P. assert (N' : NoDup (map fst l')) by (eapply Permutation_NoDup; [apply Permutation_map; exact P|exact N]).
    destruct (lookup k l) as [v|] eqn:E.
    - apply lookup_Some_In in E. apply (Permutation_in _ P) in E. symmetry. apply lookup_In; assumption.
    - destruct (lookup k l') as [v|] eqn:E'; auto. apply lookup_Some_In in E'.
      apply (Permutation_in _ (Permutation_sym P)) in E'. apply lookup_None in E. exfalso. apply E.
      change k with (fst (k, v)). apply in_map. exact E'.
  Qed.
  Lemma bind_params_ext : forall ps i args (kws kws' : list (string * A)),
    (forall k, lookup k kws = lookup k kws') -> bind_params ps i args kws = bind_params ps i args kws'.
  Proof.
    induction ps as [|p ps IH]; intros i args kws kws' H; simpl; auto.
    rewrite (H (pname p)). rewrite (IH _ args kws kws' H). reflexivity.
  Qed.
  Lemma filter_known_nil : forall names (kws : list (string * A)),
    forallb (fun k => mem k names) (map fst kws) = true ->
    filter (fun kv => negb (mem (fst kv) names)) kws = [].
  Proof.
    intros names kws; induction kws as [|[k v] l IH]; simpl; auto.
    intros H. apply andb_prop in H. destruct H as [H1 H2]. rewrite H1. simpl. auto.
  Qed.

  (* a function without **kwargs does not see the order of the keyword arguments *)
  Lemma bind_perm : forall s args (kws kws' : list (string * A)),
    varkw s = None -> Permutation kws kws' -> bind s args kws = bind s args kws'.
  Proof.
    intros s args kws kws' NV P. unfold bind, keys_ok. rewrite NV.
    assert (PK : Permutation (map fst kws) (map fst kws')) by (apply Permutation_map; exact P).
    rewrite <- (nodup_keys_perm _ _ PK), <- (forallb_perm _ _ _ _ PK).
    destruct (nodup_keys (map fst kws)) eqn:N; [|reflexivity].
    destruct (forallb _ (map fst kws)) eqn:F; [|reflexivity].
    simpl. destruct (arity_ok s args); [|reflexivity].
    apply nodup_keys_NoDup in N.
    rewrite (bind_params_ext (params s) 0 args kws kws') by (intro k; apply lookup_perm; assumption).
    destruct (bind_params _ _ _ kws'); [|reflexivity].
    rewrite (filter_known_nil _ kws F).
    rewrite (forallb_perm _ _ _ _ PK) in F. rewrite (filter_known_nil _ kws' F). reflexivity.
  Qed.
  Lemma bind_doc_perm : forall d args (kws kws' : list (string * A)),
    varkw (dsig d) = None -> Permutation kws kws' -> bind_doc d args kws = bind_doc d args kws'.
  Proof. intros; unfold bind_doc. rewrite (bind_perm _ _ kws kws'); auto. Qed.
End P.

Lemma run_overload_perm : forall V truthy reg T b f fd (pa : list (val V)) ka ka',
  assoc b (fmap T) = Some f -> assoc f (fns T) = Some fd -> varkw (fsig fd) = None ->
  Permutation ka ka' ->
  run_overload truthy reg T b pa ka = run_overload truthy reg T b pa ka'
  \/ mem b (supported T) = false.
Proof.
  intros V truthy reg T b f fd pa ka ka' M F NV P. unfold run_overload.
  destruct (mem b (supported T)); [left|right; reflexivity].
  rewrite M. simpl. rewrite F. rewrite (bind_perm _ pa ka ka' NV P). reflexivity.
Qed.

Lemma doc_no_varkw : forall b d, doc_of b = Some d -> varkw (dsig d) = None.
Proof.
  intros b d. unfold doc_of.
  repeat match goal with |- context [if ?c then _ else _] => destruct c end;
    intros H; try discriminate H; injection H as <-; reflexivity.
Qed.

Lemma good_perm : forall V (truthy : V -> option bool) reg T b d f fd args kws kws',
  mem b (supported T) = true -> doc_of b = Some d ->
  assoc b (fmap T) = Some f -> assoc f (fns T) = Some fd -> varkw (fsig fd) = None ->
  Permutation kws kws' ->
  good truthy reg T b d args kws -> good truthy reg T b d args kws'.
Proof.
  intros V truthy reg T b d f fd args kws kws' S D M F NV P G.
  assert (PL : Permutation (lift_kws kws) (lift_kws kws')) by (apply Permutation_map; exact P).
  unfold good in *. intros bnd H.
  rewrite <- (bind_doc_perm d _ _ _ (doc_no_varkw b d D) PL) in H.
  specialize (G bnd H).
  destruct (run_overload_perm V truthy reg T b f fd (lift_args args) _ _ M F NV PL) as [E|E]; [|congruence].
  rewrite <- E. exact G.
Qed.

(* ---- tactics for the per-builtin proofs over the generated table ---- *)
Ltac kvsplit :=
  repeat match goal with
  | |- context [match ?kv ?s with Some _ => _ | None => _ end] => destruct (kv s)
  end.
Ltac tsplit :=
  repeat match goal with
  | |- context [match ?t ?v with Some _ => _ | None => _ end] => destruct (t v) as [[|]|] eqn:?
  end.
Ltac finish :=
  let bnd := fresh "bnd" in let H := fresh "H" in
  intros bnd H; vm_compute in H;
  first [ discriminate H
        | injection H as <-; vm_compute; tsplit;
          first [ reflexivity
                | do 3 eexists; split; [reflexivity|]; split; [vm_compute; reflexivity|];
                  vm_compute; reflexivity ] ].
(* all call shapes of a documented signature with at most 3 positional parameters *)
Ltac shapes_of args :=
  let a0 := fresh "a" in let a1 := fresh "a" in let a2 := fresh "a" in let a3 := fresh "a" in
  destruct args as [|a0 [|a1 [|a2 [|a3 args]]]].
Ltac solve_good :=
  match goal with
  | |- good _ None _ _ _ ?args (canon ?names ?kv) =>
    let n := eval vm_compute in names in change names with n;
    unfold canon, good; cbn [flat_map app];
    shapes_of args; kvsplit; cbn [app]; finish
  end.
(* forall b in the (generated, concrete) list: decide conformance, prove the conforming ones *)
Ltac solve_all I D C :=
  vm_compute in I;
  repeat (destruct I as [<-|I];
          [ vm_compute in D; injection D as <-; vm_compute in C;
            first [ discriminate C | intros; solve_good ] | ]);
  contradiction I.
