(* C14: the forwarding theorem over the table generated from the current source (re-proved by
   `make` whenever Generated/C14_gen.v changes): symbolic case analysis on the call shape of each
   conforming builtin; argument values, number of *args and truth values stay universally
   quantified. *)
From Coq Require Import List String Bool.
Import ListNotations.
Require Import MV.Builtins.Binding MV.Builtins.Overload MV.Builtins.DocSigs MV.Builtins.BuiltinsCheck
  MV.Builtins.OverloadProofs MV.Generated.C14_gen.

Lemma forwards_conforming :
  forall b d, In b (supported table_gen) -> doc_of b = Some d -> conforms table_gen b = true ->
  forall (V : Type) (truthy : V -> option bool) (args : list V) (kv : string -> option V),
    good truthy None table_gen b d args (canon (kw_names (dsig d)) kv).
Proof.
  intros b d I D C V truthy args kv. revert args kv. solve_all I D C.
Qed.
