(* C14: an implementation that hands out the frame's own mapping (Live) is observationally the
   Python builtin, on every trace; one that hands out a copy is not. *)
From Coq Require Import List String Bool Arith Lia.
Import ListNotations.
Require Import MV.Builtins.Namespaces.
Local Open Scope string_scope.

(* all results handed out so far are the frame's own mapping, no copy exists *)
Definition inv (st : state) : Prop :=
  copies st = [] /\ Forall (fun p => snd p = HOwn) (env st).
Definition abs (st : state) : sstate := mkss (fast st) (own st) (map fst (env st)).

Lemma elookup_inv : forall h e, Forall (fun p : nat * hval => snd p = HOwn) e ->
  elookup h e = if mem_nat h (map fst e) then Some HOwn else None.
Proof.
  induction e as [|[n v] r IH]; intros F; simpl; [reflexivity|].
  inversion F as [|? ? Hv Fr]; subst. simpl in Hv. subst v.
  destruct (Nat.eqb h n); simpl; [reflexivity|]. apply IH; assumption.
Qed.

Lemma refresh_inv : forall kd st, inv st -> inv (refresh kd st).
Proof. intros [] st [C F]; split; simpl; assumption. Qed.
Lemma refresh_abs : forall kd st, abs (refresh kd st) = srefresh kd (abs st).
Proof. intros [] st; reflexivity. Qed.

Lemma resolve_live : forall kd r st, inv st ->
  match resolve Live kd r st with
  | None => sresolve kd r (abs st) = None
  | Some (st1, hv) => hv = HOwn /\ inv st1 /\ sresolve kd r (abs st) = Some (abs st1)
  end.
Proof.
  intros kd [h|] st I.
  - destruct I as [C F]. simpl. rewrite (elookup_inv h _ F).
    destruct (mem_nat h (map fst (env st))); [|reflexivity].
    split; [reflexivity|]. split; [split; assumption|reflexivity].
  - simpl. split; [reflexivity|]. split; [apply refresh_inv; assumption|].
    rewrite refresh_abs. reflexivity.
Qed.

Lemma step_live : forall kd o st, inv st ->
  inv (fst (step Live kd o st)) /\
  sstep kd o (abs st) = (abs (fst (step Live kd o st)), snd (step Live kd o st)).
Proof.
  intros kd o st I. destruct o as [h|r k v|r k|r k|k|k v|r1 r2|r]; simpl.
  - pose proof (refresh_inv kd st I) as [C F]. split.
    + split; simpl; [assumption|]. constructor; [reflexivity|assumption].
    + rewrite <- refresh_abs. reflexivity.
  - pose proof (resolve_live kd r st I) as R. destruct (resolve Live kd r st) as [[st1 hv]|].
    + destruct R as (-> & [C F] & ->). simpl. split; [split; assumption|reflexivity].
    + rewrite R. split; [assumption|reflexivity].
  - pose proof (resolve_live kd r st I) as R. destruct (resolve Live kd r st) as [[st1 hv]|].
    + destruct R as (-> & [C F] & ->). simpl. split; [split; assumption|reflexivity].
    + rewrite R. split; [assumption|reflexivity].
  - pose proof (resolve_live kd r st I) as R. destruct (resolve Live kd r st) as [[st1 hv]|].
    + destruct R as (-> & I1 & ->). simpl. split; [assumption|reflexivity].
    + rewrite R. split; [assumption|reflexivity].
  - split; [assumption|]. destruct kd; reflexivity.
  - destruct I as [C F]. destruct kd; simpl; (split; [split; assumption|reflexivity]).
  - pose proof (resolve_live kd r1 st I) as R1. destruct (resolve Live kd r1 st) as [[st1 v1]|].
    + destruct R1 as (-> & I1 & ->).
      pose proof (resolve_live kd r2 st1 I1) as R2. destruct (resolve Live kd r2 st1) as [[st2 v2]|].
      * destruct R2 as (-> & I2 & ->). simpl. split; [assumption|reflexivity].
      * rewrite R2. split; [assumption|reflexivity].
    + rewrite R1. split; [assumption|reflexivity].
  - pose proof (resolve_live kd r st I) as R. destruct (resolve Live kd r st) as [[st1 hv]|].
    + destruct R as (-> & I1 & ->). simpl. split; [assumption|reflexivity].
    + rewrite R. split; [assumption|reflexivity].
Qed.

Lemma run_from_live : forall kd ops st, inv st ->
  run_from Live kd ops st = spec_from kd ops (abs st).
Proof.
  intros kd ops; induction ops as [|o r IH]; intros st I; simpl; [reflexivity|].
  destruct (step_live kd o st I) as [I1 E]. rewrite E.
  destruct (step Live kd o st) as [st1 b]. simpl in *. rewrite IH by assumption. reflexivity.
Qed.

Theorem live_is_the_builtin : forall kd f o ops, run Live kd f o ops = spec_run kd f o ops.
Proof.
  intros. unfold run, spec_run. rewrite run_from_live; [reflexivity|].
  split; [reflexivity|constructor].
Qed.

Lemma ns_lookup_in : forall b T ho, ns_lookup b T = Some ho -> In (b, ho) T.
Proof.
  induction T as [|[n h] r IH]; intros ho H; simpl in H; [discriminate|].
  destruct (String.eqb b n) eqn:E.
  - apply String.eqb_eq in E. subst. injection H as <-. left; reflexivity.
  - right. apply IH; assumption.
Qed.

(* table form: whatever the generated table says, if it passes ns_table_ok then both builtins are
   listed and every listed one behaves like the Python builtin on every trace *)
Theorem table_ok_is_the_builtin : forall T, ns_table_ok T = true ->
  (exists h, ns_lookup "globals" T = Some h) /\ (exists h, ns_lookup "locals" T = Some h) /\
  forall b ho, ns_lookup b T = Some ho ->
  forall f o ops, run ho (kind_of b) f o ops = spec_run (kind_of b) f o ops.
Proof.
  intros T H. unfold ns_table_ok in H. apply andb_prop in H as [H HL]. apply andb_prop in H as [HA HG].
  split; [destruct (ns_lookup "globals" T) as [h|]; [exists h; reflexivity|discriminate]|].
  split; [destruct (ns_lookup "locals" T) as [h|]; [exists h; reflexivity|discriminate]|].
  intros b ho Hb f o ops. apply ns_lookup_in in Hb.
  rewrite forallb_forall in HA. specialize (HA _ Hb). simpl in HA.
  destruct ho; [apply live_is_the_builtin|discriminate].
Qed.

(* a copy is observably not the builtin: write through the result, read the name back;
   compare two results; rely on the refresh of an earlier locals() result *)
Lemma snapshot_differs :
  run Snapshot KGlobals [] [("K", 1)] [OSet HFresh "K" 7; OGetName "K"] <> spec_run KGlobals [] [("K", 1)] [OSet HFresh "K" 7; OGetName "K"]
  /\ run Snapshot KGlobals [] [] [OSame HFresh HFresh] <> spec_run KGlobals [] [] [OSame HFresh HFresh]
  /\ run Snapshot KLocals [("a", 1)] [] [OCall 0; OSetName "a" 2; OCall 1; OGet (HVar 0) "a"]
     <> spec_run KLocals [("a", 1)] [] [OCall 0; OSetName "a" 2; OCall 1; OGet (HVar 0) "a"].
Proof. repeat split; vm_compute; discriminate. Qed.
