(* C14 (H): the overloads of malt/operators/py_builtins.py as data + interpreter.

   The translator (tools/translate/c14_builtins.py) turns every overload
   (`abs_`, `int_`, ...) and every `_py_*` helper into a `fndef`: its `def`
   signature and a body in the small language below, which is what those
   functions are made of: an optional registry-dispatch prologue, a chain of
   `if <param> is [not] UNSPECIFIED` / `if <param>` tests and one forwarding
   call per path.  `run` executes an overload on a call and answers which call
   of which builtin is finally performed (or which exception escapes).
   No proofs in this file. *)
From Coq Require Import List String Bool Arith.
Import ListNotations.
Require Import MV.Builtins.Binding.
Local Open Scope string_scope.

(* run-time values: the caller's argument values, or constants of the code *)
Inductive val (V : Type) : Type := VV (v : V) | VC (c : const).
Arguments VV {V}. Arguments VC {V}.

Inductive aexp : Set := AParam (n : string) | AConst (c : const).
Inductive carg : Set :=
  | CPos (e : aexp) | CStar (n : string) | CKw (k : string) (e : aexp) | CStarStar (n : string).
Inductive target : Set := TBuiltin (n : string) | THelper (n : string).
Inductive cond : Set :=
  | CIsUnspec (n : string) | CTruthy (n : string)
  | CNot (c : cond) | CAnd (a b : cond) | COr (a b : cond).
Inductive exc : Set := ETypeError | EValueError.
Inductive body : Set :=
  | BIf (c : cond) (t e : body)
  | BReturn (t : target) (a : list carg)      (* return t(a) *)
  | BCallNone (t : target) (a : list carg)    (* t(a)  -- and fall off the end *)
  | BRaise (e : exc)
  (* o = registry_lookup(reg, p); if o is not None: return o(a);  k *)
  | BDispatch (reg p : string) (a : list carg) (k : body)
  (* fn = helper; for x in star: o = registry_lookup(reg, x);
       if o is None or (fn != helper and o != fn): fn = helper; break
       fn = o
     return fn(a) *)
  | BCommon (reg star helper : string) (a : list carg)
  (* fn = helper; for x in star: o = registry_lookup(reg, x);
       if o is not None: fn = o; break
     return fn(a) *)
  | BFirst (reg star helper : string) (a : list carg)
  (* if set(kw.keys()) - set(allowed): raise e;  k *)
  | BKwAllowed (kwparam : string) (allowed : list string) (e : exc) (k : body).
Record fndef : Set := mkfn { fsig : sig; fbody : body }.

(* the generated tables *)
Record table : Set := mktable
  { supported : list string;                  (* SUPPORTED_BUILTINS, by __name__ *)
    fmap : list (string * string);            (* BUILTIN_FUNCTIONS_MAP: key -> overload function name *)
    fns : list (string * fndef) }.            (* every overload and helper by function name *)

Fixpoint assoc {B : Type} (k : string) (l : list (string * B)) : option B :=
  match l with [] => None | (x, v) :: r => if String.eqb k x then Some v else assoc k r end.

Section Run.
  Context {V : Type}.
  Variable truthy : V -> option bool.            (* None: bool(v) raises *)
  (* the type registries: None = the syntactic prologues are skipped (what
     `registries_empty` proves equal to registries that hold nothing) *)
  Variable reg : option (string -> V -> option nat).

  Inductive slot : Type :=
    | SOne (v : val V) | SMany (l : list (val V)) | SDict (l : list (string * val V)).
  Definition env := list (string * slot).

  Inductive result : Type :=
    | RCall (b : string) (args : list (val V)) (kws : list (string * val V)) (returns_value : bool)
    | ROverride (reg : string) (id : nat) (args : list (val V)) (kws : list (string * val V))
    | RExc (e : exc)
    | RTruthExc (v : V)
    | RStuck.

  Definition const_truth (c : const) : bool :=
    match c with
    | CTrue | CUnspec => true
    | CInt0 | CFalse | CNone => false
    | CStr s => negb (String.eqb s "")
    end.

  Inductive cres : Type := CB (b : bool) | CRaise (v : V) | CStuck.
  Fixpoint eval_cond (e : env) (c : cond) : cres :=
    match c with
    | CIsUnspec n =>
      match assoc n e with
      | Some (SOne (VC CUnspec)) => CB true
      | Some (SOne _) => CB false
      | _ => CStuck
      end
    | CTruthy n =>
      match assoc n e with
      | Some (SOne (VC c)) => CB (const_truth c)
      | Some (SOne (VV v)) => match truthy v with Some b => CB b | None => CRaise v end
      | _ => CStuck
      end
    | CNot a => match eval_cond e a with CB b => CB (negb b) | r => r end
    | CAnd a b => match eval_cond e a with CB true => eval_cond e b | r => r end
    | COr a b => match eval_cond e a with CB false => eval_cond e b | r => r end
    end.

  (* l ++ r (written so that forwarding `*args` alone yields `args` itself) *)
  Definition app' {B : Type} (l r : list B) : list B := match r with [] => l | _ => (l ++ r)%list end.

  Definition eval_aexp (e : env) (a : aexp) : option (val V) :=
    match a with
    | AConst c => Some (VC c)
    | AParam n => match assoc n e with Some (SOne v) => Some v | _ => None end
    end.
  Fixpoint eval_args (e : env) (l : list carg) : option (list (val V) * list (string * val V)) :=
    match l with
    | [] => Some ([], [])
    | a :: r =>
      match eval_args e r with
      | None => None
      | Some (ps, ks) =>
        match a with
        | CPos x => match eval_aexp e x with Some v => Some (v :: ps, ks) | None => None end
        | CStar n => match assoc n e with Some (SMany l) => Some (app' l ps, ks) | _ => None end
        | CKw k x => match eval_aexp e x with Some v => Some (ps, (k, v) :: ks) | None => None end
        | CStarStar n => match assoc n e with Some (SDict d) => Some (ps, app' d ks) | _ => None end
        end
      end
    end.

  Definition slot_of (b : bval (val V)) : slot :=
    match b with BArg a => SOne a | BConst c => SOne (VC c) | BAbsent => SOne (VC CNone) end.
  Definition env_of (s : sig) (b : binding (val V)) : env :=
    (map (fun nb => (fst nb, slot_of (snd nb))) (bound b)
     ++ match varpos s with Some n => [(n, SMany (star b))] | None => [] end
     ++ match varkw s with Some n => [(n, SDict (starstar b))] | None => [] end)%list.

  Definition reg_lookup (r : string -> V -> option nat) (name : string) (v : val V) : option nat :=
    match v with VV x => r name x | VC _ => None end.

  (* the zip_/map_ loop: the override shared by all elements, else None *)
  Fixpoint common_override (r : string -> V -> option nat) (name : string) (cur : option nat)
           (l : list (val V)) : option nat :=
    match l with
    | [] => cur
    | x :: l' =>
      match reg_lookup r name x with
      | None => None
      | Some o =>
        match cur with
        | Some c => if Nat.eqb c o then common_override r name (Some o) l' else None
        | None => common_override r name (Some o) l'
        end
      end
    end.
  (* the print_ loop: the first override found *)
  Fixpoint first_override (r : string -> V -> option nat) (name : string) (l : list (val V)) : option nat :=
    match l with
    | [] => None
    | x :: l' => match reg_lookup r name x with Some o => Some o | None => first_override r name l' end
    end.

  Definition do_lookup (name : string) (v : val V) : option nat :=
    match reg with None => None | Some r => reg_lookup r name v end.
  Definition do_common (name : string) (l : list (val V)) : option nat :=
    match reg with None => None | Some r => common_override r name None l end.
  Definition do_first (name : string) (l : list (val V)) : option nat :=
    match reg with None => None | Some r => first_override r name l end.

  Definition drop_value (r : result) : result :=
    match r with RCall b a k _ => RCall b a k false | x => x end.

  Variable T : table.

  Fixpoint run_fn (fuel : nat) (fname : string) (pa : list (val V)) (ka : list (string * val V)) : result :=
    match fuel with
    | 0 => RStuck
    | S fuel' =>
      match assoc fname (fns T) with
      | None => RStuck
      | Some fd =>
        match bind (fsig fd) pa ka with
        | None => RExc ETypeError
        | Some bd =>
          let e := env_of (fsig fd) bd in
          let call (t : target) (a : list carg) : result :=
            match eval_args e a with
            | None => RStuck
            | Some (pa', ka') =>
              match t with
              | TBuiltin n => RCall n pa' ka' true
              | THelper h => run_fn fuel' h pa' ka'
              end
            end in
          let override (rn : string) (o : nat) (a : list carg) : result :=
            match eval_args e a with
            | None => RStuck
            | Some (pa', ka') => ROverride rn o pa' ka'
            end in
          (fix exec (b : body) : result :=
             match b with
             | BIf c t f =>
               match eval_cond e c with
               | CB true => exec t
               | CB false => exec f
               | CRaise v => RTruthExc v
               | CStuck => RStuck
               end
             | BReturn t a => call t a
             | BCallNone t a => drop_value (call t a)
             | BRaise x => RExc x
             | BDispatch rn p a k =>
               match assoc p e with
               | Some (SOne v) =>
                 match do_lookup rn v with Some o => override rn o a | None => exec k end
               | _ => RStuck
               end
             | BCommon rn st h a =>
               match assoc st e with
               | Some (SMany l) =>
                 match do_common rn l with
                 | Some o => override rn o a
                 | None => call (THelper h) a
                 end
               | _ => RStuck
               end
             | BFirst rn st h a =>
               match assoc st e with
               | Some (SMany l) =>
                 match do_first rn l with
                 | Some o => override rn o a
                 | None => call (THelper h) a
                 end
               | _ => RStuck
               end
             | BKwAllowed kp allowed x k =>
               match assoc kp e with
               | Some (SDict d) =>
                 if forallb (fun kn => mem kn allowed) (map fst d) then exec k else RExc x
               | _ => RStuck
               end
             end) (fbody fd)
        end
      end
    end.

  (* overload_of(f) applied to the call, for a supported builtin named b *)
  Definition run_overload (b : string) (pa : list (val V)) (ka : list (string * val V)) : result :=
    if mem b (supported T) then
      match assoc b (fmap T) with
      | Some fname => run_fn 4 fname pa ka
      | None => RStuck          (* KeyError *)
      end
    else RCall b pa ka true.    (* overload_of returns f itself *)
End Run.
Arguments result : clear implicits.
Arguments RExc {V}. Arguments RStuck {V}.

(* comparison of bindings of the documented signature *)
Section Norm.
  Context {V : Type}.
  Variable truthy : V -> option bool.
  Inductive nval : Type :=
    | NV (v : V) | NC (c : const) | NAbsent | NTruth (b : option bool).
  Definition norm_val (truth : bool) (b : bval (val V)) : nval :=
    match b with
    | BAbsent => NAbsent
    | BConst c => if truth then NTruth (Some (const_truth c)) else NC c
    | BArg (VC c) => if truth then NTruth (Some (const_truth c)) else NC c
    | BArg (VV v) => if truth then NTruth (truthy v) else NV v
    end.
  Definition norm (d : docsig) (b : binding (val V))
    : list (string * nval) * list (val V) * list (string * val V) :=
    (map (fun nb => (fst nb, norm_val (mem (fst nb) (dtruth d)) (snd nb))) (bound b), star b, starstar b).

  (* first truth-tested parameter whose bool() raises *)
  Fixpoint truth_exc (d : docsig) (l : list (string * bval (val V))) : option V :=
    match l with
    | [] => None
    | (n, BArg (VV v)) :: r =>
      if mem n (dtruth d) then match truthy v with None => Some v | Some _ => truth_exc d r end
      else truth_exc d r
    | _ :: r => truth_exc d r
    end.
End Norm.

Definition lift_args {V} (l : list V) : list (val V) := map VV l.
Definition lift_kws {V} (l : list (string * V)) : list (string * val V) :=
  map (fun kv => (fst kv, VV (snd kv))) l.
