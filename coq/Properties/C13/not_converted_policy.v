(* C13: each documented reason (cached as not-to-convert, disabled context, converted artifact /
   do_not_convert wrapper, builtin, unsupported = constructor / lru_cache / wrapt / ..., allow-listed
   and not user-requested, non-recursive mode, native or source-less target) suffices for the target NOT to
   be converted: no conversion is attempted, no warning, the call goes to f itself (or its builtin
   overload) with the same binding.  The decision is remembered exactly when it does not depend on the
   transient state: not for cache hits / disabled context, not for builtins. *)
From Coq Require Import List String Ascii Bool Arith.
Import ListNotations.
Require Import MV.Policy.PolicySyntax MV.Policy.Policy MV.Policy.Spec MV.Generated.C13_gen MV.Policy.PolicyProofsMain.

Theorem not_converted_policy : forall s : situation,
  has_options s = true -> s_partial s = false -> never_converted s = true ->
  match run chain_gen target_gen self_prepend_gen final_call_gen cu_cache_gen cu_call_gen fb_warn_gen fb_final_gen s with
  | OInvoke inv cu warned attempted =>
      attempted = false /\ warned = false /\ is_wconverted (i_who inv) = false /\ same_call s inv = true
      /\ cu = negb (s_in_cache s || s_ctx_disabled s) && (s_artifact s || negb (is_builtin (s_builtin s)))
  | OFrame _ => is_builtin (s_builtin s) = true /\ s_in_cache s || s_ctx_disabled s || s_artifact s = false
  | _ => False
  end.
Proof. exact PolicyProofsMain.not_converted_policy. Qed.
Print Assumptions not_converted_policy.
